//! Connection-level traces: drives the real `GenericConnection` (all roles, both id widths),
//! prints every call with the interface view (descriptor) of each packet, the events and the
//! full state digest, for lock-step replay through the Lean model `MqttVerif.Conn`.
use crate::rng::{hex, unhex};
use mqtt_protocol_core::mqtt;
use mqtt_protocol_core::mqtt::connection::role::{Any, Client, Server};
use crate::csend::RoleX;
use mqtt_protocol_core::mqtt::connection::{GenericEvent, PacketBuildResult, PacketBuilder, TimerKind};
use mqtt_protocol_core::mqtt::packet::{v3_1_1, v5_0, GenericPacket, GenericStorePacket, IsPacketId, Property, Qos};
use mqtt_protocol_core::mqtt::prelude::GenericPacketTrait;
use mqtt_protocol_core::mqtt::result_code::MqttError;
use mqtt_protocol_core::mqtt::{GenericConnection, Version};
use std::io::Write;
use std::panic::{catch_unwind, AssertUnwindSafe};

// ---------------------------------------------------------------------------------------
// ids

pub fn id_to_u64<T: IsPacketId>(t: T) -> u64 {
    t.to_buffer().as_ref().iter().fold(0u64, |a, b| (a << 8) | *b as u64)
}

pub fn id_from_u64<T: IsPacketId>(v: u64) -> T {
    let w = std::mem::size_of::<T>();
    let bytes: Vec<u8> = (0..w).map(|i| (v >> (8 * (w - 1 - i))) as u8).collect();
    T::from_buffer(&bytes)
}

// ---------------------------------------------------------------------------------------
// a tiny independent wire encoder (only used to *make* inputs)

pub fn vbi(mut n: usize) -> Vec<u8> {
    let mut v = vec![];
    loop {
        let mut b = (n % 128) as u8;
        n /= 128;
        if n > 0 {
            b |= 0x80;
        }
        v.push(b);
        if n == 0 {
            break;
        }
    }
    v
}

pub fn mstr(s: &[u8]) -> Vec<u8> {
    let mut v = vec![(s.len() >> 8) as u8, s.len() as u8];
    v.extend_from_slice(s);
    v
}

pub fn frame(fh: u8, body: &[u8]) -> Vec<u8> {
    let mut v = vec![fh];
    v.extend(vbi(body.len()));
    v.extend_from_slice(body);
    v
}

pub fn idb(pw: usize, id: u64) -> Vec<u8> {
    (0..pw).map(|i| (id >> (8 * (pw - 1 - i))) as u8).collect()
}

#[derive(Clone, Debug)]
pub enum P {
    U8(u8, u8),
    U16(u8, u16),
    U32(u8, u32),
    Str(u8, Vec<u8>),
    Pair(Vec<u8>, Vec<u8>),
}

pub fn props(ps: &[P]) -> Vec<u8> {
    let mut b = vec![];
    for p in ps {
        match p {
            P::U8(i, v) => {
                b.push(*i);
                b.push(*v)
            }
            P::U16(i, v) => {
                b.push(*i);
                b.extend(v.to_be_bytes())
            }
            P::U32(i, v) => {
                b.push(*i);
                b.extend(v.to_be_bytes())
            }
            P::Str(i, s) => {
                b.push(*i);
                b.extend(mstr(s))
            }
            P::Pair(k, v) => {
                b.push(38);
                b.extend(mstr(k));
                b.extend(mstr(v))
            }
        }
    }
    let mut r = vbi(b.len());
    r.extend(b);
    r
}

pub fn w_connect(ver: u8, clean: bool, ka: u16, cid: &[u8], ps: &[P]) -> Vec<u8> {
    let mut b = mstr(b"MQTT");
    b.push(ver);
    b.push(if clean { 2 } else { 0 });
    b.extend(ka.to_be_bytes());
    if ver == 5 {
        b.extend(props(ps));
    }
    b.extend(mstr(cid));
    frame(0x10, &b)
}

pub fn w_connack(ver: u8, sp: bool, rc: u8, ps: &[P]) -> Vec<u8> {
    let mut b = vec![sp as u8, rc];
    if ver == 5 {
        b.extend(props(ps));
    }
    frame(0x20, &b)
}

#[allow(clippy::too_many_arguments)]
pub fn w_publish(ver: u8, pw: usize, qos: u8, dup: bool, retain: bool, topic: &[u8], id: u64, ps: &[P], payload: &[u8]) -> Vec<u8> {
    let mut b = mstr(topic);
    if qos > 0 {
        b.extend(idb(pw, id));
    }
    if ver == 5 {
        b.extend(props(ps));
    }
    b.extend_from_slice(payload);
    frame(0x30 | ((dup as u8) << 3) | (qos << 1) | retain as u8, &b)
}

/// PUBACK 4, PUBREC 5, PUBREL 6, PUBCOMP 7
pub fn w_ack(ver: u8, pw: usize, nibble: u8, id: u64, rc: Option<u8>, ps: Option<&[P]>) -> Vec<u8> {
    let mut b = idb(pw, id);
    if ver == 5 {
        if let Some(rc) = rc {
            b.push(rc);
            if let Some(ps) = ps {
                b.extend(props(ps));
            }
        }
    }
    let fl = if nibble == 6 { 2 } else { 0 };
    frame((nibble << 4) | fl, &b)
}

pub fn w_subscribe(ver: u8, pw: usize, id: u64, filters: &[(&[u8], u8)], ps: &[P]) -> Vec<u8> {
    let mut b = idb(pw, id);
    if ver == 5 {
        b.extend(props(ps));
    }
    for (f, o) in filters {
        b.extend(mstr(f));
        b.push(*o);
    }
    frame(0x82, &b)
}

pub fn w_unsubscribe(ver: u8, pw: usize, id: u64, filters: &[&[u8]]) -> Vec<u8> {
    let mut b = idb(pw, id);
    if ver == 5 {
        b.extend(props(&[]));
    }
    for f in filters {
        b.extend(mstr(f));
    }
    frame(0xa2, &b)
}

pub fn w_suback(ver: u8, pw: usize, id: u64, codes: &[u8]) -> Vec<u8> {
    let mut b = idb(pw, id);
    if ver == 5 {
        b.extend(props(&[]));
    }
    b.extend_from_slice(codes);
    frame(0x90, &b)
}

pub fn w_unsuback(ver: u8, pw: usize, id: u64, codes: &[u8]) -> Vec<u8> {
    let mut b = idb(pw, id);
    if ver == 5 {
        b.extend(props(&[]));
        b.extend_from_slice(codes);
    }
    frame(0xb0, &b)
}

pub fn w_simple(fh: u8) -> Vec<u8> {
    frame(fh, &[])
}

pub fn w_disconnect5(rc: Option<u8>, ps: Option<&[P]>) -> Vec<u8> {
    let mut b = vec![];
    if let Some(rc) = rc {
        b.push(rc);
        if let Some(ps) = ps {
            b.extend(props(ps));
        }
    }
    frame(0xe0, &b)
}

pub fn w_auth(rc: Option<u8>, method: Option<&[u8]>) -> Vec<u8> {
    let mut b = vec![];
    if let Some(rc) = rc {
        b.push(rc);
        match method {
            Some(m) => b.extend(props(&[P::Str(21, m.to_vec())])),
            None => b.extend(props(&[])),
        }
    }
    frame(0xf0, &b)
}

// ---------------------------------------------------------------------------------------
// parse dispatcher (the real parsers) and descriptors

/// split a complete frame into (fixed header, body)
pub fn split_frame(bytes: &[u8]) -> Option<(u8, Vec<u8>)> {
    let mut pb = PacketBuilder::new();
    let mut cur = mqtt::common::Cursor::new(bytes);
    match pb.feed(&mut cur) {
        PacketBuildResult::Complete(raw) => Some(((raw.packet_type() << 4) | raw.flags(), raw.data_as_slice().to_vec())),
        _ => None,
    }
}

pub fn parse_frame<T: IsPacketId>(ver: u8, fh: u8, body: &[u8]) -> Result<GenericPacket<T>, MqttError> {
    let t = fh >> 4;
    let fl = fh & 0x0f;
    macro_rules! p {
        ($ty:ty) => {
            <$ty>::parse(body).map(|(p, _)| p.into())
        };
    }
    if ver == 4 {
        match t {
            1 => p!(v3_1_1::Connect),
            2 => p!(v3_1_1::Connack),
            3 => v3_1_1::GenericPublish::<T>::parse(fl, mqtt::Arc::from(body.to_vec().into_boxed_slice())).map(|(p, _)| p.into()),
            4 => p!(v3_1_1::GenericPuback<T>),
            5 => p!(v3_1_1::GenericPubrec<T>),
            6 => p!(v3_1_1::GenericPubrel<T>),
            7 => p!(v3_1_1::GenericPubcomp<T>),
            8 => p!(v3_1_1::GenericSubscribe<T>),
            9 => p!(v3_1_1::GenericSuback<T>),
            10 => p!(v3_1_1::GenericUnsubscribe<T>),
            11 => p!(v3_1_1::GenericUnsuback<T>),
            12 => p!(v3_1_1::Pingreq),
            13 => p!(v3_1_1::Pingresp),
            14 => p!(v3_1_1::Disconnect),
            _ => Err(MqttError::MalformedPacket),
        }
    } else {
        match t {
            1 => p!(v5_0::Connect),
            2 => p!(v5_0::Connack),
            3 => v5_0::GenericPublish::<T>::parse(fl, mqtt::Arc::from(body.to_vec().into_boxed_slice())).map(|(p, _)| p.into()),
            4 => p!(v5_0::GenericPuback<T>),
            5 => p!(v5_0::GenericPubrec<T>),
            6 => p!(v5_0::GenericPubrel<T>),
            7 => p!(v5_0::GenericPubcomp<T>),
            8 => p!(v5_0::GenericSubscribe<T>),
            9 => p!(v5_0::GenericSuback<T>),
            10 => p!(v5_0::GenericUnsubscribe<T>),
            11 => p!(v5_0::GenericUnsuback<T>),
            12 => p!(v5_0::Pingreq),
            13 => p!(v5_0::Pingresp),
            14 => p!(v5_0::Disconnect),
            15 => p!(v5_0::Auth),
            _ => Err(MqttError::MalformedPacket),
        }
    }
}

fn fnv(h: &mut u32, b: &[u8]) {
    for x in b {
        *h ^= *x as u32;
        *h = h.wrapping_mul(16777619);
    }
}

#[derive(Default)]
struct D {
    k: u8,
    v: u8,
    sz: usize,
    pid: Option<u64>,
    q: u8,
    d: bool,
    r: bool,
    t: Vec<u8>,
    a: Option<u16>,
    rc: Option<u8>,
    ka: u16,
    cl: bool,
    sp: bool,
    pr: Vec<(u8, u64)>,
    ol: usize,
    pl: usize,
    x: bool,
    tg: u32,
}

impl D {
    fn show(&self) -> String {
        let o = |v: Option<u64>| v.map(|x| x.to_string()).unwrap_or("-".into());
        let pr = if self.pr.is_empty() {
            "-".to_string()
        } else {
            self.pr.iter().map(|(i, v)| format!("{i}:{v}")).collect::<Vec<_>>().join(";")
        };
        format!(
            "{{k={},v={},sz={},pid={},q={},d={},r={},t={},a={},rc={},ka={},cl={},sp={},pr={},ol={},pl={},x={},tg={}}}",
            self.k,
            self.v,
            self.sz,
            o(self.pid),
            self.q,
            self.d as u8,
            self.r as u8,
            hex(&self.t),
            o(self.a.map(|x| x as u64)),
            o(self.rc.map(|x| x as u64)),
            self.ka,
            self.cl as u8,
            self.sp as u8,
            pr,
            self.ol,
            self.pl,
            self.x as u8,
            self.tg
        )
    }
}

fn conn_props(ps: &[Property]) -> Vec<(u8, u64)> {
    let mut v = vec![];
    for p in ps {
        match p {
            Property::SessionExpiryInterval(x) => v.push((17, x.val() as u64)),
            Property::ServerKeepAlive(x) => v.push((19, x.val() as u64)),
            Property::ReceiveMaximum(x) => v.push((33, x.val() as u64)),
            Property::TopicAliasMaximum(x) => v.push((34, x.val() as u64)),
            Property::MaximumPacketSize(x) => v.push((39, x.val() as u64)),
            _ => {}
        }
    }
    v
}

pub fn descr<T: IsPacketId>(p: &GenericPacket<T>) -> String {
    let mut d = D { sz: p.size(), ..Default::default() };
    let q = |q: Qos| match q {
        Qos::AtMostOnce => 0,
        Qos::AtLeastOnce => 1,
        Qos::ExactlyOnce => 2,
    };
    macro_rules! ack {
        ($x:expr, $k:expr, $v:expr) => {{
            d.k = $k;
            d.v = $v;
            d.pid = Some(id_to_u64($x.packet_id()));
            d.rc = $x.reason_code().map(|r| r as u8);
        }};
    }
    macro_rules! idonly {
        ($x:expr, $k:expr, $v:expr) => {{
            d.k = $k;
            d.v = $v;
            d.pid = Some(id_to_u64($x.packet_id()));
        }};
    }
    match p {
        GenericPacket::V3_1_1Connect(x) => {
            d.k = 1;
            d.v = 4;
            d.ka = x.keep_alive();
            d.cl = x.clean_session();
        }
        GenericPacket::V5_0Connect(x) => {
            d.k = 1;
            d.v = 5;
            d.ka = x.keep_alive();
            d.cl = x.clean_start();
            d.pr = conn_props(x.props());
        }
        GenericPacket::V3_1_1Connack(x) => {
            d.k = 2;
            d.v = 4;
            d.sp = x.session_present();
            d.rc = Some(x.return_code() as u8);
        }
        GenericPacket::V5_0Connack(x) => {
            d.k = 2;
            d.v = 5;
            d.sp = x.session_present();
            d.rc = Some(x.reason_code() as u8);
            d.pr = conn_props(x.props());
        }
        GenericPacket::V3_1_1Publish(x) => {
            d.k = 3;
            d.v = 4;
            d.pid = x.packet_id().map(id_to_u64);
            d.q = q(x.qos());
            d.d = x.dup();
            d.r = x.retain();
            d.t = x.topic_name().as_bytes().to_vec();
            d.pl = x.payload().len();
            let mut h = 2166136261u32;
            fnv(&mut h, x.payload().as_slice());
            d.tg = h;
        }
        GenericPacket::V5_0Publish(x) => {
            d.k = 3;
            d.v = 5;
            d.pid = x.packet_id().map(id_to_u64);
            d.q = q(x.qos());
            d.d = x.dup();
            d.r = x.retain();
            d.t = x.topic_name().as_bytes().to_vec();
            d.pl = x.payload().len();
            d.x = x.topic_name_extracted();
            let mut h = 2166136261u32;
            fnv(&mut h, x.payload().as_slice());
            for pr in x.props() {
                match pr {
                    Property::TopicAlias(a) => d.a = Some(a.val()),
                    other => {
                        d.ol += other.size();
                        fnv(&mut h, &other.to_continuous_buffer());
                    }
                }
            }
            d.tg = h;
        }
        GenericPacket::V3_1_1Puback(x) => ack!(x, 4, 4),
        GenericPacket::V3_1_1Pubrec(x) => ack!(x, 5, 4),
        GenericPacket::V3_1_1Pubrel(x) => ack!(x, 6, 4),
        GenericPacket::V3_1_1Pubcomp(x) => ack!(x, 7, 4),
        GenericPacket::V5_0Puback(x) => ack!(x, 4, 5),
        GenericPacket::V5_0Pubrec(x) => ack!(x, 5, 5),
        GenericPacket::V5_0Pubrel(x) => ack!(x, 6, 5),
        GenericPacket::V5_0Pubcomp(x) => ack!(x, 7, 5),
        GenericPacket::V3_1_1Subscribe(x) => idonly!(x, 8, 4),
        GenericPacket::V5_0Subscribe(x) => idonly!(x, 8, 5),
        GenericPacket::V3_1_1Suback(x) => idonly!(x, 9, 4),
        GenericPacket::V5_0Suback(x) => idonly!(x, 9, 5),
        GenericPacket::V3_1_1Unsubscribe(x) => idonly!(x, 10, 4),
        GenericPacket::V5_0Unsubscribe(x) => idonly!(x, 10, 5),
        GenericPacket::V3_1_1Unsuback(x) => idonly!(x, 11, 4),
        GenericPacket::V5_0Unsuback(x) => idonly!(x, 11, 5),
        GenericPacket::V3_1_1Pingreq(_) => {
            d.k = 12;
            d.v = 4
        }
        GenericPacket::V5_0Pingreq(_) => {
            d.k = 12;
            d.v = 5
        }
        GenericPacket::V3_1_1Pingresp(_) => {
            d.k = 13;
            d.v = 4
        }
        GenericPacket::V5_0Pingresp(_) => {
            d.k = 13;
            d.v = 5
        }
        GenericPacket::V3_1_1Disconnect(_) => {
            d.k = 14;
            d.v = 4
        }
        GenericPacket::V5_0Disconnect(x) => {
            d.k = 14;
            d.v = 5;
            d.rc = x.reason_code().map(|r| r as u8);
        }
        GenericPacket::V5_0Auth(x) => {
            d.k = 15;
            d.v = 5;
            d.rc = x.reason_code().map(|r| r as u8);
        }
    }
    d.show()
}

pub fn bytes_of<T: IsPacketId>(p: &GenericPacket<T>) -> Vec<u8> {
    p.to_continuous_buffer()
}

fn tk(k: TimerKind) -> &'static str {
    match k {
        TimerKind::PingreqSend => "S",
        TimerKind::PingreqRecv => "R",
        TimerKind::PingrespRecv => "P",
    }
}

pub fn show_events<T: IsPacketId>(evs: &[GenericEvent<T>]) -> String {
    if evs.is_empty() {
        return "-".into();
    }
    // runs of `released` events come out of hash sets: canonicalise by sorting each run
    let mut out: Vec<String> = vec![];
    let mut run: Vec<u64> = vec![];
    let flush = |run: &mut Vec<u64>, out: &mut Vec<String>| {
        run.sort();
        for r in run.iter() {
            out.push(format!("rel {r}"));
        }
        run.clear();
    };
    for e in evs {
        match e {
            GenericEvent::NotifyPacketIdReleased(id) => run.push(id_to_u64(*id)),
            other => {
                flush(&mut run, &mut out);
                out.push(match other {
                    GenericEvent::RequestSendPacket { packet, release_packet_id_if_send_error } => format!(
                        "send{}{}#{}",
                        descr(packet),
                        release_packet_id_if_send_error.map(|i| id_to_u64(i).to_string()).unwrap_or("-".into()),
                        hex(&bytes_of(packet))
                    ),
                    GenericEvent::NotifyPacketReceived(p) => format!("recv{}", descr(p)),
                    GenericEvent::RequestTimerReset { kind, duration_ms } => format!("tr {} {}", tk(*kind), duration_ms),
                    GenericEvent::RequestTimerCancel(k) => format!("tc {}", tk(*k)),
                    GenericEvent::NotifyError(e) => format!("err {}", *e as u16),
                    GenericEvent::RequestClose => "close".into(),
                    GenericEvent::NotifyPacketIdReleased(_) => unreachable!(),
                });
            }
        }
    }
    flush(&mut run, &mut out);
    out.join(" ; ")
}

// ---------------------------------------------------------------------------------------
// one connection under test

pub struct Sess<R: RoleX, T: IsPacketId> {
    pub c: GenericConnection<R, T>,
    pub pw: usize,
    pub out_lines: Vec<String>,
    pub dead: bool, // a PANIC was observed: the object is poisoned, stop the trace
    pub armed: [bool; 3],
    pub last_events: Vec<String>,
    /// structured view of the events of the calls since it was last drained (pair harness)
    pub obs: Vec<Obs>,
}

/// what an application does something with
#[derive(Clone, Debug)]
pub enum Obs {
    Send(Vec<u8>),
    /// a delivered packet: kind nibble, qos, id, topic bytes, payload bytes
    Recv { kind: u8, qos: u8, pid: u64, topic: Vec<u8>, payload: Vec<u8>, rc: Option<u8> },
    Close,
    Err(u16),
}

pub fn store_descr<T: IsPacketId>(sp: &GenericStorePacket<T>) -> String {
    let gp: GenericPacket<T> = sp.clone().into();
    format!("{}:{}", id_to_u64(sp.packet_id()), descr(&gp))
}

impl<R: RoleX, T: IsPacketId> Sess<R, T> {
    pub fn new(ver: u8) -> Self {
        let v = match ver {
            4 => Version::V3_1_1,
            5 => Version::V5_0,
            _ => Version::Undetermined,
        };
        Sess { c: GenericConnection::new(v), pw: std::mem::size_of::<T>(), out_lines: vec![], dead: false, armed: [false; 3], last_events: vec![], obs: vec![] }
    }

    pub fn digest(&self) -> String {
        let raw = self.c.verif_state();
        // replace the byte-level store dump by descriptors (the L2 model has no bytes)
        let stored = self.c.get_stored_packets();
        let st = if stored.is_empty() { "-".to_string() } else { stored.iter().map(store_descr).collect::<Vec<_>>().join(";") };
        let mut parts: Vec<String> = vec![];
        for f in raw.split(' ') {
            if let Some(_rest) = f.strip_prefix("store=") {
                parts.push(format!("store={st}"));
            } else {
                parts.push(f.to_string());
            }
        }
        parts.join(" ")
    }

    pub fn field(&self, key: &str) -> String {
        let raw = self.c.verif_state();
        for f in raw.split(' ') {
            if let Some(v) = f.strip_prefix(&format!("{key}=")) {
                return v.to_string();
            }
        }
        String::new()
    }

    pub fn version(&self) -> u8 {
        match self.c.get_protocol_version() {
            Version::V3_1_1 => 4,
            Version::V5_0 => 5,
            Version::Undetermined => 0,
        }
    }

    fn note_events(&mut self, evs: &[GenericEvent<T>]) {
        for e in evs {
            match e {
                GenericEvent::RequestTimerReset { kind, .. } => self.armed[*kind as usize % 3] = true,
                GenericEvent::RequestTimerCancel(k) => self.armed[*k as usize % 3] = false,
                GenericEvent::RequestSendPacket { packet, .. } => self.obs.push(Obs::Send(bytes_of(packet))),
                GenericEvent::RequestClose => self.obs.push(Obs::Close),
                GenericEvent::NotifyError(e) => self.obs.push(Obs::Err(*e as u16)),
                GenericEvent::NotifyPacketReceived(p) => {
                    let (kind, qos, pid, topic, payload, rc) = match p {
                        GenericPacket::V3_1_1Publish(x) => (3, x.qos() as u8, x.packet_id().map(id_to_u64).unwrap_or(0), x.topic_name().as_bytes().to_vec(), x.payload().as_slice().to_vec(), None),
                        GenericPacket::V5_0Publish(x) => (3, x.qos() as u8, x.packet_id().map(id_to_u64).unwrap_or(0), x.topic_name().as_bytes().to_vec(), x.payload().as_slice().to_vec(), None),
                        GenericPacket::V3_1_1Puback(x) => (4, 0, id_to_u64(x.packet_id()), vec![], vec![], None),
                        GenericPacket::V5_0Puback(x) => (4, 0, id_to_u64(x.packet_id()), vec![], vec![], x.reason_code().map(|r| r as u8)),
                        GenericPacket::V3_1_1Pubrec(x) => (5, 0, id_to_u64(x.packet_id()), vec![], vec![], None),
                        GenericPacket::V5_0Pubrec(x) => (5, 0, id_to_u64(x.packet_id()), vec![], vec![], x.reason_code().map(|r| r as u8)),
                        GenericPacket::V3_1_1Pubrel(x) => (6, 0, id_to_u64(x.packet_id()), vec![], vec![], None),
                        GenericPacket::V5_0Pubrel(x) => (6, 0, id_to_u64(x.packet_id()), vec![], vec![], None),
                        GenericPacket::V3_1_1Pubcomp(x) => (7, 0, id_to_u64(x.packet_id()), vec![], vec![], None),
                        GenericPacket::V5_0Pubcomp(x) => (7, 0, id_to_u64(x.packet_id()), vec![], vec![], None),
                        GenericPacket::V3_1_1Subscribe(x) => (8, 0, id_to_u64(x.packet_id()), vec![], vec![], None),
                        GenericPacket::V5_0Subscribe(x) => (8, 0, id_to_u64(x.packet_id()), vec![], vec![], None),
                        GenericPacket::V3_1_1Unsubscribe(x) => (10, 0, id_to_u64(x.packet_id()), vec![], vec![], None),
                        GenericPacket::V5_0Unsubscribe(x) => (10, 0, id_to_u64(x.packet_id()), vec![], vec![], None),
                        GenericPacket::V3_1_1Connect(_) | GenericPacket::V5_0Connect(_) => (1, 0, 0, vec![], vec![], None),
                        GenericPacket::V3_1_1Connack(_) | GenericPacket::V5_0Connack(_) => (2, 0, 0, vec![], vec![], None),
                        GenericPacket::V3_1_1Pingreq(_) | GenericPacket::V5_0Pingreq(_) => (12, 0, 0, vec![], vec![], None),
                        _ => (0, 0, 0, vec![], vec![], None),
                    };
                    self.obs.push(Obs::Recv { kind, qos, pid, topic, payload, rc });
                }
                _ => {}
            }
        }
    }

    fn line(&mut self, op: &str, oracle: &str, evs: Result<(String, String), ()>) {
        match evs {
            Ok((e, ret)) => {
                let d = self.digest();
                self.out_lines.push(format!("X {op} | {oracle} | {e} | {ret} | {d}"));
            }
            Err(()) => {
                self.out_lines.push(format!("X {op} | {oracle} | PANIC | - | -"));
                self.dead = true;
            }
        }
    }

    /// `checked`: through `checked_send` when the trait bounds admit the packet's type for this
    /// role (the printed op then ends in ` c`), otherwise through `send`
    pub fn send_bytes(&mut self, ver: u8, bytes: &[u8], checked: bool) {
        if self.dead {
            return;
        }
        let Some((fh, body)) = split_frame(bytes) else { return };
        // (the packet is made by the library's own parser: a panic in there is a finding, not a harness crash)
        let pkt = match catch_unwind(AssertUnwindSafe(|| parse_frame::<T>(ver, fh, &body))) {
            Ok(Ok(p)) => p,
            Ok(Err(_)) => return,
            Err(_) => {
                let op = format!("send {} {}", ver, hex(bytes));
                self.line(&op, "-", Err(()));
                return;
            }
        };
        let mut op = format!("send {} {}", ver, hex(bytes));
        let oracle = descr(&pkt);
        let mut via_checked = false;
        let r = catch_unwind(AssertUnwindSafe(|| {
            if checked {
                match R::csend(&mut self.c, pkt) {
                    Ok(evs) => {
                        via_checked = true;
                        evs
                    }
                    Err(pkt) => self.c.send(pkt),
                }
            } else {
                self.c.send(pkt)
            }
        }));
        if via_checked || (checked && r.is_err()) {
            op.push_str(" c");
        }
        match r {
            Ok(evs) => {
                self.note_events(&evs);
                let s = show_events(&evs);
                self.line(&op, &oracle, Ok((s, "-".into())));
            }
            Err(_) => self.line(&op, &oracle, Err(())),
        }
    }

    /// `recv` on an empty buffer (an exhausted cursor)
    pub fn recv_empty(&mut self) {
        if self.dead {
            return;
        }
        let empty: [u8; 0] = [];
        let mut cur = mqtt::common::Cursor::new(&empty[..]);
        let r = catch_unwind(AssertUnwindSafe(|| self.c.recv(&mut cur)));
        match r {
            Ok(evs) => {
                self.note_events(&evs);
                let s = show_events(&evs);
                self.line("recv_empty", "cons=0 frame=none parsed=-", Ok((s, "-".into())));
            }
            Err(_) => self.line("recv_empty", "cons=0 frame=none parsed=-", Err(())),
        }
    }

    /// feed one receive buffer: `recv` is called until the buffer is exhausted
    pub fn recv_chunk(&mut self, chunk: &[u8]) {
        let mut cur = mqtt::common::Cursor::new(chunk);
        loop {
            if self.dead {
                return;
            }
            let pos = cur.position() as usize;
            if pos >= chunk.len() {
                break;
            }
            // what is held in the builder before the call (for the frame oracle)
            let pbf = self.field("pb");
            let parts: Vec<&str> = pbf.split('/').collect();
            let mut held: Vec<u8> = vec![];
            if parts.len() == 5 {
                if !parts[1].is_empty() {
                    held.extend(unhex(parts[1]));
                }
                if !parts[4].is_empty() {
                    held.extend(unhex(parts[4]));
                }
            }
            let ver_before = self.version();
            let r = catch_unwind(AssertUnwindSafe(|| self.c.recv(&mut cur)));
            let cons = cur.position() as usize - pos;
            let op = format!("recv {}", hex(&chunk[pos..]));
            // frame oracle: a fresh real builder over held ++ consumed
            let mut all = held.clone();
            all.extend_from_slice(&chunk[pos..pos + cons]);
            let mut pb = PacketBuilder::new();
            let mut c2 = mqtt::common::Cursor::new(&all[..]);
            let oracle = match pb.feed(&mut c2) {
                PacketBuildResult::Complete(raw) => {
                    let fh = (raw.packet_type() << 4) | raw.flags();
                    let body = raw.data_as_slice().to_vec();
                    let pv = if ver_before == 0 {
                        if body.len() > 6 { body[6] } else { 0 }
                    } else {
                        ver_before
                    };
                    let parsed = if pv == 4 || pv == 5 {
                        match catch_unwind(AssertUnwindSafe(|| parse_frame::<T>(pv, fh, &body))) {
                            Ok(Ok(p)) => descr(&p),
                            Ok(Err(e)) => format!("E{}", e as u16),
                            Err(_) => "PANIC".into(),
                        }
                    } else {
                        "-".into()
                    };
                    format!("cons={cons} frame={fh}:{} parsed={parsed}", hex(&body))
                }
                PacketBuildResult::Incomplete => format!("cons={cons} frame=none parsed=-"),
                PacketBuildResult::Error(_) => format!("cons={cons} frame=err parsed=-"),
            };
            match r {
                Ok(evs) => {
                    self.note_events(&evs);
                    let s = show_events(&evs);
                    self.line(&op, &oracle, Ok((s, "-".into())));
                }
                Err(_) => self.line(&op, &oracle, Err(())),
            }
            if cons == 0 {
                break;
            }
        }
    }

    pub fn timer(&mut self, k: usize) {
        if self.dead {
            return;
        }
        let kind = [TimerKind::PingreqSend, TimerKind::PingreqRecv, TimerKind::PingrespRecv][k];
        self.armed[k] = false;
        let r = catch_unwind(AssertUnwindSafe(|| self.c.notify_timer_fired(kind)));
        let op = format!("timer {}", tk(kind));
        match r {
            Ok(evs) => {
                self.note_events(&evs);
                let s = show_events(&evs);
                self.line(&op, "-", Ok((s, "-".into())));
            }
            Err(_) => self.line(&op, "-", Err(())),
        }
    }

    pub fn closed(&mut self) {
        if self.dead {
            return;
        }
        let r = catch_unwind(AssertUnwindSafe(|| self.c.notify_closed()));
        match r {
            Ok(evs) => {
                self.note_events(&evs);
                let s = show_events(&evs);
                self.line("closed", "-", Ok((s, "-".into())));
            }
            Err(_) => self.line("closed", "-", Err(())),
        }
    }

    pub fn simple(&mut self, op: &str) {
        if self.dead {
            return;
        }
        let w: Vec<&str> = op.split_whitespace().collect();
        let num = |i: usize| w.get(i).and_then(|s| s.parse::<u64>().ok()).unwrap_or(0);
        let r = catch_unwind(AssertUnwindSafe(|| -> (String, String) {
            match w[0] {
                "interval" => {
                    let d = if w[1] == "none" { None } else { Some(num(1)) };
                    let evs = self.c.set_pingreq_send_interval(d);
                    self.note_events(&evs);
                    (show_events(&evs), "-".into())
                }
                "set" => {
                    let b = num(2) != 0;
                    match w[1] {
                        "off" => self.c.set_offline_publish(b),
                        "apr" => self.c.set_auto_pub_response(b),
                        "aping" => self.c.set_auto_ping_response(b),
                        "amap" => self.c.set_auto_map_topic_alias_send(b),
                        _ => self.c.set_auto_replace_topic_alias_send(b),
                    }
                    ("-".into(), "-".into())
                }
                "rto" => {
                    self.c.set_pingresp_recv_timeout(num(1));
                    ("-".into(), "-".into())
                }
                "acquire" => {
                    let r = match self.c.acquire_packet_id() {
                        Ok(id) => format!("ok{}", id_to_u64(id)),
                        Err(e) => format!("E{}", e as u16),
                    };
                    ("-".into(), r)
                }
                "register" => {
                    let r = match self.c.register_packet_id(id_from_u64::<T>(num(1))) {
                        Ok(()) => "ok".to_string(),
                        Err(e) => format!("E{}", e as u16),
                    };
                    ("-".into(), r)
                }
                "release" => {
                    let evs = self.c.release_packet_id(id_from_u64::<T>(num(1)));
                    (show_events(&evs), "-".into())
                }
                "erase" => {
                    let evs = self.c.erase_stored_publish(id_from_u64::<T>(num(1)));
                    (show_events(&evs), "-".into())
                }
                "vacancy" => {
                    let r = self.c.get_receive_maximum_vacancy_for_send().map(|v| v.to_string()).unwrap_or("none".into());
                    ("-".into(), r)
                }
                "handled" => {
                    let mut v: Vec<u64> = self.c.get_qos2_publish_handled().iter().map(|i| id_to_u64(*i)).collect();
                    v.sort();
                    ("-".into(), if v.is_empty() { "-".into() } else { v.iter().map(|x| x.to_string()).collect::<Vec<_>>().join(",") })
                }
                "stored" => {
                    let st = self.c.get_stored_packets();
                    ("-".into(), if st.is_empty() { "-".into() } else { st.iter().map(store_descr).collect::<Vec<_>>().join(";") })
                }
                "restore_h" => {
                    let mut set = mqtt::common::HashSet::default();
                    if w.len() > 1 && w[1] != "-" {
                        for x in w[1].split(',') {
                            set.insert(id_from_u64::<T>(x.parse().unwrap()));
                        }
                    }
                    self.c.restore_qos2_publish_handled(set);
                    ("-".into(), "-".into())
                }
                _ => ("-".into(), "?".into()),
            }
        }));
        match r {
            Ok((e, ret)) => self.line(op, "-", Ok((e, ret))),
            Err(_) => self.line(op, "-", Err(())),
        }
    }

    /// restore_packets from `ver:hex,ver:hex,…` (publish / pubrel packets)
    pub fn restore_packets(&mut self, spec: &str) {
        if self.dead {
            return;
        }
        let mut v: Vec<GenericStorePacket<T>> = vec![];
        let mut ds: Vec<String> = vec![];
        if spec != "-" {
            for item in spec.split(',') {
                let (ver, hx) = item.split_once(':').unwrap();
                let bytes = unhex(hx);
                let Some((fh, body)) = split_frame(&bytes) else { continue };
                let Ok(p) = parse_frame::<T>(ver.parse().unwrap(), fh, &body) else { continue };
                let d = descr(&p);
                let sp: Option<GenericStorePacket<T>> = match p {
                    GenericPacket::V3_1_1Publish(x) => GenericStorePacket::try_from(x).ok(),
                    GenericPacket::V5_0Publish(x) => GenericStorePacket::try_from(x).ok(),
                    GenericPacket::V3_1_1Pubrel(x) => GenericStorePacket::try_from(x).ok(),
                    GenericPacket::V5_0Pubrel(x) => GenericStorePacket::try_from(x).ok(),
                    _ => None,
                };
                if let Some(sp) = sp {
                    v.push(sp);
                    ds.push(d);
                }
            }
        }
        let oracle = if ds.is_empty() { "-".to_string() } else { ds.join(";") };
        let op = format!("restore_p {spec}");
        let r = catch_unwind(AssertUnwindSafe(|| self.c.restore_packets(v)));
        match r {
            Ok(()) => self.line(&op, &oracle, Ok(("-".into(), "-".into()))),
            Err(_) => self.line(&op, &oracle, Err(())),
        }
    }

    pub fn regulate(&mut self, bytes: &[u8]) {
        if self.dead {
            return;
        }
        let Some((fh, body)) = split_frame(bytes) else { return };
        let Ok(GenericPacket::V5_0Publish(p)) = parse_frame::<T>(5, fh, &body) else { return };
        let oracle = descr(&GenericPacket::V5_0Publish(p.clone()));
        let op = format!("regulate {}", hex(bytes));
        let r = catch_unwind(AssertUnwindSafe(|| self.c.regulate_for_store(p)));
        match r {
            Ok(Ok(q)) => {
                let d = descr(&GenericPacket::V5_0Publish(q));
                self.line(&op, &oracle, Ok(("-".into(), d)))
            }
            Ok(Err(e)) => self.line(&op, &oracle, Ok(("-".into(), format!("E{}", e as u16)))),
            Err(_) => self.line(&op, &oracle, Err(())),
        }
    }

    /// apply one operation given in its textual form (used by generators and by replay)
    pub fn apply(&mut self, op: &str) {
        let w: Vec<&str> = op.split_whitespace().collect();
        if w.is_empty() {
            return;
        }
        match w[0] {
            "send" => self.send_bytes(w[1].parse().unwrap(), &unhex(w[2]), w.get(3) == Some(&"c")),
            "recv" => self.recv_chunk(&unhex(w[1])),
            "recv_empty" => self.recv_empty(),
            "timer" => self.timer(match w[1] {
                "S" => 0,
                "R" => 1,
                _ => 2,
            }),
            "closed" => self.closed(),
            "restore_p" => self.restore_packets(w.get(1).copied().unwrap_or("-")),
            "regulate" => self.regulate(&unhex(w[1])),
            _ => self.simple(op),
        }
    }
}

// ---------------------------------------------------------------------------------------
// running op lists for a configuration chosen at run time

pub fn run_ops(role: &str, pw: usize, ver: u8, legal: bool, name: &str, ops: &[String], out: &mut dyn Write) -> bool {
    fn go<R: RoleX, T: IsPacketId>(ver: u8, ops: &[String]) -> (Vec<String>, bool) {
        let mut s = Sess::<R, T>::new(ver);
        for op in ops {
            s.apply(op);
            if s.dead {
                break;
            }
        }
        (s.out_lines, s.dead)
    }
    let (lines, dead) = match (role, pw) {
        ("client", 2) => go::<Client, u16>(ver, ops),
        ("client", _) => go::<Client, u32>(ver, ops),
        ("server", 2) => go::<Server, u16>(ver, ops),
        ("server", _) => go::<Server, u32>(ver, ops),
        (_, 2) => go::<Any, u16>(ver, ops),
        _ => go::<Any, u32>(ver, ops),
    };
    writeln!(out, "T conn {name} role={role} pw={pw} ver={ver} legal={}", legal as u8).unwrap();
    for l in lines {
        writeln!(out, "{l}").unwrap();
    }
    writeln!(out, "END").unwrap();
    dead
}

/// replay: re-execute the operations of every trace block of a file
pub fn replay(text: &str, out: &mut dyn Write) {
    let mut cfg: Option<(String, usize, u8, String, bool)> = None;
    let mut ops: Vec<String> = vec![];
    let mut last_recv_rest: Option<Vec<u8>> = None;
    let flush = |cfg: &mut Option<(String, usize, u8, String, bool)>, ops: &mut Vec<String>, out: &mut dyn Write| {
        if let Some((role, pw, ver, name, legal)) = cfg.take() {
            run_ops(&role, pw, ver, legal, &name, ops, out);
        }
        ops.clear();
    };
    for line in text.lines() {
        if line.starts_with('#') {
            continue;
        }
        if let Some(rest) = line.strip_prefix("T conn ") {
            flush(&mut cfg, &mut ops, out);
            let w: Vec<&str> = rest.split_whitespace().collect();
            let get = |k: &str| w.iter().find_map(|x| x.strip_prefix(k)).unwrap_or("").to_string();
            cfg = Some((get("role="), get("pw=").parse().unwrap_or(2), get("ver=").parse().unwrap_or(5), w[0].to_string(), get("legal=") != "0"));
            last_recv_rest = None;
        } else if line == "END" {
            flush(&mut cfg, &mut ops, out);
        } else if let Some(rest) = line.strip_prefix("X ") {
            let op = rest.split(" | ").next().unwrap().to_string();
            if let Some(hx) = op.strip_prefix("recv ") {
                // consecutive recv calls on the same buffer are one chunk
                let inp = unhex(hx.trim());
                let is_cont = last_recv_rest.as_ref().map(|r| *r == inp).unwrap_or(false);
                let cons: usize = rest
                    .split(" | ")
                    .nth(1)
                    .and_then(|o| o.split_whitespace().find_map(|x| x.strip_prefix("cons=")))
                    .and_then(|x| x.parse().ok())
                    .unwrap_or(inp.len());
                last_recv_rest = Some(inp[cons.min(inp.len())..].to_vec());
                if is_cont {
                    continue;
                }
            } else {
                last_recv_rest = None;
            }
            ops.push(op);
        } else if let Some(op) = line.strip_prefix("OP ") {
            // hand-written corpus files may list bare operations
            ops.push(op.to_string());
            last_recv_rest = None;
        }
    }
    flush(&mut cfg, &mut ops, out);
}
