//! Allocator traces: exhaustive DFS over small ranges, random long walks near the extremes.
use crate::rng::Rng;
use mqtt_protocol_core::mqtt::connection::PacketIdManager;
use mqtt_protocol_core::mqtt::ValueAllocator;
use std::fmt::Display;
use std::io::Write;
use std::panic::{catch_unwind, AssertUnwindSafe};

#[derive(Clone, Debug)]
pub enum Op {
    Allocate,
    First,
    Dealloc(u64),
    Use(u64),
    IsUsed(u64),
    Clear,
    Count,
}

fn ivs<T: Display>(v: Vec<(T, T)>) -> String {
    if v.is_empty() {
        return "-".into();
    }
    v.iter()
        .map(|(l, h)| format!("{l}-{h}"))
        .collect::<Vec<_>>()
        .join(",")
}

macro_rules! impl_run {
    ($name:ident, $t:ty) => {
        pub fn $name(a: &mut ValueAllocator<$t>, op: &Op, out: &mut dyn Write) {
            let conv = |v: u64| -> $t { v as $t };
            let (txt, ans) = match op {
                Op::Allocate => (
                    "allocate".to_string(),
                    match a.allocate() {
                        Some(v) => format!("some{v}"),
                        None => "none".into(),
                    },
                ),
                Op::First => (
                    "first".to_string(),
                    match a.first_vacant() {
                        Some(v) => format!("some{v}"),
                        None => "none".into(),
                    },
                ),
                Op::Dealloc(v) => (
                    format!("dealloc {v}"),
                    match catch_unwind(AssertUnwindSafe(|| a.deallocate(conv(*v)))) {
                        Ok(()) => "unit".into(),
                        Err(_) => "PANIC".into(),
                    },
                ),
                Op::Use(v) => (format!("use {v}"), format!("{}", a.use_value(conv(*v)))),
                Op::IsUsed(v) => (format!("isused {v}"), format!("{}", a.is_used(conv(*v)))),
                Op::Clear => {
                    a.clear();
                    ("clear".to_string(), "unit".into())
                }
                Op::Count => ("count".to_string(), format!("n{}", a.interval_count())),
            };
            writeln!(out, "O {txt} = {ans} ; {}", ivs(a.verif_intervals())).unwrap();
        }
    };
}
/// the same operations through `PacketIdManager` (the allocator over [1, T::MAX] behind the connection's
/// identifier API): acquire = allocate, register = reserve, release = deallocate
macro_rules! impl_run_pm {
    ($name:ident, $t:ty) => {
        pub fn $name(a: &mut PacketIdManager<$t>, op: &Op, out: &mut dyn Write) {
            let conv = |v: u64| -> $t { v as $t };
            let (txt, ans) = match op {
                Op::Dealloc(v) => (
                    format!("dealloc {v}"),
                    match catch_unwind(AssertUnwindSafe(|| a.release_id(conv(*v)))) {
                        Ok(()) => "unit".into(),
                        Err(_) => "PANIC".into(),
                    },
                ),
                Op::Use(v) => (format!("use {v}"), format!("{}", a.register_id(conv(*v)).is_ok())),
                Op::IsUsed(v) => (format!("isused {v}"), format!("{}", a.is_used_id(conv(*v)))),
                Op::Clear => {
                    a.clear();
                    ("clear".to_string(), "unit".into())
                }
                _ => (
                    "allocate".to_string(),
                    match a.acquire_unique_id() {
                        Ok(v) => format!("some{v}"),
                        Err(_) => "none".into(),
                    },
                ),
            };
            writeln!(out, "O {txt} = {ans} ; {}", ivs(a.verif_intervals())).unwrap();
        }
    };
}
impl_run_pm!(run_pm_u16, u16);
impl_run_pm!(run_pm_u32, u32);

impl_run!(run_u8, u8);
impl_run!(run_u16, u16);
impl_run!(run_u32, u32);

fn alphabet(lo: u64, hi: u64, tmax: u64) -> Vec<Op> {
    let mut vals: Vec<u64> = Vec::new();
    let from = lo.saturating_sub(1);
    let to = if hi < tmax { hi + 1 } else { hi };
    for v in from..=to {
        vals.push(v);
    }
    let mut ops = vec![Op::Allocate, Op::First, Op::Clear, Op::Count];
    for &v in &vals {
        ops.push(Op::Dealloc(v));
        ops.push(Op::Use(v));
        ops.push(Op::IsUsed(v));
    }
    ops
}

fn dfs_u8(a: &ValueAllocator<u8>, ops: &[Op], depth: usize, out: &mut dyn Write, nodes: &mut u64) {
    if depth == 0 {
        return;
    }
    for op in ops {
        // queries are only interesting as the last step of a path
        let query = matches!(op, Op::First | Op::Count | Op::IsUsed(_));
        let mut b = a.clone();
        writeln!(out, "(").unwrap();
        run_u8(&mut b, op, out);
        *nodes += 1;
        if !query {
            dfs_u8(&b, ops, depth - 1, out, nodes);
        }
        writeln!(out, ")").unwrap();
    }
}

pub fn generate(tier: &str, seed: u64, out: &mut dyn Write) {
    let depth = if tier == "thorough" { 6 } else { 4 };
    let mut nodes = 0u64;
    // exhaustive, u8
    for (lo, hi) in [(1u64, 3u64), (0, 2), (5, 5), (253, 255), (0, 0), (255, 255)] {
        writeln!(out, "T alloc dfs-u8-{lo}-{hi} {lo} {hi} 255").unwrap();
        let a = ValueAllocator::<u8>::new(lo as u8, hi as u8);
        let ops = alphabet(lo, hi, 255);
        let d = if hi - lo >= 2 { depth } else { depth + 1 };
        dfs_u8(&a, &ops, d, out, &mut nodes);
        writeln!(out, "END").unwrap();
    }
    // random walks
    let mut rng = Rng::new(seed);
    let steps = if tier == "thorough" { 200_000 } else { 20_000 };
    let walk = |rng: &mut Rng, lo: u64, hi: u64, tmax: u64| -> Op {
        // values concentrated near the two ends and around a few hot spots
        let span = hi - lo;
        let v = match rng.below(10) {
            0 => lo.saturating_sub(rng.below(2)),
            1 => hi.saturating_add(rng.below(2)).min(tmax),
            2 | 3 => lo + rng.below(span.min(12) + 1),
            4 | 5 => hi - rng.below(span.min(12) + 1),
            6 => lo + span / 2 + rng.below(span.min(8) + 1).min(span - span / 2),
            7 => tmax - rng.below(3),
            _ => lo + rng.below(span + 1),
        };
        match rng.below(20) {
            0..=5 => Op::Allocate,
            6..=10 => Op::Dealloc(v),
            11..=14 => Op::Use(v),
            15..=16 => Op::IsUsed(v),
            17 => Op::First,
            18 => Op::Count,
            _ => {
                if rng.chance(1, 50) {
                    Op::Clear
                } else {
                    Op::Allocate
                }
            }
        }
    };
    for (lo, hi) in [(1u64, 65535u64), (0, 65535), (65530, 65535), (1, 20)] {
        writeln!(out, "T alloc walk-u16-{lo}-{hi} {lo} {hi} 65535").unwrap();
        let mut a = ValueAllocator::<u16>::new(lo as u16, hi as u16);
        for _ in 0..steps {
            let op = walk(&mut rng, lo, hi, 65535);
            run_u16(&mut a, &op, out);
        }
        writeln!(out, "END").unwrap();
    }
    for (lo, hi) in [(1u64, 4294967295u64), (0, 4294967295), (4294967290, 4294967295)] {
        writeln!(out, "T alloc walk-u32-{lo}-{hi} {lo} {hi} 4294967295").unwrap();
        let mut a = ValueAllocator::<u32>::new(lo as u32, hi as u32);
        for _ in 0..steps {
            let op = walk(&mut rng, lo, hi, 4294967295);
            run_u32(&mut a, &op, out);
        }
        writeln!(out, "END").unwrap();
    }
    // the identifier manager of a connection: the same walk through its wrapper methods
    let pm_op = |rng: &mut Rng, tmax: u64| -> Op {
        loop {
            let op = walk(rng, 1, tmax, tmax);
            if !matches!(op, Op::First | Op::Count) {
                return op;
            }
        }
    };
    {
        writeln!(out, "T alloc pidman-u16 1 65535 65535").unwrap();
        let mut a = PacketIdManager::<u16>::new();
        for _ in 0..steps / 4 {
            run_pm_u16(&mut a, &pm_op(&mut rng, 65535), out);
        }
        writeln!(out, "END").unwrap();
        writeln!(out, "T alloc pidman-u32 1 4294967295 4294967295").unwrap();
        let mut a = PacketIdManager::<u32>::new();
        for _ in 0..steps / 4 {
            run_pm_u32(&mut a, &pm_op(&mut rng, 4294967295), out);
        }
        writeln!(out, "END").unwrap();
    }
    for (lo, hi) in [(1u64, 10u64), (250, 255), (0, 255)] {
        writeln!(out, "T alloc walk-u8-{lo}-{hi} {lo} {hi} 255").unwrap();
        let mut a = ValueAllocator::<u8>::new(lo as u8, hi as u8);
        for _ in 0..steps {
            let op = walk(&mut rng, lo, hi, 255);
            run_u8(&mut a, &op, out);
        }
        writeln!(out, "END").unwrap();
    }
    // the send-side alias table (an allocator over [1, max] plus two maps), all public methods
    crate::alias::generate(tier, &mut rng, out);
    eprintln!("alloc: dfs nodes {nodes}");
}

/// re-execute a trace file's operations on the implementation and print the fresh trace
pub fn replay(text: &str, out: &mut dyn Write) {
    let mut a8: Option<ValueAllocator<u8>> = None;
    let mut a16: Option<ValueAllocator<u16>> = None;
    let mut a32: Option<ValueAllocator<u32>> = None;
    let mut st8: Vec<ValueAllocator<u8>> = vec![];
    let mut pm16: Option<PacketIdManager<u16>> = None;
    let mut pm32: Option<PacketIdManager<u32>> = None;
    let mut tas: Option<mqtt_protocol_core::mqtt::packet::TopicAliasSend> = None;
    for line in text.lines() {
        let w: Vec<&str> = line.split_whitespace().collect();
        if w.is_empty() {
            continue;
        }
        if w[0] == "T" && w.len() >= 4 && w[1] == "alias" {
            tas = Some(mqtt_protocol_core::mqtt::packet::TopicAliasSend::new(w[3].parse().unwrap()));
            writeln!(out, "{line}").unwrap();
            continue;
        }
        if w[0] == "A" {
            if let Some(t) = tas.as_mut() {
                let op = line[2..].split(" = ").next().unwrap();
                crate::alias::apply(t, op, out);
            }
            continue;
        }
        match w[0] {
            "T" => {
                tas = None;
                let lo: u64 = w[3].parse().unwrap();
                let hi: u64 = w[4].parse().unwrap();
                let tm: u64 = w[5].parse().unwrap();
                a8 = None;
                a16 = None;
                a32 = None;
                pm16 = None;
                pm32 = None;
                if w[2].starts_with("pidman") {
                    if tm == 65535 {
                        pm16 = Some(PacketIdManager::new());
                    } else {
                        pm32 = Some(PacketIdManager::new());
                    }
                    writeln!(out, "{line}").unwrap();
                    continue;
                }
                match tm {
                    255 => a8 = Some(ValueAllocator::new(lo as u8, hi as u8)),
                    65535 => a16 = Some(ValueAllocator::new(lo as u16, hi as u16)),
                    _ => a32 = Some(ValueAllocator::new(lo as u32, hi as u32)),
                }
                writeln!(out, "{line}").unwrap();
            }
            "(" => {
                st8.push(a8.clone().unwrap());
                writeln!(out, "(").unwrap();
            }
            ")" => {
                a8 = st8.pop();
                writeln!(out, ")").unwrap();
            }
            "END" => writeln!(out, "END").unwrap(),
            "O" => {
                let v = || w[2].parse::<u64>().unwrap();
                let op = match w[1] {
                    "allocate" => Op::Allocate,
                    "first" => Op::First,
                    "dealloc" => Op::Dealloc(v()),
                    "use" => Op::Use(v()),
                    "isused" => Op::IsUsed(v()),
                    "clear" => Op::Clear,
                    _ => Op::Count,
                };
                if let Some(a) = pm16.as_mut() {
                    run_pm_u16(a, &op, out)
                } else if let Some(a) = pm32.as_mut() {
                    run_pm_u32(a, &op, out)
                } else if let Some(a) = a8.as_mut() {
                    run_u8(a, &op, out)
                } else if let Some(a) = a16.as_mut() {
                    run_u16(a, &op, out)
                } else if let Some(a) = a32.as_mut() {
                    run_u32(a, &op, out)
                }
            }
            _ => {}
        }
    }
}
