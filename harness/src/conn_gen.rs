//! State-aware random walks over the public API of a connection + arbitrary peer traffic.
use crate::conn::*;
use crate::rng::{hex, Rng};
use mqtt_protocol_core::mqtt::connection::role::{Any, Client, Server};
use crate::csend::RoleX;
use mqtt_protocol_core::mqtt::packet::IsPacketId;
use std::io::Write;

const TOPICS: [&[u8]; 4] = [b"a", b"b", b"c/d", b"topic/long/name"];

struct Gen<'a, R: RoleX, T: IsPacketId> {
    s: Sess<R, T>,
    rng: &'a mut Rng,
    role: &'static str,
    my_ids: Vec<u64>,            // ids obtained from acquire/register and not yet handed to a send
    inflight: Vec<(u64, u8)>,    // publishes we sent: (id, qos)
    rel_wait: Vec<u64>,          // PUBREL sent, PUBCOMP expected
    peer_pubs: Vec<(u64, u8)>,   // publishes received from the peer: (id, qos)
    subs: Vec<(u64, bool)>,      // pending SUBSCRIBE (true) / UNSUBSCRIBE ids
    peer_mps: Option<u32>,
    focus: u8,                   // bias of this walk (0 mixed, 1 qos, 2 alias, 3 timers, 4 ids/limits, 5 garbage)
    legal: bool,                 // the application respects the API contract (ids, timers, close)
    started: bool,               // a connection was started in this trace
    force_clean: Option<bool>,   // next handshake: clean start forced on/off
    force_ok: bool,              // next handshake completes successfully (no refusal, always answered)
    force_persist: bool,         // next handshake asks for a persistent session (v5: Session Expiry Interval)
    force_ska: Option<u16>,      // next CONNACK carries this Server Keep Alive
    force_own_rm: Option<u16>,   // the Receive Maximum WE announce in the next CONNECT / CONNACK we send
    force_peer_mps: Option<u32>, // the Maximum Packet Size the PEER announces in the next handshake
    force_peer_tam: Option<u16>, // the Topic Alias Maximum the PEER announces in the next handshake
    boundary: bool,              // publishes are sized around the peer's Maximum Packet Size
    plain_pub: bool,             // publishes carry no manual alias / extra properties
    force_sp: Option<bool>,      // Session Present flag of the next CONNACK (either direction)
    force_rc: Option<u8>,        // return / reason code of the next CONNACK (either direction)
    force_own_tam: Option<u16>,  // the Topic Alias Maximum WE announce in the next handshake
    force_peer_rm: Option<u16>,  // the Receive Maximum the PEER announces in the next handshake
    force_own_mps: Option<u32>,  // the Maximum Packet Size WE announce in the next handshake
    ska_first: bool,             // the next CONNACK lists Server Keep Alive before every other property
    window_ops: Vec<String>,     // calls made between CONNECT and CONNACK of the next handshake
    via_checked: bool,           // this walk uses `checked_send` for half of its sends
}

impl<'a, R: RoleX, T: IsPacketId> Gen<'a, R, T> {
    fn ver(&self) -> u8 {
        let v = self.s.version();
        if v == 0 {
            *[4u8, 5u8].get((self.rng.0 & 1) as usize).unwrap()
        } else {
            v
        }
    }
    fn pw(&self) -> usize {
        self.s.pw
    }
    fn status(&self) -> String {
        self.s.field("st")
    }
    fn idmax(&self) -> u64 {
        if self.pw() == 2 { 65535 } else { 4294967295 }
    }
    fn acts_as_client(&self) -> bool {
        match self.role {
            "client" => true,
            "server" => false,
            _ => self.s.field("cli") == "1" || (self.status() == "D" && self.rng.0 & 2 == 0),
        }
    }
    fn op(&mut self, o: String) {
        // a third of the sends go through the compile-time-checked entry point
        let o = if o.starts_with("send ") && self.via_checked && self.rng.chance(1, 2) { format!("{o} c") } else { o };
        let before = self.s.out_lines.len();
        self.s.apply(&o);
        if self.legal && !self.s.dead && o != "closed" {
            // contract: the transport is reported closed after a close request
            let asked = self.s.out_lines[before..].iter().any(|l| {
                l.split(" | ").nth(2).map(|e| e.split(" ; ").any(|x| x == "close")).unwrap_or(false)
            });
            if asked {
                self.s.apply("closed");
            }
        }
    }
    fn last_ret(&self) -> String {
        self.s.out_lines.last().and_then(|l| l.split(" | ").nth(3)).unwrap_or("-").to_string()
    }
    fn recv(&mut self, bytes: Vec<u8>) {
        // chunking: whole / two pieces / single bytes / with trailing second frame
        let style = self.rng.below(10);
        if style < 6 || bytes.len() < 2 {
            self.op(format!("recv {}", hex(&bytes)));
        } else if style < 9 {
            let cut = 1 + self.rng.below(bytes.len() as u64 - 1) as usize;
            self.op(format!("recv {}", hex(&bytes[..cut])));
            if self.rng.chance(1, 6) {
                // the transport hands over an empty buffer in the middle of the frame
                self.op("recv_empty".into());
            }
            if self.rng.chance(1, 12) {
                // transport lost mid-frame
                self.op("closed".into());
                return;
            }
            self.op(format!("recv {}", hex(&bytes[cut..])));
        } else if bytes.len() <= 24 {
            for b in &bytes {
                self.op(format!("recv {}", hex(&[*b])));
            }
        } else {
            self.op(format!("recv {}", hex(&bytes)));
        }
    }
    fn conn_props(&mut self, for_connack: bool) -> Vec<P> {
        let mut ps = vec![];
        if self.rng.chance(1, 2) {
            ps.push(P::U16(33, *self.rng.pick(&[1u16, 1, 2, 3, 10, 65535])));
        }
        if self.rng.chance(1, 2) {
            ps.push(P::U16(34, *self.rng.pick(&[0u16, 1, 2, 3, 10])));
        }
        if self.rng.chance(1, 4) {
            let v = *self.rng.pick(&[1u32, 2, 3, 4, 5, 6, 8, 12, 20, 30, 50, 100, 130, 131, 132, 133, 134, 100000]);
            ps.push(P::U32(39, v));
        }
        if self.force_persist && !for_connack {
            ps.push(P::U32(17, 100));
        } else if self.force_persist {
            // no Session Expiry override in the CONNACK
        } else if self.rng.chance(1, 3) {
            ps.push(P::U32(17, *self.rng.pick(&[0u32, 0, 100, 4294967295])));
        }
        if for_connack && self.force_ska.is_some() {
            ps.push(P::U16(19, self.force_ska.unwrap()));
        } else if for_connack && self.rng.chance(1, 3) {
            ps.push(P::U16(19, *self.rng.pick(&[0u16, 1, 7, 60])));
        }
        if self.rng.chance(1, 6) {
            ps.push(P::Pair(b"k".to_vec(), b"v".to_vec()));
        }
        if for_connack != self.acts_as_client() {
            // this is our own packet
            if let Some(t) = self.force_own_tam {
                ps.retain(|p| !matches!(p, P::U16(34, _)));
                ps.push(P::U16(34, t));
            }
            if let Some(m) = self.force_own_mps {
                ps.retain(|p| !matches!(p, P::U32(39, _)));
                ps.push(P::U32(39, m));
            }
        }
        if for_connack == self.acts_as_client() {
            // this is the peer's packet
            if let Some(m) = self.force_peer_mps {
                ps.retain(|p| !matches!(p, P::U32(39, _)));
                ps.push(P::U32(39, m));
            }
            if let Some(m) = self.force_peer_rm {
                ps.retain(|p| !matches!(p, P::U16(33, _)));
                ps.push(P::U16(33, m));
            }
            if let Some(t) = self.force_peer_tam {
                ps.retain(|p| !matches!(p, P::U16(34, _)));
                ps.push(P::U16(34, t));
            }
        }
        // random order
        for i in (1..ps.len()).rev() {
            let j = self.rng.below(i as u64 + 1) as usize;
            ps.swap(i, j);
        }
        if for_connack && self.ska_first {
            if let Some(i) = ps.iter().position(|p| matches!(p, P::U16(19, _))) {
                let p = ps.remove(i);
                ps.insert(0, p);
            }
        }
        ps
    }
    fn ka(&mut self) -> u16 {
        *self.rng.pick(&[0u16, 0, 1, 10, 60, 65535])
    }

    fn handshake(&mut self) {
        if self.force_ok && self.legal && self.status() != "D" {
            // a directed scenario starts on a new transport
            self.op("closed".into());
            self.my_ids.clear();
            self.inflight.clear();
            self.rel_wait.clear();
            self.peer_pubs.clear();
            self.subs.clear();
        }
        self.started = true;
        let clean = self.force_clean.unwrap_or_else(|| self.rng.chance(1, 2));
        let force_ok = self.force_ok;
        if self.acts_as_client() {
            let v = self.ver();
            let mut ps = self.conn_props(false);
            if let Some(rm) = self.force_own_rm {
                ps.retain(|p| !matches!(p, P::U16(33, _)));
                ps.push(P::U16(33, rm));
            }
            let ka = self.ka();
            self.op(format!("send {} {}", v, hex(&w_connect(v, clean, ka, b"cid", &ps))));
            let connect_sent = self.s.out_lines.last().map(|l| l.split(" | ").nth(2).unwrap_or("").contains("send{k=1,")).unwrap_or(false);
            if !connect_sent && self.legal {
                // the CONNECT was refused: a conforming server has nothing to answer (the library
                // tolerates an unsolicited CONNACK - contract-respecting walks do not build on that)
                return;
            }
            for o in std::mem::take(&mut self.window_ops) {
                if self.status() == "G" {
                    self.op(o);
                }
            }
            if v == 5 && self.rng.chance(1, 6) {
                // extended authentication: AUTH from the server (sizes around our own limit), our answer
                let n = *self.rng.pick(&[1usize, 10, 60]);
                let b = w_auth(Some(0x18), Some(&vec![b'm'; n]));
                self.op(format!("recv {}", hex(&b)));
                if self.status() == "G" {
                    let n = *self.rng.pick(&[1usize, 10, 60]);
                    self.op(format!("send 5 {}", hex(&w_auth(Some(0x18), Some(&vec![b'm'; n])))));
                }
            }
            if self.status() == "D" && (force_ok || self.legal) {
                // the AUTH exchange ended the connection: a conforming server sends no CONNACK now
                // (the library accepts a CONNACK while disconnected - a documented tolerance the
                // suite relies on; contract-respecting walks do not build on it)
                return;
            }
            if force_ok || self.rng.chance(9, 10) {
                let sp = self.force_sp.unwrap_or(!clean && (force_ok || self.rng.chance(2, 3)));
                let rc = self.force_rc.unwrap_or(if force_ok || self.rng.chance(9, 10) { 0 } else { *self.rng.pick(&[1u8, 2, 5, 0x80, 0x87]) });
                let ps = self.conn_props(true);
                self.peer_mps = ps.iter().find_map(|p| if let P::U32(39, m) = p { Some(*m) } else { None });
                let b = w_connack(v, sp, rc, &ps);
                if force_ok {
                    self.op(format!("recv {}", hex(&b)));
                } else {
                    self.recv(b);
                }
                if v == 5 && self.status() == "C" && self.rng.chance(1, 2) {
                    self.op("vacancy".into());
                }
            }
        } else {
            let v = self.ver();
            let ps = self.conn_props(false);
            self.peer_mps = ps.iter().find_map(|p| if let P::U32(39, m) = p { Some(*m) } else { None });
            let ka = self.ka();
            // (an endpoint whose version is still undetermined meets clients of unsupported levels more often)
            let odd = if self.s.version() == 0 { 5 } else { 25 };
            let lvl = if !force_ok && self.rng.chance(1, odd) { *self.rng.pick(&[3u8, 3, 6, 0]) } else { v };
            let mut bytes = w_connect(v, clean, ka, b"cid", &ps);
            if lvl != v {
                bytes[8] = lvl;
                if lvl == 3 && self.rng.chance(1, 2) {
                    // a real MQTT 3.1 client: protocol name "MQIsdp", level 3
                    let mut b = vec![0x00, 0x06, b'M', b'Q', b'I', b's', b'd', b'p', 0x03, if clean { 0x02 } else { 0x00 }, 0x00, 0x0a, 0x00, 0x03, b'c', b'i', b'd'];
                    let mut f = vec![0x10, b.len() as u8];
                    f.append(&mut b);
                    bytes = f;
                }
            } else if !force_ok && self.rng.chance(1, 12) {
                // a CONNECT the parser refuses (both versions answer with a refusing CONNACK, then close)
                match self.rng.below(5) {
                    0 => bytes[9] |= 1,    // reserved connect flag
                    1 => bytes[9] |= 0x18, // will QoS 3
                    2 if bytes[1] < 127 => {
                        bytes.push(0); // a trailing byte beyond the payload
                        bytes[1] += 1;
                    }
                    3 if bytes[1] < 128 => {
                        bytes.pop(); // truncated client identifier
                        bytes[1] -= 1;
                    }
                    _ if bytes[1] < 128 => {
                        let rl = 7 + self.rng.below(5) as usize;
                        bytes.truncate(2 + rl);
                        bytes[1] = rl as u8;
                    }
                    _ => {}
                }
            }
            if force_ok {
                self.op(format!("recv {}", hex(&bytes)));
            } else {
                self.recv(bytes);
            }
            for o in std::mem::take(&mut self.window_ops) {
                if self.status() == "G" {
                    self.op(o);
                }
            }
            if self.ver() == 5 && self.status() == "G" && self.rng.chance(1, 6) {
                // extended authentication before the CONNACK: the client's limit is already known
                let n = *self.rng.pick(&[1usize, 10, 60]);
                self.op(format!("send 5 {}", hex(&w_auth(Some(0x18), Some(&vec![b'm'; n])))));
                if self.status() == "G" {
                    let n = *self.rng.pick(&[1usize, 10, 60]);
                    self.op(format!("recv {}", hex(&w_auth(Some(0x18), Some(&vec![b'm'; n])))));
                }
            }
            if force_ok || self.rng.chance(9, 10) {
                let v = self.ver();
                let sp = self.force_sp.unwrap_or(!clean && (force_ok || self.rng.chance(2, 3)));
                let rc = self.force_rc.unwrap_or(if force_ok || self.rng.chance(9, 10) { 0 } else { *self.rng.pick(&[1u8, 2, 5, 0x80, 0x87]) });
                let mut ps = self.conn_props(true);
                if let Some(rm) = self.force_own_rm {
                    ps.retain(|p| !matches!(p, P::U16(33, _)));
                    ps.push(P::U16(33, rm));
                }
                self.op(format!("send {} {}", v, hex(&w_connack(v, sp, rc, &ps))));
                if v == 5 && self.status() == "C" && self.rng.chance(1, 2) {
                    self.op("vacancy".into());
                }
            }
        }
    }

    fn fresh_id(&mut self) -> u64 {
        match self.rng.below(12) {
            0 => {
                let v = *self.rng.pick(&[1u64, 2, 3, self.idmax(), self.idmax() - 1, 7]);
                self.op(format!("register {v}"));
                if self.last_ret() == "ok" {
                    self.my_ids.push(v);
                    return v;
                }
                if !self.legal {
                    return v;
                }
                self.fresh_id()
            }
            1 | 2 | 3 if !self.legal => *self.rng.pick(&[0u64, 1, 2, 9, self.idmax()]), // not obtained from the API
            _ => {
                self.op("acquire".into());
                let r = self.last_ret();
                if let Some(v) = r.strip_prefix("ok") {
                    let v: u64 = v.parse().unwrap();
                    self.my_ids.push(v);
                    v
                } else {
                    1
                }
            }
        }
    }

    /// after a send carrying `id`: if the library neither took the id into an exchange nor released
    /// it (a refusal that keeps the id), the application still holds it
    fn after_send(&mut self, id: u64) {
        if id == 0 {
            return;
        }
        let has = |k: &str| self.s.field(k).split(',').any(|x| x == id.to_string());
        let owned = has("suback") || has("unsuback") || has("puback") || has("pubrec") || has("pubcomp");
        let free = self.s.field("pidfree").split(',').any(|iv| {
            let mut it = iv.split('-');
            match (it.next().and_then(|a| a.parse::<u64>().ok()), it.next().and_then(|b| b.parse::<u64>().ok())) {
                (Some(a), Some(b)) => a <= id && id <= b,
                _ => false,
            }
        });
        if owned || free {
            // the library took the identifier into an exchange, or released it: the application no
            // longer holds it (contract: only identifiers it holds are released by it)
            self.my_ids.retain(|x| *x != id);
        } else if !self.my_ids.contains(&id) {
            self.my_ids.push(id);
        }
    }

    fn payload(&mut self) -> Vec<u8> {
        let n = *self.rng.pick(&[0usize, 1, 3, 3, 10, 40, 120, 200]);
        (0..n).map(|i| (i as u8).wrapping_mul(7)).collect()
    }

    fn pub_props(&mut self, with_alias: Option<u16>) -> Vec<P> {
        let mut ps = vec![];
        if self.rng.chance(1, 6) {
            ps.push(P::U8(1, 1));
        }
        if self.rng.chance(1, 8) {
            ps.push(P::U32(2, 60));
        }
        if self.rng.chance(1, 8) {
            ps.push(P::Pair(b"key".to_vec(), b"val".to_vec()));
        }
        if (with_alias.is_some() || self.s.field("amap") == "1" || self.s.field("arep") == "1") && self.rng.chance(1, 6) {
            // the properties other than the alias total 124..129 bytes: with / without the 3-byte
            // alias the property section's length field is one / two bytes wide
            let other: usize = ps.iter().map(|p| match p { P::U8(..) => 2, P::U16(..) => 3, P::U32(..) => 5, P::Str(_, s) => 3 + s.len(), P::Pair(k, v) => 5 + k.len() + v.len() }).sum();
            let target = 124 + self.rng.below(6) as usize;
            if target >= other + 6 {
                ps.push(P::Pair(b"k".to_vec(), vec![b'v'; target - other - 6]));
            }
        }
        if let Some(a) = with_alias {
            // anywhere in the list, not only at its end
            let i = self.rng.below(ps.len() as u64 + 1) as usize;
            ps.insert(i, P::U16(35, a));
        }
        ps
    }

    fn send_publish(&mut self) {
        let v = self.ver();
        let qos = self.rng.below(3) as u8;
        let id = if qos > 0 { self.fresh_id() } else { 0 };
        let mut topic: Vec<u8> = self.rng.pick(&TOPICS).to_vec();
        let mut alias = None;
        if v == 5 {
            match self.rng.below(if self.focus == 2 { 4 } else { 8 }) {
                0 => alias = Some(*self.rng.pick(&[1u16, 2, 3, 4, 0, 11])),
                1 => {
                    alias = Some(*self.rng.pick(&[1u16, 2, 3, 4]));
                    topic.clear();
                }
                2 if self.rng.chance(1, 4) => topic.clear(),
                _ => {}
            }
        }
        if self.plain_pub {
            alias = None;
            if topic.is_empty() {
                topic = self.rng.pick(&TOPICS).to_vec();
            }
        }
        let ps = if self.plain_pub { vec![] } else { self.pub_props(alias) };
        let mut pl = self.payload();
        let dup = self.rng.chance(1, 10);
        let retain = self.rng.chance(1, 8);
        let mut bytes = w_publish(v, self.pw(), qos, dup, retain, &topic, id, &ps, &pl);
        if let Some(l) = self.peer_mps {
            if v == 5 && l <= 400 && (self.boundary || self.rng.chance(1, 3)) {
                // boundary: total size within a few bytes of the peer's Maximum Packet Size
                let target = (l as i64 + *self.rng.pick(&[-4i64, -3, -3, -3, -2, -1, 0, 0, 1])).max(0) as usize;
                let s0 = w_publish(v, self.pw(), qos, dup, retain, &topic, id, &ps, &[]).len();
                let mut n = target.saturating_sub(s0);
                loop {
                    pl = (0..n).map(|i| (i as u8).wrapping_mul(7)).collect();
                    bytes = w_publish(v, self.pw(), qos, dup, retain, &topic, id, &ps, &pl);
                    if bytes.len() <= target || n == 0 {
                        break;
                    }
                    n -= 1;
                }
            }
        }
        self.my_ids.retain(|x| *x != id);
        self.op(format!("send {} {}", v, hex(&bytes)));
        if qos > 0 {
            self.after_send(id);
            self.inflight.push((id, qos));
        }
        if v == 5 && self.rng.chance(1, 3) {
            self.op("vacancy".into());
        }
    }

    fn peer_ack(&mut self) {
        let v = self.ver();
        let pw = self.pw();
        // choose what to acknowledge: matching (mostly), wrong kind, wrong id, duplicate
        let pick_inflight = !self.inflight.is_empty() && self.rng.chance(3, 4);
        let (id, qos) = if pick_inflight {
            let i = self.rng.below(self.inflight.len() as u64) as usize;
            self.inflight[i]
        } else if !self.rel_wait.is_empty() && self.rng.chance(3, 4) {
            (self.rel_wait[self.rng.below(self.rel_wait.len() as u64) as usize], 3)
        } else {
            (*self.rng.pick(&[0u64, 1, 2, 3, 5, self.idmax()]), 1 + self.rng.below(3) as u8)
        };
        let mut nib = match qos {
            1 => 4,
            2 => 5,
            _ => 7,
        };
        if self.rng.chance(1, 10) {
            nib = *self.rng.pick(&[4u8, 5, 7]);
        }
        let rc = if v == 5 && self.rng.chance(1, 3) { Some(*self.rng.pick(&[0u8, 0, 0x10, 0x80, 0x87, 0x92, 0x97])) } else { None };
        let ps: Option<&[P]> = if rc.is_some() && self.rng.chance(1, 3) { Some(&[]) } else { None };
        let bytes = w_ack(v, pw, nib, id, rc, ps);
        self.recv(bytes);
        if v == 5 && self.rng.chance(1, 3) {
            self.op("vacancy".into());
        }
        // bookkeeping (optimistic)
        if nib == 4 || nib == 7 {
            self.inflight.retain(|x| x.0 != id);
            self.rel_wait.retain(|x| *x != id);
        }
        if nib == 5 {
            self.inflight.retain(|x| x.0 != id);
            if self.s.field("apr") == "1" {
                self.rel_wait.push(id);
            } else if self.rng.chance(3, 4) && (!self.legal || (qos == 2 && pick_inflight && self.pubrec_delivered(id) && self.pubrec_done(id))) {
                // manual PUBREL
                let b = if v == 5 && self.rng.chance(1, 3) {
                    let n = *self.rng.pick(&[1usize, 10, 40]);
                    w_ack(v, pw, 6, id, Some(0), Some(&[P::Pair(b"k".to_vec(), vec![b'v'; n])]))
                } else {
                    w_ack(v, pw, 6, id, None, None)
                };
                self.op(format!("send {} {}", v, hex(&b)));
                self.rel_wait.push(id);
            }
        }
    }

    /// the last call delivered a PUBREC for `id`
    fn pubrec_delivered(&self, id: u64) -> bool {
        self.s.out_lines.last().map(|l| l.split(" | ").nth(2).unwrap_or("").contains(&format!("recv{{k=5,v={},sz=", self.s.version())) && l.contains(&format!(",pid={id},"))).unwrap_or(false)
    }

    /// the PUBREC for `id` has been processed: the id is in use, in no wait set, not stored
    fn pubrec_done(&self, id: u64) -> bool {
        let has = |k: &str| self.s.field(k).split(',').any(|x| x == id.to_string());
        let stored = self.s.digest().contains(&format!("store={id}:")) || self.s.digest().contains(&format!(";{id}:{{"));
        !has("pubrec") && !has("puback") && !has("pubcomp") && !stored && self.s.field("st") == "C"
    }

    fn peer_publish(&mut self) {
        let v = self.ver();
        let mut qos = self.rng.below(3) as u8;
        let mut id = *self.rng.pick(&[1u64, 1, 2, 3, 0, self.idmax()]);
        if !self.peer_pubs.is_empty() && self.rng.chance(1, 4) {
            // retransmission of an earlier QoS>0 PUBLISH of the peer
            let (i, q) = self.peer_pubs[self.rng.below(self.peer_pubs.len() as u64) as usize];
            id = i;
            qos = q;
        }
        let mut topic: Vec<u8> = self.rng.pick(&TOPICS).to_vec();
        let mut alias = None;
        if v == 5 {
            match self.rng.below(if self.focus == 2 { 4 } else { 8 }) {
                0 => alias = Some(*self.rng.pick(&[1u16, 2, 3, 0, 11])),
                1 => {
                    alias = Some(*self.rng.pick(&[1u16, 2, 3]));
                    topic.clear();
                }
                2 if self.rng.chance(1, 4) => topic.clear(),
                _ => {}
            }
        }
        if self.rng.chance(1, 30) {
            topic = b"w/#".to_vec();
        }
        let ps = self.pub_props(alias);
        let pl = self.payload();
        let dup = self.rng.chance(1, 4);
        let bytes = w_publish(v, self.pw(), qos, dup, false, &topic, id, &ps, &pl);
        self.recv(bytes);
        if qos > 0 && !self.peer_pubs.contains(&(id, qos)) {
            self.peer_pubs.push((id, qos));
        }
    }

    fn local_ack(&mut self) {
        let v = self.ver();
        let pw = self.pw();
        let (id, qos) = if !self.peer_pubs.is_empty() && self.rng.chance(5, 6) {
            let i = self.rng.below(self.peer_pubs.len() as u64) as usize;
            self.peer_pubs[i]
        } else {
            (*self.rng.pick(&[1u64, 2, 3, 9]), 1 + self.rng.below(2) as u8)
        };
        let nib = if qos == 1 { 4 } else { *self.rng.pick(&[5u8, 5, 7]) };
        let rc = if v == 5 && self.rng.chance(1, 3) { Some(*self.rng.pick(&[0u8, 0x10, 0x10, 0x80, 0x87, 0x92])) } else { None };
        let bytes = w_ack(v, pw, nib, id, rc, None);
        self.op(format!("send {} {}", v, hex(&bytes)));
        if nib != 5 {
            self.peer_pubs.retain(|x| x.0 != id);
        } else if self.rng.chance(1, 3) {
            // the peer retransmits the PUBLISH (our PUBREC was lost on the way)
            let b = w_publish(v, pw, 2, true, false, b"a", id, &[], b"m");
            self.recv(b);
        }
    }

    fn peer_pubrel(&mut self) {
        let v = self.ver();
        let id = if !self.peer_pubs.is_empty() && self.rng.chance(4, 5) {
            self.peer_pubs[self.rng.below(self.peer_pubs.len() as u64) as usize].0
        } else {
            *self.rng.pick(&[1u64, 2, 3, 0])
        };
        let rc = if v == 5 && self.rng.chance(1, 4) { Some(*self.rng.pick(&[0u8, 0x92])) } else { None };
        let bytes = w_ack(v, self.pw(), 6, id, rc, None);
        self.recv(bytes);
    }

    fn subscribe_flow(&mut self) {
        let v = self.ver();
        let pw = self.pw();
        // filters: plain, non-ASCII (multi-byte characters at various byte offsets), shared
        const FILTERS: [&[u8]; 10] = [b"f/#", b"x", "se\u{f1}al\u{e9}s/#".as_bytes(), "\u{65e5}\u{672c}\u{8a9e}/+".as_bytes(), "sensor\u{20ac}/t".as_bytes(),
            b"$share/g/t", "$share/\u{e9}/t".as_bytes(), "abcdef\u{1f600}".as_bytes(), b"$share", b"$shared/x"];
        match self.rng.below(6) {
            0 | 1 => {
                let id = self.fresh_id();
                let f: &[u8] = if self.rng.chance(1, 3) { *self.rng.pick(&FILTERS) } else { b"f/#" };
                let b = w_subscribe(v, pw, id, &[(f, self.rng.below(3) as u8)], &[]);
                self.my_ids.retain(|x| *x != id);
                self.op(format!("send {} {}", v, hex(&b)));
                self.after_send(id);
                self.subs.push((id, true));
                self.maybe_write_error(id);
            }
            2 => {
                let id = self.fresh_id();
                let f: &[u8] = if self.rng.chance(1, 3) { *self.rng.pick(&FILTERS) } else { b"f/#" };
                let b = w_unsubscribe(v, pw, id, &[f]);
                self.my_ids.retain(|x| *x != id);
                self.op(format!("send {} {}", v, hex(&b)));
                self.after_send(id);
                self.subs.push((id, false));
                self.maybe_write_error(id);
            }
            3 | 4 => {
                // peer answers
                let (id, is_sub) = if !self.subs.is_empty() && self.rng.chance(4, 5) {
                    self.subs[self.rng.below(self.subs.len() as u64) as usize]
                } else {
                    (*self.rng.pick(&[0u64, 1, 2, 77]), self.rng.chance(1, 2))
                };
                let flip = self.rng.chance(1, 10);
                let b = if is_sub != flip { w_suback(v, pw, id, &[self.rng.below(3) as u8]) } else { w_unsuback(v, pw, id, &[0]) };
                self.recv(b);
                self.subs.retain(|x| x.0 != id);
            }
            _ => {
                // peer subscribes / we answer (server side)
                let id = *self.rng.pick(&[1u64, 2, 0, 300]);
                if self.rng.chance(1, 2) {
                    let f: &[u8] = *self.rng.pick(&FILTERS);
                    let b = if self.rng.chance(1, 2) { w_subscribe(v, pw, id, &[(f, 1)], &[]) } else { w_unsubscribe(v, pw, id, &[f]) };
                    self.recv(b);
                } else {
                    let b = if self.rng.chance(1, 2) { w_suback(v, pw, id, &[1]) } else { w_unsuback(v, pw, id, &[0]) };
                    self.op(format!("send {} {}", v, hex(&b)));
                }
            }
        }
    }

    /// the transport reports a write error for the packet just requested: the application follows
    /// the `release_packet_id_if_send_error` hint of the event (the acknowledgement may arrive anyway)
    fn maybe_write_error(&mut self, id: u64) {
        let hinted = self.s.out_lines.last().map(|l| l.split(" | ").nth(2).unwrap_or("").contains(&format!("}}{id}#"))).unwrap_or(false);
        if hinted && self.rng.chance(1, 6) {
            self.op(format!("release {id}"));
        }
    }

    fn ping_timer(&mut self) {
        let v = self.ver();
        match self.rng.below(9) {
            0 => {
                let fh = if v == 4 || self.rng.chance(9, 10) { 0xc0 } else { 0xc1 };
                self.op(format!("send {} {}", v, hex(&w_simple(fh))));
            }
            1 => self.recv(w_simple(0xd0)),
            2 => self.recv(w_simple(0xc0)),
            3 => self.op(format!("send {} {}", v, hex(&w_simple(0xd0)))),
            4 | 5 | 6 => {
                // fire a timer that is armed (contract), rarely one that is not
                let armed: Vec<usize> = (0..3).filter(|k| self.s.armed[*k]).collect();
                if !armed.is_empty() {
                    let k = *self.rng.pick(&armed);
                    self.op(format!("timer {}", ["S", "R", "P"][k]));
                } else if !self.legal && self.rng.chance(1, 10) {
                    let k = self.rng.below(3) as usize;
                    if self.s.version() != 0 {
                        self.op(format!("timer {}", ["S", "R", "P"][k]));
                    }
                }
            }
            7 => {
                let d = *self.rng.pick(&["none", "0", "500", "30000"]);
                self.op(format!("interval {d}"));
            }
            _ => {
                let t = *self.rng.pick(&[0u64, 0, 1000, 5000]);
                self.op(format!("rto {t}"));
            }
        }
    }

    fn misc(&mut self) {
        match self.rng.below(14) {
            0 => {
                if self.rng.chance(1, 3) {
                    // the offline-publish option may be switched at any time
                    let on = self.rng.chance(1, 2) as u8;
                    self.op(format!("set off {on}"));
                } else {
                    self.op("vacancy".into())
                }
            }
            1 => self.op("stored".into()),
            2 => self.op("handled".into()),
            3 if !self.legal => {
                let v = *self.rng.pick(&[0u64, 1, 2, 3, self.idmax()]);
                self.op(format!("release {v}"));
                self.my_ids.retain(|x| *x != v);
            }
            3 => {
                // releasing a free / out-of-range id is allowed by the API (total)
                let v = *self.rng.pick(&[0u64, self.idmax()]);
                let free = self.s.field("pidfree");
                if v == 0 || free.ends_with(&format!("-{}", self.idmax())) {
                    self.op(format!("release {v}"));
                }
            }
            4 => {
                if let Some(v) = self.my_ids.pop() {
                    self.op(format!("release {v}"));
                } else if !self.inflight.is_empty() && self.s.field("store") == "-" && self.rng.chance(1, 2) {
                    // the application abandons an exchange in flight (nothing of it is stored): the
                    // identifier is released, the late acknowledgements of the peer still arrive
                    let (id, _) = self.inflight[self.rng.below(self.inflight.len() as u64) as usize];
                    self.op(format!("release {id}"));
                    self.op("vacancy".into());
                }
            }
            5 => {
                let id = if !self.inflight.is_empty() { self.inflight[0].0 } else { 1 };
                self.op(format!("erase {id}"));
                self.inflight.retain(|x| x.0 != id);
            }
            6 => {
                let f = *self.rng.pick(&["off", "apr", "aping", "amap", "arep"]);
                let b = self.rng.below(2);
                self.op(format!("set {f} {b}"));
            }
            7 => {
                let v = *self.rng.pick(&[0u64, 1, 2, 5, self.idmax()]);
                self.op(format!("register {v}"));
                if self.last_ret() == "ok" {
                    self.my_ids.push(v);
                }
            }
            8 => {
                let v = self.ver();
                if v == 5 {
                    let rc = if self.rng.chance(1, 2) { Some(*self.rng.pick(&[0u8, 0x18, 0x19])) } else { None };
                    let b = w_auth(rc, Some(b"m"));
                    if self.rng.chance(1, 2) {
                        self.op(format!("send 5 {}", hex(&b)));
                    } else {
                        self.recv(b);
                    }
                }
            }
            9 => {
                let v = self.ver();
                if v == 5 {
                    let topic: &[u8] = if self.rng.chance(1, 2) { b"" } else { b"a" };
                    let alias = if self.rng.chance(2, 3) { Some(*self.rng.pick(&[1u16, 2, 3])) } else { None };
                    let ps = self.pub_props(alias);
                    let b = w_publish(5, self.pw(), 1, false, false, topic, 1, &ps, b"x");
                    self.op(format!("regulate {}", hex(&b)));
                }
            }
            10 if !self.legal || !self.started => {
                let ids = *self.rng.pick(&["-", "1", "1,2", "3"]);
                self.op(format!("restore_h {ids}"));
            }
            11 if self.status() == "D" && (!self.legal || !self.started) => {
                // restore packets (incl. malformed exports: duplicate ids, QoS 0 entries)
                let v = if self.s.version() == 0 { 5 } else { self.s.version() };
                let pw = self.pw();
                let mut items = vec![];
                let n = 1 + self.rng.below(3);
                for _ in 0..n {
                    let id = *self.rng.pick(&[1u64, 2, 2, 3]);
                    let b = match self.rng.below(4) {
                        0 => w_ack(v, pw, 6, id, None, None),
                        1 => w_publish(v, pw, 0, false, false, b"a", 0, &[], b"q0"),
                        k => w_publish(v, pw, k as u8 - 1, true, false, b"a", id, &[], b"pl"),
                    };
                    items.push(format!("{}:{}", v, hex(&b)));
                }
                self.op(format!("restore_p {}", items.join(",")));
            }
            _ => {
                // wrong-direction / unusual packets through send
                let v = self.ver();
                let other = if v == 4 { 5 } else { 4 };
                let b = match self.rng.below(4) {
                    0 => w_connack(v, false, 0, &[]),
                    1 => w_connect(v, true, 0, b"c", &[]),
                    2 => w_simple(0xe0),
                    _ => w_connect(other, true, 0, b"c", &[]),
                };
                let vv = if self.rng.chance(1, 4) { other } else { v };
                self.op(format!("send {} {}", vv, hex(&b)));
            }
        }
    }

    fn misc_restore(&mut self) {
        let v = if self.s.version() == 0 { 5 } else { self.s.version() };
        let pw = self.pw();
        // (stored packets must be of the connection's version: an undetermined object has none yet)
        if self.rng.chance(1, 2) || (self.legal && self.s.version() == 0) {
            let ids = *self.rng.pick(&["-", "1", "1,2", "3"]);
            self.op(format!("restore_h {ids}"));
        } else {
            let mut items = vec![];
            let n = 1 + self.rng.below(3);
            for _ in 0..n {
                let id = *self.rng.pick(&[1u64, 2, 2, 3]);
                let b = match self.rng.below(4) {
                    0 => w_ack(v, pw, 6, id, None, None),
                    1 => w_publish(v, pw, 0, false, false, b"a", 0, &[], b"q0"),
                    k => w_publish(v, pw, k as u8 - 1, true, false, b"a", id, &[], b"pl"),
                };
                items.push(format!("{}:{}", v, hex(&b)));
            }
            self.op(format!("restore_p {}", items.join(",")));
        }
    }

    fn ending(&mut self) {
        let v = self.ver();
        match self.rng.below(6) {
            0 | 1 | 2 => self.op("closed".into()),
            3 => {
                let b = if v == 5 { w_disconnect5(if self.rng.chance(1, 2) { Some(*self.rng.pick(&[0u8, 4, 0x80, 0x8e])) } else { None }, None) } else { w_simple(0xe0) };
                self.op(format!("send {} {}", v, hex(&b)));
                if self.rng.chance(2, 3) {
                    self.op("closed".into());
                }
            }
            _ => {
                let b = if v == 5 { w_disconnect5(Some(0x8b), None) } else { w_simple(0xe0) };
                self.recv(b);
                if self.rng.chance(2, 3) {
                    self.op("closed".into());
                }
            }
        }
        if self.rng.chance(1, 2) {
            // what the peer and the application forget with the connection
            self.subs.clear();
        }
    }

    /// several complete frames of the peer in ONE receive buffer: an unmatched acknowledgement or
    /// a malformed frame first, then frames that are answered automatically
    fn burst(&mut self) {
        let v = self.ver();
        let pw = self.pw();
        let mut b: Vec<u8> = match self.rng.below(4) {
            0 => w_ack(v, pw, 4, *self.rng.pick(&[1u64, 7, 9]), None, None),
            1 => w_ack(v, pw, 7, *self.rng.pick(&[1u64, 7, 9]), None, None),
            2 => w_publish(v, pw, 0, false, false, b"a", 0, &[], b"b1"),
            _ => w_simple(0xd0),
        };
        for _ in 0..(1 + self.rng.below(2)) {
            match self.rng.below(4) {
                0 => b.extend(w_simple(0xc0)),
                1 => b.extend(w_publish(v, pw, 2, true, false, b"a", *self.rng.pick(&[1u64, 2]), &[], b"b2")),
                2 => b.extend(w_publish(v, pw, 1, false, false, b"a", 3, &[], b"b3")),
                _ => b.extend(w_ack(v, pw, 6, *self.rng.pick(&[1u64, 2]), None, None)),
            }
        }
        self.op(format!("recv {}", hex(&b)));
    }

    fn garbage(&mut self) {
        let v = self.ver();
        let pw = self.pw();
        match self.rng.below(8) {
            6 => {
                // packet kinds without a body arriving with one; a CONNACK with reserved flag bits
                let b = match self.rng.below(5) {
                    0 => vec![0xc0, 0x01, 0x00],
                    1 => vec![0xd0, 0x01, 0x00],
                    2 => vec![0xd0, 0x02, 0x00, 0x00],
                    3 if v == 4 => vec![0xe0, 0x01, 0x00],
                    _ if !self.legal || self.status() != "D" => {
                        let mut b = w_connack(v, false, 0, &[]);
                        b[2] |= 0x02;
                        b
                    }
                    _ => vec![0xc0, 0x01, 0x00],
                };
                self.recv(b);
            }
            7 => {
                // frames whose Remaining Length needs three bytes; only into an idle assembler (a
                // desynchronised one would cut the buffer into thousands of calls, each recorded
                // with the rest of the buffer)
                if self.s.field("pb") == "F//0/1/" && self.rng.chance(1, 3) {
                    let target: usize = 16381 + self.rng.below(6) as usize;
                    let base = w_publish(v, pw, 0, false, false, b"a", 0, &[], b"").len() - 2;
                    let b = w_publish(v, pw, 0, false, false, b"a", 0, &[], &vec![0x42u8; target - base]);
                    self.op(format!("recv {}", hex(&b)));
                } else {
                    self.recv(w_simple(0xd0));
                }
            }
            0 => {
                let n = 1 + self.rng.below(8);
                let g: Vec<u8> = (0..n).map(|_| self.rng.below(256) as u8).collect();
                self.recv(g);
            }
            1 => {
                // over-long Remaining Length; framing must resume at the very next byte
                let mut b = vec![0x30, 0xff, 0xff, 0xff, 0xff];
                match self.rng.below(3) {
                    0 => b.push(0x00),
                    1 => b.extend(w_publish(v, pw, 0, false, false, b"a", 0, &[], b"after")),
                    _ => b.extend(w_simple(0xd0)),
                }
                self.recv(b)
            }
            2 => {
                // mutate a valid frame
                let mut b = match self.rng.below(5) {
                    0 => w_publish(v, pw, 1, false, false, b"a", 1, &[], b"pl"),
                    1 => w_ack(v, pw, 4, 1, Some(0), Some(&[])),
                    // (contract: no CONNACK, mutated or not, for an endpoint that has sent no CONNECT on this transport)
                    2 if !self.legal || self.status() == "C" || (self.status() == "G" && self.s.field("cli") == "1") => w_connack(v, false, 0, &[P::U16(33, 5)]),
                    2 | 3 => w_suback(v, pw, 1, &[0]),
                    _ => w_connect(v, true, 10, b"c", &[P::U16(34, 3)]),
                };
                match self.rng.below(4) {
                    0 => {
                        let i = self.rng.below(b.len() as u64) as usize;
                        b[i] ^= 1 << self.rng.below(8);
                    }
                    1 => {
                        let n = self.rng.below(b.len() as u64) as usize;
                        b.truncate(n.max(1));
                        // fix the remaining length so that the frame completes
                        if b.len() >= 2 {
                            b[1] = (b.len() - 2) as u8;
                        }
                    }
                    2 => {
                        let i = 2 + self.rng.below((b.len() - 1) as u64) as usize;
                        b.insert(i.min(b.len()), *self.rng.pick(&[0x00u8, 0x80, 0xff]));
                        b[1] = (b.len() - 2) as u8;
                    }
                    _ => {
                        b[1] = b[1].wrapping_add(1);
                        b.push(0);
                    }
                }
                self.recv(b);
            }
            3 => {
                let fh = *self.rng.pick(&[0x00u8, 0xf0, 0x10, 0x20, 0x62, 0x82]);
                self.recv(w_simple(fh))
            }
            4 => {
                // oversize for a small local maximum packet size
                let b = w_publish(v, pw, 0, false, false, b"topic/long/name", 0, &[], &[0u8; 150]);
                self.recv(b);
            }
            _ => {
                // protocol violations of the peer on an established connection: a second CONNACK
                // (accepted / refused, session present or not), a second CONNECT
                if self.status() == "C" && self.rng.chance(3, 4) {
                    if self.rng.chance(2, 3) {
                        let rc = *self.rng.pick(&[0u8, 0, if v == 5 { 0x80 } else { 2 }, if v == 5 { 0x87 } else { 5 }]);
                        let sp = rc == 0 && self.rng.chance(1, 2);
                        let ps: Vec<P> = if v == 5 && self.rng.chance(1, 2) { vec![P::U16(33, 5)] } else { vec![] };
                        self.recv(w_connack(v, sp, rc, &ps));
                    } else {
                        let clean = self.rng.chance(1, 2);
                        self.recv(w_connect(v, clean, 10, b"c2", &[]));
                    }
                } else if !self.legal || (self.status() == "G" && self.s.field("cli") == "1") {
                    // (contract: no CONNACK for an endpoint that has not sent a CONNECT on this transport)
                    self.recv(w_connack(v, true, 0, &[P::U16(33, 0)]))
                } else {
                    self.recv(w_simple(0xd0))
                }
            }
        }
    }

    fn step(&mut self) {
        let st = self.status();
        if st == "D" && self.rng.chance(3, 5) {
            self.handshake();
            return;
        }
        let f = self.focus;
        let r = self.rng.below(100);
        let w = |base: u64, boost: u64, on: bool| if on { base + boost } else { base };
        let mut acc = 0;
        macro_rules! pick {
            ($weight:expr, $body:block) => {
                acc += $weight;
                if r < acc {
                    $body;
                    return;
                }
            };
        }
        pick!(w(16, 10, f == 1 || f == 2 || f == 4), { self.send_publish() });
        pick!(w(14, 8, f == 1 || f == 4), { self.peer_ack() });
        pick!(w(12, 8, f == 1 || f == 2), { self.peer_publish() });
        pick!(w(7, 4, f == 1), { self.local_ack() });
        pick!(w(5, 4, f == 1), { self.peer_pubrel() });
        pick!(w(7, 0, true), { self.subscribe_flow() });
        pick!(w(8, 14, f == 3), { self.ping_timer() });
        pick!(w(9, 8, f == 4), { self.misc() });
        pick!(w(5, 0, true), { self.ending() });
        pick!(w(3, 20, f == 5), { if self.rng.chance(1, 4) { self.burst() } else { self.garbage() } });
        self.handshake();
    }
}

fn walk<R: RoleX, T: IsPacketId>(role: &'static str, ver: u8, steps: usize, rng: &mut Rng, name: &str, out: &mut dyn Write, mode: u8) -> bool {
    if mode == 1 {
        return reuse_trial::<R, T>(role, ver, steps, rng, name, out);
    }
    if mode == 2 {
        return restore_trial::<R, T>(role, ver, steps, rng, name, out);
    }
    let focus = rng.below(6) as u8;
    let legal = !rng.chance(1, 8);
    let mut g = Gen::<R, T> {
        s: Sess::new(ver),
        rng,
        role,
        my_ids: vec![],
        inflight: vec![],
        rel_wait: vec![],
        peer_pubs: vec![],
        subs: vec![],
        peer_mps: None,
        focus,
        legal,
        started: false,
        force_clean: None,
        force_ok: false,
        force_persist: false,
        force_ska: None,
        force_own_rm: None,
        force_peer_mps: None,
        force_peer_tam: None,
        boundary: false,
        plain_pub: false,
        force_sp: None,
        force_rc: None,
        force_own_tam: None,
        force_peer_rm: None,
        force_own_mps: None,
        ska_first: false,
        window_ops: vec![],
        via_checked: false,
    };
    // options
    for f in ["off", "apr", "aping", "amap", "arep"] {
        if g.rng.chance(2, 5) {
            g.op(format!("set {f} 1"));
        }
    }
    g.via_checked = g.rng.chance(1, 2);
    if g.rng.chance(1, 4) {
        let t = *g.rng.pick(&[1000u64, 3000]);
        g.op(format!("rto {t}"));
    }
    if g.rng.chance(1, 6) {
        let t = *g.rng.pick(&["0", "700"]);
        g.op(format!("interval {t}"));
    }
    if g.legal && g.s.version() == 5 && g.rng.chance(1, 6) {
        // directed: interval priority (override set before CONNACK, Server Keep Alive present,
        // override withdrawn afterwards, then a send)
        g.op("interval 700".into());
        g.force_ok = true;
        g.force_ska = Some(*g.rng.pick(&[0u16, 3, 7]));
        // the properties that follow Server Keep Alive in the CONNACK count as well
        let limits = g.rng.chance(1, 2);
        if limits {
            g.ska_first = true;
            g.force_peer_mps = Some(*g.rng.pick(&[20u32, 30]));
            g.force_peer_rm = Some(1);
            g.force_peer_tam = Some(1);
        }
        g.handshake();
        g.force_ok = false;
        g.force_ska = None;
        g.ska_first = false;
        g.force_peer_mps = None;
        g.force_peer_rm = None;
        g.force_peer_tam = None;
        if limits && g.status() == "C" {
            let pw = g.pw();
            g.op("vacancy".into());
            g.op(format!("send 5 {}", hex(&w_publish(5, pw, 0, false, false, b"a", 0, &[], &[7u8; 40]))));
            g.op(format!("send 5 {}", hex(&w_publish(5, pw, 0, false, false, b"a", 0, &[P::U16(35, 1)], b"x"))));
            g.op(format!("send 5 {}", hex(&w_publish(5, pw, 0, false, false, b"", 0, &[P::U16(35, 1)], b"x"))));
            for _ in 0..2 {
                let id = g.fresh_id();
                g.op(format!("send 5 {}", hex(&w_publish(5, pw, 1, false, false, b"a", id, &[], b"x"))));
                g.after_send(id);
            }
        }
        g.op("interval none".into());
        g.send_publish();
    }
    if g.legal && g.s.version() == 5 && g.rng.chance(1, 6) {
        // directed: inbound QoS 2 interrupted before PUBREL, resume, retransmission, then more
        // QoS>0 PUBLISH than our announced Receive Maximum
        let rm = *g.rng.pick(&[1u16, 2]);
        let pw = g.pw();
        g.force_ok = true;
        g.force_persist = true;
        g.force_clean = Some(false);
        g.force_own_rm = Some(rm);
        g.handshake();
        if g.status() == "C" {
            g.op(format!("recv {}", hex(&w_publish(5, pw, 2, false, false, b"a", 1, &[], b"m1"))));
            g.op("closed".into());
            g.handshake();
            g.op(format!("recv {}", hex(&w_publish(5, pw, 2, true, false, b"a", 1, &[], b"m1"))));
            let q = 1 + g.rng.below(2) as u8;
            for i in 0..rm as u64 {
                g.op(format!("recv {}", hex(&w_publish(5, pw, q, false, false, b"b", 2 + i, &[], b"m2"))));
            }
            if g.rng.chance(1, 2) {
                // the over-quota PUBLISH ended the connection; resume once more and let the peer
                // retransmit what it still holds
                if g.status() != "D" {
                    g.op("closed".into());
                }
                g.handshake();
                if g.status() == "C" {
                    let i = g.rng.below(rm as u64);
                    g.op(format!("recv {}", hex(&w_publish(5, pw, q, true, false, b"b", 2 + i, &[], b"m2"))));
                }
            }
        }
        g.force_ok = false;
        g.force_persist = false;
        g.force_clean = None;
        g.force_own_rm = None;
    }
    if g.legal && g.s.version() == 5 && g.rng.chance(1, 6) {
        // directed: automatic alias mapping at the Maximum Packet Size boundary (sizes where the
        // 3-byte alias property pushes the remaining length over a variable-byte-integer step)
        g.op("set amap 1".into());
        g.force_ok = true;
        // variant: the properties total 125..127 bytes, so the added alias widens the property
        // length field as well; the limit sits at the size after the rewrite (one byte more / less)
        let wide: Option<Vec<u8>> = if g.rng.chance(1, 3) {
            let other = 124 + g.rng.below(5) as usize;
            let q = *g.rng.pick(&[0u8, 1]);
            Some(w_publish(5, g.pw(), q, false, false, b"a", 1, &[P::Pair(b"k".to_vec(), vec![b'v'; other - 6])], b"x"))
        } else {
            None
        };
        g.force_peer_mps = Some(match &wide {
            Some(b) => (b.len() as i64 + 3 + *g.rng.pick(&[-1i64, 0, 0, 1, 1])) as u32,
            None => *g.rng.pick(&[64u32, 100, 129, 130, 131, 132, 133, 134]),
        });
        g.force_peer_tam = Some(*g.rng.pick(&[1u16, 2, 3]));
        g.handshake();
        g.force_ok = false;
        g.force_peer_mps = None;
        g.force_peer_tam = None;
        if let Some(b) = wide {
            if g.status() == "C" {
                let q1 = (b[0] >> 1) & 3 > 0;
                let mut ok = true;
                if q1 {
                    // (contract: the identifier is handed to a send only if the application obtained it)
                    g.op("register 1".into());
                    ok = g.last_ret() == "ok";
                }
                if ok {
                    g.op(format!("send 5 {}", hex(&b)));
                    if q1 {
                        g.after_send(1);
                    }
                }
            }
        }
        g.boundary = true;
        g.plain_pub = true;
        for _ in 0..6 {
            g.send_publish();
            if g.rng.chance(1, 2) {
                g.boundary = !g.boundary;
            }
        }
        g.boundary = false;
        g.plain_pub = false;
    }
    if g.legal && g.s.version() == 5 && g.rng.chance(1, 6) {
        // directed: alias table churn over two topics and two aliases (announce, re-announce the
        // same binding, rebind, alias-only, plain publishes that automatic replacement may rewrite)
        for f in ["arep", "amap"] {
            let on = g.rng.chance(1, 2) as u8;
            g.op(format!("set {f} {on}"));
        }
        if g.rng.chance(1, 2) {
            g.op("set off 1".into());
            g.force_persist = true;
        }
        g.force_ok = true;
        // (sometimes the whole alias range, the churn then runs over its two highest values)
        let top = g.rng.chance(1, 4);
        g.force_peer_tam = Some(if top { 65535 } else { *g.rng.pick(&[1u16, 2, 2, 3]) });
        g.handshake();
        g.force_ok = false;
        g.force_persist = false;
        g.force_peer_tam = None;
        let pw = g.pw();
        let ts: [&[u8]; 2] = [b"a", b"b"];
        let mut bound: Vec<(u16, usize)> = vec![];
        for _ in 0..10 {
            if g.status() != "C" {
                break;
            }
            let choice = g.rng.below(6);
            let (topic, alias): (Vec<u8>, Option<u16>) = match choice {
                0 | 1 if !bound.is_empty() => {
                    // re-announce an existing binding
                    let (a, t) = bound[g.rng.below(bound.len() as u64) as usize];
                    (ts[t].to_vec(), Some(a))
                }
                2 if !bound.is_empty() => {
                    // rebind an alias in use to the other topic
                    let (a, t) = bound[g.rng.below(bound.len() as u64) as usize];
                    (ts[1 - t].to_vec(), Some(a))
                }
                3 if !bound.is_empty() => {
                    let (a, _) = bound[g.rng.below(bound.len() as u64) as usize];
                    (vec![], Some(a))
                }
                4 | 5 => (ts[g.rng.below(2) as usize].to_vec(), None),
                _ => (ts[g.rng.below(2) as usize].to_vec(), Some(if top { *g.rng.pick(&[65535u16, 65535, 65534]) } else { *g.rng.pick(&[1u16, 2]) })),
            };
            if let (Some(a), false) = (alias, topic.is_empty()) {
                let t = if topic == ts[0] { 0 } else { 1 };
                bound.retain(|x| x.0 != a);
                bound.push((a, t));
            }
            let ps: Vec<P> = alias.map(|a| vec![P::U16(35, a)]).unwrap_or_default();
            g.op(format!("send 5 {}", hex(&w_publish(5, pw, 0, false, false, &topic, 0, &ps, b"x"))));
        }
        if g.status() == "C" && g.rng.chance(1, 2) {
            // the peer binds aliases too; then the transport goes away: no binding of either
            // direction may be used between the connections or on the next one
            g.op(format!("recv {}", hex(&w_publish(5, pw, 0, false, false, b"a", 0, &[P::U16(35, 1)], b"y"))));
            if g.status() == "C" {
                g.op("closed".into());
                match g.rng.below(3) {
                    0 if !bound.is_empty() => {
                        let (a, _) = bound[0];
                        let id = g.fresh_id();
                        g.op(format!("send 5 {}", hex(&w_publish(5, pw, 1, false, false, b"", id, &[P::U16(35, a)], b"z"))));
                        g.after_send(id);
                    }
                    1 => g.op(format!("recv {}", hex(&w_publish(5, pw, 0, false, false, b"", 0, &[P::U16(35, 1)], b"y")))),
                    _ => {
                        g.force_ok = true;
                        g.force_peer_tam = Some(3);
                        g.handshake();
                        g.force_ok = false;
                        g.force_peer_tam = None;
                        if g.status() == "C" {
                            g.op(format!("recv {}", hex(&w_publish(5, pw, 0, false, false, b"", 0, &[P::U16(35, 1)], b"y"))));
                        }
                    }
                }
            }
        }
    }
    if g.legal && g.s.version() == 5 && g.rng.chance(1, 6) {
        // directed: a persistent session is resumed under a smaller Maximum Packet Size than the
        // one its stored packets (PUBLISH of several sizes, PUBREL with properties) were accepted under
        let pw = g.pw();
        g.op("set apr 0".into());
        g.force_ok = true;
        g.force_persist = true;
        g.force_clean = Some(g.rng.chance(1, 2));
        g.handshake();
        if g.status() == "C" {
            let mut sizes = vec![];
            let mut lens = vec![0usize, 20, 45];
            lens.push(*g.rng.pick(&[0usize, 20, 45, 60]));
            for i in (1..lens.len()).rev() {
                let j = g.rng.below(i as u64 + 1) as usize;
                lens.swap(i, j);
            }
            for (i, n) in lens.iter().enumerate() {
                let id = g.fresh_id();
                let qos = 1 + (i as u8 % 2);
                let b = w_publish(5, pw, qos, false, false, b"a", id, &[], &vec![7u8; *n]);
                sizes.push(b.len() as u32);
                g.op(format!("send 5 {}", hex(&b)));
                g.after_send(id);
                if qos == 2 && g.rng.chance(2, 3) {
                    g.op(format!("recv {}", hex(&w_ack(5, pw, 5, id, None, None))));
                    if g.pubrec_delivered(id) && g.pubrec_done(id) {
                        let n = *g.rng.pick(&[1usize, 10, 40]);
                        let b = w_ack(5, pw, 6, id, Some(0), Some(&[P::Pair(b"k".to_vec(), vec![b'v'; n])]));
                        sizes.push(b.len() as u32);
                        g.op(format!("send 5 {}", hex(&b)));
                    }
                }
            }
            g.op("closed".into());
            g.my_ids.clear();
            let base = *g.rng.pick(&sizes);
            if g.rng.chance(2, 3) {
                g.force_peer_mps = Some((base as i64 + *g.rng.pick(&[-1i64, 0, 1])).max(1) as u32);
            }
            g.force_peer_rm = Some(*g.rng.pick(&[2u16, 5, 10]));
            g.force_clean = Some(false);
            g.handshake();
            g.force_peer_mps = None;
            g.force_peer_rm = None;
            g.op("vacancy".into());
        }
        g.inflight.clear();
        g.force_ok = false;
        g.force_persist = false;
        g.force_clean = None;
    }
    if g.legal && g.rng.chance(1, 6) {
        // directed: inbound QoS 2 exchanges over two identifiers: PUBLISH and retransmissions,
        // PUBREC with success / NoMatchingSubscribers / error codes, PUBREL, PUBCOMP, connection
        // loss and resumption
        let v = g.ver();
        let pw = g.pw();
        g.force_ok = true;
        g.force_persist = g.rng.chance(2, 3);
        g.force_clean = Some(g.rng.chance(1, 2));
        g.force_own_rm = Some(*g.rng.pick(&[1u16, 2, 2, 10]));
        g.force_own_tam = Some(2);
        g.handshake();
        g.force_clean = Some(false);
        let mut released: Vec<u64> = vec![];
        for _ in 0..14 {
            if g.status() != "C" {
                if g.rng.chance(2, 3) {
                    g.handshake();
                    continue;
                }
                break;
            }
            let id = *g.rng.pick(&[1u64, 1, 2, 2, 3]);
            match g.rng.below(7) {
                0 | 1 | 2 => {
                    let dup = g.rng.chance(1, 2);
                    let t: &[u8] = *g.rng.pick(&[b"a" as &[u8], b"b"]);
                    // v5.0: some carry an alias announcement / rebind, some are alias-only
                    let (t, ps): (&[u8], Vec<P>) = if v == 5 {
                        match g.rng.below(6) {
                            0 | 1 => (t, vec![P::U16(35, 1)]),
                            2 => (b"", vec![P::U16(35, 1)]),
                            _ => (t, vec![]),
                        }
                    } else {
                        (t, vec![])
                    };
                    let q = if v == 5 && g.rng.chance(1, 4) { 0 } else { 2 };
                    g.op(format!("recv {}", hex(&w_publish(v, pw, q, dup && q > 0, false, t, if q > 0 { id } else { 0 }, &ps, b"q2"))));
                    if !t.is_empty() && !ps.is_empty() && g.status() == "C" && g.rng.chance(1, 2) {
                        // and at once a message that uses the binding just announced
                        g.op(format!("recv {}", hex(&w_publish(v, pw, 0, false, false, b"", 0, &ps, b"q0"))));
                    }
                }
                3 => {
                    let rc = if v == 5 { *g.rng.pick(&[None, Some(0u8), Some(0x10), Some(0x10), Some(0x80), Some(0x97)]) } else { None };
                    g.op(format!("send {} {}", v, hex(&w_ack(v, pw, 5, id, rc, None))));
                    if rc == Some(0x10) && g.status() == "C" {
                        // a success-class code: the exchange stays open - the peer may retransmit the
                        // PUBLISH, and the slot stays occupied for our Receive Maximum
                        if g.rng.chance(1, 2) {
                            g.op(format!("recv {}", hex(&w_publish(v, pw, 2, true, false, b"a", id, &[], b"q2"))));
                        }
                        if g.status() == "C" && g.rng.chance(1, 2) {
                            for other in [1u64, 2, 3] {
                                if other != id && g.status() == "C" {
                                    g.op(format!("recv {}", hex(&w_publish(v, pw, 1, false, false, b"b", other, &[], b"q1"))));
                                }
                            }
                        }
                    }
                }
                4 => {
                    let rc = if v == 5 && g.rng.chance(1, 3) { Some(*g.rng.pick(&[0u8, 0x92, 0x92])) } else { None };
                    g.op(format!("recv {}", hex(&w_ack(v, pw, 6, id, rc, None))));
                    released.push(id);
                }
                5 => {
                    if released.contains(&id) && g.s.field("apr") != "1" {
                        g.op(format!("send {} {}", v, hex(&w_ack(v, pw, 7, id, None, None))));
                        released.retain(|x| *x != id);
                    }
                }
                _ => {
                    match g.rng.below(4) {
                        0 | 1 => g.op("closed".into()),
                        2 => {
                            // the application obtains an identifier of its own (the same number as an
                            // inbound exchange may carry) and gives it back unused
                            g.op("acquire".into());
                            if let Some(v) = g.last_ret().strip_prefix("ok") {
                                let v = v.to_string();
                                g.op(format!("release {v}"));
                            }
                        }
                        _ => {
                            let on = g.rng.below(2);
                            g.op(format!("set off {on}"));
                        }
                    }
                }
            }
        }
        g.force_ok = false;
        g.force_persist = false;
        g.force_clean = None;
        g.force_own_rm = None;
        g.force_own_tam = None;
    }
    if g.legal && g.rng.chance(1, 6) {
        // directed: a persistent session with outbound packets stored and an inbound QoS 2 exchange
        // open; the reconnect is refused once (the session must survive that), then accepted
        let v = g.ver();
        let pw = g.pw();
        g.force_ok = true;
        g.force_persist = true;
        g.force_clean = Some(g.rng.chance(1, 2));
        g.handshake();
        if g.status() == "C" && v != 0 {
            for q in [1u8, 2] {
                let id = g.fresh_id();
                g.op(format!("send {} {}", v, hex(&w_publish(v, pw, q, false, false, b"a", id, &[], b"s"))));
                g.after_send(id);
            }
            g.op(format!("recv {}", hex(&w_publish(v, pw, 2, false, false, b"b", 1, &[], b"in"))));
            g.op("closed".into());
            g.my_ids.clear();
            g.force_clean = Some(false);
            g.force_rc = Some(if v == 5 { *g.rng.pick(&[0x80u8, 0x87, 0x88]) } else { *g.rng.pick(&[1u8, 2, 3, 5]) });
            g.force_sp = Some(false);
            g.handshake();
            g.force_rc = None;
            g.force_sp = None;
            if g.status() != "D" {
                g.op("closed".into());
            }
            g.handshake();
            if g.status() == "C" {
                g.op(format!("recv {}", hex(&w_publish(v, pw, 2, true, false, b"b", 1, &[], b"in"))));
            }
            if g.status() == "C" && g.acts_as_client() && g.rng.chance(1, 2) {
                // the server repeats its CONNACK on the established connection (stored packets exist)
                g.op(format!("recv {}", hex(&w_connack(v, true, 0, &[]))));
            }
        }
        g.inflight.clear();
        g.force_ok = false;
        g.force_persist = false;
        g.force_clean = None;
    }
    if g.legal && g.s.version() != 0 && g.rng.chance(1, 8) {
        // directed: the transport is lost between PUBREC and PUBREL of an outbound QoS 2 exchange;
        // the application hands over the PUBREL while disconnected (persistent session: it is
        // stored), the session is resumed, the PUBREL retransmitted and acknowledged
        let v = g.ver();
        let pw = g.pw();
        g.op("set apr 0".into());
        g.force_ok = true;
        g.force_persist = true;
        g.force_clean = Some(g.rng.chance(1, 2));
        g.handshake();
        if g.status() == "C" {
            let id = g.fresh_id();
            g.op(format!("send {} {}", v, hex(&w_publish(v, pw, 2, false, false, b"a", id, &[], b"x2"))));
            g.after_send(id);
            g.op(format!("recv {}", hex(&w_ack(v, pw, 5, id, None, None))));
            if g.pubrec_delivered(id) && g.rng.chance(1, 3) {
                // variant: the PUBREL goes out, the transport is lost, the next connection starts a NEW
                // session; the identifier is used again for a stored QoS 1 PUBLISH; the old PUBCOMP arrives late
                if g.pubrec_done(id) {
                    g.op(format!("send {} {}", v, hex(&w_ack(v, pw, 6, id, None, None))));
                }
                g.op("closed".into());
                g.my_ids.retain(|x| *x != id);
                g.force_clean = Some(true);
                g.handshake();
                if g.status() == "C" {
                    let id2 = g.fresh_id();
                    g.op(format!("send {} {}", v, hex(&w_publish(v, pw, 1, false, false, b"a", id2, &[], b"n1"))));
                    g.after_send(id2);
                    g.op(format!("recv {}", hex(&w_ack(v, pw, 7, id, None, None))));
                    if g.status() == "C" {
                        g.op(format!("recv {}", hex(&w_ack(v, pw, 4, id2, None, None))));
                    }
                }
            } else if g.pubrec_delivered(id) {
                g.op("closed".into());
                g.my_ids.retain(|x| *x != id);
                g.op(format!("send {} {}", v, hex(&w_ack(v, pw, 6, id, None, None))));
                g.force_clean = Some(false);
                g.handshake();
                if g.status() == "C" {
                    g.op(format!("recv {}", hex(&w_ack(v, pw, 7, id, None, None))));
                }
            }
        }
        g.inflight.clear();
        g.force_ok = false;
        g.force_persist = false;
        g.force_clean = None;
    }
    if !g.started && g.legal && g.s.version() != 0 && g.rng.chance(1, 8) {
        // directed: a malformed export (the same identifier in entries of different kinds, QoS 0
        // entries) is restored, the session resumed, and the peer acknowledges every kind
        let v = g.s.version();
        let pw = g.pw();
        let mut items = vec![];
        for _ in 0..(2 + g.rng.below(3)) {
            let id = *g.rng.pick(&[1u64, 1, 2]);
            let b = match g.rng.below(5) {
                0 | 1 => w_ack(v, pw, 6, id, None, None),
                2 => w_publish(v, pw, 1, true, false, b"a", id, &[], b"pl"),
                3 => w_publish(v, pw, 2, true, false, b"a", id, &[], b"pl"),
                _ => w_publish(v, pw, 0, false, false, b"a", 0, &[], b"q0"),
            };
            items.push(format!("{}:{}", v, hex(&b)));
        }
        g.op(format!("restore_p {}", items.join(",")));
        g.op("stored".into());
        g.force_ok = true;
        g.force_persist = true;
        g.force_clean = Some(false);
        g.handshake();
        g.force_ok = false;
        g.force_persist = false;
        g.force_clean = None;
        for _ in 0..4 {
            if g.status() != "C" {
                break;
            }
            let id = *g.rng.pick(&[1u64, 2]);
            let nib = *g.rng.pick(&[4u8, 5, 7]);
            g.op(format!("recv {}", hex(&w_ack(v, pw, nib, id, None, None))));
        }
        if g.status() == "C" {
            g.send_publish();
            g.send_publish();
        }
    }
    if g.legal && g.s.version() == 5 && g.rng.chance(1, 8) {
        // directed: a stored PUBLISH is erased (expired) between the CONNECT and the CONNACK of the
        // connection that resumes its session; the vacancy is asked for in that window and afterwards
        let pw = g.pw();
        g.force_ok = true;
        g.force_persist = true;
        g.force_clean = Some(g.rng.chance(1, 2));
        g.handshake();
        if g.status() == "C" {
            let mut ids = vec![];
            for q in [1u8, 2, 1] {
                let id = g.fresh_id();
                g.op(format!("send 5 {}", hex(&w_publish(5, pw, q, false, false, b"a", id, &[], b"s"))));
                g.after_send(id);
                ids.push(id);
            }
            g.op("closed".into());
            g.my_ids.clear();
            g.force_clean = Some(false);
            g.force_peer_rm = Some(*g.rng.pick(&[1u16, 2, 3, 10]));
            let k = g.rng.below(3) as usize;
            g.window_ops = vec!["vacancy".into(), format!("erase {}", ids[k]), "vacancy".into()];
            if g.rng.chance(1, 2) {
                g.window_ops.push(format!("erase {}", ids[(k + 1) % 3]));
                g.window_ops.push("vacancy".into());
            }
            g.handshake();
            g.force_peer_rm = None;
            g.op("vacancy".into());
            g.op("stored".into());
        }
        g.inflight.clear();
        g.force_ok = false;
        g.force_persist = false;
        g.force_clean = None;
    }
    if g.legal && g.s.version() == 5 && g.rng.chance(1, 8) {
        // directed: the application's own acknowledgements exceed the peer's Maximum Packet Size
        // (long Reason String) and are refused; the inbound exchanges they belong to stay open
        // and keep counting against our Receive Maximum
        let pw = g.pw();
        g.op("set apr 0".into());
        g.force_ok = true;
        g.force_own_rm = Some(*g.rng.pick(&[1u16, 2]));
        g.force_peer_mps = Some(*g.rng.pick(&[12u32, 20, 30]));
        g.handshake();
        g.force_own_rm = None;
        g.force_peer_mps = None;
        g.force_ok = false;
        let long: Vec<P> = vec![P::Str(31, vec![b'r'; 40])];
        for id in [1u64, 2, 3] {
            if g.status() != "C" {
                break;
            }
            let q = *g.rng.pick(&[1u8, 2, 2]);
            g.op(format!("recv {}", hex(&w_publish(5, pw, q, false, false, b"a", id, &[], b"in"))));
            if g.status() != "C" {
                break;
            }
            if q == 1 {
                g.op(format!("send 5 {}", hex(&w_ack(5, pw, 4, id, Some(0), Some(&long)))));
                if g.rng.chance(1, 2) {
                    g.op(format!("send 5 {}", hex(&w_ack(5, pw, 4, id, None, None))));
                }
            } else {
                if g.rng.chance(1, 3) {
                    g.op(format!("send 5 {}", hex(&w_ack(5, pw, 5, id, Some(0), Some(&long)))));
                }
                g.op(format!("send 5 {}", hex(&w_ack(5, pw, 5, id, None, None))));
                g.op(format!("recv {}", hex(&w_ack(5, pw, 6, id, None, None))));
                if g.status() == "C" {
                    g.op(format!("send 5 {}", hex(&w_ack(5, pw, 7, id, Some(0), Some(&long)))));
                    if g.rng.chance(1, 2) {
                        g.op(format!("send 5 {}", hex(&w_ack(5, pw, 7, id, None, None))));
                    }
                }
            }
        }
    }
    if g.legal && g.rng.chance(1, 8) {
        // directed: the PINGRESP timeout is switched off / changed while a PINGRESP is outstanding;
        // then the PINGRESP arrives, the transport closes or a DISCONNECT is sent
        let v = g.ver();
        g.op("rto 1000".into());
        g.force_ok = true;
        g.handshake();
        g.force_ok = false;
        if g.status() == "C" && g.acts_as_client() {
            g.op(format!("send {} {}", v, hex(&w_simple(0xc0))));
            let t = *g.rng.pick(&[0u64, 0, 5000]);
            g.op(format!("rto {t}"));
            match g.rng.below(4) {
                0 => g.op(format!("recv {}", hex(&w_simple(0xd0)))),
                1 => g.op("closed".into()),
                2 => g.op(format!("send {} {}", v, hex(&w_simple(0xe0)))),
                _ => {
                    g.op(format!("send {} {}", v, hex(&w_simple(0xc0))));
                    g.op(format!("recv {}", hex(&w_simple(0xd0))));
                }
            }
            if g.status() == "C" && g.rng.chance(1, 2) {
                g.op("closed".into());
            }
        }
    }
    if g.legal && g.s.version() == 5 && g.rng.chance(1, 10) {
        // directed: the Maximum Packet Size WE announce sits at / one below the total size of an
        // inbound frame whose Remaining Length is at a length-field step (127/128, 16383/16384,
        // rarely 2097151/2097152)
        let pw = g.pw();
        let rl: usize = if g.rng.chance(1, 30) { *g.rng.pick(&[2097151usize, 2097152]) } else { *g.rng.pick(&[127usize, 128, 16383, 16384]) };
        let lenbytes = if rl < 128 { 1 } else if rl < 16384 { 2 } else if rl < 2097152 { 3 } else { 4 };
        let total = (1 + lenbytes + rl) as u32;
        g.force_ok = true;
        g.force_own_mps = Some((total as i64 + *g.rng.pick(&[-1i64, 0, 0, 1])) as u32);
        g.handshake();
        g.force_own_mps = None;
        g.force_ok = false;
        if g.status() == "C" && g.s.field("pb") == "F//0/1/" {
            let q = *g.rng.pick(&[0u8, 1]);
            let base = w_publish(5, pw, q, false, false, b"a", 1, &[], b"").len() - 2;
            let b = w_publish(5, pw, q, false, false, b"a", 1, &[], &vec![0x43u8; rl - base]);
            g.op(format!("recv {}", hex(&b)));
        }
    }
    if g.legal && g.s.version() == 5 && g.rng.chance(1, 10) {
        // directed: a stored PUBLISH / PUBREL is erased by the application at each point of an
        // outbound QoS 2 exchange under a small Receive Maximum; the vacancy is asked for after every step
        let pw = g.pw();
        g.op("set apr 0".into());
        g.force_ok = true;
        g.force_persist = true;
        g.force_peer_rm = Some(*g.rng.pick(&[1u16, 2, 2, 3]));
        g.handshake();
        g.force_peer_rm = None;
        g.force_ok = false;
        g.force_persist = false;
        if g.status() == "C" {
            let when = g.rng.below(4);
            if g.rng.chance(2, 3) {
                // another exchange stays in flight beside it
                let id0 = g.fresh_id();
                g.op(format!("send 5 {}", hex(&w_publish(5, pw, 1, false, false, b"a", id0, &[], b"q1"))));
                g.after_send(id0);
            }
            let id = g.fresh_id();
            g.op(format!("send 5 {}", hex(&w_publish(5, pw, 2, false, false, b"a", id, &[], b"q2"))));
            g.after_send(id);
            if when == 0 {
                g.op(format!("erase {id}"));
                if g.rng.chance(1, 2) {
                    // the identifier is handed out again at once and carries a stored QoS 1 PUBLISH
                    // when the peer's PUBREC for the erased one arrives
                    let id2 = g.fresh_id();
                    g.op(format!("send 5 {}", hex(&w_publish(5, pw, 1, false, false, b"a", id2, &[], b"n1"))));
                    g.after_send(id2);
                }
            }
            g.op("vacancy".into());
            g.op(format!("recv {}", hex(&w_ack(5, pw, 5, id, None, None))));
            if when == 0 && g.status() == "C" && g.pubrec_delivered(id) {
                // (only if the PUBREC was delivered although its PUBLISH had been erased)
                g.op(format!("send 5 {}", hex(&w_ack(5, pw, 6, id, None, None))));
            }
            if g.pubrec_delivered(id) && g.pubrec_done(id) && when != 0 {
                if when == 1 {
                    g.op(format!("erase {id}"));
                    g.op("vacancy".into());
                }
                g.op(format!("send 5 {}", hex(&w_ack(5, pw, 6, id, None, None))));
                if when == 2 {
                    g.op(format!("erase {id}"));
                }
                g.op("vacancy".into());
                g.op(format!("recv {}", hex(&w_ack(5, pw, 7, id, None, None))));
                g.op("vacancy".into());
            }
            for _ in 0..2 {
                if g.status() == "C" {
                    let id2 = g.fresh_id();
                    g.op(format!("send 5 {}", hex(&w_publish(5, pw, 1, false, false, b"a", id2, &[], b"q1"))));
                    g.after_send(id2);
                    g.op("vacancy".into());
                }
            }
        }
        g.inflight.clear();
    }
    if g.legal && g.s.version() == 5 && g.acts_as_client() && g.rng.chance(1, 10) {
        // directed: automatic alias replacement for a one / two byte topic (the alias property is
        // longer than the topic it replaces) on packets sized at the peer's Maximum Packet Size
        let pw = g.pw();
        g.op("set arep 1".into());
        let l = *g.rng.pick(&[20u32, 30, 40]);
        g.force_ok = true;
        g.force_peer_tam = Some(3);
        g.force_peer_mps = Some(l);
        g.handshake();
        g.force_ok = false;
        g.force_peer_tam = None;
        g.force_peer_mps = None;
        if g.status() == "C" {
            let topic: &[u8] = *g.rng.pick(&[b"a" as &[u8], b"ab", b"abc"]);
            g.op(format!("send 5 {}", hex(&w_publish(5, pw, 0, false, false, topic, 0, &[P::U16(35, 1)], b"r"))));
            for delta in [-1i64, 0, 1] {
                let s0 = w_publish(5, pw, 0, false, false, topic, 0, &[], &[]).len() as i64;
                let n = (l as i64 + delta - s0).max(0) as usize;
                g.op(format!("send 5 {}", hex(&w_publish(5, pw, 0, false, false, topic, 0, &[], &vec![7u8; n]))));
            }
        }
    }
    if g.legal && g.s.version() == 5 && !g.acts_as_client() && g.rng.chance(1, 10) {
        // directed: the receive timer armed by the CONNECT's keep alive expires before the CONNACK;
        // the CONNACK then carries Server Keep Alive 0 / another value; later traffic
        let pw = g.pw();
        g.force_ok = true;
        g.force_ska = Some(*g.rng.pick(&[0u16, 0, 3]));
        g.window_ops = vec!["timer R".into()];
        g.handshake();
        g.force_ok = false;
        g.force_ska = None;
        g.window_ops.clear();
        for _ in 0..2 {
            if g.status() == "C" {
                g.op(format!("recv {}", hex(&w_simple(0xc0))));
                g.op(format!("recv {}", hex(&w_publish(5, pw, 0, false, false, b"a", 0, &[], b"x"))));
            }
        }
    }
    if g.legal && g.s.version() == 5 && g.acts_as_client() && g.rng.chance(1, 10) {
        // directed: the peer's Maximum Packet Size admits a PINGREQ (2 bytes) but no DISCONNECT with a
        // reason code (3 bytes); the response / a keep-alive timer expires, a protocol error arrives
        let pw = g.pw();
        g.op("rto 1000".into());
        g.force_ok = true;
        g.force_peer_mps = Some(*g.rng.pick(&[2u32, 2, 3]));
        g.handshake();
        g.force_ok = false;
        g.force_peer_mps = None;
        if g.status() == "C" {
            g.op(format!("send 5 {}", hex(&w_simple(0xc0))));
            match g.rng.below(3) {
                0 | 1 => {
                    if g.s.armed[2] {
                        g.op("timer P".into());
                    }
                }
                _ => g.op(format!("recv {}", hex(&w_ack(5, pw, 4, 9, None, None)))),
            }
        }
    }
    if g.legal && g.s.version() != 0 && g.rng.chance(1, 10) {
        // directed: options are changed while an inbound QoS 2 exchange of a persistent session is
        // open; the transport is lost, the session resumed, the peer retransmits
        let v = g.ver();
        let pw = g.pw();
        g.force_ok = true;
        g.force_persist = true;
        g.force_clean = Some(g.rng.chance(1, 2));
        g.handshake();
        if g.status() == "C" {
            g.op(format!("recv {}", hex(&w_publish(v, pw, 2, false, false, b"a", 1, &[], b"in"))));
            if g.s.field("apr") != "1" && g.rng.chance(1, 2) {
                g.op(format!("send {} {}", v, hex(&w_ack(v, pw, 5, 1, None, None))));
            }
            let f = *g.rng.pick(&["off", "off", "apr", "aping"]);
            let b = g.rng.below(2);
            g.op(format!("set {f} {b}"));
            if g.status() == "C" {
                g.op("closed".into());
                g.force_clean = Some(false);
                g.handshake();
                if g.status() == "C" {
                    g.op(format!("recv {}", hex(&w_publish(v, pw, 2, true, false, b"a", 1, &[], b"in"))));
                }
            }
        }
        g.force_ok = false;
        g.force_persist = false;
        g.force_clean = None;
    }
    if g.legal && g.s.version() != 0 && g.rng.chance(1, 10) {
        // directed: the application abandons exchanges in flight (`release`) at each stage - after
        // the PUBLISH, after the PUBREL - in a session that stores nothing; the peer's late
        // acknowledgements still arrive; the vacancy is asked for after every step
        let v = g.ver();
        let pw = g.pw();
        g.op("set apr 0".into());
        g.op("set off 0".into());
        g.force_ok = true;
        g.force_clean = Some(true);
        g.force_peer_rm = Some(*g.rng.pick(&[1u16, 2, 3]));
        g.handshake();
        g.force_peer_rm = None;
        g.force_clean = None;
        g.force_ok = false;
        if g.status() == "C" && g.s.field("need_store") == "0" {
            for _ in 0..2 {
                if g.status() != "C" {
                    break;
                }
                let q = *g.rng.pick(&[1u8, 2, 2]);
                let id = g.fresh_id();
                g.op(format!("send {} {}", v, hex(&w_publish(v, pw, q, false, false, b"a", id, &[], b"ab"))));
                g.after_send(id);
                let stage = g.rng.below(3);
                if stage == 0 {
                    g.op(format!("release {id}"));
                    g.op("vacancy".into());
                }
                if q == 1 {
                    g.op(format!("recv {}", hex(&w_ack(v, pw, 4, id, None, None))));
                } else {
                    g.op(format!("recv {}", hex(&w_ack(v, pw, 5, id, None, None))));
                    if stage != 0 && g.pubrec_delivered(id) && g.pubrec_done(id) {
                        g.op(format!("send {} {}", v, hex(&w_ack(v, pw, 6, id, None, None))));
                        if stage == 1 {
                            g.op(format!("release {id}"));
                            g.op("vacancy".into());
                        }
                        g.op(format!("recv {}", hex(&w_ack(v, pw, 7, id, None, None))));
                    }
                }
                if g.status() == "C" {
                    g.op("vacancy".into());
                    g.op("acquire".into());
                    if let Some(x) = g.last_ret().strip_prefix("ok") {
                        let x = x.to_string();
                        g.op(format!("release {x}"));
                    }
                }
            }
        }
        g.inflight.clear();
    }
    if g.legal && g.s.version() == 5 && g.rng.chance(1, 12) {
        // directed: a PUBLISH that announces an alias is refused as too large; the binding it would have
        // announced never reached the peer, so neither the application nor automatic mapping may use it
        let pw = g.pw();
        for f in ["amap", "arep"] {
            let on = g.rng.chance(1, 2) as u8;
            g.op(format!("set {f} {on}"));
        }
        g.force_ok = true;
        g.force_peer_tam = Some(3);
        let l = *g.rng.pick(&[20u32, 30]);
        g.force_peer_mps = Some(l);
        g.handshake();
        g.force_ok = false;
        g.force_peer_tam = None;
        g.force_peer_mps = None;
        if g.status() == "C" {
            g.op(format!("send 5 {}", hex(&w_publish(5, pw, 0, false, false, b"a", 0, &[P::U16(35, 1)], &vec![7u8; l as usize]))));
            g.op(format!("send 5 {}", hex(&w_publish(5, pw, 0, false, false, b"", 0, &[P::U16(35, 1)], b"x"))));
            g.op(format!("send 5 {}", hex(&w_publish(5, pw, 0, false, false, b"a", 0, &[], b"x"))));
        }
    }
    if !g.started && g.rng.chance(1, 6) {
        // resume from an export made by a previous process (before any connection of this object)
        for _ in 0..2 {
            g.misc_restore();
        }
    }
    for _ in 0..steps {
        if g.s.dead {
            break;
        }
        g.step();
    }
    writeln!(out, "T conn {name} role={role} pw={} ver={ver} legal={}", g.s.pw, g.legal as u8).unwrap();
    for l in &g.s.out_lines {
        writeln!(out, "{l}").unwrap();
    }
    writeln!(out, "END").unwrap();
    g.s.dead
}

/// the op strings of trace lines (consecutive `recv` calls on one buffer are one op)
fn ops_of(lines: &[String]) -> Vec<String> {
    let mut ops = vec![];
    let mut last_rest: Option<Vec<u8>> = None;
    for l in lines {
        let rest = l.strip_prefix("X ").unwrap_or(l);
        let op = rest.split(" | ").next().unwrap().to_string();
        if let Some(hx) = op.strip_prefix("recv ") {
            let inp = crate::rng::unhex(hx.trim());
            let is_cont = last_rest.as_ref().map(|r| *r == inp).unwrap_or(false);
            let cons: usize = rest.split(" | ").nth(1).and_then(|o| o.split_whitespace().find_map(|x| x.strip_prefix("cons="))).and_then(|x| x.parse().ok()).unwrap_or(inp.len());
            last_rest = Some(inp[cons.min(inp.len())..].to_vec());
            if is_cont {
                continue;
            }
        } else {
            last_rest = None;
        }
        ops.push(op);
    }
    ops
}

/// C10: history H on one object, transport closed, then a script S that starts a NEW session,
/// run on the reused object and on a fresh object with the same options; the fresh object's
/// trace carries, after every call, a `Y` line with what the reused object answered.
fn reuse_trial<R: RoleX, T: IsPacketId>(role: &'static str, ver: u8, steps: usize, rng: &mut Rng, name: &str, out: &mut dyn Write) -> bool {
    let focus = rng.below(6) as u8;
    let mut g = Gen::<R, T> {
        s: Sess::new(ver), rng, role, my_ids: vec![], inflight: vec![], rel_wait: vec![], peer_pubs: vec![], subs: vec![],
        peer_mps: None, focus, legal: true, started: false, force_clean: None, force_ok: false, force_persist: false, force_ska: None, force_own_rm: None, force_peer_mps: None, force_peer_tam: None, boundary: false, plain_pub: false, force_sp: None, force_rc: None, force_own_tam: None, force_peer_rm: None, force_own_mps: None, ska_first: false, window_ops: vec![], via_checked: false,
    };
    for f in ["off", "apr", "aping", "amap", "arep"] {
        if g.rng.chance(2, 5) {
            g.op(format!("set {f} 1"));
        }
    }
    if g.rng.chance(1, 3) {
        let t = *g.rng.pick(&[1000u64, 3000]);
        g.op(format!("rto {t}"));
    }
    if g.rng.chance(1, 4) {
        let t = *g.rng.pick(&["0", "700"]);
        g.op(format!("interval {t}"));
    }
    // H: the first connection (any traffic), ended by a close report
    let hsteps = 4 + g.rng.below(steps as u64 / 2) as usize;
    for _ in 0..hsteps {
        if g.s.dead {
            break;
        }
        g.step();
    }
    if !g.s.dead && g.rng.chance(1, 3) {
        // leave a half-received frame behind
        match g.rng.below(3) {
            0 => g.op("recv 30c8".into()),       // inside a two-byte Remaining Length field
            1 => g.op("recv 30ffff".into()),     // inside a longer one
            _ => {
                let b = w_publish(if g.ver() == 0 { 5 } else { g.ver() }, g.pw(), 1, false, false, b"a", 1, &[], b"payload");
                g.op(format!("recv {}", hex(&b[..b.len() - 3])));
            }
        }
    }
    g.op("closed".into());
    if g.s.dead {
        // not a C10 case; emit the plain trace
        writeln!(out, "T conn {name} role={role} pw={} ver={ver} legal=1", g.s.pw).unwrap();
        for l in &g.s.out_lines {
            writeln!(out, "{l}").unwrap();
        }
        writeln!(out, "END").unwrap();
        return true;
    }
    let i0 = g.s.out_lines.len();
    let opt = |g: &Gen<R, T>, k: &str| g.s.field(k);
    let options: Vec<String> = vec![
        format!("set off {}", opt(&g, "off")),
        format!("set apr {}", opt(&g, "apr")),
        format!("set aping {}", opt(&g, "aping")),
        format!("set amap {}", opt(&g, "amap")),
        format!("set arep {}", opt(&g, "arep")),
        format!("interval {}", opt(&g, "user")),
        format!("rto {}", opt(&g, "pto")),
    ];
    // S: start a new session (clean start, accepted), then any traffic
    g.my_ids.clear();
    g.inflight.clear();
    g.rel_wait.clear();
    g.peer_pubs.clear();
    g.subs.clear();
    // a new session starts with a clean start, or with a CONNACK reporting "session not present"
    let by_clean = g.rng.chance(1, 2);
    g.force_clean = Some(by_clean);
    g.force_sp = Some(false);
    g.force_ok = true;
    g.handshake();
    g.force_clean = None;
    g.force_sp = None;
    g.force_ok = false;
    // the reused object normally starts the new session here; if it does not (it refused the
    // CONNECT, say), the fresh object below decides whether the script starts one
    let is_start = |l: &String| {
        let f: Vec<&str> = l.split(" | ").collect();
        f.len() == 5
            && (((f[2].contains("send{k=1,") || f[2].contains("recv{k=1,")) && f[2].contains(",cl=1,"))
                || ((f[2].contains("send{k=2,") || f[2].contains("recv{k=2,")) && f[2].contains(",rc=0,") && f[2].contains(",sp=0,")))
    };
    let started_new = g.s.out_lines[i0..].iter().any(is_start) && g.status() == "C";
    if started_new {
        for _ in 0..(steps / 2).max(6) {
            if g.s.dead {
                break;
            }
            g.step();
        }
    }
    let a_lines: Vec<String> = g.s.out_lines[i0..].to_vec();
    let s_ops = ops_of(&a_lines);
    let pw = g.s.pw;
    writeln!(out, "T conn {name}-reused role={role} pw={pw} ver={ver} legal=1").unwrap();
    for l in &g.s.out_lines {
        writeln!(out, "{l}").unwrap();
    }
    writeln!(out, "END").unwrap();
    // the fresh object (constructed with the same version argument)
    let mut b = Sess::<R, T>::new(ver);
    for o in &options {
        b.apply(o);
    }
    let j0 = b.out_lines.len();
    for o in &s_ops {
        b.apply(o);
        if b.dead {
            break;
        }
    }
    // the comparison begins with the call that starts the new session on the FRESH object: the
    // clean-start CONNECT, or the CONNACK reporting "session not present" (until then the old
    // session legitimately still exists on the reused object).  No such call: an ordinary trace.
    let k0 = match b.out_lines[j0..].iter().position(is_start) {
        Some(k) if b.out_lines[j0..].iter().any(|l| l.contains(" st=C ")) => k,
        _ => return g.s.dead || b.dead,
    };
    // an undetermined object that adopted a version on its first connection keeps it after the
    // close (recorded finding): the reused object then accepts a CONNECT of that version which
    // the fresh, still undetermined object refuses with VersionMismatch - every later difference
    // of this trial follows from that
    let ev_of = |l: &String| l.split(" | ").nth(2).unwrap_or("").to_string();
    let adopted = ver == 0
        && b.out_lines[j0..].iter().zip(a_lines.iter()).take(k0 + 1).any(|(f, a)| ev_of(f).contains("err 393") && !ev_of(a).contains("err 393"));
    writeln!(out, "T conn {name}-fresh role={role} pw={pw} ver={ver} legal=1").unwrap();
    if adopted {
        for l in b.out_lines.iter() {
            writeln!(out, "{l}").unwrap();
        }
        writeln!(out, "Y - | ADOPTED | - | -").unwrap();
        writeln!(out, "END").unwrap();
        return g.s.dead || b.dead;
    }
    for (j, l) in b.out_lines.iter().enumerate() {
        writeln!(out, "{l}").unwrap();
        if j >= j0 + k0 {
            let f: Vec<&str> = a_lines.get(j - j0).map(|x| x.split(" | ").collect()).unwrap_or_default();
            if f.len() == 5 {
                writeln!(out, "Y {} | {} | {} | {}", f[0].strip_prefix("X ").unwrap_or(f[0]), f[2], f[3], f[4]).unwrap();
            } else {
                writeln!(out, "Y - | MISSING | - | -").unwrap();
            }
        }
    }
    if a_lines.len() > b.out_lines.len() - j0 {
        writeln!(out, "Y - | EXTRA {} | - | -", a_lines.len() - (b.out_lines.len() - j0)).unwrap();
    }
    writeln!(out, "END").unwrap();
    g.s.dead || b.dead
}

/// C16: a persistent session is run on object A up to a crash point; the exported stored packets
/// and handled ids are restored into a fresh object B; both resume the session (A after a close
/// report) and run the same continuation; B's trace carries `Y` lines with A's answers.
fn restore_trial<R: RoleX, T: IsPacketId>(role: &'static str, ver: u8, steps: usize, rng: &mut Rng, name: &str, out: &mut dyn Write) -> bool {
    let mut g = Gen::<R, T> {
        s: Sess::new(ver), rng, role, my_ids: vec![], inflight: vec![], rel_wait: vec![], peer_pubs: vec![], subs: vec![],
        peer_mps: None, focus: 1, legal: true, started: false, force_clean: None, force_ok: false, force_persist: false, force_ska: None, force_own_rm: None, force_peer_mps: None, force_peer_tam: None, boundary: false, plain_pub: false, force_sp: None, force_rc: None, force_own_tam: None, force_peer_rm: None, force_own_mps: None, ska_first: false, window_ops: vec![], via_checked: false,
    };
    g.op("set apr 1".into());
    for f in ["off", "aping", "amap", "arep"] {
        if g.rng.chance(2, 5) {
            g.op(format!("set {f} 1"));
        }
    }
    // first connection of a persistent session
    g.force_clean = Some(g.rng.chance(1, 2));
    g.force_ok = true;
    g.force_persist = true;
    g.handshake();
    g.force_clean = None;
    g.force_ok = false;
    let hsteps = 3 + g.rng.below(steps as u64 / 2) as usize;
    for _ in 0..hsteps {
        if g.s.dead {
            break;
        }
        g.step();
    }
    let plain = |g: &Gen<R, T>, out: &mut dyn Write| {
        writeln!(out, "T conn {name} role={role} pw={} ver={ver} legal=1", g.s.pw).unwrap();
        for l in &g.s.out_lines {
            writeln!(out, "{l}").unwrap();
        }
        writeln!(out, "END").unwrap();
    };
    // the crash point: only meaningful while the session is persistent and its version known
    if g.s.dead || g.s.field("need_store") != "1" || g.s.version() == 0 {
        plain(&g, out);
        return g.s.dead;
    }
    let v = g.s.version();
    // export (public API), as the application would persist it
    let stored = g.s.c.get_stored_packets();
    let items: Vec<String> = stored
        .iter()
        .map(|sp| {
            let gp: mqtt_protocol_core::mqtt::packet::GenericPacket<T> = sp.clone().into();
            format!("{}:{}", v, hex(&bytes_of(&gp)))
        })
        .collect();
    let mut handled: Vec<u64> = g.s.c.get_qos2_publish_handled().iter().map(|i| id_to_u64(*i)).collect();
    handled.sort();
    let restore_p = format!("restore_p {}", if items.is_empty() { "-".to_string() } else { items.join(",") });
    let restore_h = format!("restore_h {}", if handled.is_empty() { "-".to_string() } else { handled.iter().map(|x| x.to_string()).collect::<Vec<_>>().join(",") });
    let options: Vec<String> = ["off", "apr", "aping", "amap", "arep"].iter().map(|k| format!("set {k} {}", g.s.field(k))).chain([format!("interval {}", g.s.field("user")), format!("rto {}", g.s.field("pto"))]).collect();
    // the original: identifiers the application merely held die with the process
    // (also ids of exchanges in limbo: PUBREC seen, PUBREL not yet sent — owned by no wait set)
    g.my_ids.clear();
    let in_sets: Vec<u64> = ["suback", "unsuback", "puback", "pubrec", "pubcomp"]
        .iter()
        .flat_map(|k| g.s.field(k).split(',').filter_map(|x| x.parse::<u64>().ok()).collect::<Vec<_>>())
        .collect();
    let free: Vec<(u64, u64)> = g
        .s
        .field("pidfree")
        .split(',')
        .filter_map(|iv| {
            let mut it = iv.split('-');
            Some((it.next()?.parse().ok()?, it.next()?.parse().ok()?))
        })
        .collect();
    let idmax = g.idmax();
    let mut held: Vec<u64> = vec![];
    let mut cands: Vec<u64> = (1..=64u64).collect();
    cands.extend([idmax - 1, idmax]);
    for id in cands {
        if !free.iter().any(|(a, b)| *a <= id && id <= *b) && !in_sets.contains(&id) {
            held.push(id);
        }
    }
    for id in held {
        g.op(format!("release {id}"));
    }
    g.op("closed".into());
    let i0 = g.s.out_lines.len();
    g.inflight.clear();
    g.rel_wait.clear();
    g.peer_pubs.clear();
    g.subs.clear();
    // resume: same handshake on both (not clean, session present, accepted); sometimes a first
    // attempt is refused by the server (the session must survive that)
    g.force_clean = Some(false);
    g.force_ok = true;
    g.force_persist = true;
    if g.rng.chance(1, 3) {
        let v = g.ver();
        g.force_rc = Some(if v == 5 { *g.rng.pick(&[0x80u8, 0x88, 0x89]) } else { *g.rng.pick(&[2u8, 3, 5]) });
        g.force_sp = Some(false);
        g.handshake();
        g.force_rc = None;
        g.force_sp = None;
        if g.status() != "D" {
            g.op("closed".into());
        }
    }
    if g.ver() == 5 && g.rng.chance(1, 3) {
        // the peer's Maximum Packet Size of the resuming connection sits at / beside the size of a stored packet
        let sizes: Vec<u32> = g.s.field("store").split("sz=").skip(1).filter_map(|x| x.split(',').next()?.parse().ok()).collect();
        if !sizes.is_empty() {
            let base = *g.rng.pick(&sizes) as i64;
            g.force_peer_mps = Some((base + *g.rng.pick(&[-1i64, 0, 0, 1])).max(1) as u32);
        }
    }
    if g.rng.chance(1, 4) {
        // configuration calls between CONNECT and CONNACK of the resuming connection
        let f = *g.rng.pick(&["off", "off", "apr", "amap"]);
        let b = g.rng.below(2);
        g.window_ops = vec![format!("set {f} {b}")];
    }
    g.handshake();
    g.window_ops.clear();
    g.force_peer_mps = None;
    g.force_clean = None;
    g.force_ok = false;
    g.force_persist = false;
    if g.status() == "C" && g.rng.chance(1, 2) {
        // the peer continues the inbound QoS 2 exchanges it has a PUBREC for: PUBREL at once
        let h2: Vec<u64> = g.s.field("h2").split(',').filter_map(|x| x.parse().ok()).collect();
        let (v, pw) = (g.ver(), g.pw());
        for id in h2.into_iter().take(2) {
            if g.status() == "C" {
                g.op(format!("recv {}", hex(&w_ack(v, pw, 6, id, None, None))));
                if g.status() == "C" && g.rng.chance(1, 2) {
                    g.op(format!("recv {}", hex(&w_publish(v, pw, 2, false, false, b"a", id, &[], b"again"))));
                }
            }
        }
    }
    for _ in 0..(steps / 2).max(6) {
        if g.s.dead {
            break;
        }
        g.step();
    }
    let a_lines: Vec<String> = g.s.out_lines[i0..].to_vec();
    let s_ops = ops_of(&a_lines);
    let pw = g.s.pw;
    writeln!(out, "T conn {name}-original role={role} pw={pw} ver={ver} legal=1").unwrap();
    for l in &g.s.out_lines {
        writeln!(out, "{l}").unwrap();
    }
    writeln!(out, "END").unwrap();
    let mut b = Sess::<R, T>::new(v);
    for o in &options {
        b.apply(o);
    }
    b.apply(&restore_p);
    b.apply(&restore_h);
    let j0 = b.out_lines.len();
    for o in &s_ops {
        b.apply(o);
        if b.dead {
            break;
        }
    }
    writeln!(out, "T conn {name}-restored role={role} pw={pw} ver={v} legal=1 cmp=C16").unwrap();
    for (j, l) in b.out_lines.iter().enumerate() {
        writeln!(out, "{l}").unwrap();
        if j >= j0 {
            let f: Vec<&str> = a_lines.get(j - j0).map(|x| x.split(" | ").collect()).unwrap_or_default();
            if f.len() == 5 {
                writeln!(out, "Y {} | {} | {} | {}", f[0].strip_prefix("X ").unwrap_or(f[0]), f[2], f[3], f[4]).unwrap();
            } else {
                writeln!(out, "Y - | MISSING | - | -").unwrap();
            }
        }
    }
    if a_lines.len() > b.out_lines.len() - j0 {
        writeln!(out, "Y - | EXTRA {} | - | -", a_lines.len() - (b.out_lines.len() - j0)).unwrap();
    }
    writeln!(out, "END").unwrap();
    g.s.dead || b.dead
}

/// C17: an undetermined server receives a first CONNECT of level `v` (well-formed, or of a valid
/// level but refused by the version's parser) and any traffic after it; the same script runs on a
/// server created with version `v`.  The fixed-version object's trace carries, after every call,
/// a `Y` line with what the undetermined object answered.
fn undet_trial<R: RoleX, T: IsPacketId>(role: &'static str, steps: usize, rng: &mut Rng, name: &str, out: &mut dyn Write) -> bool {
    let focus = rng.below(6) as u8;
    let mut g = Gen::<R, T> {
        s: Sess::new(0), rng, role, my_ids: vec![], inflight: vec![], rel_wait: vec![], peer_pubs: vec![], subs: vec![],
        peer_mps: None, focus, legal: true, started: false, force_clean: None, force_ok: false, force_persist: false, force_ska: None, force_own_rm: None, force_peer_mps: None, force_peer_tam: None, boundary: false, plain_pub: false, force_sp: None, force_rc: None, force_own_tam: None, force_peer_rm: None, force_own_mps: None, ska_first: false, window_ops: vec![], via_checked: false,
    };
    let mut options = vec![];
    for f in ["off", "apr", "aping", "amap", "arep"] {
        let on = g.rng.chance(2, 5) as u8;
        options.push(format!("set {f} {on}"));
    }
    for o in &options {
        g.op(o.clone());
    }
    let i0 = g.s.out_lines.len();
    let v = *g.rng.pick(&[4u8, 5]);
    let ps = if v == 5 { g.conn_props(false) } else { vec![] };
    let mut bytes = w_connect(v, g.rng.chance(1, 2), 10, b"cid", &ps);
    match g.rng.below(8) {
        0 => {
            // truncated client identifier: one byte less, Remaining Length adjusted
            bytes.pop();
            bytes[1] -= 1;
        }
        6 if bytes[1] < 128 => {
            // cut short after the protocol level / the flags / inside the keep alive
            // (Remaining Length 7..11: the level byte is there, so the version is known)
            let rl = 7 + g.rng.below(5) as usize;
            bytes.truncate(2 + rl);
            bytes[1] = rl as u8;
        }
        1 => bytes[9] |= 1,          // reserved connect flag
        2 => bytes[9] |= 0x18,       // will QoS 3
        3 => {
            // a trailing byte beyond the payload
            bytes.push(0);
            bytes[1] += 1;
        }
        _ => {}
    }
    g.op(format!("recv {}", hex(&bytes)));
    if g.rng.chance(1, 2) && g.status() != "D" {
        g.op(format!("recv {}", hex(&w_simple(0xc0))));
    }
    for _ in 0..steps {
        if g.s.dead {
            break;
        }
        g.step();
    }
    let a_lines: Vec<String> = g.s.out_lines[i0..].to_vec();
    let s_ops = ops_of(&a_lines);
    let pw = g.s.pw;
    writeln!(out, "T conn {name}-undet role={role} pw={pw} ver=0 legal=1").unwrap();
    for l in &g.s.out_lines {
        writeln!(out, "{l}").unwrap();
    }
    writeln!(out, "END").unwrap();
    let mut b = Sess::<R, T>::new(v);
    for o in &options {
        b.apply(o);
    }
    let j0 = b.out_lines.len();
    for o in &s_ops {
        b.apply(o);
        if b.dead {
            break;
        }
    }
    writeln!(out, "T conn {name}-fixed role={role} pw={pw} ver={v} legal=1 cmp=C17").unwrap();
    for (j, l) in b.out_lines.iter().enumerate() {
        writeln!(out, "{l}").unwrap();
        if j >= j0 {
            let f: Vec<&str> = a_lines.get(j - j0).map(|x| x.split(" | ").collect()).unwrap_or_default();
            if f.len() == 5 {
                writeln!(out, "Y {} | {} | {} | {}", f[0].strip_prefix("X ").unwrap_or(f[0]), f[2], f[3], f[4]).unwrap();
            } else {
                writeln!(out, "Y - | MISSING | - | -").unwrap();
            }
        }
    }
    if a_lines.len() > b.out_lines.len() - j0 {
        writeln!(out, "Y - | EXTRA {} | - | -", a_lines.len() - (b.out_lines.len() - j0)).unwrap();
    }
    writeln!(out, "END").unwrap();
    g.s.dead || b.dead
}

pub fn generate(tier: &str, seed: u64, args: &[String], out: &mut dyn Write) {
    let mut rng = Rng::new(seed ^ 0xC0FFEE);
    let thorough = tier == "thorough";
    let mode: u8 = match args.first().map(|s| s.as_str()) {
        Some("reuse") => 1,
        Some("restore") => 2,
        Some("undet") => 3,
        _ => 0,
    };
    let args: &[String] = if mode != 0 { &args[1..] } else { args };
    let traces = args.first().and_then(|s| s.parse().ok()).unwrap_or(if thorough { 6000 } else { 700 });
    let steps = if thorough { 60 } else { 40 };
    let mut panics = 0;
    for i in 0..traces {
        let cfg = rng.below(14);
        let name = format!("w{seed}-{i}");
        if mode == 3 {
            let dead = match cfg % 4 {
                0 | 1 => undet_trial::<Server, u16>("server", steps / 2, &mut rng, &name, out),
                2 => undet_trial::<Any, u16>("any", steps / 2, &mut rng, &name, out),
                _ => undet_trial::<Server, u32>("server", steps / 2, &mut rng, &name, out),
            };
            if dead {
                panics += 1;
            }
            continue;
        }
        let dead = match cfg {
            0 | 1 => walk::<Client, u16>("client", 5, steps, &mut rng, &name, out, mode),
            2 => walk::<Client, u16>("client", 4, steps, &mut rng, &name, out, mode),
            3 | 4 => walk::<Server, u16>("server", 5, steps, &mut rng, &name, out, mode),
            5 => walk::<Server, u16>("server", 4, steps, &mut rng, &name, out, mode),
            6 => walk::<Server, u16>("server", 0, steps, &mut rng, &name, out, mode),
            7 => walk::<Any, u16>("any", 5, steps, &mut rng, &name, out, mode),
            8 => walk::<Any, u16>("any", 4, steps, &mut rng, &name, out, mode),
            9 => walk::<Any, u16>("any", 0, steps, &mut rng, &name, out, mode),
            10 => walk::<Client, u32>("client", 5, steps, &mut rng, &name, out, mode),
            11 => walk::<Server, u32>("server", 5, steps, &mut rng, &name, out, mode),
            12 => walk::<Server, u32>("server", 0, steps, &mut rng, &name, out, mode),
            _ => walk::<Client, u32>("client", 4, steps, &mut rng, &name, out, mode),
        };
        if dead {
            panics += 1;
        }
    }
    eprintln!("conn: traces {traces}, ended by a panic {panics}");
}
