//! Verification harness: runs the real mqtt-protocol-core code and writes line-protocol
//! traces that the Lean driver (`mqttdrv`) replays through the model.
mod alias;
mod alloc;
mod bulk;
mod conn;
mod csend;
mod conn_gen;
mod codec;
mod frame;
mod gates;
mod pair;
mod rng;
mod tables;

use std::io::{BufWriter, Write};

fn main() {
    // panics are expected and caught; keep stderr quiet
    std::panic::set_hook(Box::new(|_| {}));
    let args: Vec<String> = std::env::args().collect();
    if args.len() < 2 {
        eprintln!("usage: harness <alloc|frame|tables> <quick|thorough> <seed> | harness replay <mode> <file>");
        eprintln!("usage: harness <alloc|frame|codec> <quick|thorough> <seed> | harness replay <mode> <file>");
        std::process::exit(2);
    }
    let stdout = std::io::stdout();
    let mut out = BufWriter::with_capacity(1 << 20, stdout.lock());
    let tier = args.get(2).map(|s| s.as_str()).unwrap_or("quick");
    let seed: u64 = args.get(3).and_then(|s| s.parse().ok()).unwrap_or(1);
    match args[1].as_str() {
        "alloc" => alloc::generate(tier, seed, &mut out),
        "frame" => frame::generate(tier, seed, &mut out),
        "gates" => gates::generate(tier, seed, &mut out),
        "bulk" => bulk::generate(tier, seed, &mut out),
        "pair" => pair::generate(tier, seed, &args[4.min(args.len())..], &mut out),
        "conn" => conn_gen::generate(tier, seed, &args[4.min(args.len())..], &mut out),
        "tables" => tables::generate(tier, seed, &mut out),
        "codec" => codec::generate(tier, seed, &mut out),
        "codec-big" => codec::big_payload(&mut out),
        "replay" => {
            let text = std::fs::read_to_string(&args[3]).expect("trace file");
            match args[2].as_str() {
                "alloc" => alloc::replay(&text, &mut out),
                "frame" => frame::replay(&text, &mut out),
                "conn" => conn::replay(&text, &mut out),
                "tables" => tables::replay(&text, &mut out),
                "codec" => codec::replay(&text, &mut out),
                m => {
                    eprintln!("unknown replay mode {m}");
                    std::process::exit(2);
                }
            }
        }
        m => {
            eprintln!("unknown mode {m}");
            std::process::exit(2);
        }
    }
    out.flush().unwrap();
}
