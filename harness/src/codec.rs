//! Codec traces: the REAL parsers / builders of all 29 packet kinds (u16 and u32 packet ids)
//! on (a) exhaustive short bodies, (b) structured mutations of valid encodings, (c) valid
//! packets from a type-directed random generator over the builders.
//!
//! Lines (one case each):
//!   P <ver 4|5> <pw 2|4> <fh hex> <bodyhex> = ok <consumed> <size()> <continuous hex> <to_buffers hex | ~> <R1|R0> acc=<dump> | err <MqttError> | PANIC
//!   B <ver> <pw> <fh hex> <k=v …> = err <MqttError> | PANIC
//!                                 | ok <size()> <continuous hex> <to_buffers hex | ~> ; <parse result of its own body, as in P (with acc=)> ; eq=<0|1>
//!   E <ver> <pw> <fh hex> len=<n> cases=<n> ok=<n> err=<n> panic=<n> bad=<n>     (harness-side exhaustive sweep, full alphabet)
//!
//! `<k=v …>` of a `B` line: the builder call, one token per setter, `none` = the setter is not called
//! (the Lean driver rebuilds the call from it and runs the MODEL of the builder next to the real one);
//! byte strings in hex (`-` = empty), numbers decimal, booleans 0/1, `props` = the concatenated
//! encodings of the (already constructed) properties:
//!     CONNECT       cs ka cid will=<topic hex>,<payload hex>,<qos>,<retain> user pass props wprops   (props/wprops `none` in v3.1.1)
//!     CONNACK       sp rc [props]
//!     PUBLISH       topic qos dup retain pid payload props                       (props `none` in v3.1.1)
//!     PUBACK…COMP   pid rc props                                                 (props `none` in v3.1.1)
//!     SUBSCRIBE     pid entries=<n>:<filter hex>/<options byte>{,<filter hex>/<options byte>} props
//!     SUBACK        pid codes=<hex> props        UNSUBACK v5 the same, v3.1.1 `pid` only
//!     UNSUBSCRIBE   pid topics=<n>:<filter hex>{,<filter hex>} props
//!     PINGREQ / PINGRESP / DISCONNECT v3.1.1    -
//!     DISCONNECT / AUTH v5   rc props
//!   a first token `op=<name>/<alias>/<new topic hex>/<base topic hex>/<base props>` marks the result of a
//!   post-construction operation of a v5.0 PUBLISH (`add_topic_alias`, …) applied to the packet built from the
//!   base topic / props (and the line's qos / payload); the other tokens are the DERIVED call, the fields a
//!   builder needs to produce the same packet.
//!
//! R1/R0: re-parsing the packet's own encoding gives / does not give a packet with the same encoding.
//!
//! acc=<dump>: the "accessor dump" of the accepted packet — every field value as the packet's PUBLIC
//! ACCESSORS return it (never taken from the input bytes, never from the serialiser), one token
//! without spaces, always the LAST word of a parse result.  `acc=PANIC` if an accessor panicked.
//!   <dump>  ::= <key>:<value>{,<key>:<value>} | -            (`-`: the kind has no fields)
//!   numbers (packet id, keep alive, codes, protocol version) in decimal, flags as 0/1,
//!   an absent optional value as `-`,
//!   <bytes> ::= `_` (present, empty) | lowercase hex (≤ 64 bytes) | L<len>#<FNV-1a-32 of the bytes, 8 hex digits> (> 64 bytes)
//!   <props> ::= [<prop>{;<prop>}]   <prop> ::= <id>:<number> | <id>:<bytes> | <id>:<bytes>/<bytes>  (by value accessor, in packet order)
//!   per kind (keys in this order):
//!     CONNECT      pn:<bytes>,pv,cs,[cst (v3.1.1 `clean_start()` alias),]wf,wq,wr,uf,pf,ka,[props:<props>, (v5)]cid:<bytes>,
//!                  [wprops:<props>, (v5)]wt:<bytes|->,wp:<bytes|->,user:<bytes|->,pass:<bytes|->
//!     CONNACK      sp,rc[,props:<props> (v5)]
//!     PUBLISH      dup,qos,ret,topic:<bytes>,pid:<n|->,[props:<props>, (v5)]payload:<bytes>
//!     PUBACK/PUBREC/PUBREL/PUBCOMP   pid,rc:<n|->[,props:<props|-> (v5)]
//!     SUBSCRIBE    pid,[props:<props>, (v5)]entries:[<bytes>/<options byte from qos()/nl()/rap()/rh()>{;…}]
//!     SUBACK       pid,[props:<props>, (v5)]codes:[<n>{;<n>}]
//!     UNSUBSCRIBE  pid,[props:<props>, (v5)]topics:[<bytes>{;<bytes>}]
//!     UNSUBACK     pid (v3.1.1) | pid,props:<props>,codes:[…] (v5)
//!     PINGREQ/PINGRESP/DISCONNECT v3.1.1   -
//!     DISCONNECT/AUTH v5   rc:<n|->,props:<props|->
use crate::rng::{hex, unhex, Rng};
use mqtt_protocol_core::mqtt::packet::v3_1_1 as v3;
use mqtt_protocol_core::mqtt::packet::v5_0 as v5;
use mqtt_protocol_core::mqtt::packet::*;
use mqtt_protocol_core::mqtt::prelude::PropertyValueAccess;
use mqtt_protocol_core::mqtt::result_code::*;
use mqtt_protocol_core::mqtt::Arc;
use std::io::Write;
use std::panic::{catch_unwind, AssertUnwindSafe};

pub struct Obs {
    consumed: usize,
    size: usize,
    cont: Vec<u8>,
    bufs: Vec<u8>,
    /// accessor dump (see `AccDump`)
    acc: String,
}

pub enum Res {
    Ok(Obs),
    Err(String),
    Panic,
}

fn observe<P: GenericPacketTrait>(p: &P) -> (usize, Vec<u8>, Vec<u8>) {
    let cont = p.to_continuous_buffer();
    let mut bufs = vec![];
    for s in p.to_buffers() {
        bufs.extend_from_slice(&s);
    }
    (p.size(), cont, bufs)
}

/// the accessor dump of an accepted packet; an accessor that panics is reported as such (and not
/// as a panic of the parser)
fn observe_acc<P: AccDump>(p: &P) -> String {
    catch_unwind(AssertUnwindSafe(|| p.acc())).unwrap_or_else(|_| "PANIC".to_string())
}

fn run<P: GenericPacketTrait + AccDump>(f: impl FnOnce() -> Result<(P, usize), MqttError>) -> Res {
    match catch_unwind(AssertUnwindSafe(|| {
        f().map(|(p, c)| {
            let (size, cont, bufs) = observe(&p);
            let acc = observe_acc(&p);
            Obs { consumed: c, size, cont, bufs, acc }
        })
    })) {
        Ok(Ok(o)) => Res::Ok(o),
        Ok(Err(e)) => Res::Err(format!("{e:?}")),
        Err(_) => Res::Panic,
    }
}

/// does re-parsing the packet's own encoding give a packet with the same encoding?
fn reparse_same(ver: u8, pw: u8, cont: &[u8]) -> bool {
    match split_frame(cont).and_then(|(fh2, b2)| parse_any(ver, pw, fh2, &b2)) {
        Some(Res::Ok(o2)) => o2.cont == cont,
        _ => false,
    }
}

fn show(r: &Res, ver: u8, pw: u8) -> String {
    match r {
        Res::Ok(o) => format!(
            "ok {} {} {} {} {} acc={}",
            o.consumed,
            o.size,
            hex(&o.cont),
            if o.bufs == o.cont { "~".to_string() } else { hex(&o.bufs) },
            if reparse_same(ver, pw, &o.cont) { "R1" } else { "R0" },
            o.acc
        ),
        Res::Err(e) => format!("err {e}"),
        Res::Panic => "PANIC".to_string(),
    }
}

// ----------------------------------------------------------------------------------------
// accessor dump: the field values of an accepted packet as its PUBLIC ACCESSORS return them
// (format at the top of the file).  Nothing here reads the input bytes, `to_continuous_buffer()`
// or `to_buffers()`: a parser / serialiser pair that is self-consistent but reads a field
// differently from the specification shows up as a difference to the dump of the model's packet.

pub trait AccDump {
    fn acc(&self) -> String;
}

fn fnv1a32(b: &[u8]) -> u32 {
    let mut h: u32 = 0x811c_9dc5;
    for &x in b {
        h ^= x as u32;
        h = h.wrapping_mul(0x0100_0193);
    }
    h
}

/// a byte string value: `_` empty, hex up to 64 bytes, else length + FNV-1a 32
fn hx(b: &[u8]) -> String {
    if b.is_empty() {
        "_".to_string()
    } else if b.len() <= 64 {
        hex(b)
    } else {
        format!("L{}#{:08x}", b.len(), fnv1a32(b))
    }
}

fn ohx(o: Option<&[u8]>) -> String {
    match o {
        Some(b) => hx(b),
        None => "-".to_string(),
    }
}

fn onum<T: std::fmt::Display>(o: Option<T>) -> String {
    match o {
        Some(v) => v.to_string(),
        None => "-".to_string(),
    }
}

/// one property through `id()` and its value accessor (`PropertyValueAccess`)
fn acc_prop(p: &Property) -> String {
    let id = p.id().as_u8();
    if let Some(v) = p.as_u8() {
        format!("{id}:{v}")
    } else if let Some(v) = p.as_u16() {
        format!("{id}:{v}")
    } else if let Some(v) = p.as_u32() {
        format!("{id}:{v}")
    } else if let Some(v) = p.as_str() {
        format!("{id}:{}", hx(v.as_bytes()))
    } else if let Some(v) = p.as_bytes() {
        format!("{id}:{}", hx(v))
    } else if let Some((k, v)) = p.as_key_value() {
        format!("{id}:{}/{}", hx(k.as_bytes()), hx(v.as_bytes()))
    } else {
        format!("{id}:?")
    }
}

fn acc_list(items: impl Iterator<Item = String>) -> String {
    format!("[{}]", items.collect::<Vec<_>>().join(";"))
}

fn acc_props(ps: &Properties) -> String {
    acc_list(ps.iter().map(acc_prop))
}

fn acc_oprops(o: &Option<Properties>) -> String {
    match o {
        Some(ps) => acc_props(ps),
        None => "-".to_string(),
    }
}

/// filter + options byte recomposed from `qos()`, `nl()`, `rap()`, `rh()`
fn acc_entries(es: &[SubEntry]) -> String {
    acc_list(es.iter().map(|e| {
        let o = e.sub_opts();
        let byte = (o.qos() as u8) | ((o.nl() as u8) << 2) | ((o.rap() as u8) << 3) | ((o.rh() as u8) << 4);
        format!("{}/{}", hx(e.topic_filter().as_bytes()), byte)
    }))
}

fn acc_codes(codes: impl Iterator<Item = u8>) -> String {
    acc_list(codes.map(|c| c.to_string()))
}

impl AccDump for v3::Connect {
    fn acc(&self) -> String {
        format!(
            "pn:{},pv:{},cs:{},cst:{},wf:{},wq:{},wr:{},uf:{},pf:{},ka:{},cid:{},wt:{},wp:{},user:{},pass:{}",
            hx(self.protocol_name().as_bytes()),
            self.protocol_version(),
            self.clean_session() as u8,
            self.clean_start() as u8,
            self.will_flag() as u8,
            self.will_qos() as u8,
            self.will_retain() as u8,
            self.user_name_flag() as u8,
            self.password_flag() as u8,
            self.keep_alive(),
            hx(self.client_id().as_bytes()),
            ohx(self.will_topic().map(|s| s.as_bytes())),
            ohx(self.will_payload()),
            ohx(self.user_name().map(|s| s.as_bytes())),
            ohx(self.password())
        )
    }
}

impl AccDump for v5::Connect {
    fn acc(&self) -> String {
        format!(
            "pn:{},pv:{},cs:{},wf:{},wq:{},wr:{},uf:{},pf:{},ka:{},props:{},cid:{},wprops:{},wt:{},wp:{},user:{},pass:{}",
            hx(self.protocol_name().as_bytes()),
            self.protocol_version(),
            self.clean_start() as u8,
            self.will_flag() as u8,
            self.will_qos() as u8,
            self.will_retain() as u8,
            self.user_name_flag() as u8,
            self.password_flag() as u8,
            self.keep_alive(),
            acc_props(self.props()),
            hx(self.client_id().as_bytes()),
            acc_props(self.will_props()),
            ohx(self.will_topic().map(|s| s.as_bytes())),
            ohx(self.will_payload()),
            ohx(self.user_name().map(|s| s.as_bytes())),
            ohx(self.password())
        )
    }
}

impl AccDump for v3::Connack {
    fn acc(&self) -> String {
        format!("sp:{},rc:{}", self.session_present() as u8, self.return_code() as u8)
    }
}

impl AccDump for v5::Connack {
    fn acc(&self) -> String {
        format!("sp:{},rc:{},props:{}", self.session_present() as u8, self.reason_code() as u8, acc_props(self.props()))
    }
}

impl<T: IsPacketId> AccDump for v3::GenericPublish<T> {
    fn acc(&self) -> String {
        format!(
            "dup:{},qos:{},ret:{},topic:{},pid:{},payload:{}",
            self.dup() as u8,
            self.qos() as u8,
            self.retain() as u8,
            hx(self.topic_name().as_bytes()),
            onum(self.packet_id()),
            hx(self.payload().as_slice())
        )
    }
}

impl<T: IsPacketId> AccDump for v5::GenericPublish<T> {
    fn acc(&self) -> String {
        format!(
            "dup:{},qos:{},ret:{},topic:{},pid:{},props:{},payload:{}",
            self.dup() as u8,
            self.qos() as u8,
            self.retain() as u8,
            hx(self.topic_name().as_bytes()),
            onum(self.packet_id()),
            acc_props(self.props()),
            hx(self.payload().as_slice())
        )
    }
}

macro_rules! acc_ack {
    ($($G:ident),*) => {$(
        impl<T: IsPacketId> AccDump for v3::$G<T> {
            fn acc(&self) -> String {
                format!("pid:{},rc:{}", self.packet_id(), onum(self.reason_code().map(|c| c as u8)))
            }
        }
        impl<T: IsPacketId> AccDump for v5::$G<T> {
            fn acc(&self) -> String {
                format!("pid:{},rc:{},props:{}", self.packet_id(), onum(self.reason_code().map(|c| c as u8)), acc_oprops(self.props()))
            }
        }
    )*};
}
acc_ack!(GenericPuback, GenericPubrec, GenericPubrel, GenericPubcomp);

impl<T: IsPacketId> AccDump for v3::GenericSubscribe<T> {
    fn acc(&self) -> String {
        format!("pid:{},entries:{}", self.packet_id(), acc_entries(self.entries()))
    }
}

impl<T: IsPacketId> AccDump for v5::GenericSubscribe<T> {
    fn acc(&self) -> String {
        format!("pid:{},props:{},entries:{}", self.packet_id(), acc_props(self.props()), acc_entries(self.entries()))
    }
}

impl<T: IsPacketId> AccDump for v3::GenericSuback<T> {
    fn acc(&self) -> String {
        format!("pid:{},codes:{}", self.packet_id(), acc_codes(self.return_codes().into_iter().map(|c| c as u8)))
    }
}

impl<T: IsPacketId> AccDump for v5::GenericSuback<T> {
    fn acc(&self) -> String {
        format!(
            "pid:{},props:{},codes:{}",
            self.packet_id(),
            acc_props(self.props()),
            acc_codes(self.reason_codes().into_iter().map(|c| c as u8))
        )
    }
}

impl<T: IsPacketId> AccDump for v3::GenericUnsubscribe<T> {
    fn acc(&self) -> String {
        format!("pid:{},topics:{}", self.packet_id(), acc_list(self.entries().iter().map(|t| hx(t.as_str().as_bytes()))))
    }
}

impl<T: IsPacketId> AccDump for v5::GenericUnsubscribe<T> {
    fn acc(&self) -> String {
        format!(
            "pid:{},props:{},topics:{}",
            self.packet_id(),
            acc_props(self.props()),
            acc_list(self.entries().iter().map(|t| hx(t.as_str().as_bytes())))
        )
    }
}

impl<T: IsPacketId> AccDump for v3::GenericUnsuback<T> {
    fn acc(&self) -> String {
        format!("pid:{}", self.packet_id())
    }
}

impl<T: IsPacketId> AccDump for v5::GenericUnsuback<T> {
    fn acc(&self) -> String {
        format!(
            "pid:{},props:{},codes:{}",
            self.packet_id(),
            acc_props(self.props()),
            acc_codes(self.reason_codes().into_iter().map(|c| c as u8))
        )
    }
}

macro_rules! acc_none {
    ($($t:ty),*) => {$(
        impl AccDump for $t {
            fn acc(&self) -> String {
                "-".to_string()
            }
        }
    )*};
}
acc_none!(v3::Pingreq, v3::Pingresp, v3::Disconnect, v5::Pingreq, v5::Pingresp);

impl AccDump for v5::Disconnect {
    fn acc(&self) -> String {
        format!("rc:{},props:{}", onum(self.reason_code().map(|c| c as u8)), acc_oprops(self.props()))
    }
}

impl AccDump for v5::Auth {
    fn acc(&self) -> String {
        format!("rc:{},props:{}", onum(self.reason_code().map(|c| c as u8)), acc_oprops(self.props()))
    }
}

/// the real parser for (version, id width, fixed header byte); None if there is none
pub fn parse_any(ver: u8, pw: u8, fh: u8, body: &[u8]) -> Option<Res> {
    let ty = fh >> 4;
    let flags = fh & 0x0f;
    macro_rules! g {
        ($m:ident :: $t:ident) => {
            if pw == 2 {
                run(|| $m::$t::<u16>::parse(body))
            } else {
                run(|| $m::$t::<u32>::parse(body))
            }
        };
    }
    Some(match (ver, ty) {
        (4, 1) => run(|| v3::Connect::parse(body)),
        (4, 2) => run(|| v3::Connack::parse(body)),
        (4, 3) => {
            let arc: Arc<[u8]> = Arc::from(body);
            if pw == 2 {
                run(|| v3::GenericPublish::<u16>::parse(flags, arc))
            } else {
                run(|| v3::GenericPublish::<u32>::parse(flags, arc))
            }
        }
        (4, 4) => g!(v3::GenericPuback),
        (4, 5) => g!(v3::GenericPubrec),
        (4, 6) => g!(v3::GenericPubrel),
        (4, 7) => g!(v3::GenericPubcomp),
        (4, 8) => g!(v3::GenericSubscribe),
        (4, 9) => g!(v3::GenericSuback),
        (4, 10) => g!(v3::GenericUnsubscribe),
        (4, 11) => g!(v3::GenericUnsuback),
        (4, 12) => run(|| v3::Pingreq::parse(body)),
        (4, 13) => run(|| v3::Pingresp::parse(body)),
        (4, 14) => run(|| v3::Disconnect::parse(body)),
        (5, 1) => run(|| v5::Connect::parse(body)),
        (5, 2) => run(|| v5::Connack::parse(body)),
        (5, 3) => {
            let arc: Arc<[u8]> = Arc::from(body);
            if pw == 2 {
                run(|| v5::GenericPublish::<u16>::parse(flags, arc))
            } else {
                run(|| v5::GenericPublish::<u32>::parse(flags, arc))
            }
        }
        (5, 4) => g!(v5::GenericPuback),
        (5, 5) => g!(v5::GenericPubrec),
        (5, 6) => g!(v5::GenericPubrel),
        (5, 7) => g!(v5::GenericPubcomp),
        (5, 8) => g!(v5::GenericSubscribe),
        (5, 9) => g!(v5::GenericSuback),
        (5, 10) => g!(v5::GenericUnsubscribe),
        (5, 11) => g!(v5::GenericUnsuback),
        (5, 12) => run(|| v5::Pingreq::parse(body)),
        (5, 13) => run(|| v5::Pingresp::parse(body)),
        (5, 14) => run(|| v5::Disconnect::parse(body)),
        (5, 15) => run(|| v5::Auth::parse(body)),
        _ => return None,
    })
}

fn p_line(out: &mut dyn Write, ver: u8, pw: u8, fh: u8, body: &[u8]) {
    if let Some(r) = parse_any(ver, pw, fh, body) {
        writeln!(out, "P {ver} {pw} {fh:02x} {} = {}", hex(body), show(&r, ver, pw)).unwrap();
    }
}

/// (version, pw, fixed header) of every parser variant exercised
fn parsers() -> Vec<(u8, u8, u8)> {
    let mut v = vec![];
    for ver in [4u8, 5] {
        for ty in 1u8..=15 {
            if ver == 4 && ty == 15 {
                continue;
            }
            let pws: &[u8] = if (3..=11).contains(&ty) { &[2, 4] } else { &[2] };
            let flagss: Vec<u8> = match ty {
                3 => vec![0x0, 0x2, 0x4, 0x6, 0xb, 0xd],
                6 | 8 | 10 => vec![0x2],
                _ => vec![0x0],
            };
            for &pw in pws {
                for &f in &flagss {
                    v.push((ver, pw, (ty << 4) | f));
                }
            }
        }
    }
    v
}

/// frame → (fh, body) (skips the Remaining Length field)
fn split_frame(frame: &[u8]) -> Option<(u8, Vec<u8>)> {
    if frame.is_empty() {
        return None;
    }
    let mut i = 1;
    let mut n = 0;
    while i < frame.len() && n < 4 {
        n += 1;
        let b = frame[i];
        i += 1;
        if b & 0x80 == 0 {
            return Some((frame[0], frame[i..].to_vec()));
        }
    }
    None
}

// ----------------------------------------------------------------------------------------
// (a) exhaustive

const ALPHABET: [u8; 22] = [
    0x00, 0x01, 0x02, 0x03, 0x04, 0x05, 0x0b, 0x10, 0x11, 0x18, 0x1f, 0x23, 0x26, 0x4d, 0x7f, 0x80, 0x81, 0x82,
    0x92, 0xc2, 0xe0, 0xff,
];

fn exhaustive(thorough: bool, out: &mut dyn Write) {
    for (ver, pw, fh) in parsers() {
        writeln!(out, "T codec exh-{ver}-{pw}-{fh:02x}").unwrap();
        // every body of length 0 and 1
        p_line(out, ver, pw, fh, &[]);
        for b in 0..=255u8 {
            p_line(out, ver, pw, fh, &[b]);
        }
        // every byte value at the first positions after nothing / a zero byte / a valid packet id
        // (reason-code tables, property-length and property-id bytes), model-compared
        let idp: Vec<u8> = if pw == 2 { vec![0, 1] } else { vec![0, 0, 0, 1] };
        let mut idp0 = idp.clone();
        idp0.push(0);
        for prefix in [vec![0u8], idp.clone(), idp0] {
            for suffix in [vec![], vec![0u8]] {
                for b in 0..=255u8 {
                    let mut body = prefix.clone();
                    body.push(b);
                    body.extend(&suffix);
                    p_line(out, ver, pw, fh, &body);
                }
            }
        }
        // lengths 2..3 (4) over the reduced alphabet, model-compared
        let maxlen = if thorough { 4 } else { 3 };
        for len in 2..=maxlen {
            let mut idx = vec![0usize; len];
            loop {
                let body: Vec<u8> = idx.iter().map(|&i| ALPHABET[i]).collect();
                p_line(out, ver, pw, fh, &body);
                let mut k = len;
                loop {
                    if k == 0 {
                        break;
                    }
                    k -= 1;
                    idx[k] += 1;
                    if idx[k] < ALPHABET.len() {
                        break;
                    }
                    idx[k] = 0;
                    if k == 0 {
                        k = usize::MAX;
                        break;
                    }
                }
                if k == usize::MAX {
                    break;
                }
            }
        }
        // full alphabet sweep, monitors evaluated here; offending cases are printed as P lines
        let full = if thorough { 3 } else { 2 };
        for len in 2..=full {
            let total: u64 = 256u64.pow(len as u32);
            let (mut nok, mut nerr, mut npanic, mut nbad) = (0u64, 0u64, 0u64, 0u64);
            let mut printed = 0;
            let mut body = vec![0u8; len];
            for n in 0..total {
                let mut x = n;
                for k in (0..len).rev() {
                    body[k] = (x & 0xff) as u8;
                    x >>= 8;
                }
                let r = parse_any(ver, pw, fh, &body).unwrap();
                let bad = match &r {
                    Res::Ok(o) => {
                        nok += 1;
                        let mut bad = o.consumed > body.len() || o.size != o.cont.len() || o.bufs != o.cont;
                        if !bad {
                            bad = !reparse_same(ver, pw, &o.cont);
                        }
                        bad
                    }
                    Res::Err(_) => {
                        nerr += 1;
                        false
                    }
                    Res::Panic => {
                        npanic += 1;
                        true
                    }
                };
                if bad {
                    nbad += 1;
                    if printed < 8 {
                        printed += 1;
                        p_line(out, ver, pw, fh, &body);
                    }
                }
            }
            writeln!(out, "E {ver} {pw} {fh:02x} len={len} cases={total} ok={nok} err={nerr} panic={npanic} bad={nbad}").unwrap();
        }
        writeln!(out, "END").unwrap();
    }
}

// ----------------------------------------------------------------------------------------
// (c) type-directed generator over the real builders

fn gen_len(rng: &mut Rng, big: bool) -> usize {
    match rng.below(if big { 40 } else { 30 }) {
        0..=3 => 0,
        4..=7 => 1,
        8..=11 => rng.below(8) as usize,
        12..=15 => 5 + rng.below(30) as usize,
        16..=18 => 126 + rng.below(4) as usize,
        19..=29 => rng.below(12) as usize,
        30 => 16382 + rng.below(4) as usize,
        31 => 65535,
        32 => 65533 + rng.below(3) as usize,
        _ => 200 + rng.below(300) as usize,
    }
}

/// valid UTF-8 of exactly `len` bytes
fn gen_string(rng: &mut Rng, len: usize) -> String {
    let mut s = String::with_capacity(len);
    while s.len() < len {
        let room = len - s.len();
        let c = match rng.below(20) {
            0 if room >= 2 => 'é',
            1 if room >= 3 => '€',
            2 if room >= 4 => '😀',
            3 => '/',
            4 if room >= 3 => '\u{FFFF}',
            5 => '\u{0}',
            6 if room >= 2 => '\u{7FF}',
            _ => (b'a' + rng.below(26) as u8) as char,
        };
        s.push(c);
    }
    s
}

fn gen_bytes(rng: &mut Rng, len: usize) -> Vec<u8> {
    (0..len).map(|_| rng.below(256) as u8).collect()
}

fn gen_topic(rng: &mut Rng, big: bool) -> String {
    match rng.below(30) {
        0 => String::new(),
        1 => "a/#".to_string(),
        2 => "+/b".to_string(),
        _ => {
            let n = gen_len(rng, big);
            let mut s = gen_string(rng, n);
            if rng.chance(1, 2) {
                s = s.replace('\u{0}', "z");
            }
            s
        }
    }
}

fn gen_filter(rng: &mut Rng, big: bool) -> String {
    match rng.below(40) {
        0 => "#".to_string(),
        1 => "+/x".to_string(),
        2 => "$share/g/t".to_string(),
        3 => "$share//t".to_string(),
        4 => "$share/g".to_string(),
        5 => "$share/g+/t".to_string(),
        6 => "$share/g#/t/u".to_string(),
        7 => "$share/".to_string(),
        8 => "$shar".to_string(),
        9 | 10 | 11 => "$share/é/€".to_string(),
        12 | 13 => "a/+/b/#".to_string(),
        _ => {
            let n = gen_len(rng, big);
            gen_string(rng, n)
        }
    }
}

const ALL_PROP_IDS: [u8; 27] = [1, 2, 3, 8, 9, 11, 17, 18, 19, 21, 22, 23, 24, 25, 26, 28, 31, 33, 34, 35, 36, 37, 38, 39, 40, 41, 42];

fn make_prop(id: u8, rng: &mut Rng, big: bool) -> Option<Property> {
    let slen = |rng: &mut Rng| gen_len(rng, big);
    let u32v = |rng: &mut Rng| match rng.below(6) {
        0 => 1u32,
        1 => 0,
        2 => u32::MAX,
        3 => 65536,
        _ => rng.next() as u32,
    };
    let u16v = |rng: &mut Rng| match rng.below(5) {
        0 => 1u16,
        1 => 0,
        2 => u16::MAX,
        _ => rng.next() as u16,
    };
    let vbiv = |rng: &mut Rng| match rng.below(10) {
        0 => 0u32,
        1 => 1,
        2 => 127,
        3 => 128,
        4 => 16383,
        5 => 16384,
        6 => 2097151,
        7 => 2097152,
        8 => 268435455,
        _ => 268435456,
    };
    macro_rules! s {
        ($t:ident) => {{
            let n = slen(rng);
            $t::new(gen_string(rng, n)).ok().map(Property::$t)
        }};
    }
    macro_rules! b {
        ($t:ident) => {{
            let n = slen(rng);
            $t::new(gen_bytes(rng, n)).ok().map(Property::$t)
        }};
    }
    macro_rules! n {
        ($t:ident, $v:expr) => {
            $t::new($v).ok().map(Property::$t)
        };
    }
    match id {
        1 => PayloadFormatIndicator::new(if rng.chance(1, 2) { PayloadFormat::String } else { PayloadFormat::Binary }).ok().map(Property::PayloadFormatIndicator),
        2 => n!(MessageExpiryInterval, u32v(rng)),
        3 => s!(ContentType),
        8 => s!(ResponseTopic),
        9 => b!(CorrelationData),
        11 => n!(SubscriptionIdentifier, vbiv(rng)),
        17 => n!(SessionExpiryInterval, u32v(rng)),
        18 => s!(AssignedClientIdentifier),
        19 => n!(ServerKeepAlive, u16v(rng)),
        21 => s!(AuthenticationMethod),
        22 => b!(AuthenticationData),
        23 => n!(RequestProblemInformation, rng.below(3) as u8),
        24 => n!(WillDelayInterval, u32v(rng)),
        25 => n!(RequestResponseInformation, rng.below(3) as u8),
        26 => s!(ResponseInformation),
        28 => s!(ServerReference),
        31 => s!(ReasonString),
        33 => n!(ReceiveMaximum, u16v(rng)),
        34 => n!(TopicAliasMaximum, u16v(rng)),
        35 => n!(TopicAlias, u16v(rng)),
        36 => n!(MaximumQos, rng.below(3) as u8),
        37 => n!(RetainAvailable, rng.below(3) as u8),
        38 => {
            let (a, b) = (slen(rng), slen(rng));
            UserProperty::new(gen_string(rng, a), gen_string(rng, b)).ok().map(Property::UserProperty)
        }
        39 => n!(MaximumPacketSize, u32v(rng)),
        40 => n!(WildcardSubscriptionAvailable, rng.below(3) as u8),
        41 => n!(SubscriptionIdentifierAvailable, rng.below(3) as u8),
        42 => n!(SharedSubscriptionAvailable, rng.below(3) as u8),
        _ => None,
    }
}

/// 0..n properties, mostly legal at this location (ids from `allowed`, unique ones once),
/// sometimes an illegal id or a duplicate
fn gen_props(rng: &mut Rng, allowed: &[u8], big: bool) -> Properties {
    let mut props = Properties::new();
    let n = match rng.below(8) {
        0..=2 => 0,
        3..=4 => 1,
        5 => 2,
        6 => 3,
        _ => 1 + rng.below(allowed.len() as u64 + 2),
    };
    let mut used: Vec<u8> = vec![];
    for _ in 0..n {
        let mode = rng.below(40);
        let id = if mode == 0 {
            *rng.pick(&ALL_PROP_IDS) // possibly illegal here
        } else {
            *rng.pick(allowed)
        };
        if mode != 1 && id != 38 && id != 11 && used.contains(&id) {
            continue; // avoid most duplicates
        }
        if let Some(p) = make_prop(id, rng, big) {
            used.push(id);
            props.push(p);
        }
    }
    props
}

fn props_hex(p: &Properties) -> String {
    let mut v = vec![];
    for x in p {
        v.extend(x.to_continuous_buffer());
    }
    hex(&v)
}

const CONNECT_P: [u8; 9] = [17, 33, 39, 34, 25, 23, 38, 21, 22];
const WILL_P: [u8; 7] = [24, 1, 2, 3, 8, 9, 38];
const CONNACK_P: [u8; 17] = [17, 33, 36, 37, 39, 18, 34, 31, 40, 41, 42, 19, 26, 28, 21, 22, 38];
const PUBLISH_P: [u8; 8] = [3, 9, 2, 1, 8, 11, 35, 38];
const ACK_P: [u8; 2] = [31, 38];
const SUBSCRIBE_P: [u8; 2] = [11, 38];
const UNSUBSCRIBE_P: [u8; 1] = [38];
const DISCONNECT_P: [u8; 4] = [17, 31, 38, 28];
const AUTH_P: [u8; 4] = [21, 22, 31, 38];

fn gen_pid(rng: &mut Rng, pw: u8) -> u32 {
    match rng.below(12) {
        0 => 0,
        1 => 1,
        2 => 0xffff,
        3 if pw == 4 => 0x10000,
        4 if pw == 4 => 0xffff_ffff,
        5 => 256,
        _ => {
            if pw == 4 {
                rng.next() as u32
            } else {
                rng.next() as u16 as u32
            }
        }
    }
}

/// one `B` line; returns the frame if the builder accepted
fn b_line<P: GenericPacketTrait + PartialEq + AccDump>(
    out: &mut dyn Write,
    ver: u8,
    pw: u8,
    fh_hint: u8,
    desc: &str,
    build: impl FnOnce() -> Result<P, MqttError>,
    parse: impl FnOnce(u8, &[u8]) -> Result<(P, usize), MqttError>,
) -> Option<Vec<u8>> {
    let built = catch_unwind(AssertUnwindSafe(build));
    match built {
        Err(_) => {
            writeln!(out, "B {ver} {pw} {fh_hint:02x} {desc} = PANIC").unwrap();
            None
        }
        Ok(Err(e)) => {
            writeln!(out, "B {ver} {pw} {fh_hint:02x} {desc} = err {e:?}").unwrap();
            None
        }
        Ok(Ok(p)) => {
            let (size, cont, bufs) = observe(&p);
            let fh = cont[0];
            if ver == 5 {
                // the built packet's own property lists (accessors), for the placement / multiplicity table
                writeln!(out, "BA {ver} {pw} {fh:02x} acc={}", observe_acc(&p)).unwrap();
            }
            let body = split_frame(&cont).map(|x| x.1).unwrap_or_default();
            let mut eq = false;
            let r = run(|| {
                let r = parse(fh & 0x0f, &body);
                if let Ok((q, _)) = &r {
                    eq = *q == p;
                }
                r
            });
            writeln!(
                out,
                "B {ver} {pw} {fh:02x} {desc} = ok {size} {} {} ; {} ; eq={}",
                hex(&cont),
                if bufs == cont { "~".to_string() } else { hex(&bufs) },
                show(&r, ver, pw),
                eq as u8
            )
            .unwrap();
            Some(cont)
        }
    }
}

fn opt<T: std::fmt::Display>(o: &Option<T>) -> String {
    match o {
        Some(v) => v.to_string(),
        None => "none".to_string(),
    }
}
fn opt_hex(o: &Option<Vec<u8>>) -> String {
    match o {
        Some(v) => hex(v),
        None => "none".to_string(),
    }
}
fn opt_props(o: &Option<Properties>) -> String {
    match o {
        Some(v) => props_hex(v),
        None => "none".to_string(),
    }
}

macro_rules! with_pid {
    ($pw:expr, $T:ident => $body:expr) => {
        if $pw == 2 {
            type $T = u16;
            $body
        } else {
            type $T = u32;
            $body
        }
    };
}


type WillCase = (String, Vec<u8>, u8, bool);

/// one CONNECT builder case (setters in the order client ids use them)
#[allow(clippy::too_many_arguments)]
fn connect_case(
    out: &mut dyn Write,
    ver: u8,
    pw: u8,
    cs: Option<bool>,
    ka: Option<u16>,
    cid: Option<String>,
    will: Option<WillCase>,
    user: Option<String>,
    pass: Option<Vec<u8>>,
    props: Option<Properties>,
    wprops: Option<Properties>,
) -> Option<Vec<u8>> {
    let desc = format!(
        "cs={} ka={} cid={} will={} user={} pass={} props={} wprops={}",
        opt(&cs.map(|b| b as u8)),
        opt(&ka),
        opt_hex(&cid.clone().map(|s| s.into_bytes())),
        match &will {
            Some((t, p, q, r)) => format!("{},{},{},{}", hex(t.as_bytes()), hex(p), q, *r as u8),
            None => "none".to_string(),
        },
        opt_hex(&user.clone().map(|s| s.into_bytes())),
        opt_hex(&pass),
        opt_props(&props),
        opt_props(&wprops)
    );
    let qos = |q: u8| Qos::try_from(q).unwrap();
    if ver == 4 {
        b_line(out, ver, pw, 0x10, &desc, || {
            let mut b = v3::Connect::builder();
            let clean_last = ka.map(|k| k % 2 == 1).unwrap_or(false);
            if let (Some(c), false) = (cs, clean_last) { b = b.clean_session(c); }
            if let Some(c) = &cid { b = b.client_id(c.as_str())?; }
            if let Some((t, p, q, r)) = &will { b = b.will_message(t.as_str(), p.clone(), qos(*q), *r)?; }
            if let Some(u) = &user { b = b.user_name(u.as_str())?; }
            if let Some(p) = &pass { b = b.password(p.clone())?; }
            if let Some(k) = ka { b = b.keep_alive(k); }
            if let (Some(c), true) = (cs, clean_last) { b = b.clean_session(c); }
            b.build()
        }, |_, body| v3::Connect::parse(body))
    } else {
        b_line(out, ver, pw, 0x10, &desc, || {
            let mut b = v5::Connect::builder();
            let clean_last = ka.map(|k| k % 2 == 1).unwrap_or(false);
            if let (Some(c), false) = (cs, clean_last) { b = b.clean_start(c); }
            if let Some(c) = &cid { b = b.client_id(c.as_str())?; }
            if let Some((t, p, q, r)) = &will { b = b.will_message(t.as_str(), p.clone(), qos(*q), *r)?; }
            if let Some(u) = &user { b = b.user_name(u.as_str())?; }
            if let Some(p) = &pass { b = b.password(p.clone())?; }
            if let Some(k) = ka { b = b.keep_alive(k); }
            if let Some(p) = &props { b = b.props(p.clone()); }
            if let Some(p) = &wprops { b = b.will_props(p.clone()); }
            if let (Some(c), true) = (cs, clean_last) { b = b.clean_start(c); }
            b.build()
        }, |_, body| v5::Connect::parse(body))
    }
}

/// the payload as the application may hand it over: an owned buffer, or a zero-copy view
/// (`ArcPayload::new(shared, start, length)`) that is a prefix / an inner part of a larger buffer
fn payload_view(p: &[u8]) -> mqtt_protocol_core::mqtt::common::ArcPayload {
    use mqtt_protocol_core::mqtt::common::{ArcPayload, IntoPayload};
    match p.len() % 3 {
        1 => {
            let mut buf = p.to_vec();
            buf.extend_from_slice(&[0xEE; 5]);
            ArcPayload::new(Arc::from(buf.into_boxed_slice()), 0, p.len())
        }
        2 => {
            let mut buf = vec![0xDD; 3];
            buf.extend_from_slice(p);
            buf.extend_from_slice(&[0xEE; 4]);
            ArcPayload::new(Arc::from(buf.into_boxed_slice()), 3, p.len())
        }
        _ => p.to_vec().into_payload(),
    }
}

/// one PUBLISH builder case
#[allow(clippy::too_many_arguments)]
fn publish_case(
    out: &mut dyn Write,
    ver: u8,
    pw: u8,
    topic: Option<String>,
    qos: Option<u8>,
    dup: Option<bool>,
    retain: Option<bool>,
    pid: Option<u32>,
    payload: Option<Vec<u8>>,
    props: Option<Properties>,
) -> Option<Vec<u8>> {
    let desc = format!(
        "topic={} qos={} dup={} retain={} pid={} payload={} props={}",
        opt_hex(&topic.clone().map(|s| s.into_bytes())), opt(&qos), opt(&dup.map(|b| b as u8)),
        opt(&retain.map(|b| b as u8)), opt(&pid), opt_hex(&payload), opt_props(&props)
    );
    with_pid!(pw, T => {
        if ver == 4 {
            b_line(out, ver, pw, 0x30, &desc, || {
                let mut b = v3::GenericPublish::<T>::builder();
                if let Some(t) = &topic { b = b.topic_name(t.as_str())?; }
                if let Some(q) = qos { b = b.qos(Qos::try_from(q).unwrap()); }
                if let Some(d) = dup { b = b.dup(d); }
                if let Some(r) = retain { b = b.retain(r); }
                if let Some(i) = pid { b = b.packet_id(i as T); }
                if let Some(p) = &payload { b = b.payload(payload_view(p)); }
                b.build()
            }, |f, body| v3::GenericPublish::<T>::parse(f, Arc::from(body)))
        } else {
            b_line(out, ver, pw, 0x30, &desc, || {
                let mut b = v5::GenericPublish::<T>::builder();
                if let Some(t) = &topic { b = b.topic_name(t.as_str())?; }
                if let Some(q) = qos { b = b.qos(Qos::try_from(q).unwrap()); }
                if let Some(d) = dup { b = b.dup(d); }
                if let Some(r) = retain { b = b.retain(r); }
                if let Some(i) = pid { b = b.packet_id(i as T); }
                if let Some(p) = &payload { b = b.payload(payload_view(p)); }
                if let Some(p) = &props { b = b.props(p.clone()); }
                b.build()
            }, |f, body| v5::GenericPublish::<T>::parse(f, Arc::from(body)))
        }
    })
}

/// one SUBSCRIBE builder case; every entry goes through `SubEntry::new(filter, opts)?`
fn subscribe_case(out: &mut dyn Write, ver: u8, pw: u8, pid: Option<u32>, entries: Option<Vec<(String, u8)>>, props: Option<Properties>) -> Option<Vec<u8>> {
    let desc = format!(
        "pid={} entries={} props={}", opt(&pid),
        match &entries { Some(es) => format!("{}:{}", es.len(), es.iter().map(|(t, o)| format!("{}/{}", hex(t.as_bytes()), o)).collect::<Vec<_>>().join(",")), None => "none".to_string() },
        opt_props(&props)
    );
    let mk = |es: &Vec<(String, u8)>| -> Result<Vec<SubEntry>, MqttError> {
        es.iter().map(|(t, o)| {
            let so = SubOpts::new()
                .set_qos(Qos::try_from(o & 3).unwrap())
                .set_nl(o & 4 != 0)
                .set_rap(o & 8 != 0)
                .set_rh(RetainHandling::try_from((o >> 4) & 3).unwrap());
            SubEntry::new(t.as_str(), so)
        }).collect()
    };
    with_pid!(pw, T => {
        if ver == 4 {
            b_line(out, ver, pw, 0x82, &desc, || {
                let mut b = v3::GenericSubscribe::<T>::builder();
                if let Some(i) = pid { b = b.packet_id(i as T); }
                if let Some(es) = &entries { b = b.entries(mk(es)?); }
                b.build()
            }, |_, body| v3::GenericSubscribe::<T>::parse(body))
        } else {
            b_line(out, ver, pw, 0x82, &desc, || {
                let mut b = v5::GenericSubscribe::<T>::builder();
                if let Some(i) = pid { b = b.packet_id(i as T); }
                if let Some(es) = &entries { b = b.entries(mk(es)?); }
                if let Some(p) = &props { b = b.props(p.clone()); }
                b.build()
            }, |_, body| v5::GenericSubscribe::<T>::parse(body))
        }
    })
}

/// one UNSUBSCRIBE builder case
fn unsubscribe_case(out: &mut dyn Write, ver: u8, pw: u8, pid: Option<u32>, topics: Option<Vec<String>>, props: Option<Properties>) -> Option<Vec<u8>> {
    let desc = format!(
        "pid={} topics={} props={}", opt(&pid),
        match &topics { Some(ts) => format!("{}:{}", ts.len(), ts.iter().map(|t| hex(t.as_bytes())).collect::<Vec<_>>().join(",")), None => "none".to_string() },
        opt_props(&props)
    );
    with_pid!(pw, T => {
        if ver == 4 {
            b_line(out, ver, pw, 0xa2, &desc, || {
                let mut b = v3::GenericUnsubscribe::<T>::builder();
                if let Some(i) = pid { b = b.packet_id(i as T); }
                if let Some(ts) = &topics { b = b.entries(ts.iter().map(|s| s.as_str()))?; }
                b.build()
            }, |_, body| v3::GenericUnsubscribe::<T>::parse(body))
        } else {
            b_line(out, ver, pw, 0xa2, &desc, || {
                let mut b = v5::GenericUnsubscribe::<T>::builder();
                if let Some(i) = pid { b = b.packet_id(i as T); }
                if let Some(ts) = &topics { b = b.entries(ts.iter().map(|s| s.as_str()))?; }
                if let Some(p) = &props { b = b.props(p.clone()); }
                b.build()
            }, |_, body| v5::GenericUnsubscribe::<T>::parse(body))
        }
    })
}


/// one builder case of the kinds with few setters: CONNACK (`sp`, `rc`, `props`), PUBACK…PUBCOMP
/// (`pid`, `rc`, `props`), SUBACK / UNSUBACK (`pid`, `codes`, `props`), PINGREQ / PINGRESP /
/// DISCONNECT v3.1.1 (none), DISCONNECT / AUTH v5.0 (`rc`, `props`); `rc` / `codes` must be valid
/// discriminants of the enum the setter takes
#[allow(clippy::too_many_arguments)]
fn simple_case(out: &mut dyn Write, ver: u8, pw: u8, ty: u8, pid: Option<u32>, sp: Option<bool>, rc: Option<u8>, codes: Option<Vec<u8>>, props: Option<Properties>) -> Option<Vec<u8>> {
    match (ver, ty) {
        (4, 2) => {
            let desc = format!("sp={} rc={}", opt(&sp.map(|b| b as u8)), opt(&rc));
            b_line(out, ver, pw, 0x20, &desc, || {
                let mut b = v3::Connack::builder();
                if let Some(s) = sp { b = b.session_present(s); }
                if let Some(r) = rc { b = b.return_code(ConnectReturnCode::try_from(r).unwrap()); }
                b.build()
            }, |_, body| v3::Connack::parse(body))
        }
        (5, 2) => {
            let desc = format!("sp={} rc={} props={}", opt(&sp.map(|b| b as u8)), opt(&rc), opt_props(&props));
            b_line(out, ver, pw, 0x20, &desc, || {
                let mut b = v5::Connack::builder();
                if let Some(s) = sp { b = b.session_present(s); }
                if let Some(r) = rc { b = b.reason_code(ConnectReasonCode::try_from(r).unwrap()); }
                if let Some(p) = &props { b = b.props(p.clone()); }
                b.build()
            }, |_, body| v5::Connack::parse(body))
        }
        (_, 4..=7) => {
            let desc = format!("pid={} rc={} props={}", opt(&pid), opt(&rc), opt_props(&props));
            macro_rules! ack {
                ($m:ident, $G:ident, $RC:ident, $fh:expr, $has_props:tt) => {
                    with_pid!(pw, T => b_line(out, ver, pw, $fh, &desc, || {
                        let mut b = $m::$G::<T>::builder();
                        if let Some(i) = pid { b = b.packet_id(i as T); }
                        if let Some(r) = rc { b = b.reason_code($RC::try_from(r).unwrap()); }
                        ack!(@props $has_props b);
                        b.build()
                    }, |_, body| $m::$G::<T>::parse(body)))
                };
                (@props true $b:ident) => { if let Some(p) = &props { $b = $b.props(p.clone()); } };
                (@props false $b:ident) => {};
            }
            match (ver, ty) {
                (4, 4) => ack!(v3, GenericPuback, PubackReasonCode, 0x40, false),
                (4, 5) => ack!(v3, GenericPubrec, PubrecReasonCode, 0x50, false),
                (4, 6) => ack!(v3, GenericPubrel, PubrelReasonCode, 0x62, false),
                (4, 7) => ack!(v3, GenericPubcomp, PubcompReasonCode, 0x70, false),
                (5, 4) => ack!(v5, GenericPuback, PubackReasonCode, 0x40, true),
                (5, 5) => ack!(v5, GenericPubrec, PubrecReasonCode, 0x50, true),
                (5, 6) => ack!(v5, GenericPubrel, PubrelReasonCode, 0x62, true),
                _ => ack!(v5, GenericPubcomp, PubcompReasonCode, 0x70, true),
            }
        }
        (_, 9) | (5, 11) => {
            let desc = format!("pid={} codes={} props={}", opt(&pid), opt_hex(&codes), opt_props(&props));
            with_pid!(pw, T => {
                match (ver, ty) {
                    (4, _) => b_line(out, ver, pw, 0x90, &desc, || {
                        let mut b = v3::GenericSuback::<T>::builder();
                        if let Some(i) = pid { b = b.packet_id(i as T); }
                        if let Some(c) = &codes { b = b.return_codes(c.iter().map(|&x| SubackReturnCode::try_from(x).unwrap()).collect()); }
                        b.build()
                    }, |_, body| v3::GenericSuback::<T>::parse(body)),
                    (5, 9) => b_line(out, ver, pw, 0x90, &desc, || {
                        let mut b = v5::GenericSuback::<T>::builder();
                        if let Some(i) = pid { b = b.packet_id(i as T); }
                        if let Some(c) = &codes { b = b.reason_codes(c.iter().map(|&x| SubackReasonCode::try_from(x).unwrap()).collect()); }
                        if let Some(p) = &props { b = b.props(p.clone()); }
                        b.build()
                    }, |_, body| v5::GenericSuback::<T>::parse(body)),
                    _ => b_line(out, ver, pw, 0xb0, &desc, || {
                        let mut b = v5::GenericUnsuback::<T>::builder();
                        if let Some(i) = pid { b = b.packet_id(i as T); }
                        if let Some(c) = &codes { b = b.reason_codes(c.iter().map(|&x| UnsubackReasonCode::try_from(x).unwrap()).collect()); }
                        if let Some(p) = &props { b = b.props(p.clone()); }
                        b.build()
                    }, |_, body| v5::GenericUnsuback::<T>::parse(body)),
                }
            })
        }
        (4, 11) => {
            let desc = format!("pid={}", opt(&pid));
            with_pid!(pw, T => b_line(out, ver, pw, 0xb0, &desc, || {
                let mut b = v3::GenericUnsuback::<T>::builder();
                if let Some(i) = pid { b = b.packet_id(i as T); }
                b.build()
            }, |_, body| v3::GenericUnsuback::<T>::parse(body)))
        }
        (4, 12) => b_line(out, ver, pw, 0xc0, "-", || v3::Pingreq::builder().build(), |_, b| v3::Pingreq::parse(b)),
        (4, 13) => b_line(out, ver, pw, 0xd0, "-", || v3::Pingresp::builder().build(), |_, b| v3::Pingresp::parse(b)),
        (4, 14) => b_line(out, ver, pw, 0xe0, "-", || v3::Disconnect::builder().build(), |_, b| v3::Disconnect::parse(b)),
        (5, 12) => b_line(out, ver, pw, 0xc0, "-", || v5::Pingreq::builder().build(), |_, b| v5::Pingreq::parse(b)),
        (5, 13) => b_line(out, ver, pw, 0xd0, "-", || v5::Pingresp::builder().build(), |_, b| v5::Pingresp::parse(b)),
        (5, 14) => {
            let desc = format!("rc={} props={}", opt(&rc), opt_props(&props));
            b_line(out, ver, pw, 0xe0, &desc, || {
                let mut b = v5::Disconnect::builder();
                if let Some(r) = rc { b = b.reason_code(pick_rc_from::<DisconnectReasonCode>(r)); }
                if let Some(p) = &props { b = b.props(p.clone()); }
                b.build()
            }, |_, body| v5::Disconnect::parse(body))
        }
        (5, 15) => {
            let desc = format!("rc={} props={}", opt(&rc), opt_props(&props));
            b_line(out, ver, pw, 0xf0, &desc, || {
                let mut b = v5::Auth::builder();
                if let Some(r) = rc { b = b.reason_code(pick_rc_from::<AuthReasonCode>(r)); }
                if let Some(p) = &props { b = b.props(p.clone()); }
                b.build()
            }, |_, body| v5::Auth::parse(body))
        }
        _ => None,
    }
}

/// generates one builder case of packet type `ty` and returns its frame (if accepted)
fn gen_case(rng: &mut Rng, ver: u8, pw: u8, ty: u8, big: bool, out: &mut dyn Write) -> Option<Vec<u8>> {
    let may = |rng: &mut Rng, num: u64, den: u64| rng.chance(num, den);
    match (ver, ty) {
        (_, 1) => {
            let cs = if may(rng, 2, 3) { Some(rng.chance(1, 2)) } else { None };
            let ka = if may(rng, 2, 3) { Some(rng.next() as u16) } else { None };
            let cid = if may(rng, 4, 5) { { let n = gen_len(rng, big); Some(gen_string(rng, n)) } } else { None };
            let will = if may(rng, 1, 2) {
                let n = gen_len(rng, big);
                Some((gen_topic(rng, big), gen_bytes(rng, n), rng.below(3) as u8, rng.chance(1, 2)))
            } else {
                None
            };
            let user = if may(rng, 1, 2) { { let n = gen_len(rng, big); Some(gen_string(rng, n)) } } else { None };
            let pass = if may(rng, 2, 5) { { let n = gen_len(rng, big); Some(gen_bytes(rng, n)) } } else { None };
            let props = if ver == 5 && may(rng, 2, 3) { Some(gen_props(rng, &CONNECT_P, big)) } else { None };
            let wprops = if ver == 5 && (will.is_some() || may(rng, 1, 10)) && may(rng, 2, 3) { Some(gen_props(rng, &WILL_P, big)) } else { None };
            connect_case(out, ver, pw, cs, ka, cid, will, user, pass, props, wprops)
        }
        (4, 2) => {
            let sp = if may(rng, 9, 10) { Some(rng.chance(1, 2)) } else { None };
            let rc = if may(rng, 9, 10) { Some(rng.below(6) as u8) } else { None };
            simple_case(out, ver, pw, ty, None, sp, rc, None, None)
        }
        (5, 2) => {
            let sp = if may(rng, 9, 10) { Some(rng.chance(1, 2)) } else { None };
            let codes = [0x00u8, 0x80, 0x81, 0x82, 0x83, 0x84, 0x85, 0x86, 0x87, 0x88, 0x89, 0x8a, 0x8c, 0x90, 0x95, 0x97, 0x99, 0x9a, 0x9b, 0x9c, 0x9d, 0x9f];
            let rc = if may(rng, 9, 10) { Some(*rng.pick(&codes)) } else { None };
            let props = if may(rng, 3, 4) { Some(gen_props(rng, &CONNACK_P, big)) } else { None };
            simple_case(out, ver, pw, ty, None, sp, rc, None, props)
        }
        (_, 3) => {
            let topic = if may(rng, 9, 10) { Some(gen_topic(rng, big)) } else { None };
            let qos = if may(rng, 4, 5) { Some(rng.below(3) as u8) } else { None };
            let dup = if may(rng, 1, 3) { Some(rng.chance(1, 2)) } else { None };
            let retain = if may(rng, 1, 3) { Some(rng.chance(1, 2)) } else { None };
            let want_pid = match qos { Some(q) if q > 0 => may(rng, 19, 20), _ => may(rng, 1, 20) };
            let pid = if want_pid { Some(gen_pid(rng, pw)) } else { None };
            let payload = if may(rng, 4, 5) {
                let n = if big && may(rng, 1, 8) { 70000 } else { gen_len(rng, big) };
                Some(gen_bytes(rng, n))
            } else { None };
            let props = if ver == 5 && may(rng, 3, 4) { Some(gen_props(rng, &PUBLISH_P, big)) } else { None };
            publish_case(out, ver, pw, topic, qos, dup, retain, pid, payload, props)
        }
        (_, 4..=7) => {
            let pid = if may(rng, 19, 20) { Some(gen_pid(rng, pw)) } else { None };
            let a_codes = [0x00u8, 0x10, 0x80, 0x83, 0x87, 0x90, 0x91, 0x97, 0x99];
            let r_codes = [0x00u8, 0x92];
            let codes: &[u8] = if ty <= 5 { &a_codes } else { &r_codes };
            let rc = if may(rng, 2, 3) { Some(*rng.pick(codes)) } else { None };
            let props = if ver == 5 && (rc.is_some() || may(rng, 1, 10)) && may(rng, 2, 3) { Some(gen_props(rng, &ACK_P, big)) } else { None };
            simple_case(out, ver, pw, ty, pid, None, rc, None, props)
        }
        (_, 8) => {
            let pid = if may(rng, 19, 20) { Some(gen_pid(rng, pw)) } else { None };
            let n = match rng.below(10) { 0 => 0, 1..=5 => 1, 6..=8 => 2 + rng.below(3), _ => if big { 300 } else { 12 } };
            let entries: Option<Vec<(String, u8)>> = if may(rng, 19, 20) {
                Some((0..n).map(|_| {
                    let o = (rng.below(3) | (rng.below(2) << 2) | (rng.below(2) << 3) | (rng.below(3) << 4)) as u8;
                    (gen_filter(rng, big && n < 5), if rng.chance(1, 3) { o & 3 } else { o })
                }).collect())
            } else { None };
            let props = if ver == 5 && may(rng, 2, 3) { Some(gen_props(rng, &SUBSCRIBE_P, big)) } else { None };
            subscribe_case(out, ver, pw, pid, entries, props)
        }
        (_, 9) | (5, 11) => {
            let pid = if may(rng, 19, 20) { Some(gen_pid(rng, pw)) } else { None };
            let n = match rng.below(10) { 0 => 0, 1..=5 => 1, 6..=8 => 2 + rng.below(3), _ => if big { 1000 } else { 20 } };
            let table: &[u8] = match (ver, ty) {
                (4, _) => &[0, 1, 2, 0x80],
                (5, 9) => &[0x00, 0x01, 0x02, 0x80, 0x83, 0x87, 0x8f, 0x91, 0x97, 0x9e, 0xa1, 0xa2],
                _ => &[0x00, 0x11, 0x80, 0x83, 0x87, 0x8f, 0x91],
            };
            let codes: Option<Vec<u8>> = if may(rng, 19, 20) { Some((0..n).map(|_| *rng.pick(table)).collect()) } else { None };
            let props = if ver == 5 && may(rng, 2, 3) { Some(gen_props(rng, &ACK_P, big)) } else { None };
            simple_case(out, ver, pw, ty, pid, None, None, codes, props)
        }
        (_, 10) => {
            let pid = if may(rng, 19, 20) { Some(gen_pid(rng, pw)) } else { None };
            let n = match rng.below(10) { 0 => 0, 1..=5 => 1, 6..=8 => 2 + rng.below(3), _ => if big { 300 } else { 12 } };
            let topics: Option<Vec<String>> = if may(rng, 19, 20) { Some((0..n).map(|_| gen_filter(rng, big && n < 5)).collect()) } else { None };
            let props = if ver == 5 && may(rng, 2, 3) { Some(gen_props(rng, &UNSUBSCRIBE_P, big)) } else { None };
            unsubscribe_case(out, ver, pw, pid, topics, props)
        }
        (4, 11) => {
            let pid = if may(rng, 19, 20) { Some(gen_pid(rng, pw)) } else { None };
            simple_case(out, ver, pw, ty, pid, None, None, None, None)
        }
        (4, 12..=14) | (5, 12..=13) => simple_case(out, ver, pw, ty, None, None, None, None, None),
        (5, 14) => {
            let codes = [0x00u8, 0x04, 0x80, 0x81, 0x82, 0x83, 0x87, 0x89, 0x8b, 0x8d, 0x8e, 0x8f, 0x90, 0x93, 0x94, 0x95, 0x96, 0x97, 0x98, 0x99, 0x9a, 0x9b, 0x9c, 0x9d, 0x9e, 0x9f, 0xa0, 0xa1, 0xa2];
            let rc = if may(rng, 3, 4) { Some(*rng.pick(&codes)) } else { None };
            let props = if (rc.is_some() || may(rng, 1, 10)) && may(rng, 2, 3) { Some(gen_props(rng, &DISCONNECT_P, big)) } else { None };
            simple_case(out, ver, pw, ty, None, None, rc, None, props)
        }
        (5, 15) => {
            let rc = if may(rng, 4, 5) { Some(*rng.pick(&[0x00u8, 0x18, 0x19])) } else { None };
            let props = if (rc.is_some() || may(rng, 1, 10)) && may(rng, 3, 4) {
                let mut p = gen_props(rng, &AUTH_P, big);
                if may(rng, 1, 2) && !p.iter().any(|x| matches!(x, Property::AuthenticationMethod(_))) {
                    p.insert(0, make_prop(21, rng, big).unwrap());
                }
                Some(p)
            } else { None };
            simple_case(out, ver, pw, ty, None, None, rc, None, props)
        }
        _ => None,
    }
}

fn pick_rc_from<T: TryFrom<u8>>(v: u8) -> T {
    match T::try_from(v) {
        Ok(x) => x,
        Err(_) => unreachable!(),
    }
}

// ----------------------------------------------------------------------------------------
// (b) mutations

fn nonminimal(v: usize, extra: usize) -> Vec<u8> {
    // canonical digits, then `extra` padding continuation digits
    let mut d = vec![];
    let mut x = v;
    loop {
        d.push((x % 128) as u8);
        x /= 128;
        if x == 0 {
            break;
        }
    }
    for _ in 0..extra {
        d.push(0);
    }
    let n = d.len();
    for (i, b) in d.iter_mut().enumerate() {
        if i + 1 < n {
            *b |= 0x80;
        }
    }
    d
}

/// offset of the property-length field in the body of a valid v5 packet (None: no such field)
fn prop_len_offset(ty: u8, pw: u8, fh: u8, body: &[u8]) -> Option<usize> {
    let pw = pw as usize;
    let o = match ty {
        1 => 10,
        2 => 2,
        3 => {
            if body.len() < 2 {
                return None;
            }
            let t = 2 + ((body[0] as usize) << 8 | body[1] as usize);
            t + if (fh >> 1) & 3 != 0 { pw } else { 0 }
        }
        4..=7 => pw + 1,
        8..=11 => pw,
        14 | 15 => 1,
        _ => return None,
    };
    if o < body.len() {
        Some(o)
    } else {
        None
    }
}

fn mutations(rng: &mut Rng, ver: u8, pw: u8, frame: &[u8], count: usize, out: &mut dyn Write) {
    let Some((fh, body)) = split_frame(frame) else { return };
    if body.len() > 3000 {
        // a few cheap ones on large bodies
        let cut = rng.below(body.len() as u64) as usize;
        p_line(out, ver, pw, fh, &body[..cut]);
        return;
    }
    let ty = fh >> 4;
    // the body as it is, under every interesting header nibble for PUBLISH
    p_line(out, ver, pw, fh, &body);
    // all truncations of short bodies, some of longer ones
    if body.len() <= 24 {
        for cut in 0..body.len() {
            p_line(out, ver, pw, fh, &body[..cut]);
        }
    }
    // non-minimal property length (v5) in 2, 3, 4 (and 5) bytes
    if ver == 5 {
        if let Some(o) = prop_len_offset(ty, pw, fh, &body) {
            // decode the minimal VBI at o
            let mut v = 0usize;
            let mut m = 1usize;
            let mut l = 0;
            while o + l < body.len() && l < 4 {
                let b = body[o + l];
                v += (b & 0x7f) as usize * m;
                m *= 128;
                l += 1;
                if b & 0x80 == 0 {
                    break;
                }
            }
            for extra in 1..=4 {
                let nm = nonminimal(v, extra);
                if nm.len() > 5 {
                    break;
                }
                let mut b2 = body[..o].to_vec();
                b2.extend(&nm);
                b2.extend(&body[o + l..]);
                p_line(out, ver, pw, fh, &b2);
            }
            // declared property length (one byte) ending inside a property of a block that
            // needs a two-byte length
            if v >= 128 && v < 1000 {
                for nv in [127usize, 100, 5, 1] {
                    let mut b2 = body[..o].to_vec();
                    b2.push(nv as u8);
                    b2.extend(&body[o + l..]);
                    p_line(out, ver, pw, fh, &b2);
                }
            }
            // property length off by one either way
            for d in [-1i64, 1] {
                let nv = v as i64 + d;
                if nv >= 0 {
                    let mut b2 = body[..o].to_vec();
                    b2.extend(nonminimal(nv as usize, 0));
                    b2.extend(&body[o + l..]);
                    p_line(out, ver, pw, fh, &b2);
                }
            }
        }
    }
    for _ in 0..count {
        let mut b = body.clone();
        match rng.below(9) {
            0 | 1 if !b.is_empty() => {
                let i = rng.below(b.len() as u64) as usize;
                b[i] ^= 1 << rng.below(8);
            }
            2 if !b.is_empty() => {
                let cut = rng.below(b.len() as u64) as usize;
                b.truncate(cut);
            }
            3 | 4 => {
                let i = rng.below(b.len() as u64 + 1) as usize;
                b.insert(i, *rng.pick(&[0x00u8, 0x80, 0xff]));
            }
            5 if !b.is_empty() => {
                // length-field style edit: +-1 on one of the first bytes
                let i = rng.below(b.len().min(16) as u64) as usize;
                b[i] = if rng.chance(1, 2) { b[i].wrapping_add(1) } else { b[i].wrapping_sub(1) };
            }
            6 if !b.is_empty() => {
                let i = rng.below(b.len() as u64) as usize;
                b[i] = rng.below(256) as u8;
            }
            7 => {
                let n = 1 + rng.below(4);
                for _ in 0..n {
                    b.push(rng.below(256) as u8);
                }
            }
            _ if !b.is_empty() => {
                let i = rng.below(b.len() as u64) as usize;
                b.remove(i);
            }
            _ => b.push(0),
        }
        let fh2 = if ty == 3 && rng.chance(1, 4) { 0x30 | rng.below(16) as u8 } else { fh };
        p_line(out, ver, pw, fh2, &b);
    }
}

/// hand-made witnesses for the quirks read in the source
fn directed(out: &mut dyn Write) {
    writeln!(out, "T codec directed").unwrap();
    // every property (once, twice, after a User Property) in every property section, will
    // properties included: the parser's accept / reject decision and what it accepted
    {
        use crate::tables::{all_prop_ids, body, fixed_header, wire_prop, LOCS};
        use mqtt_protocol_core::mqtt::packet::PropertyId;
        for loc in LOCS {
            for id in all_prop_ids() {
                let one = wire_prop(id, 1);
                let up = wire_prop(PropertyId::UserProperty, 2);
                let variants: Vec<Vec<u8>> = vec![
                    one.clone(),
                    [one.clone(), wire_prop(id, 2)].concat(),
                    [up.clone(), one.clone()].concat(),
                    [one.clone(), up.clone(), one.clone()].concat(),
                ];
                for pbytes in variants {
                    p_line(out, 5, 2, fixed_header(loc), &body(loc, 0, &pbytes));
                }
            }
        }
    }
    let cases: Vec<(u8, u8, u8, &str)> = vec![
        // non-minimal property length: CONNACK, CONNECT
        (5, 2, 0x20, "00008000"),
        (5, 2, 0x20, "0000808000"),
        (5, 2, 0x20, "000080808000"),
        (5, 2, 0x20, "00008080808000"),
        (5, 2, 0x20, "0100822100"),
        (5, 2, 0x10, "00044d5154540502003c8000000161"),
        (5, 2, 0x10, "00044d5154540506003c00000161800000017400"),
        // reserved connack flag bits kept
        (5, 2, 0x20, "fe0000"),
        (4, 2, 0x20, "fe00"),
        (4, 2, 0x20, "ff05ffff"),
        // packet id 0
        (4, 2, 0x32, "00017400006869"),
        (5, 2, 0x32, "0001740000006869"),
        (4, 4, 0x34, "0001740000000068"),
        (4, 2, 0x82, "000000016100"),
        (5, 2, 0x82, "00000000016100"),
        (4, 2, 0x90, "000000"),
        (5, 2, 0x90, "00000000"),
        (4, 2, 0xa2, "0000000161"),
        (5, 2, 0xa2, "000000000161"),
        (4, 2, 0xb0, "0000"),
        (5, 2, 0xb0, "00000000"),
        (4, 2, 0x40, "0000"),
        (5, 2, 0x40, "0000"),
        (4, 4, 0x40, "00000000"),
        (4, 4, 0x40, "00000001"),
        // publish: empty topic, wildcards, optional property length
        (4, 2, 0x30, "0000"),
        (5, 2, 0x30, "0000"),
        (5, 2, 0x30, "000000"),
        (5, 2, 0x30, "00012300"),
        (5, 2, 0x32, "0001740001"),
        (5, 2, 0x32, "000174000100"),
        (5, 2, 0x36, "000174000100"),
        // subscription identifier, non minimal, zero, repeated
        (5, 2, 0x82, "0001030b8100000161" ),
        (5, 2, 0x82, "0001020b00000161"),
        (5, 2, 0x82, "0001040b010b02000161" ),
        (5, 2, 0x30, "000174030b810068"),
        (5, 2, 0x82, "0001050b80808000000161"),
        (5, 2, 0x82, "0001060b8080808000000161"),
        (5, 2, 0x82, "0001030b810000016100"),
        (5, 2, 0x82, "000180000001610 0"),
        (5, 4, 0x82, "000000018000000161 00"),
        (5, 2, 0xa2, "00018000000161"),
        // v5 connect flag quirks
        (5, 2, 0x10, "00044d5154540503003c000000"),
        (5, 2, 0x10, "00044d515454051e003c000000000001740000"),
        (5, 2, 0x10, "00044d5154540522003c000000"),
        (5, 2, 0x10, "00044d515454050a003c000000"),
        // suback / unsuback non-minimal property length
        (5, 2, 0x90, "0001800000"),
        (5, 2, 0xb0, "0001800000"),
        (5, 2, 0xa2, "000180000161"),
        (5, 2, 0x82, "00018000000161" ),
        // acks with props
        (5, 2, 0x40, "00011000"),
        (5, 2, 0x40, "0001108000"),
        (5, 2, 0x50, "0001108000"),
        (5, 2, 0x62, "0001928000"),
        (5, 2, 0x70, "0001928000"),
        (5, 2, 0x40, "000110041f000161"),
        (5, 2, 0x40, "0001100526000161000162"),
        (5, 2, 0x40, "0001100526000161000162ff"),
        // disconnect / auth
        (5, 2, 0xe0, ""),
        (5, 2, 0xe0, "00"),
        (5, 2, 0xe0, "0000"),
        (5, 2, 0xe0, "008000"),
        (5, 2, 0xe0, "0005110000000a"),
        (5, 2, 0xf0, ""),
        (5, 2, 0xf0, "00"),
        (5, 2, 0xf0, "18"),
        (5, 2, 0xf0, "1800"),
        (5, 2, 0xf0, "18041500016d"),
        (5, 2, 0xf0, "1884001500016d"),
        (5, 2, 0xf0, "0004160001ff"),
        // share names
        (5, 2, 0x82, "00010000072473686172652f00"),
        (5, 2, 0x82, "000100000a2473686172652f672f7400"),
        (5, 2, 0x82, "00010000092473686172652f2f7400"),
        (5, 2, 0x82, "00010000082473686172652f6700"),
        (5, 2, 0xa2, "00010000082473686172652f67"),
        (5, 2, 0xa2, "000100000b2473686172652f672b2f74"),
        // sub opts
        (5, 2, 0x82, "00010000016103"),
        (5, 2, 0x82, "00010000016130"),
        (5, 2, 0x82, "00010000016140"),
        (4, 2, 0x82, "000100016130"),
        (4, 2, 0x82, "00010001612c"),
        // utf-8: overlong, surrogate, > U+10FFFF, truncated sequences
        (4, 2, 0x30, "0002c080"),
        (4, 2, 0x30, "0003eda080"),
        (4, 2, 0x30, "0004f4908080"),
        (4, 2, 0x30, "0004f48fbfbf"),
        (4, 2, 0x30, "0003e08080"),
        (4, 2, 0x30, "0003e0a080"),
        (4, 2, 0x30, "0004f0808080"),
        (4, 2, 0x30, "0004f0908080"),
        (4, 2, 0x30, "0002c2"),
        (4, 2, 0x30, "0001c2"),
        (4, 2, 0x30, "000180"),
        (4, 2, 0x30, "0003efbfbf"),
        (4, 2, 0x30, "0003ed9fbf"),
        (4, 2, 0x30, "0003eebfbf"),
        (4, 2, 0x30, "0004f5808080"),
        (4, 2, 0x30, "000100"),
        // v3 connect flag quirks: reserved bit, will qos 3, will retain without will
        (4, 2, 0x10, "00044d5154540401003c0000"),
        (4, 2, 0x10, "00044d515454041e003c00000001740000"),
        (4, 2, 0x10, "00044d5154540420003c0000"),
        (4, 2, 0x10, "00044d5154540440003c00000000"),
        (4, 2, 0x10, "00044d51545404c2003c0000000161000162ffff"),
        (4, 2, 0x10, "00044d5154540502003c0000"),
        (4, 2, 0x10, "00044d5154550402003c0000"),
        (4, 2, 0x10, "00044d5154540402003c0001ff"),
        (4, 2, 0x10, "00044d5154540482003c00000001ff"),
        (4, 2, 0x10, "00044d51545404c2003c000000016100"),
    ];
    // shared-subscription filters with multi-byte share names (well-formed UTF-8), with and
    // without wildcards inside the share name, SUBSCRIBE and UNSUBSCRIBE, both versions
    for filter in ["$share/g/t", "$share/g/+/x", "t/#", "$share/é/t", "$share/グループ/a/b", "$share/é+/t", "$share/é#/t", "$share/€/+/x", "$share/é", "$share/é/",
        // around the prefix itself: not shared at all / shared with nothing behind the prefix
        "$share", "$shar", "$shared", "$shared/g/t", "$share/", "$share//", "$SHARE/g/t", "x$share/g/t", "$share/g/"] {
        for ver in [4u8, 5] {
            let f = filter.as_bytes();
            let mut sub = vec![0x00, 0x01];
            let mut unsub = vec![0x00, 0x01];
            if ver == 5 {
                sub.push(0);
                unsub.push(0);
            }
            for b in [&mut sub, &mut unsub] {
                b.push((f.len() >> 8) as u8);
                b.push(f.len() as u8);
                b.extend_from_slice(f);
            }
            // subscription options: QoS, No Local, Retain As Published, Retain Handling (v5.0)
            let opts: &[u8] = if ver == 5 { &[0x00, 0x01, 0x02, 0x04, 0x08, 0x09, 0x18, 0x29] } else { &[0x00, 0x01, 0x02] };
            for o in opts {
                let mut b = sub.clone();
                b.push(*o);
                p_line(out, ver, 2, 0x82, &b);
            }
            p_line(out, ver, 2, 0xa2, &unsub);
        }
    }
    for (ver, pw, fh, h) in cases {
        let h: String = h.chars().filter(|c| !c.is_whitespace()).collect();
        let h = if h.len() % 2 == 1 { h[..h.len() - 1].to_string() } else { h };
        p_line(out, ver, pw, fh, &unhex(if h.is_empty() { "-" } else { &h }));
    }
    writeln!(out, "END").unwrap();
}

/// builder cases behind former C02 findings (fixed in 384faed / a9d6f1f), generated on every run
fn directed_builders(out: &mut dyn Write) {
    writeln!(out, "T codec directed-build").unwrap();
    // will properties without a will message: rejected by the builder since a9d6f1f
    let wp: Properties = vec![Property::WillDelayInterval(WillDelayInterval::new(1).unwrap())];
    b_line(out, 5, 2, 0x10, &format!("cs=none ka=none cid=none will=none user=none pass=none props=none wprops={}", props_hex(&wp)),
        || v5::Connect::builder().will_props(wp.clone()).build(), |_, body| v5::Connect::parse(body));
    // UNSUBACK v3.1.1 with a 32-bit packet id: remaining length = id width since 384faed
    b_line(out, 4, 4, 0xb0, "pid=1", || v3::GenericUnsuback::<u32>::builder().packet_id(1u32).build(), |_, body| v3::GenericUnsuback::<u32>::parse(body));
    b_line(out, 4, 2, 0xb0, "pid=1", || v3::GenericUnsuback::<u16>::builder().packet_id(1u16).build(), |_, body| v3::GenericUnsuback::<u16>::parse(body));
    // setters that fail themselves: a string / binary of 65536 bytes (one more than fits), next to
    // the longest one that fits; and the order of the checks where two of them fail with
    // different errors
    let long = "a".repeat(65536);
    let max = "a".repeat(65535);
    let up = |k: &str, v: &str| Property::UserProperty(UserProperty::new(k, v).unwrap());
    let bad_props: Properties = vec![Property::ReceiveMaximum(ReceiveMaximum::new(1).unwrap())];
    for ver in [4u8, 5] {
        for s in [&long, &max] {
            connect_case(out, ver, 2, None, None, Some(s.clone()), None, None, None, None, None);
            connect_case(out, ver, 2, Some(false), Some(1), Some("c".into()), Some((s.clone(), vec![1], 1, true)), None, None, None, None);
            connect_case(out, ver, 2, None, None, None, Some(("w".into(), s.clone().into_bytes(), 2, false)), None, None, None, None);
            connect_case(out, ver, 2, None, None, None, None, Some(s.clone()), None, None, None);
            connect_case(out, ver, 2, None, None, None, None, Some("u".into()), Some(s.clone().into_bytes()), None, None);
            // password without user name (ProtocolError) after a setter that fails / does not fail
            connect_case(out, ver, 2, None, None, Some(s.clone()), None, None, Some(vec![1]), None, None);
            for pw in [2u8, 4] {
                publish_case(out, ver, pw, Some(s.clone()), Some(1), None, None, Some(1), Some(vec![1]), None);
                // too long AND no packet id / empty entry list: the setter's error comes first
                subscribe_case(out, ver, pw, None, Some(vec![("t".into(), 1), (s.clone(), 0)]), None);
                subscribe_case(out, ver, pw, Some(1), Some(vec![(s.clone(), 2)]), None);
                unsubscribe_case(out, ver, pw, None, Some(vec!["t".into(), s.clone()]), None);
                unsubscribe_case(out, ver, pw, Some(1), Some(vec![s.clone()]), None);
            }
        }
        // every combination of the CONNECT flag setters
        for cs in [None, Some(false), Some(true)] {
            for will in [None, Some(0u8), Some(1), Some(2)] {
                for retain in [false, true] {
                    for user in [false, true] {
                        for pass in [false, true] {
                            if will.is_none() && retain {
                                continue;
                            }
                            connect_case(out, ver, 2, cs, Some(0x1234), Some("id".into()), will.map(|q| ("w/t".to_string(), vec![0xff, 0x00], q, retain)),
                                if user { Some("u".into()) } else { None }, if pass { Some(vec![0x70]) } else { None }, None, None);
                        }
                    }
                }
            }
        }
        // every combination of the PUBLISH header setters with / without a packet id
        for qos in [None, Some(0u8), Some(1), Some(2)] {
            for dup in [None, Some(false), Some(true)] {
                for retain in [None, Some(false), Some(true)] {
                    for pid in [None, Some(0u32), Some(7)] {
                        publish_case(out, ver, 2, Some("t".into()), qos, dup, retain, pid, None, None);
                    }
                }
            }
        }
    }
    // v5.0: which check comes first when two fail with different errors
    publish_case(out, 5, 2, None, Some(1), None, None, None, None, Some(bad_props.clone())); // props (ProtocolError) before topic / id (MalformedPacket)
    publish_case(out, 5, 2, Some("a/#".into()), None, None, None, None, None, Some(bad_props.clone())); // setter (MalformedPacket) before props
    publish_case(out, 5, 2, Some(String::new()), None, None, None, None, None, Some(vec![Property::TopicAlias(TopicAlias::new(1).unwrap())]));
    publish_case(out, 5, 2, None, None, None, None, None, None, Some(vec![Property::TopicAlias(TopicAlias::new(1).unwrap())]));
    publish_case(out, 5, 2, Some(String::new()), None, None, None, None, None, Some(vec![up("k", "v")]));
    subscribe_case(out, 5, 2, Some(0), None, Some(bad_props.clone())); // id 0 (MalformedPacket) before entries (ProtocolError) before props
    subscribe_case(out, 5, 2, Some(1), Some(vec![]), Some(bad_props.clone())); // no entries (ProtocolError), props not reached
    subscribe_case(out, 5, 2, Some(1), Some(vec![("$share/g".into(), 0)]), Some(bad_props.clone())); // share name (MalformedPacket) before props
    subscribe_case(out, 5, 2, Some(1), Some(vec![("t".into(), 0)]), Some(bad_props.clone())); // props (ProtocolError)
    unsubscribe_case(out, 5, 2, None, Some(vec!["$share//t".into()]), Some(bad_props.clone())); // the setter validates share names
    unsubscribe_case(out, 5, 2, Some(1), Some(vec![]), Some(bad_props.clone()));
    unsubscribe_case(out, 5, 2, Some(1), Some(vec!["t".into()]), Some(bad_props.clone()));
    connect_case(out, 5, 2, None, None, None, None, None, Some(vec![1]), Some(bad_props.clone()), None); // password without user name before props
    connect_case(out, 5, 2, None, None, None, None, None, None, Some(vec![Property::TopicAlias(TopicAlias::new(1).unwrap())]), Some(vec![up("k", "v")])); // will props without will before props
    connect_case(out, 5, 2, None, None, None, None, None, None, None, Some(vec![])); // empty will props without will: accepted
    connect_case(out, 5, 2, None, None, None, Some(("w".into(), vec![], 0, false)), None, None, None, Some(bad_props.clone()));
    writeln!(out, "END").unwrap();
}

/// the post-construction operations of a v5.0 PUBLISH (used by the connection for automatic alias
/// mapping / replacement and store regulation): the result must be the packet a builder makes
/// from the derived fields, so it is reported as a `B` case of those fields
const OP_NAMES: [&str; 4] = ["add_topic_alias", "remove_topic_add_topic_alias", "remove_topic_alias", "remove_topic_alias_add_topic"];

fn publish_op_case(out: &mut dyn Write, topic: &str, qos: u8, payload: &[u8], props: &Properties, op: u8, alias: u16, new_topic: &str) {
    publish_op_case_pw(out, 2, topic, qos, payload, props, op, alias, new_topic)
}

#[allow(clippy::too_many_arguments)]
fn publish_op_case_pw(out: &mut dyn Write, pw: u8, topic: &str, qos: u8, payload: &[u8], props: &Properties, op: u8, alias: u16, new_topic: &str) {
    if pw == 2 {
        publish_op_case_u16(out, pw, topic, qos, payload, props, op, alias, new_topic)
    } else {
        publish_op_case_u32(out, pw, topic, qos, payload, props, op, alias, new_topic)
    }
}

macro_rules! def_publish_op_case {
    ($name:ident, $T:ty) => {
#[allow(clippy::too_many_arguments)]
fn $name(out: &mut dyn Write, pw: u8, topic: &str, qos: u8, payload: &[u8], props: &Properties, op: u8, alias: u16, new_topic: &str) {
    type T = $T;
    let base_has_alias = props.iter().any(|p| matches!(p, Property::TopicAlias(_)));
    let without: Properties = props.iter().filter(|p| !matches!(p, Property::TopicAlias(_))).cloned().collect();
    let mut with = without.clone();
    with.push(Property::TopicAlias(TopicAlias::new(alias).unwrap()));
    // applicability (the result must be a packet some builder call produces)
    let (rtopic, rprops): (String, Properties) = match op {
        0 => (topic.to_string(), with),                                  // add_topic_alias
        1 => (String::new(), with),                                      // remove_topic_add_topic_alias
        2 if !topic.is_empty() => (topic.to_string(), without),          // remove_topic_alias
        3 if topic.is_empty() && base_has_alias => (new_topic.to_string(), without), // remove_topic_alias_add_topic
        _ => return,
    };
    // the operation applies to a packet a builder accepted; a base call the builder refuses is an
    // ordinary builder case (its error belongs to the base call, not to the derived fields)
    let base_ok = {
        let mut b = v5::GenericPublish::<T>::builder().qos(Qos::try_from(qos).unwrap()).payload(payload.to_vec()).props(props.clone());
        if qos > 0 {
            b = b.packet_id(1 as T);
        }
        catch_unwind(AssertUnwindSafe(|| b.topic_name(topic).and_then(|b| b.build()).is_ok())).unwrap_or(false)
    };
    if !base_ok {
        publish_case(out, 5, pw, Some(topic.to_string()), Some(qos), None, None, if qos > 0 { Some(1) } else { None }, Some(payload.to_vec()), Some(props.clone()));
        return;
    }
    let desc = format!(
        "op={}/{}/{}/{}/{} topic={} qos={} dup=none retain=none pid={} payload={} props={}",
        OP_NAMES[op as usize], alias, hex(new_topic.as_bytes()), hex(topic.as_bytes()), props_hex(props),
        hex(rtopic.as_bytes()), qos, if qos > 0 { "1".to_string() } else { "none".to_string() }, hex(payload), props_hex(&rprops)
    );
    let (t, pl, ps, nt) = (topic.to_string(), payload.to_vec(), props.clone(), new_topic.to_string());
    b_line(out, 5, pw, 0x30, &desc, move || {
        let mut b = v5::GenericPublish::<T>::builder().topic_name(t.as_str())?.qos(Qos::try_from(qos).unwrap()).payload(pl).props(ps);
        if qos > 0 {
            b = b.packet_id(1 as T);
        }
        let p = b.build()?;
        match op {
            0 => Ok(p.add_topic_alias(alias)),
            1 => Ok(p.remove_topic_add_topic_alias(alias)),
            2 => Ok(p.remove_topic_alias()),
            _ => p.remove_topic_alias_add_topic(nt),
        }
    }, |f, body| v5::GenericPublish::<T>::parse(f, Arc::from(body)));
}
    };
}
def_publish_op_case!(publish_op_case_u16, u16);
def_publish_op_case!(publish_op_case_u32, u32);

fn publish_ops(rng: &mut Rng, thorough: bool, out: &mut dyn Write) {
    writeln!(out, "T codec publish-ops").unwrap();
    let up = |n: usize| Property::UserProperty(UserProperty::new("k", "v".repeat(n)).unwrap());
    // directed: property block sizes around the 127/128 and 16383/16384 length-field steps
    let mut sizes: Vec<usize> = (118..=136).collect();
    sizes.extend(16376..=16390);
    for l in sizes {
        let n = l - 6; // 1 (id) + 2 + 1 (key) + 2 + n (value) = l
        for qos in [0u8, 1] {
            for pl in [0usize, 1, 5] {
                let payload = vec![0x41u8; pl];
                for op in 0..4u8 {
                    publish_op_case(out, "t", qos, &payload, &vec![up(n)], op, 7, "x/y");
                    publish_op_case(out, "t", qos, &payload, &vec![Property::TopicAlias(TopicAlias::new(3).unwrap()), up(n)], op, 7, "x/y");
                    publish_op_case(out, "", qos, &payload, &vec![up(n), Property::TopicAlias(TopicAlias::new(3).unwrap())], op, 7, "x/y");
                }
            }
        }
    }
    // directed: the topic handed to `remove_topic_alias_add_topic` is empty / has a wildcard / is too long
    for nt in ["", "a/#", "+", "x"] {
        publish_op_case(out, "", 1, b"p", &vec![Property::TopicAlias(TopicAlias::new(3).unwrap())], 3, 7, nt);
    }
    // directed: 4-byte packet ids (the length bookkeeping of every operation at QoS 0/1/2)
    for qos in [0u8, 1, 2] {
        for op in 0..4u8 {
            for n in [0usize, 3, 121, 16380] {
                publish_op_case_pw(out, 4, "t", qos, b"pay", &vec![up(n)], op, 7, "x/y");
                publish_op_case_pw(out, 4, "", qos, b"pay", &vec![up(n), Property::TopicAlias(TopicAlias::new(3).unwrap())], op, 7, "x/y");
            }
        }
    }
    publish_op_case(out, "", 0, b"p", &vec![Property::TopicAlias(TopicAlias::new(3).unwrap())], 3, 7, &"a".repeat(65536));
    // random
    for i in 0..(if thorough { 4000 } else { 400 }) {
        let big = i % 8 == 7;
        let props = gen_props(rng, &PUBLISH_P, big);
        let has_alias = props.iter().any(|p| matches!(p, Property::TopicAlias(_)));
        let topic = if has_alias && rng.chance(1, 2) { String::new() } else { gen_topic(rng, false) };
        let n = gen_len(rng, false);
        let payload = gen_bytes(rng, n);
        let nt = gen_topic(rng, false);
        let pw = if rng.chance(1, 4) { 4 } else { 2 };
        publish_op_case_pw(out, pw, &topic, rng.below(3) as u8, &payload, &props, rng.below(4) as u8, 1 + rng.below(65535) as u16, &nt);
    }
    writeln!(out, "END").unwrap();
}

/// opt-in, not part of any tier (allocates 256 MiB per case; the line is not meant for the driver:
/// `payload=z<n>` stands for n zero bytes): `validate()` of the PUBLISH builders bounds the
/// payload (<= 268435455), not the Remaining Length
pub fn big_payload(out: &mut dyn Write) {
    for (ver, n) in [(4u8, 268_435_455usize), (5, 268_435_455), (4, 268_435_452), (5, 268_435_451), (4, 268_435_456)] {
        let payload = vec![0u8; n];
        let r = catch_unwind(AssertUnwindSafe(|| {
            if ver == 4 {
                v3::GenericPublish::<u16>::builder().topic_name("t").and_then(|b| b.payload(payload).build()).map(|p| p.size())
            } else {
                v5::GenericPublish::<u16>::builder().topic_name("t").and_then(|b| b.payload(payload).build()).map(|p| p.size())
            }
        }));
        let res = match r {
            Err(_) => "PANIC".to_string(),
            Ok(Ok(size)) => format!("ok size={size}"),
            Ok(Err(e)) => format!("err {e:?}"),
        };
        writeln!(out, "B {ver} 2 30 topic=74 qos=none dup=none retain=none pid=none payload=z{n} props=none = {res}").unwrap();
    }
}

pub fn generate(tier: &str, seed: u64, out: &mut dyn Write) {
    let thorough = tier == "thorough";
    let mut rng = Rng::new(seed);
    directed(out);
    directed_builders(out);
    publish_ops(&mut rng, thorough, out);
    exhaustive(thorough, out);
    let rounds = if thorough { 1500 } else { 160 };
    let muts = if thorough { 30 } else { 14 };
    let mut n = 0usize;
    for ver in [4u8, 5] {
        for ty in 1u8..=15 {
            if ver == 4 && ty == 15 {
                continue;
            }
            let pws: &[u8] = if (3..=11).contains(&ty) { &[2, 4] } else { &[2] };
            for &pw in pws {
                writeln!(out, "T codec gen-{ver}-{pw}-{ty}").unwrap();
                let r = if (12..=13).contains(&ty) || (ver == 4 && ty == 14) { 3 } else { rounds };
                for i in 0..r {
                    // "big" lengths (16383.., 65535, 70000-byte payloads) on a fraction of the cases
                    let big = i % 8 == 7;
                    if let Some(frame) = gen_case(&mut rng, ver, pw, ty, big, out) {
                        mutations(&mut rng, ver, pw, &frame, muts, out);
                    }
                    n += 1;
                }
                // uniformly random bodies
                for _ in 0..(if thorough { 2000 } else { 200 }) {
                    let len = rng.below(24) as usize;
                    let body = gen_bytes(&mut rng, len);
                    let fh = (ty << 4) | if ty == 3 { rng.below(16) as u8 } else { 0 };
                    p_line(out, ver, pw, fh, &body);
                }
                writeln!(out, "END").unwrap();
            }
        }
    }
    eprintln!("codec: builder cases {n}");
}


/// re-executes the builder call described by the `<k=v …>` tokens of a `B` line; `false` if the
/// tokens cannot be read
fn replay_b(ver: u8, pw: u8, ty: u8, toks: &[&str], out: &mut dyn Write) -> bool {
    let get = |k: &str| -> Option<&str> { toks.iter().find_map(|t| t.strip_prefix(k).and_then(|r| r.strip_prefix('='))) };
    // Ok(None): `none`; Err: unreadable
    fn o<T>(v: Option<&str>, f: impl Fn(&str) -> Option<T>) -> Result<Option<T>, ()> {
        match v {
            None => Err(()),
            Some("none") => Ok(None),
            Some(x) => f(x).map(Some).ok_or(()),
        }
    }
    fn hexs(x: &str) -> Option<Vec<u8>> {
        if x == "-" {
            return Some(vec![]);
        }
        if x.len() % 2 != 0 || !x.bytes().all(|c| c.is_ascii_hexdigit()) {
            return None;
        }
        Some(unhex(x))
    }
    fn strs(x: &str) -> Option<String> {
        hexs(x).and_then(|b| String::from_utf8(b).ok())
    }
    fn flag(x: &str) -> Option<bool> {
        match x {
            "0" => Some(false),
            "1" => Some(true),
            _ => None,
        }
    }
    fn props(x: &str) -> Option<Properties> {
        let b = hexs(x)?;
        let mut buf = nonminimal(b.len(), 0);
        buf.extend(&b);
        match Properties::parse(&buf) {
            Ok((p, n)) if n == buf.len() => Some(p),
            _ => None,
        }
    }
    fn absent_or_none(v: Option<&str>) -> bool {
        matches!(v, None | Some("none"))
    }
    let r: Result<(), ()> = (|| {
        if ver == 4 && !(absent_or_none(get("props")) && absent_or_none(get("wprops"))) {
            return Err(());
        }
        let ps = |k: &str| if ver == 5 { o(get(k), props) } else { Ok(None) };
        match ty {
            1 => {
                let will = o(get("will"), |x| {
                    let f: Vec<&str> = x.split(',').collect();
                    if f.len() != 4 {
                        return None;
                    }
                    Some((strs(f[0])?, hexs(f[1])?, f[2].parse::<u8>().ok().filter(|q| *q <= 2)?, flag(f[3])?))
                })?;
                connect_case(out, ver, pw, o(get("cs"), flag)?, o(get("ka"), |x| x.parse().ok())?, o(get("cid"), strs)?, will,
                    o(get("user"), strs)?, o(get("pass"), hexs)?, ps("props")?, ps("wprops")?);
            }
            3 => {
                let qos = o(get("qos"), |x| x.parse::<u8>().ok().filter(|q| *q <= 2))?;
                let payload = o(get("payload"), hexs)?;
                if let Some(op) = get("op") {
                    let f: Vec<&str> = op.split('/').collect();
                    if f.len() != 5 || ver != 5 {
                        return Err(());
                    }
                    let opn = OP_NAMES.iter().position(|n| *n == f[0]).ok_or(())? as u8;
                    let alias: u16 = f[1].parse().map_err(|_| ())?;
                    publish_op_case_pw(out, pw, &strs(f[3]).ok_or(())?, qos.ok_or(())?, &payload.ok_or(())?, &props(f[4]).ok_or(())?, opn, alias, &strs(f[2]).ok_or(())?);
                } else {
                    publish_case(out, ver, pw, o(get("topic"), strs)?, qos, o(get("dup"), flag)?, o(get("retain"), flag)?,
                        o(get("pid"), |x| x.parse().ok())?, payload, ps("props")?);
                }
            }
            8 => {
                let entries = o(get("entries"), |x| {
                    let (n, rest) = x.split_once(':')?;
                    let v: Option<Vec<(String, u8)>> = if rest.is_empty() { Some(vec![]) } else {
                        rest.split(',').map(|it| { let (t, oo) = it.split_once('/')?; Some((strs(t)?, oo.parse().ok()?)) }).collect()
                    };
                    v.filter(|v| Some(v.len()) == n.parse().ok() && v.iter().all(|(_, oo)| oo & 0xc0 == 0 && oo & 3 != 3 && (oo >> 4) & 3 != 3))
                })?;
                subscribe_case(out, ver, pw, o(get("pid"), |x| x.parse().ok())?, entries, ps("props")?);
            }
            10 => {
                let topics = o(get("topics"), |x| {
                    let (n, rest) = x.split_once(':')?;
                    let v: Option<Vec<String>> = if rest.is_empty() { Some(vec![]) } else { rest.split(',').map(strs).collect() };
                    v.filter(|v| Some(v.len()) == n.parse().ok())
                })?;
                unsubscribe_case(out, ver, pw, o(get("pid"), |x| x.parse().ok())?, topics, ps("props")?);
            }
            2 => {
                simple_case(out, ver, pw, ty, None, o(get("sp"), flag)?, o(get("rc"), |x| x.parse().ok())?, None, ps("props")?);
            }
            4..=7 => {
                simple_case(out, ver, pw, ty, o(get("pid"), |x| x.parse().ok())?, None, o(get("rc"), |x| x.parse().ok())?, None, ps("props")?);
            }
            9 | 11 if !(ver == 4 && ty == 11) => {
                simple_case(out, ver, pw, ty, o(get("pid"), |x| x.parse().ok())?, None, None, o(get("codes"), hexs)?, ps("props")?);
            }
            11 => {
                simple_case(out, ver, pw, ty, o(get("pid"), |x| x.parse().ok())?, None, None, None, None);
            }
            12 | 13 => {
                simple_case(out, ver, pw, ty, None, None, None, None, None);
            }
            14 if ver == 4 => {
                simple_case(out, ver, pw, ty, None, None, None, None, None);
            }
            14 | 15 if ver == 5 => {
                simple_case(out, ver, pw, ty, None, None, o(get("rc"), |x| x.parse().ok())?, None, ps("props")?);
            }
            _ => return Err(()),
        }
        Ok(())
    })();
    r.is_ok()
}

/// re-executes the `P` and `B`-derived cases of a trace on the implementation
pub fn replay(text: &str, out: &mut dyn Write) {
    let mut skip = false;
    for line in text.lines() {
        let w: Vec<&str> = line.split_whitespace().collect();
        if w.is_empty() || w[0].starts_with('#') {
            continue;
        }
        if skip {
            skip = w[0] != "END";
            continue;
        }
        match w[0] {
            // the directed builder cases are re-executed as a whole
            "T" if w.get(2) == Some(&"directed-build") => {
                directed_builders(out);
                skip = true;
            }
            "T" | "END" => writeln!(out, "{line}").unwrap(),
            "P" if w.len() >= 5 => {
                let ver: u8 = w[1].parse().unwrap_or(5);
                let pw: u8 = w[2].parse().unwrap_or(2);
                let fh = u8::from_str_radix(w[3], 16).unwrap_or(0);
                p_line(out, ver, pw, fh, &unhex(w[4]));
            }
            "B" if w.len() >= 5 => {
                let ver: u8 = w[1].parse().unwrap_or(5);
                let pw: u8 = w[2].parse().unwrap_or(2);
                // the builder call itself is re-executed from its description …
                let fh = u8::from_str_radix(w[3], 16).unwrap_or(0);
                if let Some(eq) = w.iter().position(|x| *x == "=") {
                    if replay_b(ver, pw, fh >> 4, &w[4..eq], out) {
                        continue;
                    }
                }
                // … or, if that cannot be read (traces of the old format), through its bytes: re-parse the body it produced
                if let Some(pos) = w.iter().position(|x| *x == "ok") {
                    if let Some(h) = w.get(pos + 2) {
                        if let Some((fh, body)) = split_frame(&unhex(h)) {
                            p_line(out, ver, pw, fh, &body);
                        }
                    }
                }
            }
            _ => {}
        }
    }
}
