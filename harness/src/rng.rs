//! One deterministic PRNG (xorshift64*) for every random choice, seeded by VERIF_SEED.
pub struct Rng(pub u64);

impl Rng {
    pub fn new(seed: u64) -> Self {
        Rng(seed.wrapping_mul(0x9E3779B97F4A7C15) ^ 0xD1B54A32D192ED03 | 1)
    }
    pub fn next(&mut self) -> u64 {
        let mut x = self.0;
        x ^= x >> 12;
        x ^= x << 25;
        x ^= x >> 27;
        self.0 = x;
        x.wrapping_mul(0x2545F4914F6CDD1D)
    }
    pub fn below(&mut self, n: u64) -> u64 {
        if n == 0 {
            0
        } else {
            self.next() % n
        }
    }
    pub fn chance(&mut self, num: u64, den: u64) -> bool {
        self.below(den) < num
    }
    pub fn pick<'a, T>(&mut self, v: &'a [T]) -> &'a T {
        &v[self.below(v.len() as u64) as usize]
    }
}

pub fn hex(b: &[u8]) -> String {
    if b.is_empty() {
        return "-".to_string();
    }
    let mut s = String::with_capacity(b.len() * 2);
    for x in b {
        s.push_str(&format!("{x:02x}"));
    }
    s
}

pub fn unhex(s: &str) -> Vec<u8> {
    if s == "-" {
        return vec![];
    }
    (0..s.len() / 2)
        .map(|i| u8::from_str_radix(&s[2 * i..2 * i + 2], 16).unwrap())
        .collect()
}
