//! `TopicAliasSend` driven directly (the connection builds a new table per connection and never
//! calls `clear`; C20 anchors the allocator use inside this type): random walks over all public
//! methods, answers and the complete dump after every call.
use crate::rng::{hex, Rng};
use mqtt_protocol_core::mqtt::packet::TopicAliasSend;
use std::io::Write;
use std::panic::{catch_unwind, AssertUnwindSafe};

const TOPICS: [&str; 6] = ["a", "ab", "b", "c/d", "t/1", "t/2"];

pub fn apply(t: &mut TopicAliasSend, op: &str, out: &mut dyn Write) {
    let w: Vec<&str> = op.split_whitespace().collect();
    let unhex = |s: &str| -> String { String::from_utf8((0..s.len() / 2).map(|i| u8::from_str_radix(&s[2 * i..2 * i + 2], 16).unwrap()).collect()).unwrap() };
    let ans: String = match w[0] {
        "ins" => {
            let topic = unhex(w[1]);
            let a: u16 = w[2].parse().unwrap();
            match catch_unwind(AssertUnwindSafe(|| t.insert_or_update(&topic, a))) {
                Ok(()) => "-".into(),
                Err(_) => "PANIC".into(),
            }
        }
        "get" => t.get(w[1].parse().unwrap()).map(|s| format!("some{}", hex(s.as_bytes()))).unwrap_or("none".into()),
        "peek" => t.peek(w[1].parse().unwrap()).map(|s| format!("some{}", hex(s.as_bytes()))).unwrap_or("none".into()),
        "find" => t.find_by_topic(&unhex(w[1])).map(|a| format!("some{a}")).unwrap_or("none".into()),
        "lru" => format!("{}", t.get_lru_alias()),
        "clear" => {
            t.clear();
            "-".into()
        }
        _ => format!("{}", t.max()),
    };
    writeln!(out, "A {op} = {ans} ; {}", t.verif_dump()).unwrap();
}

pub fn generate(tier: &str, rng: &mut Rng, out: &mut dyn Write) {
    let steps = if tier == "thorough" { 4000 } else { 400 };
    for max in [1u16, 2, 3, 5, 65535] {
        for rep in 0..3 {
            writeln!(out, "T alias tas-{max}-{rep} {max}").unwrap();
            let mut t = TopicAliasSend::new(max);
            for _ in 0..steps {
                let a: u16 = match rng.below(6) {
                    0 => max,
                    1 => max.saturating_sub(1).max(1),
                    _ => 1 + rng.below(max.min(4) as u64) as u16,
                };
                let topic = *rng.pick(&TOPICS);
                let op = match rng.below(20) {
                    0..=7 => format!("ins {} {a}", hex(topic.as_bytes())),
                    8..=9 => format!("get {a}"),
                    10 => format!("get {}", *rng.pick(&[0u16, max, max.saturating_add(1)])),
                    11..=12 => format!("peek {a}"),
                    13..=15 => format!("find {}", hex(topic.as_bytes())),
                    16..=18 => "lru".to_string(),
                    _ => {
                        if rng.chance(1, 4) {
                            "clear".to_string()
                        } else {
                            "max".to_string()
                        }
                    }
                };
                apply(&mut t, &op, out);
            }
            writeln!(out, "END").unwrap();
        }
    }
}
