//! Framing traces: streams of valid / invalid frames cut into chunks in every way (short
//! streams) or randomly (long ones), fed to the real `PacketBuilder::feed`.
use crate::rng::{hex, unhex, Rng};
use mqtt_protocol_core::mqtt::common::Cursor;
use mqtt_protocol_core::mqtt::connection::{PacketBuildResult, PacketBuilder};
use std::io::Write;

fn vbi(mut n: usize) -> Vec<u8> {
    let mut v = vec![];
    loop {
        let mut b = (n % 128) as u8;
        n /= 128;
        if n > 0 {
            b |= 0x80;
        }
        v.push(b);
        if n == 0 {
            break;
        }
    }
    v
}

fn frame(fh: u8, len: usize, rng: &mut Rng) -> Vec<u8> {
    let mut f = vec![fh];
    f.extend(vbi(len));
    for _ in 0..len {
        f.push(rng.below(256) as u8);
    }
    f
}

/// feed one chunk the way an application does: call until the cursor is exhausted
fn feed_chunk(pb: &mut PacketBuilder, chunk: &[u8], out: &mut dyn Write) {
    let mut cur = Cursor::new(chunk);
    loop {
        let pos = cur.position() as usize;
        if pos >= chunk.len() {
            break;
        }
        let res = pb.feed(&mut cur);
        let consumed = cur.position() as usize - pos;
        let r = match res {
            PacketBuildResult::Complete(raw) => {
                let fh = (raw.packet_type() << 4) | raw.flags();
                format!("C {} {}", fh, hex(raw.data_as_slice()))
            }
            PacketBuildResult::Incomplete => "I".to_string(),
            PacketBuildResult::Error(_) => "E".to_string(),
        };
        writeln!(out, "F {} = {} ; {} ; {}", hex(&chunk[pos..]), r, consumed, pb.verif_state()).unwrap();
        if consumed == 0 {
            break; // defensive: never loop forever on a buggy build
        }
    }
}

fn run_partition(name: &str, stream: &[u8], cuts: &[usize], out: &mut dyn Write) {
    writeln!(out, "T frame {name}").unwrap();
    let mut pb = PacketBuilder::new();
    let mut prev = 0;
    for &c in cuts.iter().chain(std::iter::once(&stream.len())) {
        if c > prev {
            feed_chunk(&mut pb, &stream[prev..c], out);
            prev = c;
            if (cuts.len() + c) % 5 == 0 {
                // an empty buffer (an exhausted cursor) between two chunks: nothing is consumed,
                // nothing is reported, the partly assembled frame stays
                let empty: [u8; 0] = [];
                let mut cur = Cursor::new(&empty[..]);
                let res = pb.feed(&mut cur);
                let r = match res {
                    PacketBuildResult::Complete(raw) => format!("C {} {}", (raw.packet_type() << 4) | raw.flags(), hex(raw.data_as_slice())),
                    PacketBuildResult::Incomplete => "I".to_string(),
                    PacketBuildResult::Error(_) => "E".to_string(),
                };
                writeln!(out, "F  = {} ; 0 ; {}", r, pb.verif_state()).unwrap();
            }
        }
    }
    writeln!(out, "END").unwrap();
}

pub fn generate(tier: &str, seed: u64, out: &mut dyn Write) {
    let mut rng = Rng::new(seed);
    let thorough = tier == "thorough";
    // building blocks
    let lens_small = [0usize, 1, 2, 3];
    let mut short_streams: Vec<Vec<u8>> = vec![];
    // all sequences of up to 2 (3 in thorough) small frames + special frames
    let specials: Vec<Vec<u8>> = vec![
        vec![0x10, 0x80, 0x80, 0x80, 0x80],       // over-long remaining length (error at 5th byte)
        vec![0x30, 0xff, 0xff, 0xff, 0xff, 0x01], // error then a stray byte
        vec![0x00, 0x00],                         // type 0
        vec![0xc0, 0x80, 0x00],                   // non-minimal zero length
        vec![0x30, 0x81, 0x00, 0xaa],             // non-minimal length 1
    ];
    let mut blocks: Vec<Vec<u8>> = vec![];
    for &l in &lens_small {
        blocks.push(frame(0x30, l, &mut rng));
        blocks.push(frame(0xe0, l, &mut rng));
    }
    blocks.extend(specials.iter().cloned());
    let k = blocks.len();
    for i in 0..k {
        short_streams.push(blocks[i].clone());
        for j in 0..k {
            let mut s = blocks[i].clone();
            s.extend(&blocks[j]);
            short_streams.push(s.clone());
            if thorough {
                for l in 0..k {
                    let mut t = s.clone();
                    t.extend(&blocks[l]);
                    short_streams.push(t);
                }
            }
        }
    }
    // every cut set of every short stream (≤ 12 bytes → ≤ 2^11 partitions)
    let mut n = 0usize;
    for (si, s) in short_streams.iter().enumerate() {
        let m = s.len();
        if m == 0 {
            continue;
        }
        let bits = m - 1;
        let all = bits <= if thorough { 12 } else { 9 };
        let count: u64 = if all { 1u64 << bits } else { 256 };
        for c in 0..count {
            let mask = if all { c } else { rng.next() & ((1u64 << bits.min(63)) - 1) };
            let cuts: Vec<usize> = (0..bits).filter(|b| mask >> b & 1 == 1).map(|b| b + 1).collect();
            run_partition(&format!("short{si}-{mask:x}"), s, &cuts, out);
            n += 1;
        }
    }
    // long streams with boundary lengths, random partitions (incl. single bytes / one chunk)
    let boundary = [0usize, 1, 127, 128, 129, 16383, 16384, 16385, 300, 5000];
    let rounds = if thorough { 400 } else { 40 };
    for r in 0..rounds {
        let mut s: Vec<u8> = vec![];
        let nf = 1 + rng.below(4);
        for _ in 0..nf {
            match rng.below(10) {
                0 => s.extend(rng.pick(&specials).clone()),
                1 => {
                    // garbage
                    let g = rng.below(7);
                    for _ in 0..g {
                        s.push(rng.below(256) as u8);
                    }
                }
                _ => {
                    let l = *rng.pick(&boundary);
                    let fh = *rng.pick(&[0x30u8, 0x3b, 0x10, 0x20, 0x82, 0xc0, 0xf0, 0x00]);
                    s.extend(frame(fh, l, &mut rng));
                }
            }
        }
        if s.is_empty() {
            continue;
        }
        let style = rng.below(4);
        let mut cuts: Vec<usize> = vec![];
        match style {
            0 => {} // one chunk
            1 if s.len() < 600 => cuts = (1..s.len()).collect(), // single bytes
            _ => {
                let nc = 1 + rng.below(12);
                for _ in 0..nc {
                    // bias towards the first bytes of frames (header / length straddling)
                    let c = if rng.chance(1, 2) { 1 + rng.below(6.min(s.len() as u64 - 1).max(1)) } else { 1 + rng.below(s.len() as u64 - 1 + (s.len() == 1) as u64) };
                    cuts.push((c as usize).min(s.len()));
                }
                cuts.sort();
                cuts.dedup();
            }
        }
        run_partition(&format!("long{r}"), &s, &cuts, out);
        n += 1;
    }
    eprintln!("frame: traces {n}");
}

pub fn replay(text: &str, out: &mut dyn Write) {
    let mut pb = PacketBuilder::new();
    let mut pending: Vec<u8> = vec![];
    // a chunk is reconstructed from consecutive F lines: a new chunk starts whenever the
    // unread input of a line is not the tail of the previous line's input
    let mut prev_rest: Option<Vec<u8>> = None;
    let flush = |pb: &mut PacketBuilder, pending: &mut Vec<u8>, out: &mut dyn Write| {
        if !pending.is_empty() {
            feed_chunk(pb, pending, out);
            pending.clear();
        }
    };
    for line in text.lines() {
        let w: Vec<&str> = line.split_whitespace().collect();
        if w.is_empty() {
            continue;
        }
        match w[0] {
            "T" => {
                pb = PacketBuilder::new();
                prev_rest = None;
                writeln!(out, "{line}").unwrap();
            }
            "END" => {
                flush(&mut pb, &mut pending, out);
                prev_rest = None;
                writeln!(out, "END").unwrap();
            }
            "F" => {
                let inp = unhex(w[1]);
                let cons: usize = line.split(" ; ").nth(1).unwrap().trim().parse().unwrap();
                let is_cont = prev_rest.as_ref().map(|r| *r == inp).unwrap_or(false);
                if !is_cont {
                    flush(&mut pb, &mut pending, out);
                    pending = inp.clone();
                }
                prev_rest = Some(inp[cons.min(inp.len())..].to_vec());
            }
            _ => {}
        }
    }
    flush(&mut pb, &mut pending, out);
}
