//! Tie 1 for C18 — the v5.0 property placement / multiplicity / value table, obtained by
//! EXECUTING the real builders and parsers exhaustively.
//!
//! One cell = (location, property id, occurrence count n ∈ {1,2}, value class vc ∈ 0..4):
//!
//!   CELL <location> <propid decimal> <n> <vc> builder=<ok|err E|valerr E|PANIC> parser=<ok|err E|PANIC>
//!
//! * BUILDER path: the public builder of a minimal valid packet of that kind gets the
//!   property list `ctx ++ [P(v)] * n` (`.props(..)`, or `.will_props(..)` for the will
//!   location).  `valerr E` = the property *value constructor* (`ReceiveMaximum::new(0)` …)
//!   already refused the value; `valerr Unrepresentable` = the value cannot be written with
//!   the public API at all (`PayloadFormatIndicator::new` takes an enum).
//! * PARSER path: the body bytes of the same minimal packet are assembled by hand (every
//!   property as id byte + wire value, so forbidden values are expressible) and given to the
//!   real `X::parse`.
//!
//! Value classes (the vc-th boundary value of the property's wire type):
//!   byte 0,1,2,255 · two byte 0,1,2,65535 · four byte 0,1,2,4294967295 ·
//!   variable byte integer 0,1,2,268435455 · UTF-8 string / binary of length 0,1,2,130 ·
//!   string pair ("",""),("a",""),("a","b"),(130 × "k","b").
//! (130 makes the Property Length field two bytes long.)
//!
//! `ctx` is empty except for Authentication Data (22), whose cells carry one Authentication
//! Method in front: the standard (3.1.2.11.10, 3.15.2.2.3) and `validate_auth_packet` make
//! Authentication Data without a method a Protocol Error *independently of placement*; the
//! context keeps that cross-property rule out of the placement table.  The rule itself is
//! reported on the AUX lines (not part of the table).
//!
//! After the cells, `V` lines tie the hand model of the `validate_*_properties` loops
//! (lean/MqttVerif/Codec/Validate.lean) to the code: property lists of arbitrary length and
//! order (all lists of length ≤ 2, then 10⁴ / 10⁵ seeded random ones per location), good values only:
//!
//!   V <location> <auth reason code> <id,id,…|-> builder=<…> parser=<…>
use crate::rng::Rng;
use mqtt_protocol_core::mqtt::packet::v5_0;
use mqtt_protocol_core::mqtt::packet::{self, PayloadFormat, Properties, Property, PropertyId, Qos, SubEntry, SubOpts};
use mqtt_protocol_core::mqtt::result_code::{
    AuthReasonCode, ConnectReasonCode, DisconnectReasonCode, MqttError, PubackReasonCode, PubcompReasonCode,
    PubrecReasonCode, PubrelReasonCode, SubackReasonCode, UnsubackReasonCode,
};
use std::io::Write;
use std::panic::{catch_unwind, AssertUnwindSafe};
use std::sync::Arc;

#[derive(Clone, Copy, PartialEq, Eq, Debug)]
pub enum Loc {
    Connect,
    Will,
    Connack,
    Publish,
    Puback,
    Pubrec,
    Pubrel,
    Pubcomp,
    Subscribe,
    Suback,
    Unsubscribe,
    Unsuback,
    Disconnect,
    Auth,
}

pub const LOCS: [Loc; 14] = [
    Loc::Connect,
    Loc::Will,
    Loc::Connack,
    Loc::Publish,
    Loc::Puback,
    Loc::Pubrec,
    Loc::Pubrel,
    Loc::Pubcomp,
    Loc::Subscribe,
    Loc::Suback,
    Loc::Unsubscribe,
    Loc::Unsuback,
    Loc::Disconnect,
    Loc::Auth,
];

impl Loc {
    pub fn name(self) -> &'static str {
        match self {
            Loc::Connect => "connect",
            Loc::Will => "will",
            Loc::Connack => "connack",
            Loc::Publish => "publish",
            Loc::Puback => "puback",
            Loc::Pubrec => "pubrec",
            Loc::Pubrel => "pubrel",
            Loc::Pubcomp => "pubcomp",
            Loc::Subscribe => "subscribe",
            Loc::Suback => "suback",
            Loc::Unsubscribe => "unsubscribe",
            Loc::Unsuback => "unsuback",
            Loc::Disconnect => "disconnect",
            Loc::Auth => "auth",
        }
    }
    pub fn from_name(s: &str) -> Option<Loc> {
        LOCS.iter().copied().find(|l| l.name() == s)
    }
}

/// every property identifier the crate knows, discovered from `PropertyId::try_from`
pub fn all_prop_ids() -> Vec<PropertyId> {
    (0u16..=255).filter_map(|b| PropertyId::try_from(b as u8).ok()).collect()
}

#[derive(Clone, Copy)]
enum Shape {
    Byte,
    Two,
    Four,
    Vbi,
    Str,
    Bin,
    Pair,
}

/// wire type of each property, transcribed from MQTT v5.0 Table 2-4 (used by the hand
/// encoder of the parser path only; a wrong entry shows up as a parser rejection)
fn shape(id: PropertyId) -> Shape {
    use PropertyId::*;
    match id {
        PayloadFormatIndicator => Shape::Byte,
        MessageExpiryInterval => Shape::Four,
        ContentType => Shape::Str,
        ResponseTopic => Shape::Str,
        CorrelationData => Shape::Bin,
        SubscriptionIdentifier => Shape::Vbi,
        SessionExpiryInterval => Shape::Four,
        AssignedClientIdentifier => Shape::Str,
        ServerKeepAlive => Shape::Two,
        AuthenticationMethod => Shape::Str,
        AuthenticationData => Shape::Bin,
        RequestProblemInformation => Shape::Byte,
        WillDelayInterval => Shape::Four,
        RequestResponseInformation => Shape::Byte,
        ResponseInformation => Shape::Str,
        ServerReference => Shape::Str,
        ReasonString => Shape::Str,
        ReceiveMaximum => Shape::Two,
        TopicAliasMaximum => Shape::Two,
        TopicAlias => Shape::Two,
        MaximumQos => Shape::Byte,
        RetainAvailable => Shape::Byte,
        UserProperty => Shape::Pair,
        MaximumPacketSize => Shape::Four,
        WildcardSubscriptionAvailable => Shape::Byte,
        SubscriptionIdentifierAvailable => Shape::Byte,
        SharedSubscriptionAvailable => Shape::Byte,
    }
}

const V8: [u8; 4] = [0, 1, 2, 255];
const V16: [u16; 4] = [0, 1, 2, 65535];
const V32: [u32; 4] = [0, 1, 2, 4294967295];
const VVBI: [u32; 4] = [0, 1, 2, 268435455];

fn strv(vc: usize) -> String {
    match vc {
        0 => String::new(),
        1 => "a".into(),
        2 => "ab".into(),
        _ => "x".repeat(130),
    }
}

fn pairv(vc: usize) -> (String, String) {
    match vc {
        0 => (String::new(), String::new()),
        1 => ("a".into(), String::new()),
        2 => ("a".into(), "b".into()),
        _ => ("k".repeat(130), "b".into()),
    }
}

fn vbi(mut n: u32) -> Vec<u8> {
    let mut v = vec![];
    loop {
        let mut b = (n % 128) as u8;
        n /= 128;
        if n > 0 {
            b |= 0x80;
        }
        v.push(b);
        if n == 0 {
            break;
        }
    }
    v
}

fn wstr(s: &[u8]) -> Vec<u8> {
    let mut v = vec![(s.len() >> 8) as u8, (s.len() & 0xff) as u8];
    v.extend_from_slice(s);
    v
}

/// hand encoder: id byte + wire value of value class `vc`
pub fn wire_prop(id: PropertyId, vc: usize) -> Vec<u8> {
    let mut v = vec![id as u8];
    match shape(id) {
        Shape::Byte => v.push(V8[vc]),
        Shape::Two => v.extend_from_slice(&V16[vc].to_be_bytes()),
        Shape::Four => v.extend_from_slice(&V32[vc].to_be_bytes()),
        Shape::Vbi => v.extend(vbi(VVBI[vc])),
        Shape::Str | Shape::Bin => v.extend(wstr(strv(vc).as_bytes())),
        Shape::Pair => {
            let (k, x) = pairv(vc);
            v.extend(wstr(k.as_bytes()));
            v.extend(wstr(x.as_bytes()));
        }
    }
    v
}

fn en(e: MqttError) -> String {
    format!("{e:?}")
}

/// the property value through its public constructor; Err = `valerr` text
fn build_prop(id: PropertyId, vc: usize) -> Result<Property, String> {
    use PropertyId as I;
    let s = strv(vc);
    let r: Result<Property, MqttError> = match id {
        I::PayloadFormatIndicator => {
            let pf = PayloadFormat::try_from(V8[vc]).map_err(|_| "Unrepresentable".to_string())?;
            packet::PayloadFormatIndicator::new(pf).map(Into::into)
        }
        I::MessageExpiryInterval => packet::MessageExpiryInterval::new(V32[vc]).map(Into::into),
        I::ContentType => packet::ContentType::new(s.as_str()).map(Into::into),
        I::ResponseTopic => packet::ResponseTopic::new(s.as_str()).map(Into::into),
        I::CorrelationData => packet::CorrelationData::new(s.as_bytes().to_vec()).map(Into::into),
        I::SubscriptionIdentifier => packet::SubscriptionIdentifier::new(VVBI[vc]).map(Into::into),
        I::SessionExpiryInterval => packet::SessionExpiryInterval::new(V32[vc]).map(Into::into),
        I::AssignedClientIdentifier => packet::AssignedClientIdentifier::new(s.as_str()).map(Into::into),
        I::ServerKeepAlive => packet::ServerKeepAlive::new(V16[vc]).map(Into::into),
        I::AuthenticationMethod => packet::AuthenticationMethod::new(s.as_str()).map(Into::into),
        I::AuthenticationData => packet::AuthenticationData::new(s.as_bytes().to_vec()).map(Into::into),
        I::RequestProblemInformation => packet::RequestProblemInformation::new(V8[vc]).map(Into::into),
        I::WillDelayInterval => packet::WillDelayInterval::new(V32[vc]).map(Into::into),
        I::RequestResponseInformation => packet::RequestResponseInformation::new(V8[vc]).map(Into::into),
        I::ResponseInformation => packet::ResponseInformation::new(s.as_str()).map(Into::into),
        I::ServerReference => packet::ServerReference::new(s.as_str()).map(Into::into),
        I::ReasonString => packet::ReasonString::new(s.as_str()).map(Into::into),
        I::ReceiveMaximum => packet::ReceiveMaximum::new(V16[vc]).map(Into::into),
        I::TopicAliasMaximum => packet::TopicAliasMaximum::new(V16[vc]).map(Into::into),
        I::TopicAlias => packet::TopicAlias::new(V16[vc]).map(Into::into),
        I::MaximumQos => packet::MaximumQos::new(V8[vc]).map(Into::into),
        I::RetainAvailable => packet::RetainAvailable::new(V8[vc]).map(Into::into),
        I::UserProperty => {
            let (k, x) = pairv(vc);
            packet::UserProperty::new(k.as_str(), x.as_str()).map(Into::into)
        }
        I::MaximumPacketSize => packet::MaximumPacketSize::new(V32[vc]).map(Into::into),
        I::WildcardSubscriptionAvailable => packet::WildcardSubscriptionAvailable::new(V8[vc]).map(Into::into),
        I::SubscriptionIdentifierAvailable => packet::SubscriptionIdentifierAvailable::new(V8[vc]).map(Into::into),
        I::SharedSubscriptionAvailable => packet::SharedSubscriptionAvailable::new(V8[vc]).map(Into::into),
    };
    r.map_err(en)
}

fn auth_rc(rc: u8) -> AuthReasonCode {
    AuthReasonCode::try_from(rc).unwrap_or(AuthReasonCode::Success)
}

/// minimal valid packet of kind `loc` through the public builder, carrying `props`
/// (`rc` = reason code, used by AUTH only; 0 everywhere else)
fn build_packet(loc: Loc, rc: u8, props: Properties) -> Result<(), MqttError> {
    match loc {
        Loc::Connect => v5_0::Connect::builder().client_id("")?.clean_start(true).props(props).build().map(|_| ()),
        // (both property sections are set: the will section is judged on its own whatever the other holds)
        Loc::Will => v5_0::Connect::builder()
            .client_id("")?
            .clean_start(true)
            .props(Properties::new())
            .will_message("t", Vec::<u8>::new(), Qos::AtMostOnce, false)?
            .will_props(props)
            .build()
            .map(|_| ()),
        Loc::Connack => v5_0::Connack::builder()
            .session_present(false)
            .reason_code(ConnectReasonCode::Success)
            .props(props)
            .build()
            .map(|_| ()),
        Loc::Publish => v5_0::Publish::builder().topic_name("t")?.qos(Qos::AtMostOnce).props(props).build().map(|_| ()),
        Loc::Puback => v5_0::Puback::builder().packet_id(1u16).reason_code(PubackReasonCode::Success).props(props).build().map(|_| ()),
        Loc::Pubrec => v5_0::Pubrec::builder().packet_id(1u16).reason_code(PubrecReasonCode::Success).props(props).build().map(|_| ()),
        Loc::Pubrel => v5_0::Pubrel::builder().packet_id(1u16).reason_code(PubrelReasonCode::Success).props(props).build().map(|_| ()),
        Loc::Pubcomp => v5_0::Pubcomp::builder().packet_id(1u16).reason_code(PubcompReasonCode::Success).props(props).build().map(|_| ()),
        Loc::Subscribe => v5_0::Subscribe::builder()
            .packet_id(1u16)
            .entries(vec![SubEntry::new("t", SubOpts::default())?])
            .props(props)
            .build()
            .map(|_| ()),
        Loc::Suback => v5_0::Suback::builder()
            .packet_id(1u16)
            .reason_codes(vec![SubackReasonCode::GrantedQos0])
            .props(props)
            .build()
            .map(|_| ()),
        Loc::Unsubscribe => v5_0::Unsubscribe::builder().packet_id(1u16).entries(vec!["t"])?.props(props).build().map(|_| ()),
        Loc::Unsuback => v5_0::Unsuback::builder()
            .packet_id(1u16)
            .reason_codes(vec![UnsubackReasonCode::Success])
            .props(props)
            .build()
            .map(|_| ()),
        Loc::Disconnect => v5_0::Disconnect::builder()
            .reason_code(DisconnectReasonCode::NormalDisconnection)
            .props(props)
            .build()
            .map(|_| ()),
        Loc::Auth => v5_0::Auth::builder().reason_code(auth_rc(rc)).props(props).build().map(|_| ()),
    }
}

/// hand-assembled body (everything after the fixed header and Remaining Length) of the
/// same minimal packet, the property section holding `pbytes`
pub fn body(loc: Loc, rc: u8, pbytes: &[u8]) -> Vec<u8> {
    let mut sec = vbi(pbytes.len() as u32);
    sec.extend_from_slice(pbytes);
    let pid = [0u8, 1];
    let topic = [0u8, 1, b't'];
    let mut b = vec![];
    match loc {
        Loc::Connect => {
            b.extend_from_slice(&[0, 4, b'M', b'Q', b'T', b'T', 5, 0x02, 0, 0]);
            b.extend(sec);
            b.extend_from_slice(&[0, 0]); // client id ""
        }
        Loc::Will => {
            b.extend_from_slice(&[0, 4, b'M', b'Q', b'T', b'T', 5, 0x06, 0, 0]);
            b.push(0); // CONNECT properties: none
            b.extend_from_slice(&[0, 0]); // client id ""
            b.extend(sec); // will properties
            b.extend_from_slice(&topic); // will topic "t"
            b.extend_from_slice(&[0, 0]); // will payload ""
        }
        Loc::Connack => {
            b.extend_from_slice(&[0, 0]);
            b.extend(sec);
        }
        Loc::Publish => {
            b.extend_from_slice(&topic);
            b.extend(sec);
        }
        Loc::Puback | Loc::Pubrec | Loc::Pubrel | Loc::Pubcomp => {
            b.extend_from_slice(&pid);
            b.push(0);
            b.extend(sec);
        }
        Loc::Subscribe => {
            b.extend_from_slice(&pid);
            b.extend(sec);
            b.extend_from_slice(&topic);
            b.push(0);
        }
        Loc::Suback | Loc::Unsuback => {
            b.extend_from_slice(&pid);
            b.extend(sec);
            b.push(0);
        }
        Loc::Unsubscribe => {
            b.extend_from_slice(&pid);
            b.extend(sec);
            b.extend_from_slice(&topic);
        }
        Loc::Disconnect => {
            b.push(0);
            b.extend(sec);
        }
        Loc::Auth => {
            b.push(rc);
            b.extend(sec);
        }
    }
    b
}

/// fixed header byte of the minimal packet of a location
pub fn fixed_header(loc: Loc) -> u8 {
    match loc {
        Loc::Connect | Loc::Will => 0x10,
        Loc::Connack => 0x20,
        Loc::Publish => 0x30,
        Loc::Puback => 0x40,
        Loc::Pubrec => 0x50,
        Loc::Pubrel => 0x62,
        Loc::Pubcomp => 0x70,
        Loc::Subscribe => 0x82,
        Loc::Suback => 0x90,
        Loc::Unsubscribe => 0xa2,
        Loc::Unsuback => 0xb0,
        Loc::Disconnect => 0xe0,
        Loc::Auth => 0xf0,
    }
}

fn parse_packet(loc: Loc, body: &[u8]) -> Result<usize, MqttError> {
    match loc {
        Loc::Connect | Loc::Will => v5_0::Connect::parse(body).map(|x| x.1),
        Loc::Connack => v5_0::Connack::parse(body).map(|x| x.1),
        Loc::Publish => v5_0::Publish::parse(0, Arc::from(body)).map(|x| x.1),
        Loc::Puback => v5_0::Puback::parse(body).map(|x| x.1),
        Loc::Pubrec => v5_0::Pubrec::parse(body).map(|x| x.1),
        Loc::Pubrel => v5_0::Pubrel::parse(body).map(|x| x.1),
        Loc::Pubcomp => v5_0::Pubcomp::parse(body).map(|x| x.1),
        Loc::Subscribe => v5_0::Subscribe::parse(body).map(|x| x.1),
        Loc::Suback => v5_0::Suback::parse(body).map(|x| x.1),
        Loc::Unsubscribe => v5_0::Unsubscribe::parse(body).map(|x| x.1),
        Loc::Unsuback => v5_0::Unsuback::parse(body).map(|x| x.1),
        Loc::Disconnect => v5_0::Disconnect::parse(body).map(|x| x.1),
        Loc::Auth => v5_0::Auth::parse(body).map(|x| x.1),
    }
}

fn verdict(r: std::thread::Result<Result<(), MqttError>>) -> String {
    match r {
        Ok(Ok(())) => "ok".into(),
        Ok(Err(e)) => format!("err {}", en(e)),
        Err(_) => "PANIC".into(),
    }
}

/// builder verdict for a list of (id, vc)
fn run_builder(loc: Loc, rc: u8, items: &[(PropertyId, usize)]) -> String {
    let r = catch_unwind(AssertUnwindSafe(|| -> Result<Result<(), MqttError>, String> {
        let mut props = Properties::new();
        for &(id, vc) in items {
            props.push(build_prop(id, vc)?);
        }
        Ok(build_packet(loc, rc, props))
    }));
    match r {
        Ok(Ok(x)) => verdict(Ok(x)),
        Ok(Err(valerr)) => format!("valerr {valerr}"),
        Err(_) => "PANIC".into(),
    }
}

fn run_parser(loc: Loc, rc: u8, items: &[(PropertyId, usize)]) -> (String, Vec<u8>) {
    let mut pbytes = vec![];
    for &(id, vc) in items {
        pbytes.extend(wire_prop(id, vc));
    }
    let b = body(loc, rc, &pbytes);
    let bl = b.len();
    let r = catch_unwind(AssertUnwindSafe(|| {
        parse_packet(loc, &b).and_then(|consumed| {
            // a parser that accepts must have read the whole body
            if consumed == bl {
                Ok(())
            } else {
                Err(MqttError::PartialErrorDetected)
            }
        })
    }));
    (verdict(r), b)
}

fn ctx(id: PropertyId) -> Vec<(PropertyId, usize)> {
    if id == PropertyId::AuthenticationData {
        vec![(PropertyId::AuthenticationMethod, 1)]
    } else {
        vec![]
    }
}

fn cell_items(id: PropertyId, n: usize, vc: usize) -> Vec<(PropertyId, usize)> {
    let mut items = ctx(id);
    for _ in 0..n {
        items.push((id, vc));
    }
    items
}

fn cell_line(loc: Loc, id: PropertyId, n: usize, vc: usize, out: &mut dyn Write) {
    let items = cell_items(id, n, vc);
    let b = run_builder(loc, 0, &items);
    let (p, _) = run_parser(loc, 0, &items);
    writeln!(out, "CELL {} {} {} {} builder={} parser={}", loc.name(), id as u8, n, vc, b, p).unwrap();
}

pub fn cells(out: &mut dyn Write) {
    let ids = all_prop_ids();
    for id in &ids {
        writeln!(out, "PROPID {} {}", *id as u8, id.as_str()).unwrap();
    }
    for loc in LOCS {
        let b = run_builder(loc, 0, &[]);
        let (p, _) = run_parser(loc, 0, &[]);
        writeln!(out, "BASE {} builder={} parser={}", loc.name(), b, p).unwrap();
    }
    for loc in LOCS {
        writeln!(out, "T tables {}", loc.name()).unwrap();
        for id in &ids {
            for n in 1..=2 {
                for vc in 0..4 {
                    cell_line(loc, *id, n, vc, out);
                }
            }
        }
        writeln!(out, "END").unwrap();
    }
    // cross-property rule kept out of the table: Authentication Data without a method
    writeln!(out, "T tables aux").unwrap();
    for loc in [Loc::Connect, Loc::Connack, Loc::Auth] {
        let items = [(PropertyId::AuthenticationData, 1usize)];
        let b = run_builder(loc, 0, &items);
        let (p, _) = run_parser(loc, 0, &items);
        writeln!(out, "AUX {} authdata_without_method builder={} parser={}", loc.name(), b, p).unwrap();
    }
    writeln!(out, "END").unwrap();
}

fn v_line(loc: Loc, rc: u8, ids: &[PropertyId], out: &mut dyn Write) {
    // good values only; a repeated property gets a DIFFERENT good value on its second and later
    // occurrences (byte-valued properties: 0, the others: the class-2 value)
    let mut seen: Vec<PropertyId> = vec![];
    let items: Vec<(PropertyId, usize)> = ids
        .iter()
        .map(|i| {
            let again = seen.contains(i);
            seen.push(*i);
            let vc = if !again { 1 } else if matches!(shape(*i), Shape::Byte) { 0 } else { 2 };
            (*i, vc)
        })
        .collect();
    let b = run_builder(loc, rc, &items);
    let (p, _) = run_parser(loc, rc, &items);
    let l = if ids.is_empty() {
        "-".to_string()
    } else {
        ids.iter().map(|i| (*i as u8).to_string()).collect::<Vec<_>>().join(",")
    };
    writeln!(out, "V {} {} {} builder={} parser={}", loc.name(), rc, l, b, p).unwrap();
}

pub fn validate_lists(tier: &str, seed: u64, out: &mut dyn Write) {
    let ids = all_prop_ids();
    let mut rng = Rng::new(seed);
    let nrand = if tier == "thorough" { 100_000 } else { 10_000 };
    for loc in LOCS {
        writeln!(out, "T tables validate-{}", loc.name()).unwrap();
        let rcs: &[u8] = if loc == Loc::Auth { &[0, 0x18, 0x19] } else { &[0] };
        for &rc in rcs {
            v_line(loc, rc, &[], out);
            for a in &ids {
                v_line(loc, rc, &[*a], out);
                for b in &ids {
                    v_line(loc, rc, &[*a, *b], out);
                }
            }
        }
        // directed: long lists of User Properties (may repeat without limit): counts around 255/256
        // and counts whose encoded section is exactly a multiple of 128 bytes long (6 + 7(n-1):
        // 55 -> 384, 183 -> 1280) or just beside one
        for &rc in rcs {
            for n in [54usize, 55, 56, 183, 255, 256, 257, 300, 1000] {
                v_line(loc, rc, &vec![PropertyId::UserProperty; n], out);
            }
        }
        // random lists biased towards the properties this location's validator knows
        let accepted: Vec<PropertyId> = ids
            .iter()
            .copied()
            .filter(|i| run_builder(loc, 0, &cell_items(*i, 1, 1)) == "ok")
            .collect();
        for _ in 0..nrand {
            let len = rng.below(8) as usize;
            let mut l = vec![];
            for _ in 0..len {
                if !accepted.is_empty() && rng.chance(9, 10) {
                    l.push(*rng.pick(&accepted));
                } else {
                    l.push(*rng.pick(&ids));
                }
            }
            let rc = *rng.pick(rcs);
            v_line(loc, rc, &l, out);
        }
        writeln!(out, "END").unwrap();
    }
}

pub fn generate(tier: &str, seed: u64, out: &mut dyn Write) {
    cells(out);
    if tier != "cells" {
        validate_lists(tier, seed, out);
    }
}

/// re-execute the CELL / V lines of a replay file on the implementation; additionally print
/// the hand-assembled packet body and the builder call of every cell (witness)
pub fn replay(text: &str, out: &mut dyn Write) {
    let ids = all_prop_ids();
    let find = |n: &str| -> Option<PropertyId> { n.parse::<u8>().ok().and_then(|b| ids.iter().copied().find(|i| *i as u8 == b)) };
    writeln!(out, "T tables replay").unwrap();
    for line in text.lines() {
        let w: Vec<&str> = line.split_whitespace().collect();
        if w.len() >= 5 && w[0] == "CELL" {
            if let (Some(loc), Some(id), Ok(n), Ok(vc)) = (Loc::from_name(w[1]), find(w[2]), w[3].parse::<usize>(), w[4].parse::<usize>()) {
                if (1..=2).contains(&n) && vc < 4 {
                    let items = cell_items(id, n, vc);
                    let (_, b) = run_parser(loc, 0, &items);
                    let call: Vec<String> = items.iter().map(|(i, v)| format!("{}[vc{}]", i.as_str(), v)).collect();
                    writeln!(out, "# {} body={} builder.props([{}])", loc.name(), crate::rng::hex(&b), call.join(", ")).unwrap();
                    cell_line(loc, id, n, vc, out);
                }
            }
        } else if w.len() >= 3 && w[0] == "AUX" && w[2] == "authdata_without_method" {
            if let Some(loc) = Loc::from_name(w[1]) {
                let items = [(PropertyId::AuthenticationData, 1usize)];
                let b = run_builder(loc, 0, &items);
                let (p, body) = run_parser(loc, 0, &items);
                writeln!(out, "# {} body={} builder.props([authentication_data[vc1]])", loc.name(), crate::rng::hex(&body)).unwrap();
                writeln!(out, "AUX {} authdata_without_method builder={} parser={}", loc.name(), b, p).unwrap();
            }
        } else if w.len() >= 4 && w[0] == "V" {
            if let (Some(loc), Ok(rc)) = (Loc::from_name(w[1]), w[2].parse::<u8>()) {
                let l: Vec<PropertyId> = if w[3] == "-" { vec![] } else { w[3].split(',').filter_map(find).collect() };
                v_line(loc, rc, &l, out);
            }
        }
    }
    writeln!(out, "END").unwrap();
}
