//! Bulk probes: states that the line protocol cannot carry (tens of thousands of stored
//! packets) are built in-process and only the outcome of the interesting call is printed.
//!
//!   K resend role=<client|server> ids=u32 n=<stored> rm=<peer's Receive Maximum> | <PANIC | ok sends=<k>> | vacancy=<v>
use crate::conn::*;
use crate::rng::hex;
use mqtt_protocol_core::mqtt;
use mqtt_protocol_core::mqtt::connection::role::{Client, Server};
use mqtt_protocol_core::mqtt::connection::GenericEvent;
use mqtt_protocol_core::mqtt::packet::{v5_0, GenericStorePacket, Qos};
use mqtt_protocol_core::mqtt::{GenericConnection, Version};
use std::io::Write;
use std::panic::{catch_unwind, AssertUnwindSafe};

fn stored(n: u32) -> Vec<GenericStorePacket<u32>> {
    (1..=n)
        .map(|id| {
            let p = v5_0::GenericPublish::<u32>::builder().topic_name("t").unwrap().qos(Qos::AtLeastOnce).packet_id(id).build().unwrap();
            GenericStorePacket::V5_0Publish(p)
        })
        .collect()
}

fn count_sends(ev: &[GenericEvent<u32>]) -> usize {
    ev.iter().filter(|e| matches!(e, GenericEvent::RequestSendPacket { .. })).count()
}

fn resend_client(n: u32, rm: u16, out: &mut dyn Write) {
    let r = catch_unwind(AssertUnwindSafe(|| {
        let mut c = GenericConnection::<Client, u32>::new(Version::V5_0);
        c.restore_packets(stored(n));
        let connect = w_connect(5, false, 0, b"cid", &[P::U32(17, 100)]);
        let pk = parse_frame::<u32>(5, connect[0], &connect[2..]).expect("connect");
        let _ = c.send(pk);
        let connack = w_connack(5, true, 0, &[P::U16(33, rm)]);
        let ev = c.recv(&mut mqtt::common::Cursor::new(&connack[..]));
        (count_sends(&ev), c.get_receive_maximum_vacancy_for_send())
    }));
    match r {
        Ok((k, v)) => writeln!(out, "K resend role=client ids=u32 n={n} rm={rm} | ok sends={k} | vacancy={}", v.map(|x| x.to_string()).unwrap_or("none".into())).unwrap(),
        Err(_) => writeln!(out, "K resend role=client ids=u32 n={n} rm={rm} | PANIC | vacancy=-").unwrap(),
    }
}

fn resend_server(n: u32, rm: u16, out: &mut dyn Write) {
    let r = catch_unwind(AssertUnwindSafe(|| {
        let mut c = GenericConnection::<Server, u32>::new(Version::V5_0);
        c.restore_packets(stored(n));
        let connect = w_connect(5, false, 0, b"cid", &[P::U32(17, 100), P::U16(33, rm)]);
        let _ = c.recv(&mut mqtt::common::Cursor::new(&connect[..]));
        let connack = w_connack(5, true, 0, &[]);
        let pk = parse_frame::<u32>(5, connack[0], &connack[2..]).expect("connack");
        let ev = c.send(pk);
        (count_sends(&ev), c.get_receive_maximum_vacancy_for_send())
    }));
    match r {
        Ok((k, v)) => writeln!(out, "K resend role=server ids=u32 n={n} rm={rm} | ok sends={k} | vacancy={}", v.map(|x| x.to_string()).unwrap_or("none".into())).unwrap(),
        Err(_) => writeln!(out, "K resend role=server ids=u32 n={n} rm={rm} | PANIC | vacancy=-").unwrap(),
    }
}

/// every identifier from 1 to the type's maximum can be in use at once; then exhaustion is an error
fn exhaust_u16(out: &mut dyn Write) {
    let r = catch_unwind(AssertUnwindSafe(|| {
        let mut c = GenericConnection::<Client, u16>::new(Version::V5_0);
        let mut seen = vec![false; 65536];
        let mut n = 0u32;
        let mut distinct = true;
        let mut zero = false;
        for _ in 0..65535u32 {
            match c.acquire_packet_id() {
                Ok(id) => {
                    if id == 0 {
                        zero = true;
                    }
                    if seen[id as usize] {
                        distinct = false;
                    }
                    seen[id as usize] = true;
                    n += 1;
                }
                Err(_) => break,
            }
        }
        let next = match c.acquire_packet_id() {
            Ok(id) => format!("ok{id}"),
            Err(_) => "E".to_string(),
        };
        let reg = c.register_packet_id(65535).is_err();
        (n, distinct && !zero, next, reg)
    }));
    match r {
        Ok((n, d, next, reg)) => writeln!(out, "K exhaust ids=u16 | ok acquired={n} distinct={} next={next} register_max_refused={} | -", d as u8, reg as u8).unwrap(),
        Err(_) => writeln!(out, "K exhaust ids=u16 | PANIC | -").unwrap(),
    }
}

pub fn generate(tier: &str, _seed: u64, out: &mut dyn Write) {
    let _ = hex(&[]);
    writeln!(out, "T bulk resend").unwrap();
    let ns: &[u32] = if tier == "thorough" { &[10, 65_534, 65_535, 65_536, 65_537, 70_000, 131_072, 200_000] } else { &[10, 65_535, 65_536, 70_000] };
    for &n in ns {
        for rm in [1u16, 10, 65_535] {
            resend_client(n, rm, out);
            resend_server(n, rm, out);
        }
    }
    exhaust_u16(out);
    writeln!(out, "END").unwrap();
}
