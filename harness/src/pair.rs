//! C01: a real client endpoint and a real server endpoint joined by two byte queues, under a
//! seeded scheduler (application workload, delivery of arbitrary chunks, transport loss at an
//! arbitrary point incl. mid-frame, persistent-session resumption).  Each endpoint's calls are
//! an ordinary `conn` trace (lock-step with the model); the `T pair` block carries what the
//! property itself observes (errors about the peer, deliveries per message, drain, quiescence).
use crate::conn::*;
use crate::rng::{hex, Rng};
use mqtt_protocol_core::mqtt::connection::role::{Client, Server};
use crate::csend::RoleX;
use std::collections::{HashMap, VecDeque};
use std::io::Write;

struct Msg {
    tag: Vec<u8>,
    qos: u8,
    topic: Vec<u8>,
    from_client: bool,
    accepted: bool,
}

struct Side<R: RoleX> {
    s: Sess<R, u16>,
    out: VecDeque<u8>,
    auto: bool,
    delivered: Vec<(Vec<u8>, Vec<u8>)>, // (topic, payload) of every notified PUBLISH
    errs_recv: Vec<u16>,                // NotifyError raised while processing peer bytes
    errs_send: Vec<u16>,
    closes: usize,
    alias: HashMap<u16, Vec<u8>>,       // manual aliases this side has bound on this connection
    ver: u8,
}

impl<R: RoleX> Side<R> {
    fn new(ver: u8, auto: bool) -> Self {
        Side { s: Sess::new(ver), out: VecDeque::new(), auto, delivered: vec![], errs_recv: vec![], errs_send: vec![], closes: 0, alias: HashMap::new(), ver }
    }

    /// run one operation and react to its events like an application would
    fn call(&mut self, op: String, is_recv: bool) -> Vec<Obs> {
        self.s.obs.clear();
        self.s.apply(&op);
        let obs: Vec<Obs> = self.s.obs.drain(..).collect();
        let mut todo: Vec<String> = vec![];
        for o in &obs {
            match o {
                Obs::Send(b) => self.out.extend(b.iter()),
                Obs::Err(e) => {
                    if is_recv {
                        self.errs_recv.push(*e)
                    } else {
                        self.errs_send.push(*e)
                    }
                }
                Obs::Close => self.closes += 1,
                Obs::Recv { kind, qos, pid, topic, payload, rc } => {
                    let v = self.ver;
                    match kind {
                        3 => {
                            self.delivered.push((topic.clone(), payload.clone()));
                            if !self.auto {
                                if *qos == 1 {
                                    todo.push(format!("send {} {}", v, hex(&w_ack(v, 2, 4, *pid, None, None))));
                                } else if *qos == 2 {
                                    todo.push(format!("send {} {}", v, hex(&w_ack(v, 2, 5, *pid, None, None))));
                                }
                            }
                        }
                        5 if !self.auto && rc.map(|r| r < 0x80).unwrap_or(true) => {
                            todo.push(format!("send {} {}", v, hex(&w_ack(v, 2, 6, *pid, None, None))));
                        }
                        6 if !self.auto => {
                            todo.push(format!("send {} {}", v, hex(&w_ack(v, 2, 7, *pid, None, None))));
                        }
                        8 => todo.push(format!("send {} {}", v, hex(&w_suback(v, 2, *pid, &[0])))),
                        10 => todo.push(format!("send {} {}", v, hex(&w_unsuback(v, 2, *pid, &[0])))),
                        12 if !self.auto => todo.push(format!("send {} {}", v, hex(&w_simple(0xd0)))),
                        _ => {}
                    }
                }
            }
        }
        let mut all = obs;
        for t in todo {
            all.extend(self.call(t, false));
        }
        all
    }

    fn acquire(&mut self) -> Option<u64> {
        self.s.apply("acquire");
        let r = self.s.out_lines.last().and_then(|l| l.split(" | ").nth(3)).unwrap_or("-").to_string();
        r.strip_prefix("ok").and_then(|x| x.parse().ok())
    }
}

struct Limits {
    rm: Option<u16>,
    tam: u16,
    mps: Option<u32>,
}

fn lim_props(l: &Limits, sei: bool) -> Vec<P> {
    let mut ps = vec![];
    if let Some(r) = l.rm {
        ps.push(P::U16(33, r));
    }
    if l.tam > 0 {
        ps.push(P::U16(34, l.tam));
    }
    if let Some(m) = l.mps {
        ps.push(P::U32(39, m));
    }
    if sei {
        ps.push(P::U32(17, 300));
    }
    ps
}

fn one_run(ver: u8, rng: &mut Rng, name: &str, steps: usize, out: &mut dyn Write) {
    let auto_c = rng.chance(2, 3);
    let auto_s = rng.chance(2, 3);
    let mut c = Side::<Client>::new(ver, auto_c);
    let mut s = Side::<Server>::new(ver, auto_s);
    if auto_c {
        c.call("set apr 1".into(), false);
    }
    if auto_s {
        s.call("set apr 1".into(), false);
        s.call("set aping 1".into(), false);
    }
    let amap = ver == 5 && rng.chance(1, 3);
    if amap {
        c.call(format!("set {} 1", if rng.chance(1, 2) { "amap" } else { "arep" }), false);
    }
    // limits each side announces, constant across resumes
    let pick_lim = |rng: &mut Rng| Limits {
        rm: if rng.chance(1, 2) { Some(*rng.pick(&[1u16, 2, 3, 10])) } else { None },
        tam: *rng.pick(&[0u16, 0, 1, 2, 3]),
        mps: if rng.chance(1, 4) { Some(*rng.pick(&[40u32, 64, 200])) } else { None },
    };
    let mut lc = pick_lim(rng);
    let mut ls = pick_lim(rng);
    if ver == 4 {
        // v3.1.1 has no such limits
        lc = Limits { rm: None, tam: 0, mps: None };
        ls = Limits { rm: None, tam: 0, mps: None };
    }
    let mut msgs: Vec<Msg> = vec![];
    let mut losses = 0usize;
    let mut seq = 0usize;

    macro_rules! deliver_all {
        () => {{
            let mut guard = 0;
            while (!c.out.is_empty() || !s.out.is_empty()) && guard < 4000 {
                guard += 1;
                if !c.out.is_empty() {
                    let b: Vec<u8> = c.out.drain(..).collect();
                    s.call(format!("recv {}", hex(&b)), true);
                }
                if !s.out.is_empty() {
                    let b: Vec<u8> = s.out.drain(..).collect();
                    c.call(format!("recv {}", hex(&b)), true);
                }
            }
        }};
    }
    macro_rules! handshake {
        ($first:expr) => {{
            let clean = if ver == 4 { false } else { $first };
            let ps = if ver == 5 { lim_props(&lc, true) } else { vec![] };
            c.call(format!("send {} {}", ver, hex(&w_connect(ver, clean, 0, b"cid", &ps))), false);
            // the CONNECT reaches the server whole
            let b: Vec<u8> = c.out.drain(..).collect();
            s.call(format!("recv {}", hex(&b)), true);
            let ps = if ver == 5 { lim_props(&ls, false) } else { vec![] };
            s.call(format!("send {} {}", ver, hex(&w_connack(ver, !$first, 0, &ps))), false);
            // the CONNACK (and any retransmissions behind it) is seen by the client before the
            // application issues new work
            let b: Vec<u8> = s.out.drain(..).collect();
            c.call(format!("recv {}", hex(&b)), true);
        }};
    }
    handshake!(true);

    let topics: [&[u8]; 3] = [b"a", b"b/c", b"sensor/long/topic"];
    for _ in 0..steps {
        if c.s.dead || s.s.dead {
            break;
        }
        match rng.below(100) {
            0..=29 => {
                // a publish from one side
                let from_client = rng.chance(1, 2);
                let qos = rng.below(3) as u8;
                let topic = topics[rng.below(3) as usize].to_vec();
                seq += 1;
                let tag = format!("m{}-{}", seq, if from_client { "c" } else { "s" }).into_bytes();
                let peer_tam = if from_client { ls.tam } else { lc.tam };
                macro_rules! do_pub {
                    ($side:expr) => {{
                        let id = if qos > 0 { $side.acquire() } else { Some(0) };
                        if let Some(id) = id {
                            let mut wire_topic = topic.clone();
                            let mut ps: Vec<P> = vec![];
                            let mut rebound: Option<(u16, Option<Vec<u8>>)> = None;
                            if ver == 5 && peer_tam > 0 && !amap && rng.chance(1, 3) {
                                let a = 1 + rng.below(peer_tam as u64) as u16;
                                if $side.alias.get(&a) == Some(&topic) && rng.chance(2, 3) {
                                    wire_topic.clear();
                                } else {
                                    rebound = Some((a, $side.alias.insert(a, topic.clone())));
                                }
                                ps.push(P::U16(35, a));
                            }
                            if ver == 5 && rng.chance(1, 6) {
                                // a property section that the 3-byte Topic Alias property moves across
                                // the 127/128 boundary of its length field (rewriting / store regulation)
                                let n = 117 + rng.below(7) as usize;
                                ps.push(P::Pair(b"k".to_vec(), vec![b'v'; n]));
                            }
                            // sometimes exactly as large as the receiver's Maximum Packet Size
                            let peer_mps = if from_client { ls.mps } else { lc.mps };
                            let mut tag = tag.clone();
                            if let Some(m) = peer_mps {
                                let base = w_publish(ver, 2, qos, false, false, &wire_topic, id, &ps, &tag).len();
                                if ver == 5 && (m as usize) > base && (m as usize) < base + 100 && rng.chance(1, 2) {
                                    tag.extend(std::iter::repeat(b'x').take(m as usize - base));
                                }
                            }
                            let bytes = w_publish(ver, 2, qos, false, false, &wire_topic, id, &ps, &tag);
                            let obs = $side.call(format!("send {} {}", ver, hex(&bytes)), false);
                            let refused = obs.iter().any(|o| matches!(o, Obs::Err(_)));
                            if refused {
                                // a refused packet binds nothing: the application's view of the alias goes back
                                if let Some((a, prev)) = rebound {
                                    match prev {
                                        Some(t) => {
                                            $side.alias.insert(a, t);
                                        }
                                        None => {
                                            $side.alias.remove(&a);
                                        }
                                    }
                                }
                            }
                            msgs.push(Msg { tag: tag.clone(), qos, topic: topic.clone(), from_client, accepted: !refused });
                        }
                    }};
                }
                if from_client {
                    do_pub!(c)
                } else {
                    do_pub!(s)
                }
            }
            30..=49 => {
                // deliver a chunk client -> server
                if !c.out.is_empty() {
                    let k = 1 + rng.below(c.out.len() as u64) as usize;
                    let b: Vec<u8> = c.out.drain(..k).collect();
                    s.call(format!("recv {}", hex(&b)), true);
                }
            }
            50..=69 => {
                if !s.out.is_empty() {
                    let k = 1 + rng.below(s.out.len() as u64) as usize;
                    let b: Vec<u8> = s.out.drain(..k).collect();
                    c.call(format!("recv {}", hex(&b)), true);
                }
            }
            70..=77 => {
                if let Some(id) = c.acquire() {
                    let b = if rng.chance(2, 3) { w_subscribe(ver, 2, id, &[(b"f/#", 1)], &[]) } else { w_unsubscribe(ver, 2, id, &[b"f/#"]) };
                    c.call(format!("send {} {}", ver, hex(&b)), false);
                }
            }
            78..=82 => {
                c.call(format!("send {} {}", ver, hex(&w_simple(0xc0))), false);
            }
            83..=88 if losses < 3 => {
                // transport loss: an arbitrary prefix of what is in flight still arrives, the
                // rest is discarded; both sides are told; the session is resumed
                losses += 1;
                if !c.out.is_empty() {
                    let k = rng.below(c.out.len() as u64 + 1) as usize;
                    let b: Vec<u8> = c.out.drain(..k).collect();
                    if !b.is_empty() {
                        s.call(format!("recv {}", hex(&b)), true);
                    }
                }
                if !s.out.is_empty() {
                    let k = rng.below(s.out.len() as u64 + 1) as usize;
                    let b: Vec<u8> = s.out.drain(..k).collect();
                    if !b.is_empty() {
                        c.call(format!("recv {}", hex(&b)), true);
                    }
                }
                c.out.clear();
                s.out.clear();
                c.call("closed".into(), false);
                s.call("closed".into(), false);
                c.out.clear();
                s.out.clear();
                c.alias.clear();
                s.alias.clear();
                if rng.chance(1, 4) {
                    // the server application turns the first reconnect attempt down (busy); the
                    // session must survive that; the refusal's own close request is expected
                    let (cc, sc, ec, es) = (c.closes, s.closes, c.errs_recv.len(), s.errs_recv.len());
                    let ps = if ver == 5 { lim_props(&lc, true) } else { vec![] };
                    c.call(format!("send {} {}", ver, hex(&w_connect(ver, false, 0, b"cid", &ps))), false);
                    let b: Vec<u8> = c.out.drain(..).collect();
                    s.call(format!("recv {}", hex(&b)), true);
                    let rc = if ver == 5 { 0x89 } else { 3 };
                    s.call(format!("send {} {}", ver, hex(&w_connack(ver, false, rc, &[]))), false);
                    let b: Vec<u8> = s.out.drain(..).collect();
                    c.call(format!("recv {}", hex(&b)), true);
                    c.call("closed".into(), false);
                    s.call("closed".into(), false);
                    c.out.clear();
                    s.out.clear();
                    c.closes = cc;
                    s.closes = sc;
                    c.errs_recv.truncate(ec);
                    s.errs_recv.truncate(es);
                }
                handshake!(false);
            }
            _ => {
                // deliver everything in one direction
                if rng.chance(1, 2) {
                    let b: Vec<u8> = c.out.drain(..).collect();
                    if !b.is_empty() {
                        s.call(format!("recv {}", hex(&b)), true);
                    }
                } else {
                    let b: Vec<u8> = s.out.drain(..).collect();
                    if !b.is_empty() {
                        c.call(format!("recv {}", hex(&b)), true);
                    }
                }
            }
        }
    }
    // no further application input, no further loss: the exchange must terminate
    let mut drain_steps = 0usize;
    while (!c.out.is_empty() || !s.out.is_empty()) && drain_steps < 20000 && !c.s.dead && !s.s.dead {
        drain_steps += 1;
        if !c.out.is_empty() {
            let k = 1 + rng.below(c.out.len() as u64) as usize;
            let b: Vec<u8> = c.out.drain(..k).collect();
            s.call(format!("recv {}", hex(&b)), true);
        }
        if !s.out.is_empty() {
            let k = 1 + rng.below(s.out.len() as u64) as usize;
            let b: Vec<u8> = s.out.drain(..k).collect();
            c.call(format!("recv {}", hex(&b)), true);
        }
    }
    let drained = c.out.is_empty() && s.out.is_empty();
    let _ = deliver_all!();
    // quiescence probes through the public API
    c.call("stored".into(), false);
    c.call("vacancy".into(), false);
    s.call("stored".into(), false);
    s.call("vacancy".into(), false);
    let stored_c = c.s.c.get_stored_packets().len();
    let stored_s = s.s.c.get_stored_packets().len();
    let full = |f: String| f == "1-65535";
    let ids_c = full(c.s.field("pidfree"));
    let ids_s = full(s.s.field("pidfree"));
    let vac = |v: Option<u16>| v.map(|x| x.to_string()).unwrap_or("none".into());
    let vac_c = vac(c.s.c.get_receive_maximum_vacancy_for_send());
    let vac_s = vac(s.s.c.get_receive_maximum_vacancy_for_send());

    writeln!(out, "T conn {name}-client role=client pw=2 ver={ver} legal=1").unwrap();
    for l in &c.s.out_lines {
        writeln!(out, "{l}").unwrap();
    }
    writeln!(out, "END").unwrap();
    writeln!(out, "T conn {name}-server role=server pw=2 ver={ver} legal=1").unwrap();
    for l in &s.s.out_lines {
        writeln!(out, "{l}").unwrap();
    }
    writeln!(out, "END").unwrap();
    writeln!(out, "T pair {name} ver={ver} losses={losses} auto_c={} auto_s={} rm_c={} rm_s={}", auto_c as u8, auto_s as u8, vac(lc.rm), vac(ls.rm)).unwrap();
    for m in &msgs {
        let recv = if m.from_client { &s.delivered } else { &c.delivered };
        let n = recv.iter().filter(|(_, p)| *p == m.tag).count();
        let topic_ok = recv.iter().filter(|(_, p)| *p == m.tag).all(|(t, _)| *t == m.topic);
        writeln!(out, "PM msg {} qos={} from={} accepted={} delivered={} topic_ok={}", String::from_utf8_lossy(&m.tag), m.qos, if m.from_client { "c" } else { "s" }, m.accepted as u8, n, topic_ok as u8).unwrap();
    }
    for (side, e) in c.errs_recv.iter().map(|e| ("c", e)).chain(s.errs_recv.iter().map(|e| ("s", e))) {
        writeln!(out, "PM err side={side} code={e}").unwrap();
    }
    writeln!(out, "PM closes c={} s={} panic_c={} panic_s={}", c.closes, s.closes, c.s.dead as u8, s.s.dead as u8).unwrap();
    writeln!(out, "PM drain ok={} steps={}", drained as u8, drain_steps).unwrap();
    writeln!(out, "PM quiescent side=c stored={stored_c} ids_free={} vacancy={vac_c} rm={}", ids_c as u8, vac(ls.rm)).unwrap();
    writeln!(out, "PM quiescent side=s stored={stored_s} ids_free={} vacancy={vac_s} rm={}", ids_s as u8, vac(lc.rm)).unwrap();
    writeln!(out, "END").unwrap();
}

pub fn generate(tier: &str, seed: u64, args: &[String], out: &mut dyn Write) {
    let mut rng = Rng::new(seed ^ 0x9A12);
    let n: usize = args.first().and_then(|s| s.parse().ok()).unwrap_or(if tier == "thorough" { 3000 } else { 300 });
    for i in 0..n {
        let ver = if rng.chance(2, 3) { 5 } else { 4 };
        let steps = 10 + rng.below(if tier == "thorough" { 60 } else { 40 }) as usize;
        one_run(ver, &mut rng, &format!("p{seed}-{i}"), steps, out);
    }
    eprintln!("pair: runs {n}");
}
