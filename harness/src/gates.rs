//! C11 / C17: the complete finite gate matrices, executed on the real connection.
//! Every cell is an ordinary `conn` trace (reach the state through the public API, then the
//! one call under test), so the lock-step comparison and the gate monitors of the driver apply.
//! The compile-time table of `checked_send` is computed by rustc (`GC` lines).
use crate::conn::*;
use crate::rng::hex;
use mqtt_protocol_core::mqtt::connection::role::{Any, Client, Server};
use crate::csend::RoleX;
use mqtt_protocol_core::mqtt::connection::Sendable;
use mqtt_protocol_core::mqtt::packet::{v3_1_1, v5_0};
use std::io::Write;
use std::marker::PhantomData;

struct Probe<R, T>(PhantomData<(R, T)>);
trait Fallback {
    const OK: bool = false;
}
impl<R, T> Fallback for Probe<R, T> {}
impl<R: RoleX, T: Sendable<R, u16>> Probe<R, T> {
    #[allow(dead_code)]
    const OK: bool = true;
}

macro_rules! probe_row {
    ($out:expr, $role:ty, $rname:expr, $( ($ty:ty, $k:expr, $v:expr) ),* ) => {
        $( writeln!($out, "GC {} {} {} = {}", $rname, $k, $v, <Probe<$role, $ty>>::OK as u8).unwrap(); )*
    };
}

macro_rules! all_types {
    ($out:expr, $role:ty, $rname:expr) => {
        probe_row!($out, $role, $rname,
            (v3_1_1::Connect, 1, 4), (v3_1_1::Connack, 2, 4), (v3_1_1::Publish, 3, 4), (v3_1_1::Puback, 4, 4),
            (v3_1_1::Pubrec, 5, 4), (v3_1_1::Pubrel, 6, 4), (v3_1_1::Pubcomp, 7, 4), (v3_1_1::Subscribe, 8, 4),
            (v3_1_1::Suback, 9, 4), (v3_1_1::Unsubscribe, 10, 4), (v3_1_1::Unsuback, 11, 4), (v3_1_1::Pingreq, 12, 4),
            (v3_1_1::Pingresp, 13, 4), (v3_1_1::Disconnect, 14, 4),
            (v5_0::Connect, 1, 5), (v5_0::Connack, 2, 5), (v5_0::Publish, 3, 5), (v5_0::Puback, 4, 5),
            (v5_0::Pubrec, 5, 5), (v5_0::Pubrel, 6, 5), (v5_0::Pubcomp, 7, 5), (v5_0::Subscribe, 8, 5),
            (v5_0::Suback, 9, 5), (v5_0::Unsubscribe, 10, 5), (v5_0::Unsuback, 11, 5), (v5_0::Pingreq, 12, 5),
            (v5_0::Pingresp, 13, 5), (v5_0::Disconnect, 14, 5), (v5_0::Auth, 15, 5));
    };
}

/// minimal well-formed packet of a kind / version (id 1 where an id is carried)
fn minimal(kind: u8, ver: u8, qos: u8) -> Vec<u8> {
    match kind {
        1 => w_connect(ver, true, 0, b"c", &[]),
        2 => w_connack(ver, false, 0, &[]),
        3 => w_publish(ver, 2, qos, false, false, b"t", 1, &[], b"p"),
        4 | 5 | 6 | 7 => w_ack(ver, 2, kind, 1, None, None),
        8 => w_subscribe(ver, 2, 1, &[(b"f", 0)], &[]),
        9 => w_suback(ver, 2, 1, &[0]),
        10 => w_unsubscribe(ver, 2, 1, &[b"f"]),
        11 => w_unsuback(ver, 2, 1, &[0]),
        12 => w_simple(0xc0),
        13 => w_simple(0xd0),
        14 => {
            if ver == 5 {
                w_disconnect5(None, None)
            } else {
                w_simple(0xe0)
            }
        }
        _ => w_auth(None, None),
    }
}

/// operations that bring a fresh object of `role` into (status, need_store, offline)
fn reach(role: &str, ver: u8, status: char, ns: bool, off: bool) -> Option<Vec<String>> {
    let mut ops: Vec<String> = vec![];
    if ver == 0 {
        // an undetermined object has had no connection: only the initial state exists
        if status != 'D' || role == "client" {
            return None;
        }
        if off {
            ops.push("set off 1".into());
        }
        if ns != off {
            return None; // need_store is only forced by the offline option here
        }
        return Some(ops);
    }
    if off {
        ops.push("set off 1".into());
    }
    let as_client = role != "server";
    let persist = ns;
    let connect = |persist: bool| -> Vec<u8> {
        if ver == 5 {
            w_connect(5, !persist, 0, b"c", &if persist { vec![P::U32(17, 100)] } else { vec![] })
        } else {
            w_connect(4, !persist, 0, b"c", &[])
        }
    };
    let hs = |ops: &mut Vec<String>, persist: bool, upto: char| {
        let c = connect(persist);
        if as_client {
            ops.push(format!("send {} {}", ver, hex(&c)));
            if upto == 'C' {
                ops.push(format!("recv {}", hex(&w_connack(ver, false, 0, &[]))));
            }
        } else {
            ops.push(format!("recv {}", hex(&c)));
            if upto == 'C' {
                ops.push(format!("send {} {}", ver, hex(&w_connack(ver, false, 0, &[]))));
            }
        }
    };
    match status {
        'D' => {
            if ns && !off {
                // persistent session, transport closed
                hs(&mut ops, true, 'C');
                ops.push("closed".into());
            } else if !ns && off {
                // the offline option forces need_store; a clean connection recomputes it
                hs(&mut ops, false, 'C');
                ops.push("closed".into());
            } else if ns && off {
                // fresh object with the option set
            }
        }
        s => {
            if !ns && off {
                hs(&mut ops, false, s); // clean start recomputes need_store = false
            } else {
                hs(&mut ops, persist || off, s);
                if !ns && !off {
                    // clean
                }
            }
        }
    }
    Some(ops)
}

pub fn generate(_tier: &str, _seed: u64, out: &mut dyn Write) {
    // compile-time table
    writeln!(out, "T gates compile-time").unwrap();
    all_types!(out, Client, "client");
    all_types!(out, Server, "server");
    all_types!(out, Any, "any");
    writeln!(out, "END").unwrap();
    let mut n = 0;
    for role in ["client", "server", "any"] {
        for ver in [4u8, 5, 0] {
            for status in ['D', 'G', 'C'] {
                for ns in [false, true] {
                    for off in [false, true] {
                        let Some(prefix) = reach(role, ver, status, ns, off) else { continue };
                        // send gate
                        for pver in [4u8, 5] {
                            for kind in 1u8..=15 {
                                if kind == 15 && pver == 4 {
                                    continue;
                                }
                                let qoss: &[u8] = if kind == 3 { &[0, 1, 2] } else { &[0] };
                                for &q in qoss {
                                    let mut ops = prefix.clone();
                                    let carries = matches!(kind, 6 | 8 | 10) || (kind == 3 && q > 0);
                                    if carries {
                                        ops.push("acquire".into());
                                    }
                                    // once through `send`, once through `checked_send` (where the trait
                                    // bounds admit the type for the role; otherwise it is `send` again)
                                    for via in ["", " c"] {
                                        let mut ops = ops.clone();
                                        ops.push(format!("send {} {}{via}", pver, hex(&minimal(kind, pver, q))));
                                        // and what follows a refusal: the connection must behave as before
                                        ops.push("acquire".into());
                                        ops.push("vacancy".into());
                                        run_ops(role, 2, ver, true, &format!("gs-{role}-{ver}-{status}-{}{}-{pver}-{kind}-{q}{}", ns as u8, off as u8, via.trim()), &ops, out);
                                        n += 1;
                                    }
                                }
                            }
                        }
                        // receive gate: every type nibble with a minimal body of the connection's version
                        if !ns && !off {
                            let fv = if ver == 0 { 5 } else { ver };
                            for t in 0u8..=15 {
                                let mut ops = prefix.clone();
                                let bytes = if t == 0 { vec![0x00, 0x00] } else if t == 15 && fv == 4 { vec![0xf0, 0x00] } else { minimal(t, fv, if t == 3 { 1 } else { 0 }) };
                                ops.push(format!("recv {}", hex(&bytes)));
                                ops.push("stored".into());
                                run_ops(role, 2, ver, true, &format!("gr-{role}-{ver}-{status}-{t}"), &ops, out);
                                n += 1;
                            }
                        }
                    }
                }
            }
        }
    }
    eprintln!("gates: cells {n}");
}
