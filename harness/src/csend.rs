//! `checked_send` for a role chosen by a type parameter: the concrete packet types the trait bounds
//! `T: Sendable<Role, _>` admit for the role go through `GenericConnection::checked_send` (the
//! compile-time-checked entry point: `dispatch_send`, the `SendableHelper` table and the version
//! check of `sendable_version.rs`); a type the bounds do not admit is handed back (the call would
//! not compile). The lists below compile only while the bounds admit every listed type.
use mqtt_protocol_core::mqtt::connection::role::{Any, Client, RoleType, Server};
use mqtt_protocol_core::mqtt::connection::{GenericConnection, GenericEvent};
use mqtt_protocol_core::mqtt::packet::{GenericPacket, IsPacketId};

pub trait RoleX: RoleType + Sized {
    #[allow(clippy::result_large_err)]
    fn csend<T: IsPacketId>(c: &mut GenericConnection<Self, T>, p: GenericPacket<T>) -> Result<Vec<GenericEvent<T>>, GenericPacket<T>>;
}

macro_rules! impl_rolex {
    ($role:ty, [$($var:ident),* $(,)?]) => {
        impl RoleX for $role {
            fn csend<T: IsPacketId>(c: &mut GenericConnection<Self, T>, p: GenericPacket<T>) -> Result<Vec<GenericEvent<T>>, GenericPacket<T>> {
                match p {
                    $(GenericPacket::$var(x) => Ok(c.checked_send(x)),)*
                    #[allow(unreachable_patterns)]
                    other => Err(other),
                }
            }
        }
    };
}

impl_rolex!(Client, [
    V3_1_1Connect, V3_1_1Subscribe, V3_1_1Unsubscribe, V3_1_1Publish, V3_1_1Puback, V3_1_1Pubrec, V3_1_1Pubrel,
    V3_1_1Pubcomp, V3_1_1Disconnect, V3_1_1Pingreq,
    V5_0Connect, V5_0Subscribe, V5_0Unsubscribe, V5_0Publish, V5_0Puback, V5_0Pubrec, V5_0Pubrel, V5_0Pubcomp,
    V5_0Disconnect, V5_0Pingreq, V5_0Auth,
]);
impl_rolex!(Server, [
    V3_1_1Connack, V3_1_1Suback, V3_1_1Unsuback, V3_1_1Publish, V3_1_1Puback, V3_1_1Pubrec, V3_1_1Pubrel,
    V3_1_1Pubcomp, V3_1_1Pingresp,
    V5_0Connack, V5_0Suback, V5_0Unsuback, V5_0Publish, V5_0Puback, V5_0Pubrec, V5_0Pubrel, V5_0Pubcomp,
    V5_0Disconnect, V5_0Pingresp, V5_0Auth,
]);
impl_rolex!(Any, [
    V3_1_1Connect, V3_1_1Connack, V3_1_1Subscribe, V3_1_1Suback, V3_1_1Unsubscribe, V3_1_1Unsuback, V3_1_1Publish,
    V3_1_1Puback, V3_1_1Pubrec, V3_1_1Pubrel, V3_1_1Pubcomp, V3_1_1Disconnect, V3_1_1Pingreq, V3_1_1Pingresp,
    V5_0Connect, V5_0Connack, V5_0Subscribe, V5_0Suback, V5_0Unsubscribe, V5_0Unsuback, V5_0Publish, V5_0Puback,
    V5_0Pubrec, V5_0Pubrel, V5_0Pubcomp, V5_0Disconnect, V5_0Pingreq, V5_0Pingresp, V5_0Auth,
]);
