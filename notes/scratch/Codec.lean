/-! Scratch: cursor-style codec model (Rust-shaped) with round-trip lemmas — feasibility for C02/C04. -/
namespace Codec

inductive PRes (α : Type) where
  | ok : α → Nat → PRes α          -- value, consumed
  | err : Nat → PRes α             -- MqttError code
  | panic : String → PRes α
deriving Repr, DecidableEq

/-! ### u16 big endian -/
def encU16 (n : Nat) : List Nat := [n / 256, n % 256]

/-! ### MqttBinary / MqttString (UTF-8 check abstracted as a parameter) -/
def encBin (bs : List Nat) : List Nat := encU16 bs.length ++ bs

/-- `MqttBinary::decode(data)` -/
def decBin (data : List Nat) : PRes (List Nat) :=
  if data.length < 2 then .err 0x81
  else
    let n := data[0]! * 256 + data[1]!
    if data.length < 2 + n then .err 0x81
    else .ok ((data.drop 2).take n) (2 + n)

theorem decBin_enc (bs rest : List Nat) (hl : bs.length ≤ 65535) :
    decBin (encBin bs ++ rest) = .ok bs (encBin bs).length := by
  unfold decBin encBin encU16
  have h1 : ¬ ([bs.length / 256, bs.length % 256] ++ bs ++ rest).length < 2 := by simp
  rw [if_neg h1]
  have hn : ([bs.length / 256, bs.length % 256] ++ bs ++ rest)[0]! * 256 +
            ([bs.length / 256, bs.length % 256] ++ bs ++ rest)[1]! = bs.length := by
    simp; omega
  simp only [hn]
  have h2 : ¬ ([bs.length / 256, bs.length % 256] ++ bs ++ rest).length < 2 + bs.length := by
    simp; omega
  rw [if_neg h2]
  have e1 : List.take bs.length (List.drop 2 ([bs.length / 256, bs.length % 256] ++ bs ++ rest)) = bs := by
    simp
  have e2 : ([bs.length / 256, bs.length % 256] ++ bs).length = 2 + bs.length := by
    simp; omega
  rw [e1, e2]

/-! ### properties: a two-kind universe (ReasonString 31 = string, UserProperty 38 = pair) -/
inductive Prop' where
  | reasonString (s : List Nat)
  | userProperty (k v : List Nat)
deriving Repr, DecidableEq

def Prop'.enc : Prop' → List Nat
  | .reasonString s => 31 :: encBin s
  | .userProperty k v => 38 :: (encBin k ++ encBin v)

def Prop'.wf : Prop' → Prop
  | .reasonString s => s.length ≤ 65535
  | .userProperty k v => k.length ≤ 65535 ∧ v.length ≤ 65535

/-- `Property::parse(bytes)` -/
def decProp (bytes : List Nat) : PRes Prop' :=
  match bytes with
  | [] => .err 0x81
  | id :: rest =>
    if id = 31 then
      match decBin rest with
      | .ok s l => .ok (.reasonString s) (l + 1)
      | .err e => .err e
      | .panic s => .panic s
    else if id = 38 then
      match decBin rest with
      | .ok k l1 =>
        match decBin (rest.drop l1) with
        | .ok v l2 => .ok (.userProperty k v) (l1 + l2 + 1)
        | .err e => .err e
        | .panic s => .panic s
      | .err e => .err e
      | .panic s => .panic s
    else .err 0x81

theorem decProp_enc (p : Prop') (rest : List Nat) (h : p.wf) :
    decProp (p.enc ++ rest) = .ok p p.enc.length := by
  cases p with
  | reasonString s =>
    simp only [Prop'.enc, List.cons_append, decProp, if_true]
    rw [decBin_enc s rest h]
    simp
  | userProperty k v =>
    obtain ⟨hk, hv⟩ := h
    simp only [Prop'.enc, List.cons_append, decProp]
    rw [if_pos trivial]
    rw [List.append_assoc, decBin_enc k (encBin v ++ rest) hk]
    have : List.drop (encBin k).length (encBin k ++ (encBin v ++ rest)) = encBin v ++ rest := by
      simp
    simp only [this]
    rw [decBin_enc v rest hv]
    simp

/-- the `while cursor < props_end` loop of `Properties::parse`, on the bounded region (fuel = region length) -/
def decPropsLoop : Nat → List Nat → PRes (List Prop')
  | 0, region => if region = [] then .ok [] 0 else .panic "fuel"
  | fuel + 1, region =>
    if region = [] then .ok [] 0
    else
      match decProp region with
      | .ok p c =>
        match decPropsLoop fuel (region.drop c) with
        | .ok ps c' => .ok (p :: ps) (c + c')
        | .err e => .err e
        | .panic s => .panic s
      | .err e => .err e
      | .panic s => .panic s

def encProps (ps : List Prop') : List Nat := (ps.map Prop'.enc).flatten

theorem enc_length_pos (p : Prop') : 0 < p.enc.length := by cases p <;> simp [Prop'.enc]

theorem decPropsLoop_enc (ps : List Prop') (fuel : Nat) (h : ∀ p ∈ ps, p.wf)
    (hf : (encProps ps).length ≤ fuel) :
    decPropsLoop fuel (encProps ps) = .ok ps (encProps ps).length := by
  induction ps generalizing fuel with
  | nil =>
    cases fuel <;> simp [decPropsLoop, encProps]
  | cons p ps ih =>
    have hp := h p (by simp)
    have hpos := enc_length_pos p
    have e : encProps (p :: ps) = p.enc ++ encProps ps := by simp [encProps]
    have el : (encProps (p :: ps)).length = p.enc.length + (encProps ps).length := by
      rw [e, List.length_append]
    cases fuel with
    | zero => omega
    | succ fuel =>
      have hne : encProps (p :: ps) ≠ [] := by
        intro c; have := congrArg List.length c; rw [el] at this; simp only [List.length_nil] at this; omega
      unfold decPropsLoop
      rw [if_neg hne, e, decProp_enc p _ hp]
      have hd : List.drop p.enc.length (p.enc ++ encProps ps) = encProps ps := by simp
      simp only [hd]
      rw [ih fuel (fun q hq => h q (List.mem_cons_of_mem _ hq)) (by omega)]
      simp

#print axioms decPropsLoop_enc
end Codec
