/-! Scratch: realistic-size state (35 fields), Res monad, one recv function, frame + invariant lemma. -/
namespace Big

inductive Res (α : Type) where
  | ok : α → Res α
  | panic : String → Res α
deriving Repr

instance : Monad Res where
  pure := .ok
  bind x f := match x with | .ok a => f a | .panic s => .panic s

inductive Status | disconnected | connecting | connected deriving DecidableEq, Repr
inductive Ver | undetermined | v311 | v5 deriving DecidableEq, Repr
inductive Timer | pingreqSend | pingreqRecv | pingrespRecv deriving DecidableEq, Repr

inductive Ev
  | send (pkt : List Nat) (rel : Option Nat)
  | recvd (pkt : List Nat)
  | released (id : Nat)
  | reset (k : Timer) (ms : Nat)
  | cancel (k : Timer)
  | err (code : Nat)
  | close
deriving DecidableEq, Repr

structure St where
  ver : Ver := .v5
  used : List Nat := []
  pidSuback : List Nat := []
  pidUnsuback : List Nat := []
  pidPuback : List Nat := []
  pidPubrec : List Nat := []
  pidPubcomp : List Nat := []
  needStore : Bool := false
  store : List (Nat × Nat × List Nat) := []
  offlinePublish : Bool := false
  autoPub : Bool := false
  autoPing : Bool := false
  autoMap : Bool := false
  autoReplace : Bool := false
  aliasRecv : Option (Nat × List (Nat × List Nat)) := none
  aliasSend : Option (Nat × List (Nat × List Nat)) := none
  sendMax : Option Nat := none
  recvMax : Option Nat := none
  sendCount : Nat := 0
  publishRecv : List Nat := []
  maxSend : Nat := 268435461
  maxRecv : Nat := 268435461
  status : Status := .disconnected
  userInterval : Option Nat := none
  keepAliveMs : Nat := 0
  serverKeepAliveMs : Option Nat := none
  recvTimeoutMs : Nat := 0
  respTimeoutMs : Nat := 0
  handled : List Nat := []
  sendSet : Bool := false
  recvSet : Bool := false
  respSet : Bool := false
  pbState : Nat := 0
  pbBuf : List Nat := []
  isClient : Bool := false
  panic : Option String := none   -- sticky: first panic site reached
deriving Repr

def ins (x : Nat) (l : List Nat) : List Nat := if x ∈ l then l else x :: l
def del (x : Nat) (l : List Nat) : List Nat := l.filter (· ≠ x)

@[simp] theorem mem_del {x y : Nat} {l : List Nat} : y ∈ del x l ↔ y ∈ l ∧ y ≠ x := by
  simp [del]
@[simp] theorem mem_ins {x y : Nat} {l : List Nat} : y ∈ ins x l ↔ y = x ∨ y ∈ l := by
  unfold ins; split <;> simp_all <;> grind

def releaseIfUsed (s : St) (id : Nat) : St × List Ev :=
  if id ∈ s.used then ({ s with used := del id s.used }, [.released id]) else (s, [])

def refreshPingreqRecv (s : St) : St × List Ev :=
  if s.recvTimeoutMs ≠ 0 then ({ s with recvSet := true }, [.reset .pingreqRecv s.recvTimeoutMs]) else (s, [])

def cancelSend (s : St) : St × List Ev :=
  if s.sendSet then ({ s with sendSet := false }, [Ev.cancel .pingreqSend]) else (s, [])
def cancelRecv (s : St) : St × List Ev :=
  if s.recvSet then ({ s with recvSet := false }, [Ev.cancel .pingreqRecv]) else (s, [])
def cancelResp (s : St) : St × List Ev :=
  if s.respSet then ({ s with respSet := false }, [Ev.cancel .pingrespRecv]) else (s, [])
def cancelTimers (s : St) : St × List Ev :=
  let r1 := cancelSend s
  let r2 := cancelRecv r1.1
  let r3 := cancelResp r2.1
  (r3.1, r1.2 ++ r2.2 ++ r3.2)

/-- process_send_v5_0_disconnect for an automatically generated DISCONNECT of `size` bytes -/
def sendDisconnect (s : St) (pkt : List Nat) : St × List Ev :=
  if pkt.length > s.maxSend then (s, [.err 0x95])
  else if s.status ≠ .connected then (s, [.err 0x184])
  else
    let r := cancelTimers { s with status := .disconnected }
    (r.1, r.2 ++ [.send pkt none, .close])

def handleV5Error (s : St) (code : Nat) : St × List Ev :=
  let r := sendDisconnect s [0xe0, 0x01, code % 256]
  (r.1, r.2 ++ [.err code])


def setPanic (s : St) (site : String) : St := if s.panic.isSome then s else { s with panic := some site }

/-- `if self.publish_send_max.is_some() { self.publish_send_count -= 1; }` -/
def decSendCount (s : St) (site : String) : St :=
  if s.sendMax.isSome then
    (if s.sendCount = 0 then setPanic s site else { s with sendCount := s.sendCount - 1 })
  else s

/-- process_recv_v5_0_puback after a successful parse (pure; panic is a sticky field) -/
def recvPubackV5 (s : St) (id : Nat) (pkt : List Nat) : St × List Ev :=
  if id ∈ s.pidPuback then
    let s1 := { s with pidPuback := del id s.pidPuback,
                       store := s.store.filter (fun e => !(e.1 = id ∧ e.2.1 = 1)) }
    let r1 := releaseIfUsed s1 id
    let s3 := decSendCount r1.1 "puback: publish_send_count -= 1"
    let r2 := refreshPingreqRecv s3
    (r2.1, r1.2 ++ r2.2 ++ [.recvd pkt])
  else handleV5Error s 0x82

@[simp] theorem cancelSend_pidPuback (s : St)  : (cancelSend s ).1.pidPuback = s.pidPuback := by
  unfold cancelSend; split <;> rfl
@[simp] theorem cancelSend_pidPubrec (s : St)  : (cancelSend s ).1.pidPubrec = s.pidPubrec := by
  unfold cancelSend; split <;> rfl
@[simp] theorem cancelSend_pidPubcomp (s : St)  : (cancelSend s ).1.pidPubcomp = s.pidPubcomp := by
  unfold cancelSend; split <;> rfl
@[simp] theorem cancelSend_used (s : St)  : (cancelSend s ).1.used = s.used := by
  unfold cancelSend; split <;> rfl
@[simp] theorem cancelSend_sendMax (s : St)  : (cancelSend s ).1.sendMax = s.sendMax := by
  unfold cancelSend; split <;> rfl
@[simp] theorem cancelSend_sendCount (s : St)  : (cancelSend s ).1.sendCount = s.sendCount := by
  unfold cancelSend; split <;> rfl
@[simp] theorem cancelSend_panic (s : St)  : (cancelSend s ).1.panic = s.panic := by
  unfold cancelSend; split <;> rfl
@[simp] theorem cancelRecv_pidPuback (s : St)  : (cancelRecv s ).1.pidPuback = s.pidPuback := by
  unfold cancelRecv; split <;> rfl
@[simp] theorem cancelRecv_pidPubrec (s : St)  : (cancelRecv s ).1.pidPubrec = s.pidPubrec := by
  unfold cancelRecv; split <;> rfl
@[simp] theorem cancelRecv_pidPubcomp (s : St)  : (cancelRecv s ).1.pidPubcomp = s.pidPubcomp := by
  unfold cancelRecv; split <;> rfl
@[simp] theorem cancelRecv_used (s : St)  : (cancelRecv s ).1.used = s.used := by
  unfold cancelRecv; split <;> rfl
@[simp] theorem cancelRecv_sendMax (s : St)  : (cancelRecv s ).1.sendMax = s.sendMax := by
  unfold cancelRecv; split <;> rfl
@[simp] theorem cancelRecv_sendCount (s : St)  : (cancelRecv s ).1.sendCount = s.sendCount := by
  unfold cancelRecv; split <;> rfl
@[simp] theorem cancelRecv_panic (s : St)  : (cancelRecv s ).1.panic = s.panic := by
  unfold cancelRecv; split <;> rfl
@[simp] theorem cancelResp_pidPuback (s : St)  : (cancelResp s ).1.pidPuback = s.pidPuback := by
  unfold cancelResp; split <;> rfl
@[simp] theorem cancelResp_pidPubrec (s : St)  : (cancelResp s ).1.pidPubrec = s.pidPubrec := by
  unfold cancelResp; split <;> rfl
@[simp] theorem cancelResp_pidPubcomp (s : St)  : (cancelResp s ).1.pidPubcomp = s.pidPubcomp := by
  unfold cancelResp; split <;> rfl
@[simp] theorem cancelResp_used (s : St)  : (cancelResp s ).1.used = s.used := by
  unfold cancelResp; split <;> rfl
@[simp] theorem cancelResp_sendMax (s : St)  : (cancelResp s ).1.sendMax = s.sendMax := by
  unfold cancelResp; split <;> rfl
@[simp] theorem cancelResp_sendCount (s : St)  : (cancelResp s ).1.sendCount = s.sendCount := by
  unfold cancelResp; split <;> rfl
@[simp] theorem cancelResp_panic (s : St)  : (cancelResp s ).1.panic = s.panic := by
  unfold cancelResp; split <;> rfl
@[simp] theorem cancelTimers_pidPuback (s : St)  : (cancelTimers s ).1.pidPuback = s.pidPuback := by
  simp [cancelTimers]
@[simp] theorem cancelTimers_pidPubrec (s : St)  : (cancelTimers s ).1.pidPubrec = s.pidPubrec := by
  simp [cancelTimers]
@[simp] theorem cancelTimers_pidPubcomp (s : St)  : (cancelTimers s ).1.pidPubcomp = s.pidPubcomp := by
  simp [cancelTimers]
@[simp] theorem cancelTimers_used (s : St)  : (cancelTimers s ).1.used = s.used := by
  simp [cancelTimers]
@[simp] theorem cancelTimers_sendMax (s : St)  : (cancelTimers s ).1.sendMax = s.sendMax := by
  simp [cancelTimers]
@[simp] theorem cancelTimers_sendCount (s : St)  : (cancelTimers s ).1.sendCount = s.sendCount := by
  simp [cancelTimers]
@[simp] theorem cancelTimers_panic (s : St)  : (cancelTimers s ).1.panic = s.panic := by
  simp [cancelTimers]
@[simp] theorem sendDisconnect_pidPuback (s : St) (p : List Nat) : (sendDisconnect s p).1.pidPuback = s.pidPuback := by
  unfold sendDisconnect; split <;> (try split) <;> simp
@[simp] theorem sendDisconnect_pidPubrec (s : St) (p : List Nat) : (sendDisconnect s p).1.pidPubrec = s.pidPubrec := by
  unfold sendDisconnect; split <;> (try split) <;> simp
@[simp] theorem sendDisconnect_pidPubcomp (s : St) (p : List Nat) : (sendDisconnect s p).1.pidPubcomp = s.pidPubcomp := by
  unfold sendDisconnect; split <;> (try split) <;> simp
@[simp] theorem sendDisconnect_used (s : St) (p : List Nat) : (sendDisconnect s p).1.used = s.used := by
  unfold sendDisconnect; split <;> (try split) <;> simp
@[simp] theorem sendDisconnect_sendMax (s : St) (p : List Nat) : (sendDisconnect s p).1.sendMax = s.sendMax := by
  unfold sendDisconnect; split <;> (try split) <;> simp
@[simp] theorem sendDisconnect_sendCount (s : St) (p : List Nat) : (sendDisconnect s p).1.sendCount = s.sendCount := by
  unfold sendDisconnect; split <;> (try split) <;> simp
@[simp] theorem sendDisconnect_panic (s : St) (p : List Nat) : (sendDisconnect s p).1.panic = s.panic := by
  unfold sendDisconnect; split <;> (try split) <;> simp
@[simp] theorem handleV5Error_pidPuback (s : St) (c : Nat) : (handleV5Error s c).1.pidPuback = s.pidPuback := by
  simp [handleV5Error]
@[simp] theorem handleV5Error_pidPubrec (s : St) (c : Nat) : (handleV5Error s c).1.pidPubrec = s.pidPubrec := by
  simp [handleV5Error]
@[simp] theorem handleV5Error_pidPubcomp (s : St) (c : Nat) : (handleV5Error s c).1.pidPubcomp = s.pidPubcomp := by
  simp [handleV5Error]
@[simp] theorem handleV5Error_used (s : St) (c : Nat) : (handleV5Error s c).1.used = s.used := by
  simp [handleV5Error]
@[simp] theorem handleV5Error_sendMax (s : St) (c : Nat) : (handleV5Error s c).1.sendMax = s.sendMax := by
  simp [handleV5Error]
@[simp] theorem handleV5Error_sendCount (s : St) (c : Nat) : (handleV5Error s c).1.sendCount = s.sendCount := by
  simp [handleV5Error]
@[simp] theorem handleV5Error_panic (s : St) (c : Nat) : (handleV5Error s c).1.panic = s.panic := by
  simp [handleV5Error]
@[simp] theorem releaseIfUsed_pidPuback (s : St) (id : Nat) : (releaseIfUsed s id).1.pidPuback = s.pidPuback := by
  unfold releaseIfUsed; split <;> rfl
@[simp] theorem releaseIfUsed_pidPubrec (s : St) (id : Nat) : (releaseIfUsed s id).1.pidPubrec = s.pidPubrec := by
  unfold releaseIfUsed; split <;> rfl
@[simp] theorem releaseIfUsed_pidPubcomp (s : St) (id : Nat) : (releaseIfUsed s id).1.pidPubcomp = s.pidPubcomp := by
  unfold releaseIfUsed; split <;> rfl
@[simp] theorem releaseIfUsed_sendMax (s : St) (id : Nat) : (releaseIfUsed s id).1.sendMax = s.sendMax := by
  unfold releaseIfUsed; split <;> rfl
@[simp] theorem releaseIfUsed_sendCount (s : St) (id : Nat) : (releaseIfUsed s id).1.sendCount = s.sendCount := by
  unfold releaseIfUsed; split <;> rfl
@[simp] theorem releaseIfUsed_panic (s : St) (id : Nat) : (releaseIfUsed s id).1.panic = s.panic := by
  unfold releaseIfUsed; split <;> rfl
@[simp] theorem refreshPingreqRecv_pidPuback (s : St)  : (refreshPingreqRecv s ).1.pidPuback = s.pidPuback := by
  unfold refreshPingreqRecv; split <;> rfl
@[simp] theorem refreshPingreqRecv_pidPubrec (s : St)  : (refreshPingreqRecv s ).1.pidPubrec = s.pidPubrec := by
  unfold refreshPingreqRecv; split <;> rfl
@[simp] theorem refreshPingreqRecv_pidPubcomp (s : St)  : (refreshPingreqRecv s ).1.pidPubcomp = s.pidPubcomp := by
  unfold refreshPingreqRecv; split <;> rfl
@[simp] theorem refreshPingreqRecv_used (s : St)  : (refreshPingreqRecv s ).1.used = s.used := by
  unfold refreshPingreqRecv; split <;> rfl
@[simp] theorem refreshPingreqRecv_sendMax (s : St)  : (refreshPingreqRecv s ).1.sendMax = s.sendMax := by
  unfold refreshPingreqRecv; split <;> rfl
@[simp] theorem refreshPingreqRecv_sendCount (s : St)  : (refreshPingreqRecv s ).1.sendCount = s.sendCount := by
  unfold refreshPingreqRecv; split <;> rfl
@[simp] theorem refreshPingreqRecv_panic (s : St)  : (refreshPingreqRecv s ).1.panic = s.panic := by
  unfold refreshPingreqRecv; split <;> rfl

theorem releaseIfUsed_used (s : St) (id : Nat) : (releaseIfUsed s id).1.used = del id s.used := by
  unfold releaseIfUsed; split
  · rfl
  · rename_i h
    simp only [del]; symm; apply List.filter_eq_self.mpr
    intro a ha; simp only [ne_eq, decide_eq_true_eq]; intro e; exact h (e ▸ ha)

@[simp] theorem decSendCount_pidPuback (s : St) (t : String) : (decSendCount s t).pidPuback = s.pidPuback := by
  unfold decSendCount setPanic; (repeat' split) <;> rfl
@[simp] theorem decSendCount_pidPubrec (s : St) (t : String) : (decSendCount s t).pidPubrec = s.pidPubrec := by
  unfold decSendCount setPanic; (repeat' split) <;> rfl
@[simp] theorem decSendCount_pidPubcomp (s : St) (t : String) : (decSendCount s t).pidPubcomp = s.pidPubcomp := by
  unfold decSendCount setPanic; (repeat' split) <;> rfl
@[simp] theorem decSendCount_used (s : St) (t : String) : (decSendCount s t).used = s.used := by
  unfold decSendCount setPanic; (repeat' split) <;> rfl
@[simp] theorem decSendCount_sendMax (s : St) (t : String) : (decSendCount s t).sendMax = s.sendMax := by
  unfold decSendCount setPanic; (repeat' split) <;> rfl
theorem decSendCount_ok (s : St) (t : String) (hp : s.panic = none) (hc : s.sendMax.isSome → 0 < s.sendCount) :
    (decSendCount s t).panic = none ∧
    (s.sendMax.isSome → (decSendCount s t).sendCount + 1 = s.sendCount) := by
  unfold decSendCount
  split
  · rename_i h
    have := hc h
    rw [if_neg (by omega)]
    exact ⟨hp, fun _ => by simp; omega⟩
  · rename_i h; exact ⟨hp, fun h' => absurd h' h⟩

theorem del_eq_self {x : Nat} {l : List Nat} (h : x ∉ l) : del x l = l := by
  simp only [del]; apply List.filter_eq_self.mpr
  intro b hb; simp only [ne_eq, decide_eq_true_eq]; intro e; exact h (e ▸ hb)

theorem length_del_of_mem {x : Nat} {l : List Nat} (hn : l.Nodup) (hm : x ∈ l) :
    (del x l).length + 1 = l.length := by
  induction l with
  | nil => simp at hm
  | cons a t ih =>
    have hn' := List.nodup_cons.mp hn
    by_cases h : a = x
    · subst h
      have e : del a (a :: t) = del a t := by simp [del]
      rw [e, del_eq_self hn'.1]; simp
    · have hx : x ∈ t := by
        rcases List.mem_cons.mp hm with e | e
        · exact absurd e.symm h
        · exact e
      have := ih hn'.2 hx
      have e : del x (a :: t) = a :: del x t := by simp [del, h]
      rw [e]; simp; omega

/-- a slice of the global invariant -/
def Inv (s : St) : Prop :=
  (∀ x ∈ s.pidPuback, x ∈ s.used) ∧ (∀ x ∈ s.pidPubrec, x ∈ s.used) ∧
  (∀ x ∈ s.pidPuback, x ∉ s.pidPubrec) ∧ s.pidPuback.Nodup ∧
  (s.sendMax.isSome → s.sendCount = s.pidPuback.length + s.pidPubrec.length + s.pidPubcomp.length) ∧
  s.panic = none

theorem recvPubackV5_inv (s : St) (id : Nat) (pkt : List Nat) (hi : Inv s) :
    Inv (recvPubackV5 s id pkt).1 := by
  obtain ⟨h1, h2, h3, hnd, h4, h5⟩ := hi
  unfold recvPubackV5
  split
  · rename_i hmem
    have hlen := length_del_of_mem hnd hmem
    have hdn : (del id s.pidPuback).Nodup := by
      simp only [del]; exact List.Nodup.sublist List.filter_sublist hnd
    -- facts about the intermediate state after release
    have hdec := decSendCount_ok
      (releaseIfUsed { s with pidPuback := del id s.pidPuback,
                              store := s.store.filter (fun e => !(e.1 = id ∧ e.2.1 = 1)) } id).1
      "puback: publish_send_count -= 1" (by simpa using h5)
      (by simp only [releaseIfUsed_sendMax, releaseIfUsed_sendCount]; intro hs; have := h4 hs; omega)
    simp only [releaseIfUsed_sendMax, releaseIfUsed_sendCount] at hdec
    refine ⟨?_, ?_, ?_, ?_, ?_, ?_⟩
    · simp [releaseIfUsed_used]; grind
    · simp [releaseIfUsed_used]; grind
    · simp; grind
    · simpa using hdn
    · simp only [refreshPingreqRecv_sendMax, refreshPingreqRecv_sendCount, decSendCount_sendMax,
        releaseIfUsed_sendMax, refreshPingreqRecv_pidPuback, refreshPingreqRecv_pidPubrec,
        refreshPingreqRecv_pidPubcomp, decSendCount_pidPuback, decSendCount_pidPubrec,
        decSendCount_pidPubcomp, releaseIfUsed_pidPuback, releaseIfUsed_pidPubrec, releaseIfUsed_pidPubcomp]
      intro hs
      have a := hdec.2 hs
      have b := h4 hs
      omega
    · simp only [refreshPingreqRecv_panic]; exact hdec.1
  · exact ⟨by simpa using h1, by simpa using h2, by simpa using h3, by simpa using hnd,
      by simpa using h4, by simpa using h5⟩

#print axioms recvPubackV5_inv
end Big
