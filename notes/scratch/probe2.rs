use mqtt_protocol_core::mqtt;
use mqtt_protocol_core::mqtt::packet::GenericPacketTrait;
use std::panic::{catch_unwind, AssertUnwindSafe};
use mqtt::packet::Property as P;

type C = mqtt::Connection<mqtt::role::Client>;
type S = mqtt::Connection<mqtt::role::Server>;

fn feed<R: mqtt::connection::role::RoleType>(c: &mut mqtt::Connection<R>, bytes: &[u8]) -> Vec<mqtt::connection::Event> {
    let mut cur = mqtt::common::Cursor::new(bytes);
    let mut evs = vec![];
    while (cur.position() as usize) < bytes.len() { evs.extend(c.recv(&mut cur)); }
    evs
}
fn show(tag: &str, evs: &[mqtt::connection::Event]) {
    println!("  [{tag}]");
    for e in evs { println!("    {e}"); }
}
fn probe(name: &str, f: impl FnOnce()) {
    println!("## {name}");
    let r = catch_unwind(AssertUnwindSafe(f));
    if let Err(e) = r {
        let msg = e.downcast_ref::<String>().cloned().or_else(|| e.downcast_ref::<&str>().map(|s| s.to_string())).unwrap_or_default();
        println!("  PANIC: {msg}");
    }
}
fn v5_connect(c: &mut C, clean: bool, props: Vec<P>) -> Vec<mqtt::connection::Event> {
    let p = mqtt::packet::v5_0::Connect::builder().client_id("c").unwrap().clean_start(clean).props(props).build().unwrap();
    c.send(p.into())
}
fn v5_connack_bytes(sp: bool, props: Vec<P>) -> Vec<u8> {
    mqtt::packet::v5_0::Connack::builder().session_present(sp).reason_code(mqtt::result_code::ConnectReasonCode::Success).props(props).build().unwrap().to_continuous_buffer()
}
fn rm(n: u16) -> P { P::ReceiveMaximum(mqtt::packet::ReceiveMaximum::new(n).unwrap()) }
fn tam(n: u16) -> P { P::TopicAliasMaximum(mqtt::packet::TopicAliasMaximum::new(n).unwrap()) }
fn mps(n: u32) -> P { P::MaximumPacketSize(mqtt::packet::MaximumPacketSize::new(n).unwrap()) }
fn sei(n: u32) -> P { P::SessionExpiryInterval(mqtt::packet::SessionExpiryInterval::new(n).unwrap()) }
fn ta(n: u16) -> P { P::TopicAlias(mqtt::packet::TopicAlias::new(n).unwrap()) }

fn main() {
    std::panic::set_hook(Box::new(|_| {}));
    probe("a: RM exceeded after alias registered", || {
        let mut c = C::new(mqtt::Version::V5_0);
        v5_connect(&mut c, true, vec![]);
        feed(&mut c, &v5_connack_bytes(false, vec![rm(1), tam(5)]));
        let id = c.acquire_packet_id().unwrap();
        let p = mqtt::packet::v5_0::Publish::builder().topic_name("t1").unwrap().qos(mqtt::packet::Qos::AtLeastOnce).packet_id(id).build().unwrap();
        show("pub1", &c.send(p.into()));
        let id2 = c.acquire_packet_id().unwrap();
        let p = mqtt::packet::v5_0::Publish::builder().topic_name("t2").unwrap().qos(mqtt::packet::Qos::AtLeastOnce).packet_id(id2).props(vec![ta(1)]).build().unwrap();
        show("pub2 with alias 1 (refused RM)", &c.send(p.into()));
        let p = mqtt::packet::v5_0::Publish::builder().qos(mqtt::packet::Qos::AtMostOnce).props(vec![ta(1)]).build().unwrap();
        show("pub3 empty topic alias 1", &c.send(p.into()));
    });
    probe("b: auto-map exceeds MPS", || {
        let mut c = C::new(mqtt::Version::V5_0);
        c.set_auto_map_topic_alias_send(true);
        v5_connect(&mut c, true, vec![]);
        // publish "t" qos0 payload empty: size = 1+1+ (2+1) +1 = 6
        feed(&mut c, &v5_connack_bytes(false, vec![mps(6), tam(5)]));
        let p = mqtt::packet::v5_0::Publish::builder().topic_name("t").unwrap().qos(mqtt::packet::Qos::AtMostOnce).build().unwrap();
        println!("  size before {}", p.size());
        let evs = c.send(p.into());
        for e in &evs { if let mqtt::connection::Event::RequestSendPacket{packet,..} = e { println!("  sent size {} (limit 6)", packet.size()); } }
        show("pub", &evs);
    });
    probe("c: tiny MPS, error path yields no close", || {
        let mut c = C::new(mqtt::Version::V5_0);
        v5_connect(&mut c, true, vec![]);
        feed(&mut c, &v5_connack_bytes(false, vec![mps(2)]));
        show("bogus puback", &feed(&mut c, &[0x40, 0x02, 0x00, 0x09]));
        show("timer pingresp", &c.notify_timer_fired(mqtt::connection::TimerKind::PingrespRecv));
    });
    probe("d: late packet after DISCONNECT sent arms timer", || {
        let mut s = S::new(mqtt::Version::V5_0);
        let p = mqtt::packet::v5_0::Connect::builder().client_id("c").unwrap().keep_alive(10).build().unwrap();
        feed(&mut s, &p.to_continuous_buffer());
        let ca = mqtt::packet::v5_0::Connack::builder().session_present(false).reason_code(mqtt::result_code::ConnectReasonCode::Success).build().unwrap();
        s.send(ca.into());
        let d = mqtt::packet::v5_0::Disconnect::builder().build().unwrap();
        show("disconnect", &s.send(d.into()));
        show("late pingreq", &feed(&mut s, &[0xc0, 0x00]));
    });
    probe("f: qos2 with invalid alias swallowed after resume", || {
        let mut c = C::new(mqtt::Version::V5_0);
        v5_connect(&mut c, false, vec![sei(100), tam(5)]);
        feed(&mut c, &v5_connack_bytes(false, vec![]));
        // PUBLISH qos2 id 1 empty topic alias 3 (unregistered)
        let p = mqtt::packet::v5_0::Publish::builder().qos(mqtt::packet::Qos::ExactlyOnce).packet_id(1u16).props(vec![ta(3)]).build().unwrap();
        show("pub qos2 bad alias", &feed(&mut c, &p.to_continuous_buffer()));
        println!("  handled {:?}", c.get_qos2_publish_handled());
        c.notify_closed();
        v5_connect(&mut c, false, vec![sei(100), tam(5)]);
        feed(&mut c, &v5_connack_bytes(true, vec![]));
        let p = mqtt::packet::v5_0::Publish::builder().topic_name("t").unwrap().qos(mqtt::packet::Qos::ExactlyOnce).packet_id(1u16).dup(true).build().unwrap();
        show("retransmit with full topic", &feed(&mut c, &p.to_continuous_buffer()));
    });
    probe("g: server sends CONNACK sp=false but store resent", || {
        let mut s = S::new(mqtt::Version::V3_1_1);
        let p = mqtt::packet::v3_1_1::Connect::builder().client_id("c").unwrap().clean_session(false).build().unwrap();
        feed(&mut s, &p.to_continuous_buffer());
        let ca = mqtt::packet::v3_1_1::Connack::builder().session_present(false).return_code(mqtt::result_code::ConnectReturnCode::Accepted).build().unwrap();
        s.send(ca.clone().into());
        let id = s.acquire_packet_id().unwrap();
        let pb = mqtt::packet::v3_1_1::Publish::builder().topic_name("t").unwrap().qos(mqtt::packet::Qos::AtLeastOnce).packet_id(id).build().unwrap();
        s.send(pb.into());
        s.notify_closed();
        feed(&mut s, &p.to_continuous_buffer());
        show("connack sp=false", &s.send(ca.into()));
    });
    probe("h: deallocate(MAX) twice", || {
        let mut a = mqtt::ValueAllocator::<u16>::new(1, 65535);
        a.deallocate(65535);
        println!("  intervals {}", a.interval_count());
    });
    probe("h2: lowest=0 double free of MAX in release-like wrap (debug panics)", || {
        let mut a = mqtt::ValueAllocator::<u8>::new(0, 255);
        a.deallocate(255);
        println!("  intervals {} first {:?}", a.interval_count(), a.first_vacant());
    });
    probe("i: undetermined server keeps adopted version after close", || {
        let mut s = S::new(mqtt::Version::Undetermined);
        let p = mqtt::packet::v5_0::Connect::builder().client_id("c").unwrap().build().unwrap();
        feed(&mut s, &p.to_continuous_buffer());
        s.notify_closed();
        let p = mqtt::packet::v3_1_1::Connect::builder().client_id("c").unwrap().build().unwrap();
        show("second connect v3.1.1", &feed(&mut s, &p.to_continuous_buffer()));
        println!("  version {:?}", s.get_protocol_version());
    });
    probe("j: offline PUBREL then PUBCOMP rejected", || {
        let mut c = C::new(mqtt::Version::V3_1_1);
        let p = mqtt::packet::v3_1_1::Connect::builder().client_id("c").unwrap().clean_session(false).build().unwrap();
        c.send(p.clone().into());
        feed(&mut c, &[0x20, 0x02, 0x00, 0x00]);
        let id = c.acquire_packet_id().unwrap();
        let pb = mqtt::packet::v3_1_1::Publish::builder().topic_name("t").unwrap().qos(mqtt::packet::Qos::ExactlyOnce).packet_id(id).build().unwrap();
        c.send(pb.into());
        show("pubrec", &feed(&mut c, &[0x50, 0x02, 0x00, 0x01]));
        c.notify_closed();
        let pr = mqtt::packet::v3_1_1::Pubrel::builder().packet_id(id).build().unwrap();
        show("pubrel offline", &c.send(pr.into()));
        c.send(p.into());
        show("connack sp", &feed(&mut c, &[0x20, 0x02, 0x01, 0x00]));
        show("pubcomp", &feed(&mut c, &[0x70, 0x02, 0x00, 0x01]));
    });
    probe("k: PUBREL refused (non-persistent, disconnected) leaks id", || {
        let mut c = C::new(mqtt::Version::V3_1_1);
        let p = mqtt::packet::v3_1_1::Connect::builder().client_id("c").unwrap().clean_session(true).build().unwrap();
        c.send(p.into());
        feed(&mut c, &[0x20, 0x02, 0x00, 0x00]);
        let id = c.acquire_packet_id().unwrap();
        let pb = mqtt::packet::v3_1_1::Publish::builder().topic_name("t").unwrap().qos(mqtt::packet::Qos::ExactlyOnce).packet_id(id).build().unwrap();
        c.send(pb.into());
        show("pubrec", &feed(&mut c, &[0x50, 0x02, 0x00, 0x01]));
        show("closed", &c.notify_closed());
        let pr = mqtt::packet::v3_1_1::Pubrel::builder().packet_id(id).build().unwrap();
        show("pubrel refused", &c.send(pr.into()));
        println!("  id still in use: {:?}", c.register_packet_id(id));
    });
    probe("l: CONNACK to Disconnected client (off-contract shortcut used by the test-suite)", || {
        let mut c = C::new(mqtt::Version::V3_1_1);
        show("connack", &feed(&mut c, &[0x20, 0x02, 0x00, 0x00]));
        let p = mqtt::packet::v3_1_1::Pingreq::builder().build().unwrap();
        show("pingreq", &c.send(p.into()));
    });
}
