/-! Scratch: abstract per-identifier QoS flow between two endpoints with FIFO channels,
    transport loss and session resumption — safety + exactly-once invariant (feasibility for C01 stage 3). -/
namespace Flow

inductive Snd | idle | w1 | wRec | wComp deriving DecidableEq, Repr
inductive F | pub1 | pub2 | rel deriving DecidableEq, Repr      -- sender → receiver
inductive B | ack | prec | comp deriving DecidableEq, Repr       -- receiver → sender

structure Sys where
  snd : Snd := .idle
  handled : Bool := false          -- receiver's qos2_publish_handled ∋ id
  fwd : List F := []
  bwd : List B := []
  err : Bool := false              -- some endpoint reported a protocol error
  notified : Nat := 0              -- notifications of the current exchange's message (ghost)
  completed2 : Nat := 0            -- completed QoS 2 exchanges (ghost)
  delivered2 : Nat := 0            -- QoS 2 notifications in total (ghost)
deriving DecidableEq, Repr

inductive Act | send1 | send2 | deliverF | deliverB | loseResume deriving DecidableEq, Repr

def resend : Snd → List F
  | .idle => [] | .w1 => [.pub1] | .wRec => [.pub2] | .wComp => [.rel]

def step (s : Sys) : Act → Sys
  | .send1 => if s.snd = .idle then { s with snd := .w1, fwd := s.fwd ++ [.pub1], notified := 0 } else s
  | .send2 => if s.snd = .idle then { s with snd := .wRec, fwd := s.fwd ++ [.pub2], notified := 0 } else s
  | .deliverF =>
    match s.fwd with
    | [] => s
    | .pub1 :: t => { s with fwd := t, bwd := s.bwd ++ [.ack], notified := s.notified + 1 }
    | .pub2 :: t =>
      if s.handled then { s with fwd := t, bwd := s.bwd ++ [.prec] }
      else { s with fwd := t, bwd := s.bwd ++ [.prec], handled := true,
                    notified := s.notified + 1, delivered2 := s.delivered2 + 1 }
    | .rel :: t => { s with fwd := t, bwd := s.bwd ++ [.comp], handled := false }
  | .deliverB =>
    match s.bwd with
    | [] => s
    | .ack :: t => if s.snd = .w1 then { s with bwd := t, snd := .idle } else { s with bwd := t, err := true }
    | .prec :: t => if s.snd = .wRec then { s with bwd := t, snd := .wComp, fwd := s.fwd ++ [.rel] }
                   else { s with bwd := t, err := true }
    | .comp :: t => if s.snd = .wComp then { s with bwd := t, snd := .idle, completed2 := s.completed2 + 1 }
                    else { s with bwd := t, err := true }
  | .loseResume => { s with fwd := resend s.snd, bwd := [] }

/-- consistent joint configurations of sender, receiver and the two channels -/
def Inv (s : Sys) : Prop :=
  s.err = false ∧
  match s.snd with
  | .idle => s.fwd = [] ∧ s.bwd = [] ∧ s.handled = false ∧ s.delivered2 = s.completed2
  | .w1 => ((s.fwd = [.pub1] ∧ s.bwd = []) ∨ (s.fwd = [] ∧ s.bwd = [.ack] ∧ 1 ≤ s.notified)) ∧
           s.handled = false ∧ s.delivered2 = s.completed2
  | .wRec => ((s.fwd = [.pub2] ∧ s.bwd = []) ∨ (s.fwd = [] ∧ s.bwd = [.prec] ∧ s.handled = true)) ∧
             (s.handled = true → s.notified = 1 ∧ s.delivered2 = s.completed2 + 1) ∧
             (s.handled = false → s.notified = 0 ∧ s.delivered2 = s.completed2)
  | .wComp => ((s.fwd = [.rel] ∧ s.bwd = []) ∨ (s.fwd = [] ∧ s.bwd = [.comp] ∧ s.handled = false)) ∧
              s.notified = 1 ∧ s.delivered2 = s.completed2 + 1

theorem inv_init : Inv {} := by simp [Inv]

theorem inv_step (s : Sys) (a : Act) (h : Inv s) : Inv (step s a) := by
  obtain ⟨he, hc⟩ := h
  cases a <;> cases hs : s.snd <;> simp only [hs] at hc <;> simp only [step, hs, resend]
  all_goals first
    | (simp_all [Inv]; done)
    | (rcases hc with ⟨h1 | h1, h2⟩ <;> simp_all [Inv] <;> omega)
    | (rcases hc with ⟨h1 | h1, h2, h3⟩ <;> simp_all [Inv] <;> (try cases hh : s.handled <;> simp_all) <;> omega)

/-- every reachable state is consistent: no protocol error ever, and QoS 2 deliveries are
    exactly the completed exchanges plus at most the one in progress. -/
theorem reachable_inv (acts : List Act) : Inv (acts.foldl step {}) := by
  have : ∀ s, Inv s → Inv (acts.foldl step s) := by
    induction acts with
    | nil => intro s h; exact h
    | cons a t ih => intro s h; exact ih _ (inv_step s a h)
  exact this _ inv_init

theorem never_protocol_error (acts : List Act) : (acts.foldl step {}).err = false :=
  (reachable_inv acts).1

theorem qos2_exactly_once_at_quiescence (acts : List Act)
    (hq : (acts.foldl step {}).snd = .idle) :
    (acts.foldl step {}).delivered2 = (acts.foldl step {}).completed2 := by
  have h := (reachable_inv acts).2
  simp only [hq] at h
  exact h.2.2.2

#print axioms qos2_exactly_once_at_quiescence
end Flow
