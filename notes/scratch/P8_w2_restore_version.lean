import MqttVerif.Conn.Step
open MqttVerif MqttVerif.Conn

def cfgW : Cfg := { role := .client, pw := 2 }
def oldPub : Pkt := { ver := 5, kind := .publish, pid := some 1, qos := 2, topic := [97] }
def connectW : Pkt := { ver := 4, kind := .connect, size := 20 }
def connackW : Pkt := { ver := 4, kind := .connack, size := 4, rc := some 0, sp := true }
def pubrecW : Pkt := { ver := 4, kind := .pubrec, size := 4, pid := some 1 }
def opsW : List Op :=
  [ .setFlag .autoPub true, .restorePackets [oldPub], .send connectW,
    .recv [0x20, 2, 1, 0] (fun _ _ _ => .ok connackW),
    .recv [0x50, 2, 0, 1] (fun _ _ _ => .ok pubrecW) ]
example : (run cfgW (St.init cfgW 4) opsW).panic = some "core.rs:process_send_pubrel:store.add().unwrap()" := by decide
