/-! Scratch: interval allocator refinement (feasibility sketch for C20). -/
namespace Alloc

structure Iv where
  lo : Nat
  hi : Nat
deriving DecidableEq, Repr

/-- abstraction: `v` is free in the pool -/
def Free (p : List Iv) (v : Nat) : Prop := ∃ iv ∈ p, iv.lo ≤ v ∧ v ≤ iv.hi

instance (p : List Iv) (v : Nat) : Decidable (Free p v) := by unfold Free; infer_instance

@[simp] theorem free_nil (v : Nat) : ¬ Free [] v := by simp [Free]
@[simp] theorem free_cons (iv : Iv) (p : List Iv) (v : Nat) :
    Free (iv :: p) v ↔ (iv.lo ≤ v ∧ v ≤ iv.hi) ∨ Free p v := by simp [Free]
@[simp] theorem free_append (p q : List Iv) (v : Nat) :
    Free (p ++ q) v ↔ Free p v ∨ Free q v := by
  simp [Free, List.mem_append, or_and_right, exists_or]

/-- sorted, disjoint, non-adjacent (maximally merged), non-empty intervals, all ≥ lb -/
def Ok : Nat → List Iv → Prop
  | _, [] => True
  | lb, iv :: rest => lb ≤ iv.lo ∧ iv.lo ≤ iv.hi ∧ Ok (iv.hi + 2) rest

theorem Ok.mono {lb lb' : Nat} {p : List Iv} (h : Ok lb p) (hl : lb' ≤ lb) : Ok lb' p := by
  cases p with
  | nil => trivial
  | cons iv rest => exact ⟨by have := h.1; omega, h.2.1, h.2.2⟩

theorem not_free_lt {lb : Nat} {p : List Iv} (h : Ok lb p) {v : Nat} (hv : v < lb) : ¬ Free p v := by
  induction p generalizing lb with
  | nil => simp
  | cons iv rest ih =>
    obtain ⟨h1, h2, h3⟩ := h
    have := ih h3 (by omega : v < iv.hi + 2)
    simp only [free_cons]; grind

def allocate : List Iv → Option (Nat × List Iv)
  | [] => none
  | iv :: rest => some (iv.lo, if iv.lo < iv.hi then ⟨iv.lo + 1, iv.hi⟩ :: rest else rest)

theorem allocate_none {p : List Iv} (h : allocate p = none) (v : Nat) : ¬ Free p v := by
  cases p <;> simp_all [allocate]

theorem allocate_some {lb : Nat} {p p' : List Iv} {v : Nat} (h : Ok lb p)
    (ha : allocate p = some (v, p')) :
    Free p v ∧ (∀ w, w < v → ¬ Free p w) ∧ (∀ w, Free p' w ↔ (Free p w ∧ w ≠ v)) ∧ Ok lb p' := by
  cases p with
  | nil => simp [allocate] at ha
  | cons iv rest =>
    obtain ⟨h1, h2, h3⟩ := h
    simp only [allocate, Option.some.injEq, Prod.mk.injEq] at ha
    obtain ⟨rfl, rfl⟩ := ha
    have hr : ∀ w, w ≤ iv.hi + 1 → ¬ Free rest w := fun w hw => not_free_lt h3 (by omega)
    refine ⟨by simp; omega, ?_, ?_, ?_⟩
    · intro w hw
      have hok : Ok iv.lo (iv :: rest) := ⟨Nat.le_refl _, h2, h3⟩
      exact not_free_lt hok hw
    · intro w
      have := hr w
      split <;> simp only [free_cons] <;> grind
    · split
      · exact ⟨by simp; omega, by simp; omega, h3⟩
      · exact Ok.mono h3 (by omega)

/-- use_value: split the interval containing `v` -/
def useValue (v : Nat) : List Iv → Option (List Iv)
  | [] => none
  | iv :: rest =>
    if iv.lo ≤ v ∧ v ≤ iv.hi then
      some ((if iv.lo < v then [⟨iv.lo, v - 1⟩] else []) ++
            (if v < iv.hi then [⟨v + 1, iv.hi⟩] else []) ++ rest)
    else (useValue v rest).map (iv :: ·)

theorem useValue_none {p : List Iv} {v : Nat} (h : useValue v p = none) : ¬ Free p v := by
  induction p with
  | nil => simp
  | cons iv rest ih =>
    simp only [useValue] at h
    split at h
    · simp at h
    · simp only [Option.map_eq_none_iff] at h
      have := ih h
      simp only [free_cons]; grind

theorem useValue_some {lb : Nat} {p p' : List Iv} {v : Nat} (h : Ok lb p)
    (hu : useValue v p = some p') :
    Free p v ∧ (∀ w, Free p' w ↔ (Free p w ∧ w ≠ v)) ∧ Ok lb p' := by
  induction p generalizing lb p' with
  | nil => simp [useValue] at hu
  | cons iv rest ih =>
    obtain ⟨h1, h2, h3⟩ := h
    simp only [useValue] at hu
    split at hu
    · rename_i hc
      simp only [Option.some.injEq] at hu
      subst hu
      have hr : ∀ w, w ≤ iv.hi + 1 → ¬ Free rest w := fun w hw => not_free_lt h3 (by omega)
      refine ⟨by simp; omega, ?_, ?_⟩
      · intro w
        have := hr w
        by_cases a : iv.lo < v <;> by_cases b : v < iv.hi <;>
          simp only [a, b, if_true, if_false, free_append, free_cons, free_nil, List.nil_append,
            List.append_nil, List.cons_append, or_false, false_or] <;> grind
      · by_cases a : iv.lo < v <;> by_cases b : v < iv.hi <;>
          simp only [a, b, if_true, if_false, List.nil_append, List.cons_append, Ok]
        · exact ⟨h1, by omega, by omega, by omega, Ok.mono h3 (by omega)⟩
        · exact ⟨h1, by omega, Ok.mono h3 (by omega)⟩
        · exact ⟨by omega, by omega, h3⟩
        · exact Ok.mono h3 (by omega)
    · rename_i hc
      cases hq : useValue v rest with
      | none => simp [hq] at hu
      | some q =>
        simp only [hq, Option.map_some, Option.some.injEq] at hu
        subst hu
        obtain ⟨f1, f2, f3⟩ := ih h3 hq
        refine ⟨by simp [f1], ?_, ?_⟩
        · intro w; simp only [free_cons, f2]; grind
        · refine ⟨h1, h2, f3⟩

#print axioms useValue_some
end Alloc
