/-! Scratch: interval allocator refinement (feasibility sketch for C20). -/
namespace Alloc

structure Iv where
  lo : Nat
  hi : Nat
deriving DecidableEq, Repr

/-- abstraction: `v` is free in the pool -/
def Free (p : List Iv) (v : Nat) : Prop := ∃ iv ∈ p, iv.lo ≤ v ∧ v ≤ iv.hi

instance (p : List Iv) (v : Nat) : Decidable (Free p v) := by unfold Free; infer_instance

@[simp] theorem free_nil (v : Nat) : ¬ Free [] v := by simp [Free]
@[simp] theorem free_cons (iv : Iv) (p : List Iv) (v : Nat) :
    Free (iv :: p) v ↔ (iv.lo ≤ v ∧ v ≤ iv.hi) ∨ Free p v := by simp [Free]
@[simp] theorem free_append (p q : List Iv) (v : Nat) :
    Free (p ++ q) v ↔ Free p v ∨ Free q v := by
  simp [Free, List.mem_append, or_and_right, exists_or]

/-- sorted, disjoint, non-adjacent (maximally merged), non-empty intervals, all ≥ lb -/
def Ok : Nat → List Iv → Prop
  | _, [] => True
  | lb, iv :: rest => lb ≤ iv.lo ∧ iv.lo ≤ iv.hi ∧ Ok (iv.hi + 2) rest

theorem Ok.mono {lb lb' : Nat} {p : List Iv} (h : Ok lb p) (hl : lb' ≤ lb) : Ok lb' p := by
  cases p with
  | nil => trivial
  | cons iv rest => exact ⟨by have := h.1; omega, h.2.1, h.2.2⟩

theorem not_free_lt {lb : Nat} {p : List Iv} (h : Ok lb p) {v : Nat} (hv : v < lb) : ¬ Free p v := by
  induction p generalizing lb with
  | nil => simp
  | cons iv rest ih =>
    obtain ⟨h1, h2, h3⟩ := h
    have := ih h3 (by omega : v < iv.hi + 2)
    simp only [free_cons]; grind

def allocate : List Iv → Option (Nat × List Iv)
  | [] => none
  | iv :: rest => some (iv.lo, if iv.lo < iv.hi then ⟨iv.lo + 1, iv.hi⟩ :: rest else rest)

theorem allocate_none {p : List Iv} (h : allocate p = none) (v : Nat) : ¬ Free p v := by
  cases p <;> simp_all [allocate]

theorem allocate_some {lb : Nat} {p p' : List Iv} {v : Nat} (h : Ok lb p)
    (ha : allocate p = some (v, p')) :
    Free p v ∧ (∀ w, w < v → ¬ Free p w) ∧ (∀ w, Free p' w ↔ (Free p w ∧ w ≠ v)) ∧ Ok lb p' := by
  cases p with
  | nil => simp [allocate] at ha
  | cons iv rest =>
    obtain ⟨h1, h2, h3⟩ := h
    simp only [allocate, Option.some.injEq, Prod.mk.injEq] at ha
    obtain ⟨rfl, rfl⟩ := ha
    have hr : ∀ w, w ≤ iv.hi + 1 → ¬ Free rest w := fun w hw => not_free_lt h3 (by omega)
    refine ⟨by simp; omega, ?_, ?_, ?_⟩
    · intro w hw
      have hok : Ok iv.lo (iv :: rest) := ⟨Nat.le_refl _, h2, h3⟩
      exact not_free_lt hok hw
    · intro w
      have := hr w
      split <;> simp only [free_cons] <;> grind
    · split
      · exact ⟨by simp; omega, by simp; omega, h3⟩
      · exact Ok.mono h3 (by omega)

/-- use_value: split the interval containing `v` -/
def useValue (v : Nat) : List Iv → Option (List Iv)
  | [] => none
  | iv :: rest =>
    if iv.lo ≤ v ∧ v ≤ iv.hi then
      some ((if iv.lo < v then [⟨iv.lo, v - 1⟩] else []) ++
            (if v < iv.hi then [⟨v + 1, iv.hi⟩] else []) ++ rest)
    else (useValue v rest).map (iv :: ·)

theorem useValue_none {p : List Iv} {v : Nat} (h : useValue v p = none) : ¬ Free p v := by
  induction p with
  | nil => simp
  | cons iv rest ih =>
    simp only [useValue] at h
    split at h
    · simp at h
    · simp only [Option.map_eq_none_iff] at h
      have := ih h
      simp only [free_cons]; grind

theorem useValue_some {lb : Nat} {p p' : List Iv} {v : Nat} (h : Ok lb p)
    (hu : useValue v p = some p') :
    Free p v ∧ (∀ w, Free p' w ↔ (Free p w ∧ w ≠ v)) ∧ Ok lb p' := by
  induction p generalizing lb p' with
  | nil => simp [useValue] at hu
  | cons iv rest ih =>
    obtain ⟨h1, h2, h3⟩ := h
    simp only [useValue] at hu
    split at hu
    · rename_i hc
      simp only [Option.some.injEq] at hu
      subst hu
      have hr : ∀ w, w ≤ iv.hi + 1 → ¬ Free rest w := fun w hw => not_free_lt h3 (by omega)
      refine ⟨by simp; omega, ?_, ?_⟩
      · intro w
        have := hr w
        by_cases a : iv.lo < v <;> by_cases b : v < iv.hi <;>
          simp only [a, b, if_true, if_false, free_append, free_cons, free_nil, List.nil_append,
            List.append_nil, List.cons_append, or_false, false_or] <;> grind
      · by_cases a : iv.lo < v <;> by_cases b : v < iv.hi <;>
          simp only [a, b, if_true, if_false, List.nil_append, List.cons_append, Ok]
        · exact ⟨h1, by omega, by omega, by omega, Ok.mono h3 (by omega)⟩
        · exact ⟨h1, by omega, Ok.mono h3 (by omega)⟩
        · exact ⟨by omega, by omega, h3⟩
        · exact Ok.mono h3 (by omega)
    · rename_i hc
      cases hq : useValue v rest with
      | none => simp [hq] at hu
      | some q =>
        simp only [hq, Option.map_some, Option.some.injEq] at hu
        subst hu
        obtain ⟨f1, f2, f3⟩ := ih h3 hq
        refine ⟨by simp [f1], ?_, ?_⟩
        · intro w; simp only [free_cons, f2]; grind
        · refine ⟨h1, h2, f3⟩

#print axioms useValue_some
end Alloc

namespace Alloc

inductive DRes
  | ok (p : List Iv)
  | panic (site : String)
deriving Repr, DecidableEq

def DRes.map (f : List Iv → List Iv) : DRes → DRes
  | .ok p => .ok (f p)
  | .panic s => .panic s

/-- the four match arms of `deallocate` once `left`/`right` are known (`right = some r`) -/
def deallocLR (tmax v : Nat) (l : Option Iv) (r : Iv) (rest : List Iv) : DRes :=
  match l with
  | some l =>
    if l.hi + 1 = v then
      if v = tmax then .panic "deallocate: value + 1 (arm 1)"
      else if v + 1 = r.lo then .ok (⟨l.lo, r.hi⟩ :: rest)
      else .ok (⟨l.lo, v⟩ :: r :: rest)
    else
      if v = tmax then .panic "deallocate: value + 1 (arm 3)"
      else if v + 1 = r.lo then .ok (l :: ⟨v, r.hi⟩ :: rest)
      else if r.lo ≤ v then .ok (l :: r :: rest)
      else .ok (l :: ⟨v, v⟩ :: r :: rest)
  | none =>
    if v = tmax then .panic "deallocate: value + 1 (arm 3)"
    else if v + 1 = r.lo then .ok (⟨v, r.hi⟩ :: rest)
    else if r.lo ≤ v then .ok (r :: rest)
    else .ok (⟨v, v⟩ :: r :: rest)

/-- deallocate: `left` = last interval with hi < v, `right` = first with hi ≥ v. -/
def dealloc (tmax v : Nat) : List Iv → DRes
  | [] => .ok [⟨v, v⟩]
  | a :: rest =>
    if a.hi < v then
      match rest with
      | [] => if a.hi + 1 = v then .ok [⟨a.lo, v⟩] else .ok [a, ⟨v, v⟩]
      | b :: rest' =>
        if b.hi < v then (dealloc tmax v (b :: rest')).map (a :: ·)
        else deallocLR tmax v (some a) b rest'
    else deallocLR tmax v none a rest

example : dealloc 65535 3 [⟨1,2⟩, ⟨4,9⟩] = .ok [⟨1,9⟩] := by decide
example : dealloc 65535 3 [⟨1,1⟩, ⟨5,9⟩] = .ok [⟨1,1⟩, ⟨3,3⟩, ⟨5,9⟩] := by decide
example : dealloc 65535 65535 [⟨1,65535⟩] = .panic "deallocate: value + 1 (arm 3)" := by decide
example : dealloc 65535 7 [⟨1,2⟩, ⟨4,5⟩] = .ok [⟨1,2⟩, ⟨4,5⟩, ⟨7,7⟩] := by decide

/-- releasing a used value inside the range: the free set grows by exactly `v`, the
    representation stays sorted/disjoint/maximally merged, no panic (any `tmax ≥ v`). -/
theorem dealloc_used {tmax v lb : Nat} {p : List Iv} (h : Ok lb p) (hv : ¬ Free p v)
    (hlb : lb ≤ v) (hmax : ∀ iv ∈ p, iv.hi ≤ tmax) (hvm : v ≤ tmax) :
    ∃ p', dealloc tmax v p = .ok p' ∧ (∀ w, Free p' w ↔ (Free p w ∨ w = v)) ∧ Ok lb p' := by
  induction p generalizing lb with
  | nil =>
    refine ⟨[⟨v, v⟩], rfl, ?_, ?_⟩
    · intro w; simp; omega
    · exact ⟨hlb, Nat.le_refl _, trivial⟩
  | cons a rest ih =>
    obtain ⟨h1, h2, h3⟩ := h
    have hva : ¬ (a.lo ≤ v ∧ v ≤ a.hi) := fun c => hv (by simp [c])
    have hvr : ¬ Free rest v := fun c => hv (by simp [c])
    unfold dealloc
    by_cases hlt : a.hi < v
    · rw [if_pos hlt]
      cases rest with
      | nil =>
        simp only
        by_cases he : a.hi + 1 = v
        · rw [if_pos he]
          refine ⟨_, rfl, ?_, ?_⟩
          · intro w; simp; omega
          · exact ⟨h1, by simp; omega, trivial⟩
        · rw [if_neg he]
          refine ⟨_, rfl, ?_, ?_⟩
          · intro w; simp; omega
          · exact ⟨h1, h2, by simp; omega, Nat.le_refl _, trivial⟩
      | cons b rest' =>
        simp only
        obtain ⟨g1, g2, g3⟩ := h3
        have hvb : ¬ (b.lo ≤ v ∧ v ≤ b.hi) := fun c => hvr (by simp [c])
        by_cases hb : b.hi < v
        · rw [if_pos hb]
          have hmax' : ∀ iv ∈ b :: rest', iv.hi ≤ tmax := fun iv hiv => hmax iv (List.mem_cons_of_mem _ hiv)
          obtain ⟨q, hq, hf, hok⟩ := ih (lb := a.hi + 2) ⟨g1, g2, g3⟩ hvr (by omega) hmax'
          refine ⟨a :: q, by rw [hq]; rfl, ?_, ?_⟩
          · intro w; simp only [free_cons, hf]; grind
          · exact ⟨h1, h2, hok⟩
        · rw [if_neg hb]
          have hbv : v < b.lo := by omega
          have hbm : b.hi ≤ tmax := hmax b (by simp)
          have hvt : v ≠ tmax := by omega
          have hr : ∀ w, w ≤ b.hi + 1 → ¬ Free rest' w := fun w hw => not_free_lt g3 (by omega)
          unfold deallocLR
          simp only
          by_cases he : a.hi + 1 = v
          · rw [if_pos he, if_neg hvt]
            by_cases hm : v + 1 = b.lo
            · rw [if_pos hm]
              refine ⟨_, rfl, ?_, ?_⟩
              · intro w; have := hr w; simp only [free_cons]; grind
              · exact ⟨h1, by simp; omega, g3⟩
            · rw [if_neg hm]
              refine ⟨_, rfl, ?_, ?_⟩
              · intro w; simp only [free_cons]; grind
              · exact ⟨h1, by simp; omega, by simp; omega, g2, g3⟩
          · rw [if_neg he, if_neg hvt]
            by_cases hm : v + 1 = b.lo
            · rw [if_pos hm]
              refine ⟨_, rfl, ?_, ?_⟩
              · intro w; simp only [free_cons]; grind
              · exact ⟨h1, h2, by simp; omega, by simp; omega, g3⟩
            · rw [if_neg hm, if_neg (by omega)]
              refine ⟨_, rfl, ?_, ?_⟩
              · intro w; simp only [free_cons]; grind
              · exact ⟨h1, h2, by simp; omega, Nat.le_refl _, by simp; omega, g2, g3⟩
    · rw [if_neg hlt]
      have hav : v < a.lo := by omega
      have ham : a.hi ≤ tmax := hmax a (by simp)
      have hvt : v ≠ tmax := by omega
      unfold deallocLR
      simp only
      rw [if_neg hvt]
      by_cases hm : v + 1 = a.lo
      · rw [if_pos hm]
        refine ⟨_, rfl, ?_, ?_⟩
        · intro w; simp only [free_cons]; grind
        · exact ⟨hlb, by simp; omega, h3⟩
      · rw [if_neg hm, if_neg (by omega)]
        refine ⟨_, rfl, ?_, ?_⟩
        · intro w; simp only [free_cons]; grind
        · exact ⟨hlb, Nat.le_refl _, by simp; omega, h2, h3⟩

#print axioms dealloc_used

/-- the finding: releasing the *free* value `tmax` panics (debug build) -/
theorem dealloc_free_tmax_panics : dealloc 65535 65535 [⟨1, 65535⟩] ≠ .ok [⟨1, 65535⟩] := by decide

end Alloc
