use mqtt_protocol_core::mqtt;
use mqtt_protocol_core::mqtt::prelude::*;

#[test]
fn resend_of_more_than_65535_stored_publishes_does_not_overflow() {
    let mut c = mqtt::connection::GenericConnection::<mqtt::role::Client, u32>::new(mqtt::Version::V5_0);
    let connect = mqtt::packet::v5_0::Connect::builder()
        .client_id("cid").unwrap()
        .clean_start(false)
        .props(vec![mqtt::packet::SessionExpiryInterval::new(1000).unwrap().into()])
        .build().unwrap();
    let _ = c.send(connect.clone().into());
    let connack = mqtt::packet::v5_0::Connack::builder()
        .session_present(false)
        .reason_code(mqtt::result_code::ConnectReasonCode::Success)
        .build().unwrap();
    let bytes = connack.to_continuous_buffer();
    let _ = c.recv(&mut mqtt::common::Cursor::new(&bytes[..]));
    for _ in 0..65_536u32 {
        let id = c.acquire_packet_id().unwrap();
        let p = mqtt::packet::v5_0::GenericPublish::<u32>::builder()
            .topic_name("t").unwrap().qos(mqtt::packet::Qos::AtLeastOnce).packet_id(id).build().unwrap();
        let ev = c.send(p.into());
        assert!(ev.iter().any(|e| matches!(e, mqtt::connection::GenericEvent::RequestSendPacket { .. })));
    }
    c.notify_closed();
    let _ = c.send(connect.into());
    let connack = mqtt::packet::v5_0::Connack::builder()
        .session_present(true)
        .reason_code(mqtt::result_code::ConnectReasonCode::Success)
        .props(vec![mqtt::packet::ReceiveMaximum::new(10).unwrap().into()])
        .build().unwrap();
    let bytes = connack.to_continuous_buffer();
    let ev = c.recv(&mut mqtt::common::Cursor::new(&bytes[..]));
    assert!(ev.len() > 65_536);
    assert_eq!(c.get_receive_maximum_vacancy_for_send(), Some(0));
}
