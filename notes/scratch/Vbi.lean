namespace Vbi

def MAX : Nat := 0x0FFFFFFF

def encodeAux : Nat → Nat → List Nat
  | 0, _ => []
  | fuel+1, v =>
    if v / 128 > 0 then (v % 128 + 128) :: encodeAux fuel (v / 128)
    else [v % 128]

inductive Dec where
  | ok (v : Nat) (consumed : Nat)
  | incomplete
  | err
deriving Repr, DecidableEq

def decodeAux : Nat → Nat → Nat → Nat → List Nat → Dec
  | 0, _, _, _, _ => .err
  | _+1, _, _, _, [] => .incomplete
  | fuel+1, mult, value, i, b :: rest =>
    let value := value + (b % 128) * mult
    if value > MAX then .err
    else if b < 128 then .ok value (i+1)
    else decodeAux fuel (mult * 128) value (i+1) rest

def decode (bs : List Nat) : Dec := decodeAux 4 1 0 0 bs

theorem aux (fuel : Nat) (v mult acc i : Nat) (rest : List Nat)
    (hv : v < 128 ^ fuel) (hf : 0 < fuel) (hacc : acc + v * mult ≤ MAX) :
    decodeAux fuel mult acc i (encodeAux fuel v ++ rest)
      = .ok (acc + v * mult) (i + (encodeAux fuel v).length) := by
  induction fuel generalizing v mult acc i with
  | zero => omega
  | succ n ih =>
    unfold encodeAux
    split
    · rename_i h
      have hn : 0 < n := by
        rcases n with _ | n
        · simp at hv; omega
        · omega
      simp only [List.cons_append, decodeAux, List.length_cons]
      have e1 : (v % 128 + 128) % 128 = v % 128 := by omega
      have hle : acc + v % 128 * mult ≤ MAX := by
        have : v % 128 * mult ≤ v * mult := Nat.mul_le_mul_right _ (Nat.mod_le _ _)
        omega
      rw [e1]
      rw [if_neg (by omega), if_neg (by omega)]
      have hv' : v / 128 < 128 ^ n := by
        rw [Nat.pow_succ] at hv
        exact Nat.div_lt_of_lt_mul (by rw [Nat.mul_comm]; exact hv)
      have key : acc + v % 128 * mult + v / 128 * (mult * 128) = acc + v * mult := by
        have := Nat.div_add_mod v 128
        calc acc + v % 128 * mult + v / 128 * (mult * 128)
            = acc + (128 * (v / 128) + v % 128) * mult := by
              rw [Nat.add_mul, Nat.mul_comm mult 128, ← Nat.mul_assoc, Nat.mul_comm (v/128) 128]; omega
          _ = acc + v * mult := by rw [this]
      rw [ih (v / 128) (mult * 128) (acc + v % 128 * mult) (i + 1) hv' hn (by rw [key]; exact hacc)]
      rw [key]
      congr 1
      omega
    · rename_i h
      have hz : v / 128 = 0 := by omega
      have hlt : v < 128 := by omega
      simp only [List.cons_append, List.nil_append, decodeAux, List.length_cons, List.length_nil]
      have e : v % 128 = v := Nat.mod_eq_of_lt hlt
      rw [e, if_neg (by omega), if_pos hlt]

theorem roundtrip (v : Nat) (h : v ≤ MAX) (rest : List Nat) :
    decode (encodeAux 4 v ++ rest) = .ok v (encodeAux 4 v).length := by
  have := aux 4 v 1 0 0 rest (by unfold MAX at h; omega) (by omega) (by omega)
  simpa [decode] using this

#print axioms roundtrip
end Vbi
