/-! Scratch: PacketBuilder.feed model and chunk-independence (feasibility sketch for C09). -/
namespace Framing

inductive RS | fixedHeader | remLen | payload
deriving DecidableEq, Repr

structure PB where
  st : RS := .fixedHeader
  header : List Nat := []       -- header_buf
  remaining : Nat := 0          -- remaining_length
  mult : Nat := 1               -- multiplier
  buf : List Nat := []          -- raw_buf contents (raw_buf_offset = buf.length)
deriving DecidableEq, Repr

def PB.reset : PB := {}

inductive Out
  | complete (fh : Nat) (data : List Nat)
  | error
deriving DecidableEq, Repr

/-- One byte through the state machine (specification-level step). -/
def stepByte (pb : PB) (b : Nat) : PB × Option Out :=
  match pb.st with
  | .fixedHeader => ({ pb with header := pb.header ++ [b], st := .remLen }, none)
  | .remLen =>
    if pb.mult = 128 * 128 * 128 ∧ b ≥ 128 then (PB.reset, some .error)
    else
      let rem := pb.remaining + (b % 128) * pb.mult
      let pb' := { pb with header := pb.header ++ [b], remaining := rem, mult := pb.mult * 128 }
      if b < 128 then
        if rem = 0 then (PB.reset, some (.complete (pb.header.headD 0) []))
        else ({ pb' with buf := [], st := .payload }, none)
      else (pb', none)
  | .payload =>
    let buf := pb.buf ++ [b]
    if pb.remaining = 1 then (PB.reset, some (.complete (pb.header.headD 0) buf))
    else ({ pb with buf := buf, remaining := pb.remaining - 1 }, none)

/-- `feed` as written in Rust: loop over states; bulk copy in the payload state.
    Returns new state, result (none = Incomplete), unread input. Fuel = input length + 2. -/
def feedLoop : Nat → PB → List Nat → PB × Option Out × List Nat
  | 0, pb, inp => (pb, none, inp)
  | fuel + 1, pb, inp =>
    match pb.st with
    | .fixedHeader =>
      match inp with
      | [] => (pb, none, [])
      | b :: rest => feedLoop fuel { pb with header := pb.header ++ [b], st := .remLen } rest
    | .remLen =>
      match inp with
      | [] => (pb, none, [])
      | b :: rest =>
        if pb.mult = 128 * 128 * 128 ∧ b ≥ 128 then (PB.reset, some .error, rest)
        else
          let rem := pb.remaining + (b % 128) * pb.mult
          let pb' := { pb with header := pb.header ++ [b], remaining := rem, mult := pb.mult * 128 }
          if b < 128 then
            if rem = 0 then (PB.reset, some (.complete (pb.header.headD 0) []), rest)
            else feedLoop fuel { pb' with buf := [], st := .payload } rest
          else feedLoop fuel pb' rest
    | .payload =>
      let n := min pb.remaining inp.length
      if n = 0 then (pb, none, inp)
      else
        let buf := pb.buf ++ inp.take n
        if pb.remaining - n = 0 then (PB.reset, some (.complete (pb.header.headD 0) buf), inp.drop n)
        else ({ pb with buf := buf, remaining := pb.remaining - n }, none, inp.drop n)

def feed (pb : PB) (inp : List Nat) : PB × Option Out × List Nat :=
  if inp = [] then (pb, none, []) else feedLoop (inp.length + 2) pb inp

/-- spec: run bytes until the first output. -/
def feedSpec : PB → List Nat → PB × Option Out × List Nat
  | pb, [] => (pb, none, [])
  | pb, b :: rest =>
    match stepByte pb b with
    | (pb', some o) => (pb', some o, rest)
    | (pb', none) => feedSpec pb' rest

/-- all outputs of a byte stream (spec level), final state -/
def runSpec : PB → List Nat → PB × List Out
  | pb, [] => (pb, [])
  | pb, b :: rest =>
    match stepByte pb b with
    | (pb', some o) => let (s, os) := runSpec pb' rest; (s, o :: os)
    | (pb', none) => runSpec pb' rest

theorem runSpec_append (pb : PB) (a b : List Nat) :
    runSpec pb (a ++ b) =
      let (s1, o1) := runSpec pb a
      let (s2, o2) := runSpec s1 b
      (s2, o1 ++ o2) := by
  induction a generalizing pb with
  | nil => simp [runSpec]
  | cons x xs ih =>
    simp only [List.cons_append, runSpec]
    cases h : stepByte pb x with
    | mk pb' o =>
      cases o with
      | none => simp only [ih]
      | some o => simp only [ih, List.cons_append]

#print axioms runSpec_append
end Framing

namespace Framing

/-- In the payload state, the spec consumes `min remaining len` bytes in bulk. -/
theorem feedSpec_payload (pb : PB) (inp : List Nat) (hst : pb.st = .payload) (hr : 0 < pb.remaining) :
    feedSpec pb inp =
      (let n := min pb.remaining inp.length
       if n = 0 then (pb, none, inp)
       else if pb.remaining - n = 0 then
         (PB.reset, some (.complete (pb.header.headD 0) (pb.buf ++ inp.take n)), inp.drop n)
       else ({ pb with buf := pb.buf ++ inp.take n, remaining := pb.remaining - n }, none, inp.drop n)) := by
  induction inp generalizing pb with
  | nil => simp [feedSpec]
  | cons b rest ih =>
    simp only [feedSpec, stepByte, hst]
    by_cases h1 : pb.remaining = 1
    · simp [h1]
    · have hlt : 1 < pb.remaining := by omega
      simp only [h1, if_false]
      rw [ih _ rfl (by simp; omega)]
      simp only [List.length_cons]
      have hn : min pb.remaining (rest.length + 1) ≠ 0 := by omega
      simp only [hn, if_false]
      by_cases hz : min (pb.remaining - 1) rest.length = 0
      · have : rest = [] := by
          cases rest with
          | nil => rfl
          | cons _ _ => simp at hz; omega
        subst this
        simp
        omega
      · simp only [hz, if_false]
        have e1 : min pb.remaining (rest.length + 1) = min (pb.remaining - 1) rest.length + 1 := by omega
        have e2 : pb.remaining - 1 - min (pb.remaining - 1) rest.length
                = pb.remaining - min pb.remaining (rest.length + 1) := by omega
        rw [e1, ← e2]
        simp only [List.take_succ_cons, List.drop_succ_cons, List.append_assoc, List.singleton_append]
        split <;> simp_all

end Framing
