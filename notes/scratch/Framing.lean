/-! Scratch: PacketBuilder.feed model and chunk-independence (feasibility sketch for C09). -/
namespace Framing

inductive RS | fixedHeader | remLen | payload
deriving DecidableEq, Repr

structure PB where
  st : RS := .fixedHeader
  header : List Nat := []       -- header_buf
  remaining : Nat := 0          -- remaining_length
  mult : Nat := 1               -- multiplier
  buf : List Nat := []          -- raw_buf contents (raw_buf_offset = buf.length)
deriving DecidableEq, Repr

def PB.reset : PB := {}

inductive Out
  | complete (fh : Nat) (data : List Nat)
  | error
deriving DecidableEq, Repr

/-- One byte through the state machine (specification-level step). -/
def stepByte (pb : PB) (b : Nat) : PB × Option Out :=
  match pb.st with
  | .fixedHeader => ({ pb with header := pb.header ++ [b], st := .remLen }, none)
  | .remLen =>
    if pb.mult = 128 * 128 * 128 ∧ b ≥ 128 then (PB.reset, some .error)
    else
      let rem := pb.remaining + (b % 128) * pb.mult
      let pb' := { pb with header := pb.header ++ [b], remaining := rem, mult := pb.mult * 128 }
      if b < 128 then
        if rem = 0 then (PB.reset, some (.complete (pb.header.headD 0) []))
        else ({ pb' with buf := [], st := .payload }, none)
      else (pb', none)
  | .payload =>
    let buf := pb.buf ++ [b]
    if pb.remaining = 1 then (PB.reset, some (.complete (pb.header.headD 0) buf))
    else ({ pb with buf := buf, remaining := pb.remaining - 1 }, none)

/-- `feed` as written in Rust: loop over states; bulk copy in the payload state.
    Returns new state, result (none = Incomplete), unread input. Fuel = input length + 2. -/
def feedLoop : Nat → PB → List Nat → PB × Option Out × List Nat
  | 0, pb, inp => (pb, none, inp)
  | fuel + 1, pb, inp =>
    match pb.st with
    | .fixedHeader =>
      match inp with
      | [] => (pb, none, [])
      | b :: rest => feedLoop fuel { pb with header := pb.header ++ [b], st := .remLen } rest
    | .remLen =>
      match inp with
      | [] => (pb, none, [])
      | b :: rest =>
        if pb.mult = 128 * 128 * 128 ∧ b ≥ 128 then (PB.reset, some .error, rest)
        else
          let rem := pb.remaining + (b % 128) * pb.mult
          let pb' := { pb with header := pb.header ++ [b], remaining := rem, mult := pb.mult * 128 }
          if b < 128 then
            if rem = 0 then (PB.reset, some (.complete (pb.header.headD 0) []), rest)
            else feedLoop fuel { pb' with buf := [], st := .payload } rest
          else feedLoop fuel pb' rest
    | .payload =>
      let n := min pb.remaining inp.length
      if n = 0 then (pb, none, inp)
      else
        let buf := pb.buf ++ inp.take n
        if pb.remaining - n = 0 then (PB.reset, some (.complete (pb.header.headD 0) buf), inp.drop n)
        else ({ pb with buf := buf, remaining := pb.remaining - n }, none, inp.drop n)

def feed (pb : PB) (inp : List Nat) : PB × Option Out × List Nat :=
  if inp = [] then (pb, none, []) else feedLoop (inp.length + 2) pb inp

/-- spec: run bytes until the first output. -/
def feedSpec : PB → List Nat → PB × Option Out × List Nat
  | pb, [] => (pb, none, [])
  | pb, b :: rest =>
    match stepByte pb b with
    | (pb', some o) => (pb', some o, rest)
    | (pb', none) => feedSpec pb' rest

/-- all outputs of a byte stream (spec level), final state -/
def runSpec : PB → List Nat → PB × List Out
  | pb, [] => (pb, [])
  | pb, b :: rest =>
    match stepByte pb b with
    | (pb', some o) => let (s, os) := runSpec pb' rest; (s, o :: os)
    | (pb', none) => runSpec pb' rest

theorem runSpec_append (pb : PB) (a b : List Nat) :
    runSpec pb (a ++ b) =
      let (s1, o1) := runSpec pb a
      let (s2, o2) := runSpec s1 b
      (s2, o1 ++ o2) := by
  induction a generalizing pb with
  | nil => simp [runSpec]
  | cons x xs ih =>
    simp only [List.cons_append, runSpec]
    cases h : stepByte pb x with
    | mk pb' o =>
      cases o with
      | none => simp only [ih]
      | some o => simp only [ih, List.cons_append]

#print axioms runSpec_append
end Framing


namespace Framing

/-- payload state, fewer bytes than needed: the spec just accumulates them -/
theorem feedSpec_payload_partial (n : Nat) (pb : PB) (inp : List Nat)
    (hst : pb.st = .payload) (hn : n ≤ inp.length) (hr : n < pb.remaining) :
    feedSpec pb inp =
      feedSpec { pb with buf := pb.buf ++ inp.take n, remaining := pb.remaining - n } (inp.drop n) := by
  induction n generalizing pb inp with
  | zero => simp
  | succ k ih =>
    cases inp with
    | nil => simp at hn
    | cons b rest =>
      have h1 : pb.remaining ≠ 1 := by omega
      rw [feedSpec]
      simp only [stepByte, hst, h1, if_false]
      rw [ih _ rest rfl (by simpa using hn) (by simp; omega)]
      simp only [List.take_succ_cons, List.drop_succ_cons, List.append_assoc, List.singleton_append]
      congr 2
      omega

/-- payload state, enough bytes: the spec completes the frame after exactly `remaining` bytes -/
theorem feedSpec_payload_complete (pb : PB) (inp : List Nat)
    (hst : pb.st = .payload) (hr : 0 < pb.remaining) (hn : pb.remaining ≤ inp.length) :
    feedSpec pb inp =
      (PB.reset, some (.complete (pb.header.headD 0) (pb.buf ++ inp.take pb.remaining)),
       inp.drop pb.remaining) := by
  have hk : pb.remaining - 1 < pb.remaining := by omega
  rw [feedSpec_payload_partial (pb.remaining - 1) pb inp hst (by omega) hk]
  have hlen : (inp.drop (pb.remaining - 1)).length ≥ 1 := by simp; omega
  cases hd : inp.drop (pb.remaining - 1) with
  | nil => simp [hd] at hlen
  | cons b rest =>
    rw [feedSpec]
    have e1 : pb.remaining - (pb.remaining - 1) = 1 := by omega
    simp only [stepByte, hst, e1, if_true]
    have e2 : inp.take pb.remaining = inp.take (pb.remaining - 1) ++ [b] := by
      have : pb.remaining = (pb.remaining - 1) + 1 := by omega
      rw [this, List.take_succ]
      simp only [Nat.add_sub_cancel]
      congr 1
      have := congrArg List.head? hd
      simp only [List.head?_drop, List.head?_cons] at this
      simp [this]
    have e3 : inp.drop pb.remaining = rest := by
      have e : inp.drop pb.remaining = (inp.drop (pb.remaining - 1)).drop 1 := by
        rw [List.drop_drop]; congr 1; omega
      rw [e, hd]; rfl
    rw [e2, e3, List.append_assoc]

#print axioms feedSpec_payload_complete
end Framing

namespace Framing

theorem feedLoop_eq_spec (fuel : Nat) (pb : PB) (inp : List Nat)
    (hinv : pb.st = .payload → 0 < pb.remaining) (hf : inp.length < fuel) :
    feedLoop fuel pb inp = feedSpec pb inp := by
  induction fuel generalizing pb inp with
  | zero => omega
  | succ fuel ih =>
    unfold feedLoop
    cases hst : pb.st with
    | fixedHeader =>
      simp only
      cases inp with
      | nil => simp [feedSpec]
      | cons b rest =>
        simp only
        rw [ih _ rest (by simp) (by simpa using hf)]
        simp [feedSpec, stepByte, hst]
    | remLen =>
      simp only
      cases inp with
      | nil => simp [feedSpec]
      | cons b rest =>
        simp only
        have hr : rest.length < fuel := by simpa using hf
        by_cases herr : pb.mult = 128 * 128 * 128 ∧ b ≥ 128
        · simp [feedSpec, stepByte, hst, herr]
        · simp only [herr, if_false]
          by_cases hb : b < 128
          · simp only [hb, if_true]
            by_cases hz : pb.remaining + b % 128 * pb.mult = 0
            · simp [feedSpec, stepByte, hst, herr, hb, hz]
            · simp only [hz, if_false]
              rw [ih _ rest (by intro _; simp; omega) hr]
              have hz' : ¬ (pb.remaining = 0 ∧ b % 128 * pb.mult = 0) := by
                intro c; exact hz (by omega)
              simp [feedSpec, stepByte, hst, herr, hb, hz']
          · simp only [hb, if_false]
            rw [ih _ rest (by simp [hst]) hr]
            simp [feedSpec, stepByte, hst, herr, hb]
    | payload =>
      simp only
      have hpos := hinv hst
      by_cases hn0 : min pb.remaining inp.length = 0
      · have : inp = [] := by
          cases inp with
          | nil => rfl
          | cons _ _ => simp at hn0; omega
        subst this
        simp [feedSpec]
      · simp only [hn0, if_false]
        by_cases hle : pb.remaining ≤ inp.length
        · have hmin : min pb.remaining inp.length = pb.remaining := by omega
          simp only [hmin, Nat.sub_self, if_true]
          rw [feedSpec_payload_complete pb inp hst hpos hle]
        · have hmin : min pb.remaining inp.length = inp.length := by omega
          have hne : pb.remaining - inp.length ≠ 0 := by omega
          simp only [hmin, hne, if_false]
          rw [feedSpec_payload_partial inp.length pb inp hst (Nat.le_refl _) (by omega)]
          simp [feedSpec, hst]

/-- C09 core: the Rust-shaped `feed` is the byte-at-a-time specification. -/
theorem feed_eq_spec (pb : PB) (inp : List Nat) (hinv : pb.st = .payload → 0 < pb.remaining) :
    feed pb inp = feedSpec pb inp := by
  unfold feed
  split
  · rename_i h; subst h; simp [feedSpec]
  · exact feedLoop_eq_spec _ pb inp hinv (by omega)

#print axioms feed_eq_spec
end Framing
