import Sc.Framing
open Framing

def hexVal (c : Char) : Nat :=
  if '0' ≤ c ∧ c ≤ '9' then c.toNat - '0'.toNat
  else if 'a' ≤ c ∧ c ≤ 'f' then c.toNat - 'a'.toNat + 10 else 0

def parseHex (s : String) : List Nat :=
  let rec go : List Char → List Nat
    | a :: b :: rest => (hexVal a * 16 + hexVal b) :: go rest
    | _ => []
  go s.toList

partial def loop (h : IO.FS.Stream) (pb : PB) (n : Nat) : IO Unit := do
  let line ← h.getLine
  if line.isEmpty then
    IO.println s!"lines {n}"
    return ()
  let bytes := parseHex line.trimAscii.toString
  let (pb', outs) := runSpec pb bytes
  IO.println s!"{outs.length} {pb'.remaining}"
  loop h pb' (n+1)

def main : IO Unit := do loop (← IO.getStdin) {} 0
