import MqttVerif.Conn.Step
open MqttVerif MqttVerif.Conn

def cfgW : Cfg := { role := .client, pw := 2 }
def connectW : Pkt := { ver := 5, kind := .connect, size := 20, props := [(17, 100)] }
def connack1 : Pkt := { ver := 5, kind := .connack, size := 5, rc := some 0, sp := false }
def connack2 : Pkt := { ver := 5, kind := .connack, size := 10, rc := some 0, sp := true, props := [(39, 10)] }
def pubBig : Pkt := { ver := 5, kind := .publish, pid := some 1, qos := 1, topic := [97], payloadLen := 100 }
def pubQ2 : Pkt := { ver := 5, kind := .publish, pid := some 1, qos := 2, topic := [97] }
def pubQ1 : Pkt := { ver := 5, kind := .publish, pid := some 1, qos := 1, topic := [97] }
def pubackW : Pkt := { ver := 5, kind := .puback, size := 4, pid := some 1 }
def opsW : List Op :=
  [ .send connectW, .recv [0x20, 2, 0, 0] (fun _ _ _ => .ok connack1),
    .acquire, .send pubBig, .closed,
    .send connectW, .recv [0x20, 2, 0, 0] (fun _ _ _ => .ok connack2),
    .acquire, .send pubQ2,
    .recv [0x40, 2, 0, 1] (fun _ _ _ => .ok pubackW),
    .acquire, .send pubQ1 ]
-- on the model BEFORE the fix of `sendStoredLoop` (drop branch keeps the wait-set entry) this
-- evaluated to `some "core.rs:process_send_v5_0_publish:store.add().unwrap()"`; after the fix:
example : (run cfgW (St.init cfgW 5) opsW).panic = none := by decide
