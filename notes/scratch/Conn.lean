namespace Conn

inductive Status | disconnected | connecting | connected
deriving DecidableEq, Repr

inductive Ev
  | send (kind : Nat) (id : Nat)
  | released (id : Nat)
  | err (code : Nat)
  | recvd (kind : Nat) (id : Nat)
  | close
deriving DecidableEq, Repr

structure St where
  status : Status := .disconnected
  used : List Nat := []
  pidPuback : List Nat := []
  pidPubrec : List Nat := []
  pidPubcomp : List Nat := []
  needStore : Bool := false
  store : List (Nat × Nat) := []   -- (id, kind) kind 1=puback-wait 2=pubrec-wait 3=pubcomp-wait
  sendMax : Option Nat := none
  sendCount : Nat := 0
  f1 : Nat := 0
  f2 : Nat := 0
  f3 : Bool := false
  f4 : Bool := false
  f5 : Option Nat := none
  f6 : List Nat := []
deriving Repr

def ins (x : Nat) (l : List Nat) : List Nat := if x ∈ l then l else x :: l

def release (s : St) (id : Nat) : St × List Ev :=
  if id ∈ s.used then ({ s with used := s.used.erase id }, [.released id]) else (s, [])

def sendPublish (s : St) (qos id : Nat) : St × List Ev :=
  if qos = 0 then
    if s.status ≠ .connected then (s, [.err 1]) else (s, [.send 3 0])
  else
    if s.status ≠ .connected ∧ !s.needStore then
      let (s', evs) := release s id
      (s', .err 1 :: evs)
    else if id ∉ s.used then (s, [.err 2])
    else
      let s1 := if s.needStore ∧ s.status ≠ .disconnected
                then { s with store := s.store ++ [(id, qos)] } else s
      let s2 := if qos = 2 then { s1 with pidPubrec := ins id s1.pidPubrec }
                else { s1 with pidPuback := ins id s1.pidPuback }
      if s2.status = .connected then (s2, [.send 3 id]) else (s2, [])

def recvPuback (s : St) (id : Nat) : St × List Ev :=
  if id ∈ s.pidPuback then
    let s1 := { s with pidPuback := s.pidPuback.erase id,
                       store := s.store.filter (fun p => !(p.1 = id ∧ p.2 = 1)) }
    let (s2, evs) := release s1 id
    (s2, evs ++ [.recvd 4 id])
  else (s, [.close, .err 3])

def closed (s : St) : St × List Ev :=
  let s1 := { s with status := .disconnected }
  if s1.needStore then (s1, [])
  else
    let ids := s1.pidPuback ++ s1.pidPubrec ++ s1.pidPubcomp
    let rel := ids.filter (· ∈ s1.used)
    ({ s1 with pidPuback := [], pidPubrec := [], pidPubcomp := [],
               used := s1.used.filter (· ∉ ids) }, rel.map .released)

inductive Op
  | acquire (id : Nat)
  | sendPublish (qos id : Nat)
  | recvPuback (id : Nat)
  | closed
  | connack
deriving Repr

def step (s : St) : Op → St × List Ev
  | .acquire id => if id ∈ s.used ∨ id = 0 then (s, []) else ({ s with used := id :: s.used }, [])
  | .sendPublish q id => sendPublish s q id
  | .recvPuback id => recvPuback s id
  | .closed => closed s
  | .connack => ({ s with status := .connected }, [])

def Inv (s : St) : Prop :=
  (∀ x ∈ s.pidPuback, x ∈ s.used) ∧ (∀ x ∈ s.pidPubrec, x ∈ s.used) ∧ s.used.Nodup

theorem ins_mem {x y : Nat} {l : List Nat} : y ∈ ins x l ↔ y = x ∨ y ∈ l := by
  unfold ins; split <;> simp_all <;> grind

theorem step_inv (s : St) (op : Op) (h : Inv s) : Inv (step s op).1 := by
  obtain ⟨h1, h2, h3⟩ := h
  cases op with
  | acquire id =>
    simp only [step]; split
    · exact ⟨h1, h2, h3⟩
    · refine ⟨?_, ?_, ?_⟩ <;> simp_all <;> grind
  | sendPublish q id =>
    simp only [step, sendPublish, release]
    repeat' split
    all_goals (refine ⟨?_, ?_, ?_⟩ <;> simp_all [ins_mem] <;> grind [List.Nodup.erase, List.mem_erase_of_ne])
  | recvPuback id =>
    simp only [step, recvPuback, release]
    repeat' split
    all_goals (refine ⟨?_, ?_, ?_⟩ <;> simp_all <;> grind [List.Nodup.erase, List.mem_erase_of_ne, List.mem_of_mem_erase, List.Nodup.mem_erase_iff])
  | closed =>
    simp only [step, closed]
    repeat' split
    all_goals (refine ⟨?_, ?_, ?_⟩ <;> simp_all <;> grind [List.Nodup.filter])
  | connack => exact ⟨h1, h2, h3⟩

#print axioms step_inv
end Conn
