use mqtt_protocol_core::mqtt;
use mqtt_protocol_core::mqtt::prelude::*;
use std::panic::{catch_unwind, AssertUnwindSafe};

type C = mqtt::Connection<mqtt::role::Client>;
type S = mqtt::Connection<mqtt::role::Server>;

fn feed<R: mqtt::connection::role::RoleType>(c: &mut mqtt::Connection<R>, bytes: &[u8]) -> Vec<mqtt::connection::Event> {
    let mut cur = mqtt::common::Cursor::new(bytes);
    let mut evs = vec![];
    while (cur.position() as usize) < bytes.len() {
        evs.extend(c.recv(&mut cur));
    }
    evs
}
fn show(tag: &str, evs: &[mqtt::connection::Event]) {
    println!("  [{tag}]");
    for e in evs { println!("    {e}"); }
}
fn probe(name: &str, f: impl FnOnce()) {
    println!("== {name}");
    let r = catch_unwind(AssertUnwindSafe(f));
    if let Err(e) = r {
        let msg = e.downcast_ref::<String>().cloned().or_else(|| e.downcast_ref::<&str>().map(|s| s.to_string())).unwrap_or_default();
        println!("  PANIC: {msg}");
    }
}

fn v5_connect(c: &mut C, clean: bool, sei: Option<u32>) -> Vec<mqtt::connection::Event> {
    let mut props = vec![];
    if let Some(s) = sei { props.push(mqtt::packet::Property::SessionExpiryInterval(mqtt::packet::SessionExpiryInterval::new(s).unwrap())); }
    let p = mqtt::packet::v5_0::Connect::builder().client_id("c").unwrap().clean_start(clean).props(props).build().unwrap();
    c.send(p.into())
}
fn v5_connack_bytes(sp: bool, props: Vec<mqtt::packet::Property>) -> Vec<u8> {
    mqtt::packet::v5_0::Connack::builder().session_present(sp).reason_code(mqtt::result_code::ConnectReasonCode::Success).props(props).build().unwrap().to_continuous_buffer()
}

fn main() {
    std::panic::set_hook(Box::new(|_| {}));
    probe("C05a server recv CONNECT with TopicAliasMaximum 0", || {
        let mut s = S::new(mqtt::Version::V5_0);
        let p = mqtt::packet::v5_0::Connect::builder().client_id("c").unwrap()
            .props(vec![mqtt::packet::Property::TopicAliasMaximum(mqtt::packet::TopicAliasMaximum::new(0).unwrap())]).build().unwrap();
        let evs = feed(&mut s, &p.to_continuous_buffer());
        show("recv", &evs);
    });
    probe("C05b QoS1 PUBLISH pid 0 with auto_pub_response", || {
        let mut c = C::new(mqtt::Version::V3_1_1);
        c.set_auto_pub_response(true);
        let p = mqtt::packet::v3_1_1::Connect::builder().client_id("c").unwrap().build().unwrap();
        c.send(p.into());
        feed(&mut c, &[0x20, 0x02, 0x00, 0x00]);
        let evs = feed(&mut c, &[0x32, 0x05, 0x00, 0x01, b'a', 0x00, 0x00]);
        show("recv", &evs);
    });
    probe("C12a stored resend not counted -> PUBACK underflow", || {
        let mut c = C::new(mqtt::Version::V5_0);
        show("connect", &v5_connect(&mut c, false, Some(100)));
        show("connack", &feed(&mut c, &v5_connack_bytes(false, vec![mqtt::packet::Property::ReceiveMaximum(mqtt::packet::ReceiveMaximum::new(2).unwrap())])));
        let id = c.acquire_packet_id().unwrap();
        let p = mqtt::packet::v5_0::Publish::builder().topic_name("t").unwrap().qos(mqtt::packet::Qos::AtLeastOnce).packet_id(id).build().unwrap();
        show("publish", &c.send(p.into()));
        println!("  vacancy {:?}", c.get_receive_maximum_vacancy_for_send());
        show("closed", &c.notify_closed());
        show("connect", &v5_connect(&mut c, false, Some(100)));
        show("connack", &feed(&mut c, &v5_connack_bytes(true, vec![mqtt::packet::Property::ReceiveMaximum(mqtt::packet::ReceiveMaximum::new(2).unwrap())])));
        println!("  vacancy {:?}", c.get_receive_maximum_vacancy_for_send());
        let evs = feed(&mut c, &[0x40, 0x02, 0x00, 0x01]);
        show("puback", &evs);
    });
    probe("C01/C10 partial frame survives notify_closed", || {
        let mut c = C::new(mqtt::Version::V3_1_1);
        let p = mqtt::packet::v3_1_1::Connect::builder().client_id("c").unwrap().build().unwrap();
        c.send(p.clone().into());
        feed(&mut c, &[0x20, 0x02, 0x00, 0x00]);
        show("partial", &feed(&mut c, &[0x30, 0x0a, 0x00]));
        show("closed", &c.notify_closed());
        c.send(p.into());
        show("connack2", &feed(&mut c, &[0x20, 0x02, 0x00, 0x00]));
    });
    probe("C08 release_packet_id(0)", || {
        let mut c = C::new(mqtt::Version::V3_1_1);
        show("rel", &c.release_packet_id(0));
    });
    probe("C08 v5 too-large refusal keeps id", || {
        let mut c = C::new(mqtt::Version::V5_0);
        v5_connect(&mut c, true, None);
        feed(&mut c, &v5_connack_bytes(false, vec![mqtt::packet::Property::MaximumPacketSize(mqtt::packet::MaximumPacketSize::new(10).unwrap())]));
        let id = c.acquire_packet_id().unwrap();
        let p = mqtt::packet::v5_0::Publish::builder().topic_name("topic/long/long").unwrap().qos(mqtt::packet::Qos::AtLeastOnce).packet_id(id).build().unwrap();
        show("publish", &c.send(p.into()));
        println!("  register same id again: {:?}", c.register_packet_id(id));
    });
    probe("C17/C06 second CONNACK mid-session", || {
        let mut c = C::new(mqtt::Version::V3_1_1);
        let p = mqtt::packet::v3_1_1::Connect::builder().client_id("c").unwrap().clean_session(false).build().unwrap();
        c.send(p.into());
        feed(&mut c, &[0x20, 0x02, 0x00, 0x00]);
        let id = c.acquire_packet_id().unwrap();
        let p = mqtt::packet::v3_1_1::Publish::builder().topic_name("t").unwrap().qos(mqtt::packet::Qos::AtLeastOnce).packet_id(id).build().unwrap();
        c.send(p.into());
        println!("  stored {}", c.get_stored_packets().len());
        show("connack2", &feed(&mut c, &[0x20, 0x02, 0x00, 0x00]));
        println!("  stored {}", c.get_stored_packets().len());
    });
    probe("C07 handled id survives clean reconnect", || {
        let mut c = C::new(mqtt::Version::V3_1_1);
        let p = mqtt::packet::v3_1_1::Connect::builder().client_id("c").unwrap().clean_session(false).build().unwrap();
        c.send(p.into());
        feed(&mut c, &[0x20, 0x02, 0x00, 0x00]);
        show("pub qos2", &feed(&mut c, &[0x34, 0x05, 0x00, 0x01, b'a', 0x00, 0x01]));
        c.notify_closed();
        let p = mqtt::packet::v3_1_1::Connect::builder().client_id("c").unwrap().clean_session(true).build().unwrap();
        c.send(p.into());
        feed(&mut c, &[0x20, 0x02, 0x00, 0x00]);
        show("pub qos2 new session", &feed(&mut c, &[0x34, 0x05, 0x00, 0x01, b'a', 0x00, 0x01]));
    });
    probe("C10/C15 server keep-alive leaks to next connection", || {
        let mut s = S::new(mqtt::Version::V3_1_1);
        let p = mqtt::packet::v3_1_1::Connect::builder().client_id("c").unwrap().keep_alive(10).build().unwrap();
        show("connect ka10", &feed(&mut s, &p.to_continuous_buffer()));
        s.notify_closed();
        let p = mqtt::packet::v3_1_1::Connect::builder().client_id("c").unwrap().keep_alive(0).build().unwrap();
        show("connect ka0", &feed(&mut s, &p.to_continuous_buffer()));
    });
    probe("C06 publish between connections silently dropped", || {
        let mut c = C::new(mqtt::Version::V3_1_1);
        let p = mqtt::packet::v3_1_1::Connect::builder().client_id("c").unwrap().clean_session(false).build().unwrap();
        c.send(p.into());
        feed(&mut c, &[0x20, 0x02, 0x00, 0x00]);
        c.notify_closed();
        let id = c.acquire_packet_id().unwrap();
        let p = mqtt::packet::v3_1_1::Publish::builder().topic_name("t").unwrap().qos(mqtt::packet::Qos::AtLeastOnce).packet_id(id).build().unwrap();
        show("publish offline", &c.send(p.into()));
        println!("  stored {}", c.get_stored_packets().len());
    });
    probe("C15 PUBREL while disconnected arms timer", || {
        let mut c = C::new(mqtt::Version::V3_1_1);
        let p = mqtt::packet::v3_1_1::Connect::builder().client_id("c").unwrap().clean_session(false).keep_alive(10).build().unwrap();
        c.send(p.into());
        feed(&mut c, &[0x20, 0x02, 0x00, 0x00]);
        show("closed", &c.notify_closed());
        let id = c.acquire_packet_id().unwrap();
        let p = mqtt::packet::v3_1_1::Pubrel::builder().packet_id(id).build().unwrap();
        show("pubrel offline", &c.send(p.into()));
    });
    probe("C04 connack non-minimal property length", || {
        let (p, used) = mqtt::packet::v5_0::Connack::parse(&[0x00, 0x00, 0x80, 0x00]).unwrap();
        println!("  used {used} size {} bytes {:02x?}", p.size(), p.to_continuous_buffer());
    });
    probe("C20 is_used out of range", || {
        let a = mqtt::ValueAllocator::<u16>::new(1, 10);
        println!("  is_used(0)={} is_used(11)={}", a.is_used(0), a.is_used(11));
    });
    probe("C18 SUBSCRIBE two subscription identifiers", || {
        let e = mqtt::packet::SubEntry::new("a", mqtt::packet::SubOpts::new()).unwrap();
        let r = mqtt::packet::v5_0::Subscribe::builder().packet_id(1u16).entries(vec![e]).props(vec![
            mqtt::packet::Property::SubscriptionIdentifier(mqtt::packet::SubscriptionIdentifier::new(1).unwrap()),
            mqtt::packet::Property::SubscriptionIdentifier(mqtt::packet::SubscriptionIdentifier::new(2).unwrap())]).build();
        println!("  build ok? {}", r.is_ok());
    });
}
