"""Tiny MQTT wire encoder for writing corpus traces by hand (mirrors harness/src/conn.rs w_*)."""
def vbi(n):
    out = []
    while True:
        b = n % 128; n //= 128
        if n: b |= 0x80
        out.append(b)
        if not n: return bytes(out)
def mstr(s): return bytes([len(s) >> 8, len(s) & 255]) + s
def frame(fh, body): return bytes([fh]) + vbi(len(body)) + body
def idb(pw, i): return i.to_bytes(pw, "big")
def props(ps):
    b = b""
    for p in ps:
        k = p[0]
        if k == "u8": b += bytes([p[1], p[2]])
        elif k == "u16": b += bytes([p[1]]) + p[2].to_bytes(2, "big")
        elif k == "u32": b += bytes([p[1]]) + p[2].to_bytes(4, "big")
        elif k == "str": b += bytes([p[1]]) + mstr(p[2])
        elif k == "pair": b += bytes([38]) + mstr(p[1]) + mstr(p[2])
    return vbi(len(b)) + b
def connect(ver, clean, ka, cid=b"cid", ps=()):
    b = mstr(b"MQTT") + bytes([ver, 2 if clean else 0]) + ka.to_bytes(2, "big")
    if ver == 5: b += props(ps)
    return frame(0x10, b + mstr(cid))
def connack(ver, sp, rc, ps=()):
    b = bytes([1 if sp else 0, rc])
    if ver == 5: b += props(ps)
    return frame(0x20, b)
def publish(ver, pw, qos, topic, pid=0, ps=(), payload=b"", dup=False, retain=False):
    b = mstr(topic)
    if qos: b += idb(pw, pid)
    if ver == 5: b += props(ps)
    return frame(0x30 | (8 if dup else 0) | (qos << 1) | (1 if retain else 0), b + payload)
def ack(ver, pw, nib, pid, rc=None, ps=None):
    b = idb(pw, pid)
    if ver == 5 and rc is not None:
        b += bytes([rc])
        if ps is not None: b += props(ps)
    return frame((nib << 4) | (2 if nib == 6 else 0), b)
def subscribe(ver, pw, pid, filters=((b"f", 0),), ps=()):
    b = idb(pw, pid) + (props(ps) if ver == 5 else b"")
    for f, o in filters: b += mstr(f) + bytes([o])
    return frame(0x82, b)
def unsubscribe(ver, pw, pid, filters=(b"f",)):
    b = idb(pw, pid) + (props(()) if ver == 5 else b"")
    for f in filters: b += mstr(f)
    return frame(0xa2, b)
def suback(ver, pw, pid, codes=(0,)):
    return frame(0x90, idb(pw, pid) + (props(()) if ver == 5 else b"") + bytes(codes))
def unsuback(ver, pw, pid, codes=(0,)):
    return frame(0xb0, idb(pw, pid) + ((props(()) + bytes(codes)) if ver == 5 else b""))
def simple(fh): return frame(fh, b"")
def disconnect5(rc=None): return frame(0xe0, b"" if rc is None else bytes([rc]))
def h(b): return b.hex() if b else "-"
