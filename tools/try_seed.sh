#!/bin/bash
# try_seed.sh <patch.diff> <Cxx> — apply a patch to /repo, rebuild the harness, run the property's
# generators through the driver (no proof build), print the driver's diagnostics, revert, rebuild.
set -u
patch=$1; pid=$2
cd /verif
git -C /repo apply "$patch" || exit 2
(cd harness && CARGO_NET_OFFLINE=true cargo build --release 2>&1 | grep -E "^error" -A5)
python3 - "$pid" <<'PY' > /tmp/try_gens.txt
import sys; sys.path.insert(0,'/verif/tools'); import props
p=props.PROPS[sys.argv[1]]
gens = p.get("gens") or [[p["mode"]] + extra for extra in p.get("gen", [[]])]
for g in gens: print(g[0], "quick", "1", *g[1:])
open('/tmp/try_mode.txt','w').write(p["mode"])
PY
( for f in corpus/$pid/*.trace; do [ -f "$f" ] && ./harness/target/release/harness replay $(cat /tmp/try_mode.txt) "$f"; done
  while read -r line; do ./harness/target/release/harness $line; done < /tmp/try_gens.txt ) 2>/dev/null | ./lean/.lake/build/bin/mqttdrv | grep "^VIOL\|^MDIFF\|^SUMMARY" | grep -v "sig=C05 qos2_dup\|adopted_version" | cut -c1-${3:-400}
git -C /repo checkout -- .
(cd harness && CARGO_NET_OFFLINE=true cargo build --release 2>&1 | tail -1)
