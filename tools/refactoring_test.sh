#!/bin/bash
# refactoring_test.sh — false-alarm test: apply each behaviour-preserving refactoring of /verif/refactorings/<n>/patch.diff
# to a scratch worktree of /repo (never to /repo itself), build a scratch copy of the harness against it, run every
# quick generator (seed 1) through the driver and print whatever is not a known finding. Expected: one SUMMARY line each.
# Not a registered command (scratch under /tmp/reftest, removed at the end).
set -u
W=/tmp/reftest
rm -rf $W; mkdir -p $W
git -C /repo worktree add -q --detach $W/repo HEAD || exit 2
mkdir $W/harness && cp -r /verif/harness/src /verif/harness/Cargo.toml /verif/harness/Cargo.lock $W/harness/
sed -i "s#path = \"/repo\"#path = \"$W/repo\"#" $W/harness/Cargo.toml
H=$W/harness/target/release/harness; D=/verif/lean/.lake/build/bin/mqttdrv
for d in /verif/refactorings/*/; do
  i=$(basename $d)
  cd $W/repo && git checkout -q -- .
  if ! git apply $d/patch.diff 2>/dev/null; then echo "== refactoring $i: does not apply to the current HEAD"; continue; fi
  (cd $W/harness && CARGO_NET_OFFLINE=true cargo build --release 2>&1 | grep -E "^error" -A5)
  echo "== refactoring $i: $(git diff --stat | tail -1)"
  ( for a in "" reuse restore undet; do $H conn quick 1 $a; done; $H pair quick 1; $H gates quick 1; $H bulk quick 1; $H codec quick 1; $H tables quick 1; $H frame quick 1; $H alloc quick 1 ) 2>/dev/null | $D | grep "^VIOL\|^MDIFF\|^SUMMARY" | grep -v "sig=C05 qos2_dup\|adopted_version\|buildable.topic_nonempty" | cut -c1-300 | head -6
done
cd /; git -C /repo worktree remove --force $W/repo; rm -rf $W
