#!/usr/bin/env python3
"""
tie 1 (DESIGN.md §3.2): regenerate lean/MqttVerif/Gen/*.lean from /repo's CURRENT tree by
executing the real code through the Rust harness (`harness tables cells`).

  Gen/Placement.lean   C18: property placement / multiplicity / value table, builder path and
                       parser path, one chunk of 27*2*4 = 216 verdict codes per location
                       (mixed-radix position ((propIndex*2 + (n-1))*4 + valueClass) -> code)

Idempotent (the file is rewritten only when its content changes, so lake does not rebuild),
fast (the harness run takes milliseconds), exits non-zero on any failure.  The harness must
have been built (`./check` does that first); with --build it is built here.

Nothing in this script decides a verdict: the comparison with the specification is done by
Lean (`MqttVerif.Props.C18` by `decide +kernel`, `mqttdrv` for the monitors).  With
`--deviations` the cells on which the Lean monitor reports a disagreement are printed.
"""
import os
import re
import subprocess
import sys

ROOT = os.path.dirname(os.path.dirname(os.path.abspath(__file__)))
HARNESS = os.path.join(ROOT, "harness")
HBIN = os.path.join(HARNESS, "target", "debug", "harness")
GEN = os.path.join(ROOT, "lean", "MqttVerif", "Gen")
REPO = os.environ.get("VERIF_REPO", "/repo")
DRV = os.path.join(ROOT, "lean", ".lake", "build", "bin", "mqttdrv")

# verdict codes (also written into the generated file)
CODES = [
    (0, "ok"),
    (1, "err ProtocolError"),
    (2, "err MalformedPacket"),
    (3, "err <any other MqttError>"),
    (4, "PANIC"),
    (5, "valerr ProtocolError      (the property value constructor refused the value)"),
    (6, "valerr Unrepresentable    (the public API cannot express the value)"),
    (7, "valerr <any other MqttError>"),
]
N_OCC = 2
N_VC = 4


def code_of(v):
    if v == "ok":
        return 0
    if v == "PANIC":
        return 4
    if v == "err ProtocolError":
        return 1
    if v == "err MalformedPacket":
        return 2
    if v.startswith("err "):
        return 3
    if v == "valerr ProtocolError":
        return 5
    if v == "valerr Unrepresentable":
        return 6
    if v.startswith("valerr "):
        return 7
    raise ValueError("unknown verdict %r" % v)


def fail(msg):
    print("gen_tables: " + msg, file=sys.stderr)
    print("gen_tables: " + msg)
    sys.exit(1)


def run_harness():
    if "--build" in sys.argv or not os.path.exists(HBIN):
        env = dict(os.environ, CARGO_NET_OFFLINE="true")
        p = subprocess.run(["cargo", "build", "--offline"], cwd=HARNESS, env=env,
                           stdout=subprocess.PIPE, stderr=subprocess.STDOUT, text=True)
        if p.returncode != 0:
            fail("harness does not build:\n" + p.stdout[-3000:])
    p = subprocess.run([HBIN, "tables", "cells"], stdout=subprocess.PIPE, stderr=subprocess.PIPE, text=True, timeout=120)
    if p.returncode != 0:
        fail("`harness tables cells` failed (rc %d): %s" % (p.returncode, p.stderr[-1000:]))
    return p.stdout


def repo_locations():
    """the validators the crate has: every `fn validate_<x>_properties` / `validate_auth_packet`
    under src/mqtt/packet/v5_0 must be covered by a harness location"""
    locs = set()
    d = os.path.join(REPO, "src", "mqtt", "packet", "v5_0")
    for fn in sorted(os.listdir(d)):
        if not fn.endswith(".rs"):
            continue
        for m in re.finditer(r"^\s*(?:pub(?:\([a-z]+\))?\s+)?fn validate_([a-z_]+?)_(?:properties|packet)\s*\(", open(os.path.join(d, fn)).read(), re.M):
            locs.add(m.group(1))
    return locs


def repo_property_ids():
    """`PropertyId` discriminants parsed from the #[repr(u8)] enum source (cross-check of
    what the harness discovered by `PropertyId::try_from(0..=255)`)"""
    src = open(os.path.join(REPO, "src", "mqtt", "packet", "property.rs")).read()
    m = re.search(r"pub enum PropertyId\s*\{(.*?)\n\}", src, re.S)
    if not m:
        fail("cannot find `pub enum PropertyId` in property.rs")
    body = re.sub(r"//[^\n]*", "", m.group(1))
    return [int(x, 0) for x in re.findall(r"\b[A-Za-z]+\s*=\s*(0x[0-9a-fA-F]+|\d+)\s*,", body)]


def parse(text):
    propids, names, base, cells, aux = [], {}, {}, {}, []
    locs = []
    for line in text.splitlines():
        w = line.split()
        if not w:
            continue
        if w[0] == "PROPID":
            propids.append(int(w[1]))
            names[int(w[1])] = w[2]
        elif w[0] == "BASE":
            base[w[1]] = line
        elif w[0] == "AUX":
            aux.append(line)
        elif w[0] == "CELL":
            m = re.match(r"CELL (\S+) (\d+) (\d+) (\d+) builder=(.*?) parser=(.*)$", line)
            if not m:
                fail("unparsable line: " + line)
            loc = m.group(1)
            if loc not in locs:
                locs.append(loc)
            cells[(loc, int(m.group(2)), int(m.group(3)), int(m.group(4)))] = (m.group(5).strip(), m.group(6).strip())
    return propids, names, locs, base, cells, aux


def lean_list(xs, indent="  "):
    rows = []
    for i in range(0, len(xs), 8 * N_VC):
        rows.append(indent + ", ".join(str(x) for x in xs[i:i + 8 * N_VC]))
    return "[\n" + ",\n".join(rows) + "]"


def render(propids, names, locs, cells, aux):
    o = []
    o.append("/-!")
    o.append("GENERATED by tools/gen_tables.py from /repo's working tree (`harness tables cells`: the real")
    o.append("builders and parsers executed on every cell) — do not edit.  Committed as of the last green run.")
    o.append("")
    o.append("Property placement / multiplicity / value table for C18.  One chunk per location and path;")
    o.append("position `((propIndex * %d + (n - 1)) * %d + valueClass)` with `propIndex` the position in" % (N_OCC, N_VC))
    o.append("`propIds`, `n ∈ {1,2}` the occurrence count, `valueClass ∈ 0..3` the boundary value")
    o.append("(integers 0,1,2,MAX; strings/binaries of length 0,1,2,130).  Verdict codes:")
    for c, t in CODES:
        o.append("  %d = %s" % (c, t))
    o.append("Authentication Data cells carry one Authentication Method in front (see harness/src/tables.rs).")
    for a in aux:
        o.append("  " + a)
    o.append("-/")
    o.append("namespace MqttVerif.Gen.Placement")
    o.append("")
    o.append("/-- `PropertyId` discriminants of the crate, in increasing order -/")
    o.append("def propIds : List Nat := [" + ", ".join(str(p) for p in propids) + "]")
    o.append("")
    o.append("/-- `PropertyId::as_str` of each -/")
    o.append("def propNames : List String := [" + ", ".join('"%s"' % names[p] for p in propids) + "]")
    o.append("")
    o.append("/-- property-carrying locations of the crate (one `validate_*` function each) -/")
    o.append("def locationNames : List String := [" + ", ".join('"%s"' % l for l in locs) + "]")
    o.append("")
    o.append("def chunkSize : Nat := %d" % (len(propids) * N_OCC * N_VC))
    o.append("")
    for path, idx in (("builder", 0), ("parser", 1)):
        for loc in locs:
            xs = []
            for p in propids:
                for n in range(1, N_OCC + 1):
                    for vc in range(N_VC):
                        xs.append(code_of(cells[(loc, p, n, vc)][idx]))
            o.append("def %s_%s : List Nat := %s" % (path, loc, lean_list(xs)))
            o.append("")
    for path in ("builder", "parser"):
        o.append("/-- %s-path chunks in the order of `locationNames` -/" % path)
        o.append("def %s : List (List Nat) := [%s]" % (path, ", ".join("%s_%s" % (path, l) for l in locs)))
        o.append("")
    o.append("end MqttVerif.Gen.Placement")
    return "\n".join(o) + "\n"


def write_if_changed(path, content):
    os.makedirs(os.path.dirname(path), exist_ok=True)
    if os.path.exists(path) and open(path).read() == content:
        return False
    tmp = path + ".tmp"
    with open(tmp, "w") as f:
        f.write(content)
    os.replace(tmp, path)
    return True


def deviations(text):
    """ask the Lean monitor (mqttdrv, executable `specVerdict`) which cells deviate"""
    if not os.path.exists(DRV):
        print("gen_tables: mqttdrv not built; deviations not listed")
        return
    p = subprocess.run([DRV, "cells"], input=text, stdout=subprocess.PIPE, stderr=subprocess.STDOUT, text=True)
    n = 0
    for line in p.stdout.splitlines():
        if line.startswith("DEVIATION "):
            print(line)
            n += 1
    print("gen_tables: %d deviating cell(s) according to MqttVerif.Spec.Placement.specVerdict" % n)


def main():
    text = run_harness()
    propids, names, locs, base, cells, aux = parse(text)
    if not propids or not locs:
        fail("harness printed no PROPID / CELL lines")
    if propids != sorted(propids):
        fail("property ids not increasing")
    src_ids = repo_property_ids()
    if sorted(src_ids) != propids:
        fail("PropertyId discriminants in the source %s differ from those the harness discovered %s" % (sorted(src_ids), propids))
    for loc in locs:
        if base.get(loc) != "BASE %s builder=ok parser=ok" % loc:
            fail("the minimal packet of location %s (no properties) is not accepted: %s — harness baseline broken" % (loc, base.get(loc)))
    expected = len(locs) * len(propids) * N_OCC * N_VC
    if len(cells) != expected:
        fail("expected %d cells, harness printed %d" % (expected, len(cells)))
    have = repo_locations()
    covered = set(locs)
    missing = sorted(l for l in have if l not in covered)
    if missing:
        fail("/repo has property validators the harness does not enumerate: %s (add a location to harness/src/tables.rs)" % missing)
    changed = write_if_changed(os.path.join(GEN, "Placement.lean"), render(propids, names, locs, cells, aux))
    print("gen_tables: Gen/Placement.lean %s: %d locations x %d property ids x %d occurrence counts x %d value classes = %d cells, 2 paths"
          % ("rewritten" if changed else "unchanged", len(locs), len(propids), N_OCC, N_VC, len(cells)))
    if "--deviations" in sys.argv:
        deviations(text)
    return 0


if __name__ == "__main__":
    sys.exit(main())
