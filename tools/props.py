"""Registry of the properties the machinery decides: which theorem module, which harness
mode, which part of the correspondence (cone) belongs to each."""

PROPS = {
    "C20": {
        "id": "C20",
        "module": "MqttVerif.Props.C20",
        "model": "MqttVerif/Alloc/Model.lean (ValueAllocator: allocate, first_vacant, deallocate, use_value, is_used, clear, interval_count)",
        "mode": "alloc",
        "cone": r"^alloc\.|^parse",
        "rule": "exhaustive DFS of all operation sequences to depth 4 (quick) / 6 (thorough) over u8 ranges [1,3] [0,2] [5,5] [253,255] [0,0] [255,255] with values lowest-1..highest+1, plus seeded random walks near the extremes of u8/u16/u32 ranges",
        "trusted": ["BTreeSet with the overlap-is-equal comparator behaves as an ordered list of disjoint intervals (modelled, validated by the interval-list comparison after every call)"],
        "assumptions": ["deallocate() outside [lowest, highest] panics by contract (assert!) in both model and specification"],
        "technique": "Lean 4 refinement proof (interval allocator = set of free integers, for every range and operation sequence) + lock-step correspondence of the model with ValueAllocator",
        "level_text": "Proof: C20_trace_refines shows, for every lowest <= highest <= T::MAX and every operation sequence, that the impl-shaped model of ValueAllocator answers exactly like a set of free integers (smallest-first allocate, reserve iff free, used iff in range and not free, run count), C20_representation_invariant that the pool stays sorted/disjoint/maximally merged; the model is tied to the code by replaying every implementation call (answer and interval list) through the model: exhaustively for all op sequences to depth 4/6 on small u8 ranges incl. type max, plus random walks at u16/u32 extremes.",
        "level_note": "Trusted: Lean kernel; axioms propext/Classical.choice/Quot.sound only; the hand-written model of value_allocator.rs (tied by the lock-step run, which is differential testing); BTreeSet semantics under the overlap-is-equal comparator; the harness and driver parsers. u16/u32 instances are covered by the theorem being parametric in T::MAX and by random walks, not exhaustively.",
    },
    "C09": {
        "id": "C09",
        "module": "MqttVerif.Props.C09",
        "model": "MqttVerif/Framing/Model.lean (PacketBuilder::feed)",
        "mode": "frame",
        "cone": r"^frame\.|^parse",
        "rule": "all cut sets of short streams (<= 10 / 13 bytes) built from 0..3-byte frames, over-long and non-minimal Remaining Lengths, type-0 headers; random partitions (single bytes, one chunk, header-straddling) of long streams with bodies of 0,1,127,128,129,300,5000,16383,16384,16385 bytes and garbage",
        "trusted": ["Cursor<&[u8]> read/read_exact/position semantics (exercised, not modelled separately)"],
        "assumptions": [],
        "technique": "Lean 4 proof that the Rust-shaped feed loop equals a byte-at-a-time specification, chunk independence by an append lemma + lock-step correspondence of the model with PacketBuilder::feed",
        "level_text": "Proof: feed (modelled with the bulk payload copy and the fuel-bounded loop) equals the byte-step specification for every builder state and input (C09_feed_is_bytewise); for every stream and every partition into chunks the outputs and final builder state equal those of the specification on the concatenation (C09_chunk_independent, C09_any_two_partitions); bytes are conserved (C09_bytes_conserved); an over-long Remaining Length yields an error, consumes exactly up to the offending byte and resynchronises (C09_long_length_resync). Tie: every feed call of the real PacketBuilder (result, bytes consumed, builder digest) replayed through the model over all cut sets of short streams and random partitions of long ones; the chunking monitor compares the implementation's outputs with the whole-stream specification.",
        "level_note": "Trusted: Lean kernel; axioms propext/Classical.choice/Quot.sound only; hand-written model of packet_builder.rs tied by the lock-step run; Cursor semantics. The connection-level clause (same *events* for every chunking) is carried by the L2 model's recv being a function of (state, raw packet) and is exercised by the connection-level runs.",
    },
}

import json as _json
import os as _os

_ALL = [_json.loads(l)["id"] for l in open(_os.path.join(_os.path.dirname(_os.path.dirname(_os.path.abspath(__file__))), "properties.jsonl"))]
_REASONS = {}
NOT_APPLICABLE = [
    {"property_id": i, "reason": _REASONS.get(i, "not claimed yet: the model layer this property needs is still under construction (DESIGN.md §9); the technique itself applies")}
    for i in _ALL if i not in PROPS
]

HOOK_COMMITS = ["af28697"]
