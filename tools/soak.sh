#!/bin/bash
# soak.sh [seeds…] — run every quick generator through the driver for the given seeds (default 1..6)
# and print the diagnostics other than the known findings; used to validate new monitors on the unchanged tree
cd /verif
H=./harness/target/release/harness; D=./lean/.lake/build/bin/mqttdrv
seeds=${@:-1 2 3 4 5 6}
for sd in $seeds; do
  ( ( for a in "" reuse restore undet; do $H conn quick $sd $a; done; $H pair quick $sd; $H gates quick $sd; $H bulk quick $sd; $H codec quick $sd; $H tables quick $sd; $H frame quick $sd; $H alloc quick $sd ) 2>/dev/null | $D | grep "^VIOL\|^MDIFF\|^SUMMARY" | grep -v "sig=C05 qos2_dup\|adopted_version\|buildable.topic_nonempty" | cut -c1-600 | sed "s/^/[$sd] /" ) &
done
wait
