#!/usr/bin/env python3
"""seed_meta.py [name ...] — fill seeded/<name>/meta.json (property, site, needs_to_manifest, origin,
confirmed) from the seeding agent's README.md and from confirm.log written by confirm_seed.sh.
`detection` is written by run_seeds.py and left untouched."""
import json, os, re, sys
ROOT = os.path.dirname(os.path.dirname(os.path.abspath(__file__)))
names = sys.argv[1:] or sorted(os.listdir(os.path.join(ROOT, "seeded")))
for name in names:
    d = os.path.join(ROOT, "seeded", name)
    if not os.path.exists(os.path.join(d, "patch.diff")):
        continue
    metaf = os.path.join(d, "meta.json")
    meta = json.load(open(metaf)) if os.path.exists(metaf) else {}
    meta.setdefault("property", name.split("-")[0])
    readme = open(os.path.join(d, "README.md")).read() if os.path.exists(os.path.join(d, "README.md")) else ""
    if "site" not in meta:
        files = re.findall(r"^\+\+\+ b/(\S+)", open(os.path.join(d, "patch.diff")).read(), re.M)
        title = next((l.lstrip("# ").strip() for l in readme.splitlines() if l.startswith("#")), "")
        meta["site"] = ("; ".join(files) + " — " + title)[:300]
    if "needs_to_manifest" not in meta:
        m = re.search(r"(?is)(what (?:is|it) need(?:ed|s)[^\n]*\n)(.+?)(\n#|\n\*\*Demo|\n## |\Z)", readme)
        txt = re.sub(r"\s+", " ", m.group(2)).strip() if m else ""
        meta["needs_to_manifest"] = txt[:600]
    meta.setdefault("origin", "independent sub-agent given only the property text and a scratch worktree of /repo")
    logf = os.path.join(d, "confirm.log")
    if os.path.exists(logf):
        log = open(logf).read()
        suite = re.search(r"Summary.*tests run:[^\n]*", log)
        res = re.findall(r"test result: (\w+)", log)
        meta["confirmed"] = {
            "how": "tools/confirm_seed.sh in a scratch worktree (removed afterwards)",
            "suite_with_change": suite.group(0).strip() if suite else "?",
            "demo_with_change": res[0] if res else "?",
            "demo_without_change": res[1] if len(res) > 1 else "?",
        }
    json.dump(meta, open(metaf, "w"), indent=1)
    c = meta.get("confirmed", {})
    print(name, c.get("suite_with_change", "-")[-40:], c.get("demo_with_change"), c.get("demo_without_change"))
