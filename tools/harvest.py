#!/usr/bin/env python3
"""harvest.py <trace> : for every VIOL signature the driver reports on <trace>, save the
(linearised) trace prefix that exhibits it as corpus/<Cxx>/<sig>.trace (skips existing)."""
import os, re, subprocess, sys, importlib.machinery, importlib.util
ROOT = os.path.dirname(os.path.dirname(os.path.abspath(__file__)))
loader = importlib.machinery.SourceFileLoader("check", os.path.join(ROOT, "check"))
spec = importlib.util.spec_from_loader("check", loader)
check = importlib.util.module_from_spec(spec); loader.exec_module(check)
trace = sys.argv[1]
rc, out = check.run_driver(trace)
rep = check.parse_report(out)
for d in rep["diags"]:
    if d["kind"] != "VIOL":
        continue
    pid = d["sig"].split()[0]
    name = re.sub(r"[^A-Za-z0-9.]+", "_", d["sig"][len(pid):].strip())
    dest = os.path.join(ROOT, "corpus", pid, name + ".trace")
    if os.path.exists(dest):
        continue
    check.extract_trace(trace, d["first"], dest, ["witness for " + d["sig"], d["first"][:300]])
    print("saved", dest)
