#!/usr/bin/env python3
"""run_seeds.py [name ...] — for every seeded change under /verif/seeded/<name>/ apply patch.diff
to /repo, run the quick check of the property it breaks (and optionally others), undo the
patch, and record the outcome in seeded/<name>/meta.json (field `detection`)."""
import json, os, re, subprocess, sys, time
ROOT = os.path.dirname(os.path.dirname(os.path.abspath(__file__)))
names = sys.argv[1:] or sorted(os.listdir(os.path.join(ROOT, "seeded")))
for name in names:
    d = os.path.join(ROOT, "seeded", name)
    patch = os.path.join(d, "patch.diff")
    if not os.path.exists(patch):
        continue
    metaf = os.path.join(d, "meta.json")
    meta = json.load(open(metaf)) if os.path.exists(metaf) else {}
    pid = meta.get("property", name.split("-")[0])
    assert subprocess.run(["git", "-C", "/repo", "status", "--porcelain", "--untracked-files=no"], capture_output=True, text=True).stdout.strip() == "", "/repo not clean"
    r = subprocess.run(["git", "-C", "/repo", "apply", patch], capture_output=True, text=True)
    if r.returncode != 0:
        meta["detection"] = {"error": "patch no longer applies to /repo HEAD: " + r.stderr[:300]}
    else:
        try:
            t0 = time.time()
            out = subprocess.run([os.path.join(ROOT, "check"), pid, "quick"], capture_output=True, text=True, cwd=ROOT)
            viol = [l for l in out.stdout.splitlines() if l.startswith("VIOLATION")]
            detail = [l.strip()[:300] for l in out.stdout.splitlines() if l.startswith("  ")][:6]
            meta["detection"] = {
                "check": "./check %s quick" % pid,
                "exit": out.returncode,
                "detected": out.returncode == 1 and bool(viol),
                "with_failing_input": any("no-failing-input-found" not in l for l in viol),
                "violation_lines": [re.sub(r"replay=\S+/", "replay=", l) for l in viol][:8],
                "detail": detail,
                "repo_head": subprocess.run(["git", "-C", "/repo", "rev-parse", "--short", "HEAD"], capture_output=True, text=True).stdout.strip(),
                "wall_s": round(time.time() - t0, 1),
            }
        finally:
            subprocess.run(["git", "-C", "/repo", "checkout", "--", "."], check=True)
    meta.setdefault("property", pid)
    json.dump(meta, open(metaf, "w"), indent=1)
    print(name, json.dumps(meta["detection"])[:300])
