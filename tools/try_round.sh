#!/bin/bash
# try_round.sh <out-suffix e.g. out4> <first index e.g. 5> <Cxx> [<Cxx> …] — store the agents' changes as seeded/<Cxx>-<i>, <i+1>
# and try each against the property's generators (driver only, no proof build)
suf=$1; first=$2; shift 2
cd /verif
for p in "$@"; do for n in 1 2; do
  d=/tmp/mut/$p-$suf/$n; m=$((first+n-1))
  [ -f $d/patch.diff ] || { echo "$p-$m: no patch"; continue; }
  mkdir -p seeded/$p-$m; cp $d/patch.diff $d/demo.rs $d/README.md seeded/$p-$m/ 2>/dev/null
  git -C /repo apply --check $d/patch.diff 2>/dev/null || { echo "$p-$m: patch does not apply"; continue; }
  echo "== $p-$m: $(head -1 $d/README.md | cut -c1-110)"
  tools/try_seed.sh $d/patch.diff $p 260 | grep "^VIOL sig=$p\|^SUMMARY" | head -3
done; done
