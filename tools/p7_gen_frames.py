#!/usr/bin/env python3
"""Generates lean/MqttVerif/Conn/Lemmas/P7Frame.lean: mechanical frame lemmas
`(helper c args).s.FIELD = c.s.FIELD` for the helpers of Conn/Model.lean (agent P7)."""
import sys

FIELDS = ["handled", "store", "pidMan", "puback", "pubrec", "pubcomp", "suback", "unsuback",
          "status", "needStore", "ver", "autoPub", "mpsSend"]
EVP = ["recvs", "sends", "errs"]   # event projections

# name, binders, expression, touched fields, touched event projections
# '*' in events = not generated
H = [
 ("releaseId", "(c : C) (id : Nat)", "releaseId c id", {"pidMan"}, set()),
 ("releaseIfUsed", "(c : C) (id : Nat)", "releaseIfUsed c id", {"pidMan"}, set()),
 ("cancelTimers", "(c : C)", "cancelTimers c", set(), set()),
 ("sendPostProcess", "(c : C)", "sendPostProcess c", set(), set()),
 ("refreshPingreqRecv", "(c : C)", "refreshPingreqRecv c", set(), set()),
 ("initConn", "(c : C) (b : Bool)", "initConn c b",
    {"suback", "unsuback", "needStore", "sendMax", "tas", "tar", "recvMax", "publishRecv"}, set()),
 ("clearStoreRelated", "(c : C)", "clearStoreRelated c",
    {"pidMan", "puback", "pubrec", "pubcomp", "store", "handled"}, set()),
 ("validateTopicAlias", "(c : C) (ao : Option Nat)", "(validateTopicAlias c ao).2", {"tas"}, set()),
 ("decSendCount", "(c : C)", "decSendCount c", set(), set()),
 ("psV5Disconnect", "(c : C) (p : Pkt)", "psV5Disconnect c p", {"status"}, {"sends", "errs"}),
 ("psV3Disconnect", "(c : C) (p : Pkt)", "psV3Disconnect c p", {"status"}, {"sends", "errs"}),
 ("handleV3Error", "(c : C) (e : Nat)", "handleV3Error c e", set(), {"errs"}),
 ("v5DisconnectOrClose", "(c : C) (d : Pkt)", "v5DisconnectOrClose c d", {"status"}, {"sends", "errs"}),
 ("handleV5Error", "(c : C) (e : Nat)", "handleV5Error c e", {"status"}, {"sends", "errs"}),
 ("vErr", "(c : C) (e : Nat)", "vErr c e", {"status"}, {"sends", "errs"}),
 ("connectSendProp", "(c : C) (i v : Nat)", "connectSendProp c i v", {"needStore", "tar", "recvMax"}, set()),
 ("connackSendProp", "(c : C) (i v : Nat)", "connackSendProp c i v", {"tar", "recvMax"}, set()),
 ("connectRecvProp", "(c : C) (i v : Nat)", "connectRecvProp c i v", {"needStore", "tas", "sendMax", "mpsSend"}, set()),
 ("storeAdd", "(c : C) (id : Nat) (p : Pkt) (site : String)", "storeAdd c id p site", {"store"}, set()),
 ("tasInsert", "(c : C) (t : List Nat) (a : Nat) (site : String)", "tasInsert c t a site", {"tas"}, set()),
 ("autoAlias", "(c : C) (p : Pkt)", "(autoAlias c p).1", {"tas"}, set()),
 ("psV5PublishTail", "(c : C) (p : Pkt) (rel : Option Nat)", "psV5PublishTail c p rel", set(), {"sends"}),
 ("psV3Simple", "(c : C) (p : Pkt)", "psV3Simple c p", set(), {"sends", "errs"}),
 ("psV5Simple", "(c : C) (p : Pkt)", "psV5Simple c p", set(), {"sends", "errs"}),
 ("psV5Puback", "(c : C) (p : Pkt)", "psV5Puback c p", {"publishRecv"}, {"sends", "errs"}),
 ("psV5Pubcomp", "(c : C) (p : Pkt)", "psV5Pubcomp c p", {"publishRecv"}, {"sends", "errs"}),
 ("psV5Pubrec", "(c : C) (p : Pkt)", "psV5Pubrec c p", {"handled", "publishRecv"}, {"sends", "errs"}),
 ("psPingreq", "(c : C) (p : Pkt)", "psPingreq c p", set(), {"sends", "errs"}),
 ("psV5Auth", "(c : C) (p : Pkt)", "psV5Auth c p", set(), {"sends", "errs"}),
 ("psPubrel", "(c : C) (p : Pkt)", "psPubrel c p", {"store", "pubcomp"}, {"sends", "errs"}),
 ("psSubUnsub", "(c : C) (p : Pkt)", "psSubUnsub c p", {"pidMan", "suback", "unsuback"}, {"sends", "errs"}),
 ("pubRefuseCleanup", "(c : C) (pid : Option Nat)", "pubRefuseCleanup c pid",
    {"pidMan", "store", "puback", "pubrec"}, set()),
 ("notifyTimerFired", "(c : C) (k : Timer)", "notifyTimerFired c k", {"status"}, {"sends", "errs"}),
 ("setPingreqSendInterval", "(c : C) (d : Option Nat)", "setPingreqSendInterval c d", set(), set()),
 ("acquire", "(c : C)", "(acquire c).2", {"pidMan"}, set()),
 ("register", "(c : C) (id : Nat)", "(register c id).2", {"pidMan"}, set()),
 # fix ba1a812: the id also leaves the four wait sets (and the counter, not a FIELD here)
 ("releasePacketId", "(c : C) (id : Nat)", "releasePacketId c id",
    {"pidMan", "suback", "unsuback", "puback", "pubrec"}, set()),
 ("eraseStoredPublish", "(c : C) (id : Nat)", "eraseStoredPublish c id",
    {"pidMan", "store", "puback", "pubrec"}, set()),
 ("restoreOne", "(c : C) (p : Pkt)", "restoreOne c p",
    {"pidMan", "store", "puback", "pubrec", "pubcomp"}, set()),
 ("prV5PublishAlias", "(c : C) (p : Pkt)", "(prV5PublishAlias c p).1", {"status"}, {"sends", "errs"}),
 ("prPlain", "(c : C) (x : Except Nat Pkt)", "prPlain c x", {"status"}, {"recvs", "sends", "errs"}),
 ("prPingreq", "(c : C) (x : Except Nat Pkt)", "prPingreq c x", {"status"}, {"recvs", "sends", "errs"}),
 ("prPingresp", "(c : C) (x : Except Nat Pkt)", "prPingresp c x", {"status"}, {"recvs", "sends", "errs"}),
 ("prDisconnect", "(c : C) (x : Except Nat Pkt)", "prDisconnect c x", {"status"}, {"recvs", "sends", "errs"}),
 ("prSubUnsuback", "(c : C) (b : Bool) (x : Except Nat Pkt)", "prSubUnsuback c b x",
    {"status", "pidMan", "suback", "unsuback"}, {"recvs", "sends", "errs"}),
]

HEAD0 = '''import MqttVerif.Conn.Step
/-!
# Mechanical frame lemmas for the helpers of `Conn/Model.lean`   (agent P7)

GENERATED by `tools/p7_gen_frames.py` — do not edit by hand.
`(helper c args).s.FIELD = c.s.FIELD`, `(helper c args).cfg = c.cfg`, and the event projections
`recvs` / `sends` / `errs` of helpers that never push such an event.
-/
namespace MqttVerif.Conn
open MqttVerif

/-- packets of the `NotifyPacketReceived` events, in order -/
def recvs : List Ev → List Pkt
  | [] => []
  | .recv p :: t => p :: recvs t
  | _ :: t => recvs t

/-- packets of the `RequestSendPacket` events, in order -/
def sends : List Ev → List Pkt
  | [] => []
  | .send p _ :: t => p :: sends t
  | _ :: t => sends t

/-- codes of the `NotifyError` events, in order -/
def errs : List Ev → List Nat
  | [] => []
  | .error e :: t => e :: errs t
  | _ :: t => errs t

@[simp] theorem recvs_nil : recvs [] = [] := rfl
@[simp] theorem sends_nil : sends [] = [] := rfl
@[simp] theorem errs_nil : errs [] = [] := rfl
@[simp] theorem recvs_cons (e : Ev) (t : List Ev) :
    recvs (e :: t) = (match e with | .recv p => [p] | _ => []) ++ recvs t := by
  cases e <;> simp [recvs]
@[simp] theorem sends_cons (e : Ev) (t : List Ev) :
    sends (e :: t) = (match e with | .send p _ => [p] | _ => []) ++ sends t := by
  cases e <;> simp [sends]
@[simp] theorem errs_cons (e : Ev) (t : List Ev) :
    errs (e :: t) = (match e with | .error x => [x] | _ => []) ++ errs t := by
  cases e <;> simp [errs]
@[simp] theorem recvs_append (a b : List Ev) : recvs (a ++ b) = recvs a ++ recvs b := by
  induction a with
  | nil => rfl
  | cons e t ih => simp [ih]
@[simp] theorem sends_append (a b : List Ev) : sends (a ++ b) = sends a ++ sends b := by
  induction a with
  | nil => rfl
  | cons e t ih => simp [ih]
@[simp] theorem errs_append (a b : List Ev) : errs (a ++ b) = errs a ++ errs b := by
  induction a with
  | nil => rfl
  | cons e t ih => simp [ih]

theorem mem_recvs {p : Pkt} {l : List Ev} : p ∈ recvs l ↔ Ev.recv p ∈ l := by
  induction l with
  | nil => simp
  | cons e t ih => cases e <;> simp [ih]
theorem mem_sends {p : Pkt} {l : List Ev} : p ∈ sends l ↔ ∃ r, Ev.send p r ∈ l := by
  induction l with
  | nil => simp
  | cons e t ih => cases e <;> simp [ih, exists_or]
theorem mem_errs {x : Nat} {l : List Ev} : x ∈ errs l ↔ Ev.error x ∈ l := by
  induction l with
  | nil => simp
  | cons e t ih => cases e <;> simp [ih]

@[simp] theorem push_s (c : C) (e : Ev) : (c.push e).s = c.s := rfl
@[simp] theorem push_cfg (c : C) (e : Ev) : (c.push e).cfg = c.cfg := rfl
@[simp] theorem push_ev (c : C) (e : Ev) : (c.push e).ev = c.ev ++ [e] := rfl
@[simp] theorem err_s (c : C) (e : Nat) : (c.err e).s = c.s := rfl
@[simp] theorem err_cfg (c : C) (e : Nat) : (c.err e).cfg = c.cfg := rfl
@[simp] theorem err_ev (c : C) (e : Nat) : (c.err e).ev = c.ev ++ [.error e] := rfl
@[simp] theorem setPanic_cfg (c : C) (x : String) : (c.setPanic x).cfg = c.cfg := rfl
@[simp] theorem setPanic_ev (c : C) (x : String) : (c.setPanic x).ev = c.ev := rfl

/-- projections are pushed through `if`s (no case explosion) -/
macro "frame_simp" f:ident : tactic =>
  `(tactic| simp [$f:ident, C.setPanic, apply_ite C.s, apply_ite C.ev, apply_ite C.cfg, apply_ite Prod.fst,
      apply_ite Prod.snd, apply_ite recvs, apply_ite sends, apply_ite errs,
      APPLY_ITES])

/-- close by `frame_simp` where possible, `split` the head `match`/`if` otherwise -/
macro "frame_deep" f:ident : tactic =>
  `(tactic| (simp only [$f:ident]; repeat' (first | (frame_simp $f; done) | split)))

/-- the standard script for a frame lemma -/
macro "frame_tac" f:ident : tactic =>
  `(tactic| first
    | (frame_simp $f; done)
    | (simp only [$f:ident]; split <;> frame_simp $f <;> done)
    | (simp only [$f:ident]; split <;> (try split) <;> frame_simp $f <;> done)
    | (simp only [$f:ident]; split <;> (try split) <;> (try split) <;> frame_simp $f <;> done)
    | (simp only [$f:ident]; (repeat' split) <;> simp <;> done))

'''

def main(out, n=None):
    HEAD = HEAD0.replace('APPLY_ITES', ', '.join('apply_ite St.'+f for f in FIELDS))
    o = [HEAD]
    for (name, binders, expr, touched, evtouched) in H[:n]:
        o.append(f"/-! ### `{name}` -/\n")
        unf = name
        o.append(f"@[simp] theorem {name}_cfg {binders} : ({expr}).cfg = c.cfg := by\n  frame_tac {unf}\n")
        for f in FIELDS + ["panicfree"]:
            if f == "panicfree":
                continue
            if f in touched:
                continue
            o.append(f"@[simp] theorem {name}_{f} {binders} : ({expr}).s.{f} = c.s.{f} := by\n  frame_tac {unf}\n")
        for e in EVP:
            if e in evtouched:
                continue
            o.append(f"@[simp] theorem {name}_{e} {binders} : {e} ({expr}).ev = {e} c.ev := by\n  frame_tac {unf}\n")
        o.append("")
    o.append("end MqttVerif.Conn\n")
    open(out, "w").write("\n".join(o))

if __name__ == "__main__":
    main(sys.argv[1], int(sys.argv[2]) if len(sys.argv) > 2 else None)
