#!/bin/bash
# confirm_seed.sh <outdir of the seeding agent, e.g. /tmp/mut/C15-out/1> <name e.g. C15-1>
# Confirms in a scratch worktree: (a) suite passes with the change, (b) demo fails with it,
# (c) demo passes without it.  Writes /verif/seeded/<name>/{patch.diff,demo.rs,README.md,confirm.log}
set -u
exec < /dev/null
src=$1; name=$2
wt=/tmp/confirm-$name
# CONFIRM_SHARED=1: one worktree path and one target dir for a series of seeds (only the crate is rebuilt)
[ -n "${CONFIRM_SHARED:-}" ] && wt=/tmp/confirm-shared
log=/verif/seeded/$name/confirm.log
mkdir -p /verif/seeded/$name
cp $src/patch.diff $src/demo.rs /verif/seeded/$name/ 2>/dev/null
cp $src/README.md /verif/seeded/$name/README.md 2>/dev/null
git -C /repo worktree remove --force $wt 2>/dev/null
git -C /repo worktree add -q $wt HEAD || exit 2
cd $wt
export CARGO_NET_OFFLINE=true CARGO_TARGET_DIR=$wt/target
[ -n "${CONFIRM_SHARED:-}" ] && export CARGO_TARGET_DIR=/tmp/confirm-target
{
echo "== apply"; git apply $src/patch.diff && echo applied
echo "== (a) suite with the change"
cargo nextest run --workspace --no-fail-fast --offline --test-threads 4 2>&1 | tail -3
cp $src/demo.rs tests/seed_demo.rs
echo "== (b) demo with the change (expected: FAIL)"
cargo test --offline --test seed_demo 2>&1 | grep -E "^test |test result|error" | head -20
git checkout -q -- src
echo "== (c) demo without the change (expected: ok)"
cargo test --offline --test seed_demo 2>&1 | grep -E "^test |test result|error" | head -20
} > $log 2>&1
cd /; git -C /repo worktree remove --force $wt
tail -30 $log
