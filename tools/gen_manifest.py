#!/usr/bin/env python3
"""Regenerates /verif/MANIFEST.json from tools/props.py (run after changing the registry)."""
import json
import os
import subprocess
import sys

ROOT = os.path.dirname(os.path.dirname(os.path.abspath(__file__)))
sys.path.insert(0, os.path.join(ROOT, "tools"))
from props import PROPS, NOT_APPLICABLE, HOOK_COMMITS  # noqa: E402

checks = []
for pid in sorted(PROPS):
    p = PROPS[pid]
    checks.append({
        "property_id": pid,
        "quick_cmd": "./check %s quick" % pid,
        "thorough_cmd": "./check %s thorough" % pid,
        "evidence_file": "/verif/evidence/%s.json" % pid,
        "replay_cmd_template": "./check replay {path}",
        "engine": "lean-proofs+lockstep",
        "level_claimed": {
            "category": "proof",
            "text": p["level_text"],
            "design_ref": p.get("design_ref", "DESIGN.md §5 " + pid),
        },
        "level_note": p["level_note"],
        "technique": p["technique"],
    })

manifest = {
    "version": 1,
    "setup_cmd": "./check setup",
    "hooks": {
        "guard": "verif-hooks",
        "enable": "cargo feature: /verif/harness depends on /repo with features = [\"verif-hooks\"] (cd /verif/harness && cargo build --offline)",
        "baseline_off_cmd": "cd /repo && (cargo nextest run --workspace --no-fail-fast --offline --test-threads 8 || cargo test --workspace --no-fail-fast --offline)",
        "source_commits": HOOK_COMMITS,
        "add_only": True,
    },
    "engines": [
        {"name": "lean-proofs", "path": "lean/MqttVerif/Props", "serves_properties": sorted(PROPS),
         "kind_free_text": "Lean 4 theorems about the executable model (kernel-checked; #print axioms audit per theorem; leanchecker in the thorough tier)"},
        {"name": "lockstep", "path": "harness/ + lean/Main.lean (mqttdrv)", "serves_properties": sorted(PROPS),
         "kind_free_text": "correspondence check: the Rust harness runs the real code in-process (hooks on), the compiled Lean driver replays every call through the model, compares answers/events/state digests and evaluates the property monitors on the implementation's trace"},
        {"name": "gen-tables", "path": "tools/gen_tables.py", "serves_properties": [p for p in sorted(PROPS) if PROPS[p].get("uses_gen")],
         "kind_free_text": "finite decision tables and constants regenerated from /repo on every run (exhaustive execution / source parsing) into lean/MqttVerif/Gen, then re-proved equal to the specification by decide"},
    ],
    "checks": checks,
    "notes": "One entry point: ./check <id> quick|thorough. Known findings: KNOWN_FINDINGS.txt. Seeded changes used to test the checks: seeded/. Design, trusted base and per-property theorem lists: DESIGN.md.",
    "not_applicable": NOT_APPLICABLE,
}
with open(os.path.join(ROOT, "MANIFEST.json"), "w") as f:
    json.dump(manifest, f, indent=1)
    f.write("\n")
# validate
try:
    r = subprocess.run(["python3-vt", "-c", "import json,jsonschema,sys; jsonschema.validate(json.load(open('%s/MANIFEST.json')), json.load(open('/root/.vp/MANIFEST.schema.json'))); print('MANIFEST valid')" % ROOT], capture_output=True, text=True)
    print(r.stdout.strip() or r.stderr.strip()[-500:])
except FileNotFoundError:
    print("python3-vt not available; MANIFEST not validated")
