import MqttVerif.Conn.Lemmas.PairSched
/-! generator of the phase tables `MqttVerif/Conn/Lemmas/PairTab*.lean` (scratch, not part of the deliverable):
    breadth-first search over the pair system on concrete packets (v = 5), printed symbolically -/
open MqttVerif MqttVerif.Conn MqttVerif.Conn.Pair

def gA (q : Nat) : Pkt := exPub 5 q
def gB (q : Nat) : Pkt :=
  { ver := 5, kind := .publish, qos := q, pid := some 2, topic := [99], payloadLen := 3, tag := 78, size := 10 }
def gS (q : Nat) : Pkt :=
  { ver := 5, kind := .publish, qos := q, pid := some 1, topic := [100], payloadLen := 3, tag := 79, size := 10 }

structure Scen where
  name : String
  kind : Nat
  d : Bool
  q1 : Nat
  q2 : Nat

def Scen.p1 (s : Scen) : Pkt := gA s.q1
def Scen.p2 (s : Scen) : Pkt := if s.kind = 5 then gB s.q2 else gS s.q2
def Scen.start (s : Scen) : Sys :=
  if s.kind = 5 then startTwo 5 s.d s.p1 s.p2 else startBoth 5 s.p1 s.p2

def coreOf (y : Sys) : Sys := { y with logC := [], logS := [] }

structure Node where
  core : Sys
  c1 : Nat
  c2 : Nat
  r1 : Nat
  r2 : Nat
deriving DecidableEq

instance : Inhabited Node := ⟨⟨{ c := idle 5 true, s := idle 5 false }, 0, 0, 0, 0⟩⟩

structure GTrans where
  tgt : Nat
  nS : List Pkt
  nC : List Pkt
  rC : List Nat
  rS : List Nat

def acts4 : List Act4 := [.toS, .toC, .deliver, .lose]

def capc (q : Nat) : Nat := if q = 2 then 2 else 1

def succNode (s : Scen) (nd : Node) (a : Act4) : Node × (List Pkt × List Pkt × List Nat × List Nat) :=
  let y := act4 5 nd.core a
  let nS := pubNotes y.logS
  let nC := pubNotes y.logC
  let rC := releasedIds y.logC
  let rS := releasedIds y.logS
  let (d1, d2, e1, e2) :=
    if s.kind = 5 then
      let nR := if s.d then nS else nC
      let rP := if s.d then rC else rS
      ((nR.filter (fun Q => Q.pid = some 1)).length, (nR.filter (fun Q => Q.pid = some 2)).length, rP.count 1, rP.count 2)
    else (nS.length, nC.length, rC.length, rS.length)
  ({ core := coreOf y, c1 := min (capc s.q1) (nd.c1 + d1), c2 := min (capc s.q2) (nd.c2 + d2),
     r1 := min 2 (nd.r1 + e1), r2 := min 2 (nd.r2 + e2) }, (nS, nC, rC, rS))

partial def bfsLoop (s : Scen) (nodes : Array Node) (trans : Array (List GTrans)) (i : Nat) : Array Node × Array (List GTrans) :=
  if h : i < nodes.size then
    let nd := nodes[i]
    let (nodes, row) := acts4.foldl (fun (acc : Array Node × List GTrans) a =>
      let (nodes, row) := acc
      let (nd', (nS, nC, rC, rS)) := succNode s nd a
      match nodes.findIdx? (· == nd') with
      | some j => (nodes, row ++ [⟨j, nS, nC, rC, rS⟩])
      | none => (nodes.push nd', row ++ [⟨nodes.size, nS, nC, rC, rS⟩])) (nodes, [])
    bfsLoop s nodes (trans.push row) (i + 1)
  else (nodes, trans)

def kindName : Kind → String
  | .puback => "puback" | .pubrec => "pubrec" | .pubrel => "pubrel" | .pubcomp => "pubcomp"
  | .publish => "publish" | .connect => "connect" | .connack => "connack" | _ => "other"

def showPkt (s : Scen) (p : Pkt) : Except String String :=
  match p.kind with
  | .publish =>
    let (nm, orig) := if p.tag = 77 then ("P1", s.p1) else ("P2", s.p2)
    if p = orig then .ok nm else if p = orig.asDup then .ok s!"{nm}.asDup" else .error "unknown publish"
  | k =>
    let id := p.pid.getD 0
    if p = ackN 5 k id then .ok s!"(ackN v .{kindName k} {id})"
    else if p = ackRcN id then .ok s!"(pcA v {id})"
    else .error s!"unknown packet {kindName k}"

def showList (xs : List String) : String := "[" ++ ", ".intercalate xs ++ "]"

def showPkts (s : Scen) (ps : List Pkt) : Except String String := do
  let xs ← ps.mapM (showPkt s)
  return showList xs

def showSt (s : Scen) (st : St) (isC : Bool) : Except String String := do
  let pool := st.pidMan.pool
  let poolS := showList (pool.map (fun iv => s!"⟨{iv.lo}, {iv.hi}⟩"))
  let storeS ← st.store.mapM (fun e => do let x ← showPkt s e.2; return s!"({e.1}, {x})")
  if st ≠ mkSt 5 isC .connected pool st.store st.puback st.pubrec st.pubcomp st.handled st.publishRecv then
    throw "state is not of the mkSt shape"
  let prv := if st.publishRecv = [] then "[]" else s!"(prl v {st.publishRecv})"
  return s!"mkSt v {isC} .connected {poolS} {showList storeS} {st.puback} {st.pubrec} {st.pubcomp} {st.handled} {prv}"

def showSys (s : Scen) (y : Sys) : Except String String := do
  let c ← showSt s y.c true
  let sv ← showSt s y.s false
  let a ← showPkts s y.c2s
  let b ← showPkts s y.s2c
  return "{ c := " ++ c ++ ",\n      s := " ++ sv ++ ",\n      c2s := " ++ a ++ ", s2c := " ++ b ++ " }"

def rowsOf (n : Nat) (f : Nat → Option String) (dflt : String) : String := Id.run do
  let mut out := ""
  let mut omitted := false
  for i in List.range n do
    match f i with
    | some r => out := out ++ s!"  | .p{i} => {r}\n"
    | none => omitted := true
  if omitted then out := out ++ s!"  | _ => {dflt}\n"
  return out

def genScen (s : Scen) : Except String String := do
  let start : Node := { core := coreOf s.start, c1 := 0, c2 := 0, r1 := 0, r2 := 0 }
  let (nodes, trans) := bfsLoop s #[start] #[] 0
  let n := nodes.size
  -- checks
  for nd in nodes do
    if (s.q1 = 2 ∧ nd.c1 ≥ 2) ∨ (s.q2 = 2 ∧ nd.c2 ≥ 2) ∨ nd.r1 ≥ 2 ∨ nd.r2 ≥ 2 then
      throw s!"{s.name}: VIOLATION: a QoS 2 message notified twice or an identifier released twice"
  let idleSys : Sys := { c := idle 5 true, s := idle 5 false }
  let dones := (List.range n).filter (fun i => nodes[i]!.core = idleSys)
  let done ← match dones with
    | [i] => pure i
    | _ => throw s!"{s.name}: {dones.length} idle phases"
  let dn := nodes[done]!
  if dn.c1 ≠ 1 ∨ dn.c2 ≠ 1 ∨ dn.r1 ≠ 1 ∨ dn.r2 ≠ 1 then throw s!"{s.name}: counters at done"
  let isK5 := s.kind = 5
  let hAty := s!"IsPub v {s.q1} P1"
  let hBty := if isK5 then s!"IsPubN v {s.q2} 2 P2" else s!"IsPub v {s.q2} P2"
  let runM := if isK5 then "run5" else "run4"
  let startTerm := if isK5 then s!"startTwo v {s.d} P1 P2" else "startBoth v P1 P2"
  let orOf (q : Nat) : String := if q = 1 then "Or.inl rfl" else "Or.inr rfl"
  let mut o := ""
  o := o ++ "import MqttVerif.Conn.Lemmas.PairSched\n"
  o := o ++ "/-!\n# Generated phase table (helper for `Props/C01L2c.lean`)\n\n"
  o := o ++ (if isK5 then
      s!"Two SAME-direction exchanges in flight: `startTwo v {s.d} P1 P2`, `P1` QoS {s.q1} (identifier 1), `P2` QoS {s.q2} (identifier 2).\n"
    else
      s!"Two OPPOSITE exchanges in flight: `startBoth v P1 P2`, `P1` QoS {s.q1} client→server, `P2` QoS {s.q2} server→client.\n")
  o := o ++ s!"`Ph`: the {n} shapes (with the notification / release counters) the pair passes through under ANY schedule of\n"
  o := o ++ "`Act4` actions (found by a breadth-first search on concrete packets; that the table is right for arbitrary\n"
  o := o ++ "packets and both versions is what `closure` proves, one lemma `cl_p<i>` per phase, by the step lemmas).\n"
  o := o ++ "`sysOf`: the shape; `next`: the successor; `nS nC rC rS`: the PUBLISH notifications at the server / client application and\n"
  o := o ++ "the identifiers released by the client / server in that step; `c1 c2 r1 r2`: has message 1 / 2 been notified, identifier\n"
  o := o ++ "released (1 = yes; for a QoS 2 message and for the releases the counters are exact: `c?x`, `r?_step`).\n-/\n"
  o := o ++ "set_option linter.unusedSimpArgs false\nset_option linter.unusedVariables false\n"
  o := o ++ s!"namespace MqttVerif.Conn.Pair.{s.name}\nopen MqttVerif MqttVerif.Conn MqttVerif.Conn.Pair\n\n"
  o := o ++ "inductive Ph\n"
  for i in List.range n do o := o ++ s!"  | p{i}\n"
  o := o ++ "deriving DecidableEq, Repr\n\n"
  o := o ++ "def sysOf (v : Nat) (P1 P2 : Pkt) : Ph → Sys\n"
  for i in List.range n do
    let t ← showSys s nodes[i]!.core
    o := o ++ s!"  | .p{i} =>\n    {t}\n"
  o := o ++ "\ndef next (ph : Ph) (a : Act4) : Ph :=\n  match ph with\n"
  for i in List.range n do
    let r := trans[i]!
    o := o ++ s!"  | .p{i} => sel a" ++ String.join (r.map (fun t => s!" .p{t.tgt}")) ++ "\n"
  -- outputs
  let pktRow (f : GTrans → List Pkt) (i : Nat) : Except String (Option String) := do
    let r := trans[i]!
    if r.all (fun t => f t = []) then return none
    let xs ← r.mapM (fun t => showPkts s (f t))
    return some ("sel a " ++ " ".intercalate xs)
  let natRow (f : GTrans → List Nat) (i : Nat) : Option String :=
    let r := trans[i]!
    if r.all (fun t => f t = []) then none
    else some ("sel a " ++ " ".intercalate (r.map (fun t => toString (f t))))
  let mut emptyS := false
  let mut emptyC := false
  let mut emptyRC := false
  let mut emptyRS := false
  for (nm, f) in [("nS", GTrans.nS), ("nC", GTrans.nC)] do
    let rows ← (List.range n).mapM (pktRow f)
    if rows.all Option.isNone then
      o := o ++ s!"\ndef {nm} (P1 P2 : Pkt) (ph : Ph) (a : Act4) : List Pkt := []\n"
      if nm = "nS" then emptyS := true else emptyC := true
    else
      o := o ++ s!"\ndef {nm} (P1 P2 : Pkt) (ph : Ph) (a : Act4) : List Pkt :=\n  match ph with\n" ++ rowsOf n (fun i => rows[i]!) "[]"
  for (nm, f) in [("rC", GTrans.rC), ("rS", GTrans.rS)] do
    let rows := (List.range n).map (natRow f)
    if rows.all Option.isNone then
      o := o ++ s!"\ndef {nm} (ph : Ph) (a : Act4) : List Nat := []\n"
      if nm = "rC" then emptyRC := true else emptyRS := true
    else
      o := o ++ s!"\ndef {nm} (ph : Ph) (a : Act4) : List Nat :=\n  match ph with\n" ++ rowsOf n (fun i => rows[i]!) "[]"
  for (nm, f) in [("c1", Node.c1), ("c2", Node.c2), ("r1", Node.r1), ("r2", Node.r2)] do
    o := o ++ s!"\ndef {nm} : Ph → Nat\n" ++ rowsOf n (fun i => if f nodes[i]! = 0 then none else some (toString (f nodes[i]!))) "0"
  o := o ++ s!"\ndef done : Ph := .p{done}\n"
  -- closure
  o := o ++ s!"\nsection\nvariable \{v : Nat} \{P1 P2 : Pkt} (hv : v = 4 ∨ v = 5) (hA : {hAty}) (hB : {hBty})\ninclude hv hA hB\n"
  let obsOf (i : String) := s!"Obs2 (sysOf v P1 P2 (next {i} a)) (nS P1 P2 {i} a) (nC P1 P2 {i} a) (rC {i} a) (rS {i} a) (act4 v (sysOf v P1 P2 {i}) a)"
  for i in List.range n do
    o := o ++ s!"\ntheorem cl_p{i} (a : Act4) :\n    {obsOf s!".p{i}"} := by\n"
    o := o ++ s!"  have hv' := hv; have h1 : ({s.q1} : Nat) = 1 ∨ ({s.q1} : Nat) = 2 := {orOf s.q1}; have h2 : ({s.q2} : Nat) = 1 ∨ ({s.q2} : Nat) = 2 := {orOf s.q2}\n"
    o := o ++ s!"  rcases hv' with rfl | rfl <;> cases a <;> {runM} hv h1 hA h2 hB [sysOf, next, sel, nS, nC, rC, rS, act4, pcA, prl]\n"
  o := o ++ s!"\ntheorem closure (ph : Ph) (a : Act4) :\n    {obsOf "ph"} := by\n  cases ph\n"
  for i in List.range n do o := o ++ s!"  · exact cl_p{i} hv hA hB a\n"
  o := o ++ s!"\ntheorem start_obs : Obs2 (sysOf v P1 P2 .p0) [] [] [] [] ({startTerm}) := by\n"
  o := o ++ s!"  have hv' := hv; have h1 : ({s.q1} : Nat) = 1 ∨ ({s.q1} : Nat) = 2 := {orOf s.q1}; have h2 : ({s.q2} : Nat) = 1 ∨ ({s.q2} : Nat) = 2 := {orOf s.q2}\n"
  o := o ++ s!"  rcases hv' with rfl | rfl <;> {runM} hv h1 hA h2 hB [sysOf]\n"
  o := o ++ "\nomit hA hB in\ntheorem sys_done : sysOf v P1 P2 done = established v := by\n  rw [established_eq v hv]; rfl\n"
  o := o ++ "end\n"
  o := o ++ "\ntheorem sysOf_logs (v : Nat) (P1 P2 : Pkt) (ph : Ph) : (sysOf v P1 P2 ph).logC = [] ∧ (sysOf v P1 P2 ph).logS = [] := by\n  cases ph <;> exact ⟨rfl, rfl⟩\n"
  o := o ++ "\ntheorem h8 (ph : Ph) : phRunG next ph (List.replicate 8 .deliver) = done := by\n  cases ph <;> rfl\n"
  -- finite checks
  let tac (extra : String) := s!"  intro ph a; cases ph <;> cases a <;> simp [next, sel, nS, nC, rC, rS, c1, c2, r1, r2, cntOf, notesOf, sameMsg{extra}]\n"
  let pid2 := if isK5 then "some 2" else "some 1"
  if isK5 then
    o := o ++ s!"\nsection\nvariable \{P1 P2 : Pkt} (a1 : P1.pid = some 1) (a2 : P2.pid = {pid2})\ninclude a1 a2\n"
  else
    o := o ++ s!"\nsection\nvariable \{P1 P2 : Pkt}\n"
  if isK5 then
    let (nR, rP) := if s.d then ("nS", "rC") else ("nC", "rS")
    if (s.d && !(emptyC && emptyRS)) || (!s.d && !(emptyS && emptyRC)) then throw s!"{s.name}: the publisher is notified / the receiver releases"
    o := o ++ s!"\ntheorem hok : ∀ ph a, ∀ Q ∈ {nR} P1 P2 ph a, (Q.pid = some 1 ∧ sameMsg P1 Q) ∨ (Q.pid = some 2 ∧ sameMsg P2 Q) := by\n" ++ tac ", a1, a2"
    o := o ++ s!"\nomit a1 a2 in\ntheorem hrel : ∀ ph a, ∀ id ∈ {rP} ph a, id = 1 ∨ id = 2 := by\n" ++ tac ""
    o := o ++ s!"\ntheorem c1_le : ∀ ph a, c1 (next ph a) ≤ c1 ph + cntOf 1 ({nR} P1 P2 ph a) := by\n" ++ tac ", a1, a2"
    o := o ++ s!"\ntheorem c2_le : ∀ ph a, c2 (next ph a) ≤ c2 ph + cntOf 2 ({nR} P1 P2 ph a) := by\n" ++ tac ", a1, a2"
    if s.q1 = 2 then o := o ++ s!"\ntheorem c1x : ∀ ph a, c1 (next ph a) = c1 ph + cntOf 1 ({nR} P1 P2 ph a) := by\n" ++ tac ", a1, a2"
    if s.q2 = 2 then o := o ++ s!"\ntheorem c2x : ∀ ph a, c2 (next ph a) = c2 ph + cntOf 2 ({nR} P1 P2 ph a) := by\n" ++ tac ", a1, a2"
    o := o ++ s!"\nomit a1 a2 in\ntheorem r1_step : ∀ ph a, r1 (next ph a) = r1 ph + ({rP} ph a).count 1 := by\n" ++ tac ""
    o := o ++ s!"\nomit a1 a2 in\ntheorem r2_step : ∀ ph a, r2 (next ph a) = r2 ph + ({rP} ph a).count 2 := by\n" ++ tac ""
  else
    o := o ++ s!"\ntheorem hokS : ∀ ph a, ∀ Q ∈ nS P1 P2 ph a, sameMsg P1 Q := by\n" ++ tac ""
    o := o ++ s!"\ntheorem hokC : ∀ ph a, ∀ Q ∈ nC P1 P2 ph a, sameMsg P2 Q := by\n" ++ tac ""
    o := o ++ s!"\ntheorem hrelC : ∀ ph a, ∀ id ∈ rC ph a, id = 1 := by\n" ++ tac ""
    o := o ++ s!"\ntheorem hrelS : ∀ ph a, ∀ id ∈ rS ph a, id = 1 := by\n" ++ tac ""
    o := o ++ s!"\ntheorem c1_le : ∀ ph a, c1 (next ph a) ≤ c1 ph + (nS P1 P2 ph a).length := by\n" ++ tac ""
    o := o ++ s!"\ntheorem c2_le : ∀ ph a, c2 (next ph a) ≤ c2 ph + (nC P1 P2 ph a).length := by\n" ++ tac ""
    if s.q1 = 2 then o := o ++ s!"\ntheorem c1x : ∀ ph a, c1 (next ph a) = c1 ph + (nS P1 P2 ph a).length := by\n" ++ tac ""
    if s.q2 = 2 then o := o ++ s!"\ntheorem c2x : ∀ ph a, c2 (next ph a) = c2 ph + (nC P1 P2 ph a).length := by\n" ++ tac ""
    o := o ++ s!"\ntheorem r1_step : ∀ ph a, r1 (next ph a) = r1 ph + (rC ph a).length := by\n" ++ tac ""
    o := o ++ s!"\ntheorem r2_step : ∀ ph a, r2 (next ph a) = r2 ph + (rS ph a).length := by\n" ++ tac ""
  o := o ++ "end\n"
  -- main
  let c1xT := if s.q1 = 2 then (if isK5 then "(fun _ => c1x hA.pid hB.pid)" else "(fun _ => c1x)") else "(fun h => absurd h (by decide))"
  let c2xT := if s.q2 = 2 then (if isK5 then "(fun _ => c2x hA.pid hB.pid)" else "(fun _ => c2x)") else "(fun h => absurd h (by decide))"
  o := o ++ s!"\nsection\nvariable \{v : Nat} \{P1 P2 : Pkt} (hv : v = 4 ∨ v = 5) (hA : {hAty}) (hB : {hBty})\ninclude hv hA hB\n"
  o := o ++ s!"\n/-- at any moment of any schedule: no `.error` event at either side -/\ntheorem safe (acts : List Act4) :\n    errFree (runActs4 v ({startTerm}) acts).logC ∧ errFree (runActs4 v ({startTerm}) acts).logS :=\n"
  o := o ++ "  sched_safe (sysOf v P1 P2) next (nS P1 P2) (nC P1 P2) rC rS .p0 _ (sysOf_logs v P1 P2) (closure hv hA hB) (start_obs hv hA hB) acts\n"
  if isK5 then
    let sw := if s.d then "(nS P1 P2) (nC P1 P2) rC rS (Or.inl ⟨rfl, rfl, rfl, rfl, rfl⟩)" else "(nC P1 P2) (nS P1 P2) rS rC (Or.inr ⟨rfl, rfl, rfl, rfl, rfl⟩)"
    o := o ++ s!"\n/-- every schedule, then everything delivered -/\ntheorem main (acts : List Act4) (n : Nat) (hn : 8 ≤ n) :\n"
    o := o ++ s!"    let y := drain n (runActs4 v ({startTerm}) acts)\n"
    o := o ++ s!"    Quiet v y ∧ errFree y.logC ∧ errFree y.logS ∧ pubNotes (sendLog {s.d} y) = [] ∧ releasedIds (recvLog {s.d} y) = [] ∧\n"
    o := o ++ s!"    DeliverySpec {s.q1} {s.q2} P1 P2 (pubNotes (recvLog {s.d} y)) ∧ RelSpec (releasedIds (sendLog {s.d} y)) :=\n"
    o := o ++ s!"  sched5_main (sysOf v P1 P2) next (nS P1 P2) (nC P1 P2) rC rS .p0 done _ hv {s.d} {sw} c1 c2 r1 r2\n"
    o := o ++ "    (sysOf_logs v P1 P2) (closure hv hA hB) (start_obs hv hA hB) (sys_done hv) h8 rfl (fun _ _ => rfl) (fun _ _ => rfl)\n"
    o := o ++ s!"    (hok hA.pid hB.pid) hrel (c1_le hA.pid hB.pid) (c2_le hA.pid hB.pid) {c1xT} {c2xT} r1_step r2_step\n"
    o := o ++ "    ⟨rfl, rfl, rfl, rfl⟩ ⟨rfl, rfl, rfl, rfl⟩ acts n hn\n"
  else
    o := o ++ s!"\n/-- every schedule, then everything delivered -/\ntheorem main (acts : List Act4) (n : Nat) (hn : 8 ≤ n) :\n"
    o := o ++ s!"    let y := drain n (runActs4 v ({startTerm}) acts)\n"
    o := o ++ "    Quiet v y ∧ errFree y.logC ∧ errFree y.logS ∧\n"
    o := o ++ "    (∀ Q ∈ pubNotes y.logS, sameMsg P1 Q) ∧ (∀ Q ∈ pubNotes y.logC, sameMsg P2 Q) ∧\n"
    o := o ++ "    1 ≤ (pubNotes y.logS).length ∧ 1 ≤ (pubNotes y.logC).length ∧\n"
    o := o ++ s!"    (({s.q1} : Nat) = 2 → (pubNotes y.logS).length = 1) ∧ (({s.q2} : Nat) = 2 → (pubNotes y.logC).length = 1) ∧\n"
    o := o ++ "    releasedIds y.logC = [1] ∧ releasedIds y.logS = [1] :=\n"
    o := o ++ "  sched6_main (sysOf v P1 P2) next (nS P1 P2) (nC P1 P2) rC rS .p0 done _ hv c1 c2 r1 r2\n"
    o := o ++ "    (sysOf_logs v P1 P2) (closure hv hA hB) (start_obs hv hA hB) (sys_done hv) h8 rfl\n"
    o := o ++ s!"    hokS hokC hrelC hrelS c1_le c2_le {c1xT} {c2xT} r1_step r2_step\n"
    o := o ++ "    ⟨rfl, rfl, rfl, rfl⟩ ⟨rfl, rfl, rfl, rfl⟩ acts n hn\n"
  o := o ++ "end\n"
  o := o ++ s!"\nend MqttVerif.Conn.Pair.{s.name}\n"
  return o

def scens : List Scen :=
  [⟨"G5_11t", 5, true, 1, 1⟩, ⟨"G5_12t", 5, true, 1, 2⟩, ⟨"G5_21t", 5, true, 2, 1⟩, ⟨"G5_22t", 5, true, 2, 2⟩,
   ⟨"G5_11f", 5, false, 1, 1⟩, ⟨"G5_12f", 5, false, 1, 2⟩, ⟨"G5_21f", 5, false, 2, 1⟩, ⟨"G5_22f", 5, false, 2, 2⟩,
   ⟨"G6_11", 6, true, 1, 1⟩, ⟨"G6_12", 6, true, 1, 2⟩, ⟨"G6_21", 6, true, 2, 1⟩, ⟨"G6_22", 6, true, 2, 2⟩]

#eval (do
  for s in scens do
    match genScen s with
    | .ok txt =>
      IO.FS.writeFile s!"MqttVerif/Conn/Lemmas/PairTab{s.name}.lean" txt
      IO.println s!"{s.name}: written, {txt.length} chars"
    | .error e => IO.println s!"{s.name}: ERROR {e}" : IO Unit)
