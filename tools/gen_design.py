#!/usr/bin/env python3
"""gen_design.py — assemble /verif/DESIGN.md from tools/DESIGN.tmpl.md and the registries."""
import json, os, re, sys, glob, subprocess
ROOT = os.path.dirname(os.path.dirname(os.path.abspath(__file__)))
sys.path.insert(0, os.path.join(ROOT, "tools"))
import props
titles = {}
for l in open(os.path.join(ROOT, "properties.jsonl")):
    d = json.loads(l)
    titles[d["id"]] = d["title"]

def wrap(text, width=92, indent=""):
    out, line = [], indent
    for w in text.split():
        if len(line) + len(w) + 1 > width and line.strip():
            out.append(line.rstrip())
            line = indent
        line += w + " "
    if line.strip():
        out.append(line.rstrip())
    return "\n".join(out)

# per-property section
sec = []
for pid in sorted(props.PROPS):
    p = props.PROPS[pid]
    sec.append(f"### {pid} — {titles.get(pid, '')}\n")
    sec.append(wrap(f"*Theorem module* `lean/{p['module'].replace('.', '/')}.lean`; *model* {p['model']}.") + "\n")
    sec.append(wrap("*What is proved and how it is tied.* " + p["level_text"]) + "\n")
    sec.append(wrap("*Generation rule of the correspondence run.* " + p["rule"]) + "\n")
    if p.get("assumptions"):
        sec.append(wrap("*Assumptions.* " + "; ".join(p["assumptions"])) + "\n")
    sec.append(wrap("*Trusted / not covered.* " + p["level_note"]) + "\n")
props_md = "\n".join(sec)

# findings
fixed, finding = [], []
for l in open(os.path.join(ROOT, "KNOWN_FINDINGS.txt")):
    l = l.strip()
    m = re.match(r"fixed: property=(C\d\d) (\w+) (.*)", l)
    if m:
        fixed.append(m.groups())
    m = re.match(r"finding: property=(C\d\d) sig=(.*?) replay=(\S+) (.*)", l)
    if m:
        finding.append(m.groups())
rows = ["| # | /repo commit | property | what failed |", "|---|---|---|---|"]
for i, (pid, c, what) in enumerate(fixed, 1):
    rows.append(f"| {i} | `{c}` | {pid} | {what.replace('|', '/')} |")
f_md = "\n".join(rows)
f_md += "\n\n**Recorded, not repaired** (`finding:` lines; the check prints `KNOWN-FINDING` and exits 0; any *other* violation of the same property is still reported):\n\n"
for pid, sig, replay, what in finding:
    f_md += f"* **{pid}** `{sig}` (replay `{replay}`): {what}\n"

# seeds
rows = ["| seed | change (site) | detected by | failing input | first report |", "|---|---|---|---|---|"]
nd = ni = n = 0
for d in sorted(glob.glob(os.path.join(ROOT, "seeded", "*"))):
    mf = os.path.join(d, "meta.json")
    if not os.path.exists(mf):
        continue
    m = json.load(open(mf))
    det = m.get("detection", {})
    n += 1
    nd += bool(det.get("detected"))
    ni += bool(det.get("with_failing_input"))
    first = (det.get("violation_lines") or ["-"])[0]
    first = re.sub(r"VIOLATION property=\S+ replay=", "", first)
    site = m.get("site", "")[:150].replace("|", "/")
    rows.append(f"| {os.path.basename(d)} | {site} | `{det.get('check', '-')}`: {'yes' if det.get('detected') else 'NO'} | {'yes' if det.get('with_failing_input') else 'no'} | `{first[:70]}` |")
s_md = "\n".join(rows) + f"\n\nTotals: {n} seeded changes, {nd} detected, {ni} with a concrete failing input.\n"

def loc(pat):
    return sum(len(open(f).read().splitlines()) for f in glob.glob(os.path.join(ROOT, "lean", "MqttVerif", pat), recursive=True))
model = loc("Alloc/Model.lean") + loc("Alloc/Spec.lean") + loc("Framing/Model.lean") + loc("Conn/Types.lean") + loc("Conn/Model.lean") + loc("Conn/Step.lean") + loc("Flow/*.lean") + sum(loc("Codec/" + f) for f in ["Basic.lean", "Str.lean", "Property.lean", "Packet.lean", "V3.lean", "V5.lean", "Validate.lean", "Wf.lean", "View.lean", "Abs.lean"])
total = loc("**/*.lean")
nthm = 0
for f in glob.glob(os.path.join(ROOT, "lean", "MqttVerif", "Props", "*.lean")):
    nthm += len(re.findall(r"^theorem ", open(f).read(), re.M))
stats = f"≈{model} lines of model and specification, ≈{total - model} lines of lemmas, theorems, monitors and driver; {nthm} property theorems in `Props/`"

t = open(os.path.join(ROOT, "tools", "DESIGN.tmpl.md")).read()
t = t.replace("@@PROPS@@", props_md).replace("@@FINDINGS@@", f_md).replace("@@SEEDS@@", s_md).replace("@@STATS@@", stats)
t = t.replace("@@SEEDTOTALS@@", f"{n} independently seeded breaking changes (at least two per property, none caught by the existing suite): {nd} detected by the property's quick check, {ni} with a concrete failing input")
t = t.replace("@@NFIXED@@", str(len(fixed))).replace("@@NFINDING@@", str(len(finding)))
open(os.path.join(ROOT, "DESIGN.md"), "w").write(t)
print("DESIGN.md:", len(t.splitlines()), "lines;", len(fixed), "fixed,", len(finding), "findings,", n, "seeds", nd, ni)
