import MqttVerif.Driver.AllocDrv
import MqttVerif.Driver.FrameDrv
import MqttVerif.Driver.ConnDrv
import MqttVerif.Driver.TablesDrv
import MqttVerif.Driver.CodecDrv
import MqttVerif.Driver.AliasDrv
/-!
`mqttdrv` — reads a trace (produced by the Rust harness running the real code) on stdin,
replays every call through the Lean model, evaluates the property monitors on the
implementation's observations, prints diagnostics and a summary.

Line protocol:  `T <mode> <name> …` starts a trace, `(` / `)` save / restore the model state
(tree-shaped exhaustive enumerations), mode-specific call lines, `END` closes a trace.
-/
open MqttVerif.Driver

inductive Mode
  | none
  | alloc (st : AllocSt) (stack : List AllocSt)
  | frame (st : FrameSt)
  | conn (run : ConnRun)
  | gates
  | bulk
  | pair (st : PairSt)
  | tables (name : String)
  | codec (st : CodecSt)
  | alias (st : AliasSt)

partial def loop (h : IO.FS.Stream) (ln : Nat) (m : Mode) (r : Report) : IO Report := do
  let raw ← h.getLine
  if raw.isEmpty then return r
  let line := raw.trimAscii.toString
  if line.isEmpty then loop h (ln + 1) m r
  else if line.startsWith "T " then
    match words line with
    | _ :: "alloc" :: rest =>
      match allocStart rest with
      | some st => loop h (ln + 1) (.alloc st []) { r with traces := r.traces + 1 }
      | none => loop h (ln + 1) .none (r.mdiff "parse" s!"line {ln}: bad trace header `{line}`")
    | _ :: "alias" :: rest =>
      match aliasStart rest with
      | some st => loop h (ln + 1) (.alias st) { r with traces := r.traces + 1 }
      | none => loop h (ln + 1) .none (r.mdiff "parse" s!"line {ln}: bad trace header `{line}`")
    | _ :: "pair" :: rest => loop h (ln + 1) (.pair (pairStart rest)) { r with traces := r.traces + 1 }
    | _ :: "gates" :: _ => loop h (ln + 1) .gates { r with traces := r.traces + 1 }
    | _ :: "bulk" :: _ => loop h (ln + 1) .bulk { r with traces := r.traces + 1 }
    | _ :: "conn" :: rest =>
      match connStart rest with
      | some cs => loop h (ln + 1) (.conn { cs := cs }) { r with traces := r.traces + 1 }
      | none => loop h (ln + 1) .none (r.mdiff "parse" s!"line {ln}: bad trace header `{line}`")
    | _ :: "frame" :: name :: _ =>
      loop h (ln + 1) (.frame { name := name }) { r with traces := r.traces + 1 }
    | _ :: "tables" :: name :: _ =>
      loop h (ln + 1) (.tables name) { r with traces := r.traces + 1 }
    | _ :: "codec" :: name :: _ =>
      loop h (ln + 1) (.codec { name := name }) { r with traces := r.traces + 1 }
    | _ => loop h (ln + 1) .none (r.mdiff "parse" s!"line {ln}: bad trace header `{line}`")
  else
    match m with
    | .none => loop h (ln + 1) m r
    | .alloc st stack =>
      if line = "(" then loop h (ln + 1) (.alloc st (st :: stack)) r
      else if line = ")" then
        match stack with
        | top :: rest => loop h (ln + 1) (.alloc top rest) r
        | [] => loop h (ln + 1) m (r.mdiff "parse" s!"line {ln}: unbalanced )")
      else if line = "END" then loop h (ln + 1) .none r
      else if line.startsWith "O " then
        let (st', r') := allocLine st ln (line.drop 2).toString r
        loop h (ln + 1) (.alloc st' stack) r'
      else loop h (ln + 1) m (r.mdiff "parse" s!"line {ln}: unexpected `{line}`")
    | .alias st =>
      if line = "END" then loop h (ln + 1) .none r
      else if line.startsWith "A " then
        let (st', r') := aliasLine st ln (line.drop 2).toString r
        loop h (ln + 1) (.alias st') r'
      else loop h (ln + 1) m (r.mdiff "parse" s!"line {ln}: unexpected `{line.take 60}`")
    | .pair st =>
      if line = "END" then loop h (ln + 1) .none r
      else loop h (ln + 1) m (pairLine st ln line r)
    | .gates =>
      if line = "END" then loop h (ln + 1) .none r
      else loop h (ln + 1) m (gatesLine ln line r)
    | .bulk =>
      if line = "END" then loop h (ln + 1) .none r
      else if line.startsWith "K " then loop h (ln + 1) m (bulkLine ln (line.drop 2).toString r)
      else loop h (ln + 1) m (r.mdiff "parse" s!"line {ln}: unexpected `{line.take 60}`")
    | .conn run =>
      if line = "END" then loop h (ln + 1) .none r
      else if line.startsWith "X " then
        let (run', r') := connLine run ln (line.drop 2).toString r
        loop h (ln + 1) (.conn run') r'
      else if line.startsWith "Y " then
        let (run', r') := connY run ln (line.drop 2).toString r
        loop h (ln + 1) (.conn run') r'
      else loop h (ln + 1) m (r.mdiff "parse" s!"line {ln}: unexpected `{line.take 60}`")
    | .frame st =>
      if line = "END" then loop h (ln + 1) .none (frameEnd st ln r)
      else if line.startsWith "F " then
        let (st', r') := frameLine st ln (line.drop 2).toString r
        loop h (ln + 1) (.frame st') r'
      else loop h (ln + 1) m (r.mdiff "parse" s!"line {ln}: unexpected `{line}`")
    | .tables name =>
      if line = "END" then loop h (ln + 1) .none r
      else loop h (ln + 1) m (tablesLine name ln line r)
    | .codec st =>
      if line = "END" then loop h (ln + 1) .none (codecEnd st r)
      else if line.startsWith "P " then
        let (st', r') := codecP st ln line r
        loop h (ln + 1) (.codec st') r'
      else if line.startsWith "BA " then
        let (st', r') := codecBA st ln line r
        loop h (ln + 1) (.codec st') r'
      else if line.startsWith "B " then
        let (st', r') := codecB st ln line r
        loop h (ln + 1) (.codec st') r'
      else if line.startsWith "E " then
        let (st', r') := codecE st line r
        loop h (ln + 1) (.codec st') r'
      else loop h (ln + 1) m (r.mdiff "parse" s!"line {ln}: unexpected `{line.take 100}`")

/-- `mqttdrv cells`: print the deviating cells of a `harness tables cells` output -/
partial def cellsLoop (h : IO.FS.Stream) (n : Nat) : IO Nat := do
  let raw ← h.getLine
  if raw.isEmpty then return n
  match deviationLine raw.trimAscii.toString with
  | some d => IO.println d; cellsLoop h (n + 1)
  | none => cellsLoop h n

def main (args : List String) : IO UInt32 := do
  let stdin ← IO.getStdin
  if args = ["cells"] then
    let n ← cellsLoop stdin 0
    IO.println s!"DEVIATIONS {n}"
    return 0
  let r ← loop stdin 1 .none {}
  r.print
  return (if r.mdiffs + r.viols = 0 then 0 else 1)
