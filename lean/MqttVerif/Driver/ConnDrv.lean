import MqttVerif.Driver.Common
import MqttVerif.Driver.FrameDrv
import MqttVerif.Driver.AllocDrv
import MqttVerif.Conn.Model
import MqttVerif.Monitors
import MqttVerif.Spec.Gates
import MqttVerif.Codec.View
/-!
Trace driver for the connection state machine (`T conn <name> role=… pw=… ver=…`).
One line per API call:  `X <op> | <oracle> | <events> | <ret> | <state digest>`.
The model is stepped with the same operation; events, return value and the full digest are
compared (`MDIFF`); then the model continues from its own state (a divergence usually
persists, so only the first one per trace is counted).
-/
namespace MqttVerif.Driver
open MqttVerif MqttVerif.Conn

def optNat (s : String) : Option (Option Nat) :=
  if s = "-" || s = "none" then some none else s.toNat?.map some

def parseKV (s : String) : List (String × String) :=
  (s.splitOn ",").filterMap fun kv =>
    match kv.splitOn "=" with
    | [k, v] => some (k, v)
    | _ => none

def kvGet (l : List (String × String)) (k : String) : String :=
  match l.find? (·.1 = k) with
  | some (_, v) => v
  | none => ""

def parseProps (s : String) : List (Nat × Nat) :=
  if s = "-" then [] else
  (s.splitOn ";").filterMap fun kv =>
    match kv.splitOn ":" with
    | [k, v] => do pure (← k.toNat?, ← v.toNat?)
    | _ => none

/-- `{k=3,v=5,sz=…,…}` -/
def parseDescr (s : String) : Option Pkt :=
  if !(s.startsWith "{" && s.endsWith "}") then none else
  let inner := ((s.drop 1).dropEnd 1).toString
  let kv := parseKV inner
  do
    let k ← (kvGet kv "k").toNat?
    let kind ← Kind.ofNibble k
    let pid ← optNat (kvGet kv "pid")
    let a ← optNat (kvGet kv "a")
    let rc ← optNat (kvGet kv "rc")
    let t ← hexToBytes (kvGet kv "t")
    pure { ver := (kvGet kv "v").toNat?.getD 0, kind := kind, size := (kvGet kv "sz").toNat?.getD 0,
           pid := pid, qos := (kvGet kv "q").toNat?.getD 0, dup := kvGet kv "d" = "1",
           retain := kvGet kv "r" = "1", topic := t, alias := a, rc := rc,
           keepAlive := (kvGet kv "ka").toNat?.getD 0, clean := kvGet kv "cl" = "1",
           sp := kvGet kv "sp" = "1", props := parseProps (kvGet kv "pr"),
           otherLen := (kvGet kv "ol").toNat?.getD 0, payloadLen := (kvGet kv "pl").toNat?.getD 0,
           extracted := kvGet kv "x" = "1", tag := (kvGet kv "tg").toNat?.getD 0 }

def showOptNat : Option Nat → String
  | none => "-"
  | some n => toString n

def b01 (b : Bool) : String := if b then "1" else "0"

def showDescr (pw : Nat) (p : Pkt) : String :=
  let pr := if p.props.isEmpty then "-" else ";".intercalate (p.props.map fun (i, v) => s!"{i}:{v}")
  "{" ++ s!"k={p.kind.nibble},v={p.ver},sz={p.sz pw},pid={showOptNat p.pid},q={p.qos},d={b01 p.dup},r={b01 p.retain},t={bytesToHex p.topic},a={showOptNat p.alias},rc={showOptNat p.rc},ka={p.keepAlive},cl={b01 p.clean},sp={b01 p.sp},pr={pr},ol={p.otherLen},pl={p.payloadLen},x={b01 p.extracted},tg={p.tag}" ++ "}"

def insertSorted (x : Nat) : List Nat → List Nat
  | [] => [x]
  | y :: ys => if x ≤ y then x :: y :: ys else y :: insertSorted x ys

def sortNat (l : List Nat) : List Nat := l.foldr insertSorted []

def insertSortedS (x : String) : List String → List String
  | [] => [x]
  | y :: ys => if x ≤ y then x :: y :: ys else y :: insertSortedS x ys

def sortStr (l : List String) : List String := l.foldr insertSortedS []

def showSet (l : List Nat) : String := ",".intercalate ((sortNat l).map toString)

def showTimer : Timer → String
  | .pingreqSend => "S" | .pingreqRecv => "R" | .pingrespRecv => "P"

def parseTimer : String → Option Timer
  | "S" => some .pingreqSend | "R" => some .pingreqRecv | "P" => some .pingrespRecv | _ => none

/-- events in the harness's textual form; runs of `rel` are sorted (hash-set order) -/
def showEvents (pw : Nat) (evs : List Ev) : String :=
  let rec go (evs : List Ev) (run : List Nat) (acc : List String) : List String :=
    match evs with
    | [] => acc ++ (sortNat run).map (fun r => s!"rel {r}")
    | .released id :: rest => go rest (id :: run) acc
    | e :: rest =>
      let acc := acc ++ (sortNat run).map (fun r => s!"rel {r}")
      let s := match e with
        | .send p rel => s!"send{showDescr pw p}{showOptNat rel}"
        | .recv p => s!"recv{showDescr pw p}"
        | .timerReset k ms => s!"tr {showTimer k} {ms}"
        | .timerCancel k => s!"tc {showTimer k}"
        | .error e => s!"err {e}"
        | .close => "close"
        | .released _ => ""
      go rest [] (acc ++ [s])
  let l := go evs [] []
  if l.isEmpty then "-" else " ; ".intercalate l

/-- strip the `#<hex>` suffix the harness appends to sent packets -/
def stripHex (s : String) : String :=
  " ; ".intercalate ((s.splitOn " ; ").map fun e =>
    if e.startsWith "send" then (e.splitOn "#").headD e else e)

def hexOrEmpty (l : List Nat) : String := if l.isEmpty then "" else bytesToHex l

def showTAS (t : TAS) : String :=
  let a2t := ",".intercalate (t.a2t.map fun (a, tp) => s!"{a}={hexOrEmpty tp}")
  -- sorted by topic (a space sorts below every hex digit, so a topic that is a prefix of another comes first)
  let t2a := ",".intercalate ((sortStr (t.t2a.map fun (tp, v) => s!"{hexOrEmpty tp} " ++ "+".intercalate (v.map toString))).map (·.replace " " "="))
  let ivs := if t.alloc.pool.isEmpty then "" else showIvs t.alloc.pool
  s!"{t.max}:{a2t};{t2a};{ivs}"

def showTAR (t : TAR) : String :=
  let sorted := sortNat (t.m.map (·.1))
  let m := ",".intercalate (sorted.map fun a => s!"{a}={hexOrEmpty ((lookup a t.m).getD [])}")
  s!"{t.max}:{m}"

def showOptN : Option Nat → String
  | none => "none"
  | some n => toString n

def showStore (pw : Nat) (st : List (Nat × Pkt)) : String :=
  if st.isEmpty then "-" else ";".intercalate (st.map fun (id, p) => s!"{id}:{showDescr pw p}")

def showSt (pw : Nat) (s : St) : String :=
  let ivs := if s.pidMan.pool.isEmpty then "" else showIvs s.pidMan.pool
  let stS := match s.status with | .disconnected => "D" | .connecting => "G" | .connected => "C"
  s!"ver={s.ver} pidfree={ivs} suback={showSet s.suback} unsuback={showSet s.unsuback} puback={showSet s.puback} pubrec={showSet s.pubrec} pubcomp={showSet s.pubcomp} need_store={b01 s.needStore} store={showStore pw s.store} off={b01 s.offline} apr={b01 s.autoPub} aping={b01 s.autoPing} amap={b01 s.autoMap} arep={b01 s.autoReplace} tar={match s.tar with | none => "none" | some t => showTAR t} tas={match s.tas with | none => "none" | some t => showTAS t} smax={showOptN s.sendMax} rmax={showOptN s.recvMax} scount={s.sendCount} precv={showSet s.publishRecv} mps={s.mpsSend} mpr={s.mpsRecv} st={stS} user={showOptN s.userInterval} ka={s.keepAliveMs} ska={showOptN s.serverKeepAliveMs} rto={s.recvTimeoutMs} pto={s.respTimeoutMs} h2={showSet s.handled} tset={b01 s.sendSet}{b01 s.recvSet}{b01 s.respSet} pb={showPB s.pb} cli={b01 s.isClient}"

structure ConnSt where
  cfg : Cfg := ⟨.client, 2⟩
  s : St := default
  name : String := ""
  legal : Bool := true           -- the trace's application respects the API contract
  cmp : String := "C10"          -- property whose `Y` comparison this trace carries (C10 reuse / C16 restore)
  diverged : Bool := false
  hist : List String := []       -- monitors' ghost state lives in `Monitors`
deriving Inhabited

def connStart (ws : List String) : Option ConnSt :=
  match ws with
  | name :: rest =>
    let get (k : String) : String :=
      match rest.find? (·.startsWith k) with
      | some w => (w.drop k.length).toString
      | none => ""
    let role := match get "role=" with | "client" => Role.client | "server" => .server | _ => .any
    let pw := (get "pw=").toNat?.getD 2
    let ver := (get "ver=").toNat?.getD 5
    let cfg : Cfg := ⟨role, pw⟩
    some { cfg := cfg, s := St.init cfg ver, name := name, legal := !((get "legal=") == "0"),
           cmp := if (get "cmp=").isEmpty then "C10" else get "cmp=" }
  | [] => none

/-- oracle of a `recv` call: `cons=<n> frame=<fh>:<hex>|none|err parsed=<descr|E<n>|->` -/
structure RecvOracle where
  cons : Nat
  frame : String
  parsed : String

def parseRecvOracle (s : String) : RecvOracle :=
  let ws := words s
  let get (k : String) : String :=
    match ws.find? (·.startsWith k) with
    | some w => (w.drop k.length).toString
    | none => ""
  { cons := (get "cons=").toNat?.getD 0, frame := get "frame=", parsed := get "parsed=" }

def parseParsed (s : String) : Except Nat Pkt :=
  if s.startsWith "E" then .error ((s.drop 1).toString.toNat?.getD 0)
  else match parseDescr s with
    | some p => .ok p
    | none => .error 0

/-- result of stepping the model on one operation: new state, events, return string -/
structure StepOut where
  s : St
  ev : List Ev
  ret : String := "-"
  note : List String := []      -- extra disagreements (frame oracle)
  c09 : List String := []       -- C09: the connection's framing differs from the byte-step specification

def ctx (cs : ConnSt) : C := { cfg := cs.cfg, s := cs.s }

def stepOp (cs : ConnSt) (op : List String) (oracle : String) : Option StepOut :=
  let c := ctx cs
  let pw := cs.cfg.pw
  let fin (c : C) (ret : String := "-") : Option StepOut := some { s := c.s, ev := c.ev, ret := ret }
  match op with
  | ["send", _, _] => do
    let p ← parseDescr oracle
    fin (send c p)
  -- the same packet through `checked_send` (the harness uses it only where the trait bounds admit
  -- the type for the role): C11 requires exactly the behaviour of `send`
  | ["send", _, _, "c"] => do
    let p ← parseDescr oracle
    fin (send c p)
  | ["recv", hx] => do
    let inp ← hexToBytes hx
    let o := parseRecvOracle oracle
    let r := recv c inp (fun _ _ _ => parseParsed o.parsed)
    let consumed := inp.length - r.2.length
    -- frame produced by the model's builder, for the correspondence of the framing layer
    let (_, out, _) := Framing.feed cs.s.pb inp
    let frameS := match out with
      | none => "none"
      | some .error => "err"
      | some (.complete fh d) => s!"{fh}:{bytesToHex d}"
    let notes := (if consumed ≠ o.cons then [s!"consumed model={consumed} impl={o.cons}"] else []) ++
                 (if frameS ≠ o.frame then [s!"frame model={frameS} impl={o.frame}"] else [])
    -- C09 at connection level: the byte-at-a-time framing specification (`Framing.feedSpec`, which
    -- `feed` is proved to equal) run on the same bytes from the same assembler state
    some { s := r.1.s, ev := r.1.ev, note := notes }
  -- `recv` on an empty buffer (an exhausted cursor): nothing is consumed, nothing is reported, the
  -- partly assembled frame stays (`Framing.feed pb [] = (pb, none, [])`)
  | ["recv_empty"] =>
    let r := recv c [] (fun _ _ _ => .error 0)
    some { s := r.1.s, ev := r.1.ev }
  | ["timer", k] => do fin (notifyTimerFired c (← parseTimer k))
  | ["closed"] => fin (notifyClosed c)
  | ["interval", d] => do fin (setPingreqSendInterval c (← optNat d))
  | ["set", f, v] =>
    let b := v = "1"
    let s := c.s
    let s := match f with
      | "off" => { s with offline := b, needStore := if b then true else s.needStore }
      | "apr" => { s with autoPub := b }
      | "aping" => { s with autoPing := b }
      | "amap" => { s with autoMap := b }
      | _ => { s with autoReplace := b }
    fin { c with s := s }
  | ["rto", v] => do fin { c with s := { c.s with respTimeoutMs := ← v.toNat? } }
  | ["acquire"] =>
    let r := acquire c
    fin r.2 (match r.1 with | some id => s!"ok{id}" | none => s!"E{ePidFull}")
  | ["register", v] => do
    let r := register c (← v.toNat?)
    fin r.2 (if r.1 then "ok" else s!"E{ePidConflict}")
  | ["release", v] => do fin (releasePacketId c (← v.toNat?))
  | ["erase", v] => do fin (eraseStoredPublish c (← v.toNat?))
  | ["vacancy"] => fin c (match vacancy c.s with | none => "none" | some v => toString v)
  | ["handled"] => fin c (if c.s.handled.isEmpty then "-" else showSet c.s.handled)
  | ["stored"] => fin c (showStore pw c.s.store)
  | ["restore_h", ids] =>
    let l := if ids = "-" then [] else (ids.splitOn ",").filterMap (·.toNat?)
    -- a set: duplicates collapse
    fin { c with s := { c.s with handled := l.foldl (fun acc x => ins x acc) [] } }
  | ["restore_h"] => fin { c with s := { c.s with handled := [] } }
  | "restore_p" :: _ =>
    let ps := if oracle = "-" then [] else (oracle.splitOn ";").filterMap parseDescr
    fin (restorePackets c ps)
  | ["regulate", _] => do
    let p ← parseDescr oracle
    fin c (match regulateForStore c.s p with | .ok q => showDescr pw q | .error e => s!"E{e}")
  | _ => none

end MqttVerif.Driver

namespace MqttVerif.Driver
open MqttVerif MqttVerif.Conn

def kindName : Nat → String
  | 1 => "connect" | 2 => "connack" | 3 => "publish" | 4 => "puback" | 5 => "pubrec" | 6 => "pubrel"
  | 7 => "pubcomp" | 8 => "subscribe" | 9 => "suback" | 10 => "unsubscribe" | 11 => "unsuback"
  | 12 => "pingreq" | 13 => "pingresp" | 14 => "disconnect" | 15 => "auth" | n => s!"type{n}"

/-- call-site name of an operation: `send.v5.publish`, `recv.v4.puback`, `recv.incomplete`, … -/
def sigOf (op : List String) (oracle : String) : String :=
  match op with
  | "send" :: _ =>
    match parseDescr oracle with
    | some p => s!"send.v{p.ver}.{kindName p.kind.nibble}"
    | none => "send.?"
  | "recv" :: _ =>
    let o := parseRecvOracle oracle
    if o.frame = "none" then "recv.incomplete"
    else if o.frame = "err" then "recv.frame_error"
    else
      let fh := ((o.frame.splitOn ":").headD "0").toNat?.getD 0
      let v := match parseDescr o.parsed with | some p => s!"v{p.ver}" | none => "err"
      s!"recv.{v}.{kindName (fh / 16)}"
  | [w] => w
  | w :: a :: _ => if w = "timer" ∨ w = "set" then s!"{w}.{a}" else w
  | [] => "?"

/-- key of the first digest field that differs -/
def firstDiffField (a b : String) : String :=
  let rec go : List String → List String → String
    | x :: xs, y :: ys => if x = y then go xs ys else ((x.splitOn "=").headD "?")
    | [], [] => "none"
    | _, _ => "length"
  go (a.splitOn " ") (b.splitOn " ")

end MqttVerif.Driver

namespace MqttVerif.Driver
open MqttVerif MqttVerif.Conn

def parseEvent (e : String) : Option Ev :=
  if e = "close" then some .close
  else if e.startsWith "send{" then
    let noHex := (e.splitOn "#").headD e
    match noHex.splitOn "}" with
    | [d, rel] => do
      let p ← parseDescr ((d.drop 4).toString ++ "}")
      let r ← optNat rel
      pure (.send p r)
    | _ => none
  else if e.startsWith "recv{" then (parseDescr (e.drop 4).toString).map .recv
  else match words e with
    | ["rel", n] => n.toNat?.map .released
    | ["tr", k, ms] => do pure (.timerReset (← parseTimer k) (← ms.toNat?))
    | ["tc", k] => (parseTimer k).map .timerCancel
    | ["err", n] => n.toNat?.map .error
    | _ => none

def parseEvents (s : String) : Option (List Ev) :=
  if s = "-" then some [] else (s.splitOn " ; ").mapM parseEvent

def digestFields (d : String) : List (String × String) :=
  (d.splitOn " ").filterMap fun f =>
    match f.splitOn "=" with
    | k :: rest => some (k, "=".intercalate rest)
    | [] => none

/-- ghost state of the monitors for one trace -/
structure MonSt where
  prev : List (String × String) := []
  armed : Mon.Armed := {}
  peer : Mon.PeerTable := []
  peerTam : Nat := 0
  armedBad : Bool := false       -- "armed while disconnected" already reported (edge-triggered)
  credit : Mon.Credit := {}
  ivl : Mon.Interval := {}
  q2open : List Nat := []         -- C07: inbound QoS 2 ids notified, exchange still open
  inTbl : Mon.PeerTable := []     -- C13: alias bindings the peer announced on this connection
  ownMps : Option Nat := none     -- C14: the Maximum Packet Size we announced on this connection
  ownTam : Nat := 0               -- C13: the Topic Alias Maximum we announced on this connection
  peerMps : Nat := 268435460      -- C14: the Maximum Packet Size the peer announced on this connection (none: protocol maximum)
  pend : List (Nat × Nat) := []   -- C08: outbound exchanges of this connection: (id, nibble of the awaited acknowledgement)
  nsGhost : Bool := false         -- C11: is the session persistent (CONNECT / CONNACK / offline option)
  srvMs : Nat := 0                -- C15: a server's receive timeout (1.5 x keep alive), 0 = none
deriving Inhabited

def ivContains (ivs : List Alloc.Iv) (v : Nat) : Bool := ivs.any fun iv => iv.lo ≤ v && v ≤ iv.hi

/-- evaluate the monitors on one implementation call; returns new ghost state and report -/
def monitorCall (cfg : Cfg) (cmp : String) (m : MonSt) (name : String) (ln : Nat) (op : List String) (oracle evS retS digest : String)
    (r : Report) : MonSt × Report :=
  let site := sigOf op oracle
  let here := s!"{name} line {ln}"
  -- store monitors: C06; in a restore trial (original vs restored object) they are C16's clauses too
  let violStore (clause : String) (r : Report) (msg : String) : Report :=
    let r := r.viol s!"C06 {clause}@{site}" msg
    if cmp = "C16" then r.viol s!"C16 {clause}@{site}" msg else r
  if evS = "PANIC" then
    -- every call is total (C05); the flow-control account in particular "never wraps or panics" (C12):
    -- the harness is built with overflow checks, so a wrapping counter surfaces here
    let msg := s!"{here}: the implementation panicked in `{" ".intercalate (op.take 2)}`"
    let r := (r.viol s!"C05 panic@{site}" msg).viol s!"C12 panic@{site}" msg
    (m, match op with | "send" :: _ => r.viol s!"C11 panic@{site}" msg | _ => r)
  else
  match parseEvents evS with
  | none => (m, r.mdiff "parse.events" s!"{here}: cannot parse events `{evS}`")
  | some evs =>
    let dig := digestFields digest
    let g (k : String) := kvGet dig k
    let gp (k : String) := kvGet m.prev k
    let stBefore := if m.prev.isEmpty then "D" else gp "st"
    let stAfter := g "st"
    let ver := (g "ver").toNat?.getD 0
    -- C19
    let r := if !Mon.closeAfterSend evs then r.viol s!"C19 send_after_close@{site}" s!"{here}: a RequestSendPacket follows a RequestClose: {evS}" else r
    let r := if !Mon.disconnectHasClose evs then r.viol s!"C19 disconnect_without_close@{site}" s!"{here}: DISCONNECT / refusing CONNACK sent without a close request: {evS}" else r
    let r := if (op = ["timer", "R"] ∨ op = ["timer", "P"]) ∧ stBefore = "C" ∧ !Mon.hasClose evs then
        r.viol s!"C19 timeout_without_close@{site}" s!"{here}: keep-alive timeout on an established connection did not request a close: {evS}" else r
    -- C14
    -- the limit is the one the PEER announced in the CONNECT / CONNACK delivered on this connection
    -- (ghost; it does not trust the implementation's own field)
    let peerMps0 : Nat := match op with | ["closed"] => noLimit | _ => m.peerMps
    let peerMps : Nat := evs.foldl (fun (acc : Nat) (e : Ev) => match e with
      | .recv q =>
        if q.ver = 5 ∧ q.kind = Kind.connect then (Mon.findProp q pMPS).getD noLimit
        -- a CONNACK without the property leaves what the transport's CONNECT exchange established (none for a
        -- client: its own CONNECT reset it; a role-Any endpoint may have been handed a CONNECT before)
        else if q.ver = 5 ∧ q.kind = Kind.connack ∧ q.rc = some 0 then (Mon.findProp q pMPS).getD acc
        else acc
      | .send q _ => if q.kind = Kind.connect then noLimit else acc
      | _ => acc) peerMps0
    let limit := peerMps
    let r := if ver = 5 ∧ !Mon.sentSizesWithin cfg.pw limit evs then
        r.viol s!"C14 oversize_sent@{site}" s!"{here}: a packet larger than the peer's Maximum Packet Size {limit} was requested for sending: {evS}" else r
    -- a send refused as too large although no limit (none is in force after a close) or a limit
    -- well above its size was announced by the peer of THIS connection
    let r := match op with
      | "send" :: _ =>
        (match parseDescr oracle with
         | some p =>
           if Mon.hasErrorCode evs eTooLarge ∧ !m.prev.isEmpty ∧ p.size + 8 ≤ peerMps0 then
             let msg := s!"{here}: the packet ({p.size} bytes) was refused with PacketTooLarge, but the Maximum Packet Size in force for this connection is {if peerMps0 = noLimit then "none" else toString peerMps0} (a limit announced on an earlier transport does not apply): {evS}"
             (r.viol s!"C14 refused_within_limit@{site}" msg).viol s!"C11 refused_by_stale_limit@{site}" msg
           else r
         | none => r)
      | _ => r
    -- C07 (and C16 on a restored session): a PUBREL for an inbound QoS 2 message that was notified ends
    -- the exchange - the identifier leaves the handled set, whatever connection the PUBLISH arrived on
    let r := match op with
      | "recv" :: _ =>
        (match parseParsed (parseRecvOracle oracle).parsed with
         | .ok p =>
           (match p.pid with
            | some id =>
              let h2B := ((gp "h2").splitOn ",").contains (toString id)
              let h2A := ((g "h2").splitOn ",").contains (toString id)
              let okRc := p.rc = none ∨ p.rc = some 0
              if p.kind = Kind.pubrel ∧ !m.prev.isEmpty ∧ h2B ∧ h2A ∧ okRc ∧ !Mon.hasError evs ∧ stBefore = "C" ∧ (parseRecvOracle oracle).frame ≠ "none" then
                let msg := s!"{here}: PUBREL {id} was accepted for a notified inbound QoS 2 message, yet the identifier is still in the handled set afterwards (h2=[{g "h2"}]): the peer's next message under this identifier will be suppressed as a duplicate: {evS}"
                let r := r.viol s!"C07 pubrel_leaves_id_handled@{site}" msg
                if cmp = "C16" then r.viol s!"C16 pubrel_leaves_id_handled@{site}" msg else r
              else r
            | none => r)
         | .error _ => r)
      | _ => r
    -- C17: an undetermined endpoint adopts a version only from a CONNECT it accepts (delivered to the
    -- application, or requested for sending); a refused call leaves the version undetermined
    let r :=
      if !m.prev.isEmpty ∧ gp "ver" = "0" ∧ g "ver" ≠ "0" ∧ g "ver" ≠ "" then
        -- received: a CONNECT frame whose protocol level byte is the adopted version (accepted or refused in
        -- that version, as a fixed-version server would); sent: a CONNECT requested for sending
        let adopted := match op with
          | "recv" :: _ =>
            let fr := (parseRecvOracle oracle).frame
            (match fr.splitOn ":" with
             | [fh, hx] => decide (fh = "16") && (match hexToBytes hx with | some b => decide (toString (b.getD 6 0) = g "ver") | none => false)
             | _ => false)
          | _ => evs.any fun (e : Ev) => match e with
            | .send q _ => q.kind = Kind.connect
            | _ => false
        if !adopted then
          r.viol s!"C17 version_adopted_without_connect@{site}" s!"{here}: the protocol version went from undetermined to {g "ver"} although this call neither received a CONNECT of that protocol level nor accepted one for sending: {evS}" else r
      else r
    -- C11 (the connection-state column): a refusing CONNACK requested for sending ends the connection attempt
    let r :=
      let refusing := evs.any fun (e : Ev) => match e with
        | .send q _ => q.kind = Kind.connack ∧ q.rc ≠ some 0 ∧ q.rc ≠ none
        | _ => false
      if refusing ∧ stAfter ≠ "D" then
        let msg := s!"{here}: a refusing CONNACK was requested for sending, yet the connection is not disconnected afterwards (status {stAfter}): whatever is handed to send next is judged against the wrong state: {evS}"
        (r.viol s!"C11 refusing_connack_keeps_state@{site}" msg).viol s!"C19 refusing_connack_keeps_state@{site}" msg
      else r
    -- C15: a sent PINGREQ arms the response timer when a timeout is configured (every PINGREQ: the
    -- deadline counts from the last one)
    let r :=
      let pto := (g "pto").toNat?.getD 0
      let sentPing := evs.any fun (e : Ev) => match e with | .send q _ => q.kind = Kind.pingreq | _ => false
      let armedP := evs.any fun (e : Ev) => match e with | .timerReset k ms => k = Timer.pingrespRecv ∧ ms = pto | _ => false
      if sentPing ∧ pto > 0 ∧ !armedP then
        r.viol s!"C15 pingreq_without_response_timer@{site}" s!"{here}: a PINGREQ was requested for sending with a response timeout of {pto} ms configured, but the response timer was not armed with it: {evS}" else r
    -- C08: erasing a stored PUBLISH never announces the release of an identifier whose exchange
    -- still waits for the peer's PUBCOMP (a stored PUBREL is not a PUBLISH)
    let r := match op with
      | ["erase", _] =>
        let stillAwaited := (evs.filterMap fun (e : Ev) => match e with | .released id => some id | _ => none).filter
          fun id => ((g "pubcomp").splitOn ",").contains (toString id)
        if !stillAwaited.isEmpty then
          r.viol s!"C08 released_while_awaited@{site}" s!"{here}: NotifyPacketIdReleased for {stillAwaited} although the connection still waits for their PUBCOMP (pubcomp=[{g "pubcomp"}]): the identifier can be handed out again while the old exchange is open: {evS}" else r
      | _ => r
    -- C14 on the bytes themselves: whatever size() claims, the encoding requested for sending fits the peer's limit
    let r :=
      let lens := (evS.splitOn " ; ").filterMap fun (e : String) =>
        if e.startsWith "send{" then (match e.splitOn "#" with | [_, hx] => some (hx.length / 2) | _ => none) else none
      let over := lens.filter fun n => n > limit
      if ver = 5 ∧ !over.isEmpty then
        r.viol s!"C14 oversize_bytes_sent@{site}" s!"{here}: an encoding of {over} bytes was requested for sending; the peer's Maximum Packet Size is {limit}: {evS}" else r
    -- C13: what is kept for retransmission carries the full topic and no alias
    let r := match op with
      | ["regulate", _] =>
        (match parseDescr retS with
         | some q => if q.alias.isSome ∨ q.topic.isEmpty then
             r.viol s!"C13 regulated_keeps_alias@{site}" s!"{here}: the packet prepared for the store still carries a Topic Alias or has no topic name: {retS}" else r
         | none => r)
      | _ => r
    -- C15
    let (armed, r) := match Mon.timersStep m.armed evs with
      | some a => (a, r)
      | none => (m.armed, r.viol s!"C15 cancel_unarmed@{site}" s!"{here}: RequestTimerCancel for a timer that is not armed: {evS}")
    let armed := match op with
      | ["timer", k] => (match parseTimer k with | some t => (Mon.timersStep (m.armed.set t false) evs).getD armed | none => armed)
      | _ => armed
    let flags := s!"{b01 armed.s}{b01 armed.r}{b01 armed.p}"
    let armedBad : Bool := stAfter = "D" ∧ flags ≠ "000"
    let r := if armedBad ∧ !m.armedBad then
        r.viol s!"C15 armed_while_disconnected@{site}" s!"{here}: timers {flags} (send,recv,resp) armed while the connection is disconnected: {evS}" else r
    -- C08
    let rel := Mon.releasedIds evs
    let before := (parseIvs (let s := gp "pidfree"; if s = "" then "-" else s)).getD []
    let after := (parseIvs (let s := g "pidfree"; if s = "" then "-" else s)).getD []
    let r := if !m.prev.isEmpty ∧ rel.any (fun id => ivContains before id) then
        r.viol s!"C08 release_of_free_id@{site}" s!"{here}: NotifyPacketIdReleased for an identifier that was free: {evS}" else r
    let r := if rel.any (fun id => !ivContains after id) then
        r.viol s!"C08 released_still_used@{site}" s!"{here}: NotifyPacketIdReleased but the identifier is still in use: {evS}" else r
    let r := if rel.eraseDups.length ≠ rel.length then
        r.viol s!"C08 released_twice@{site}" s!"{here}: an identifier announced released twice: {evS}" else r
    -- C05: a complete frame is delivered, answered as duplicate, or reported
    let r := match op with
      | "recv" :: _ =>
        let o := parseRecvOracle oracle
        if o.frame ≠ "none" ∧ !Mon.frameAccounted evs then
          -- sub-clause: a QoS 2 duplicate of an already handled id while not connected
          let dupNotConn : Bool := match parseParsed o.parsed with
            | .ok p => decide (p.kind = Kind.publish ∧ p.qos = 2 ∧ stBefore ≠ "C") &&
                       (((gp "h2").splitOn ",").any (· = toString (p.pid.getD 0)))
            | .error _ => false
          let clause := if dupNotConn then "qos2_duplicate_while_not_connected_swallowed" else "frame_swallowed"
          r.viol s!"C05 {clause}@{site}" s!"{here}: a complete frame produced neither delivery, nor PUBREC, nor an error: {evS}" else r
      | _ => r
    -- C05: a disconnected object accepts a new connection (no limit of a dead connection is in force)
    let r := match op with
      | "send" :: _ =>
        (match parseDescr oracle with
         | some p =>
           if p.kind = Kind.connect ∧ stBefore = "D" ∧ cfg.role ≠ Role.server ∧ !m.prev.isEmpty ∧ (gp "ver").toNat? = some p.ver ∧
              !(evs.any fun (e : Ev) => match e with | .send q _ => q.kind = Kind.connect | _ => false) then
             r.viol s!"C05 connect_refused_while_disconnected@{site}" s!"{here}: the connection is disconnected and of the packet's version, yet the CONNECT was not requested for sending: {evS}" else r
         | none => r)
      | "recv" :: _ =>
        let o := parseRecvOracle oracle
        (match parseParsed o.parsed with
         | .ok p =>
           let verB := if m.prev.isEmpty then ver else (gp "ver").toNat?.getD 0
           if o.frame ≠ "none" ∧ p.kind = Kind.connect ∧ stBefore = "D" ∧ cfg.role ≠ Role.client ∧ (verB = 0 ∨ verB = p.ver) ∧
              !(evs.any fun (e : Ev) => match e with | .recv q => q.kind = Kind.connect | _ => false) then
             r.viol s!"C05 connect_not_accepted_while_disconnected@{site}" s!"{here}: a well-formed CONNECT of the connection's version arrived on a disconnected connection and was not delivered: {evS}" else r
         | .error _ => r)
      | _ => r
    -- C13 (sender side), ghost receiver table
    -- the peer's Topic Alias Maximum is learnt from the CONNECT / CONNACK actually *delivered*
    let delivered : Option Pkt := evs.findSome? fun (e : Ev) => match e with
      | .recv p => if p.kind = Kind.connect ∨ (p.kind = Kind.connack ∧ p.rc = some 0) then some p else none
      | _ => none
    let (peer, peerTam) := match op, delivered with
      | ["closed"], _ => ([], 0)
      | _, some p => ([], ((p.props.find? (·.1 = pTAM)).map (·.2)).getD 0)
      | _, none => (m.peer, m.peerTam)
    let (peer, r) := match Mon.peerStepEvs peerTam peer evs with
      | some t => (t, r)
      | none => (peer, r.viol s!"C13 unresolvable_alias@{site}" s!"{here}: a PUBLISH was emitted that a conformant receiver cannot resolve (peer TAM {peerTam}): {evS}")
    -- C13: the emitted PUBLISH resolves, at the receiver, to the topic the application asked for
    let r := match op with
      | "send" :: _ =>
        (match parseDescr oracle with
         | some p =>
           if p.ver = 5 ∧ p.kind = Kind.publish then
             let tbl := match delivered with | some _ => [] | none => (if op = ["closed"] then [] else m.peer)
             match Mon.peerResolve tbl p, Mon.sentPublishes evs with
             | some want, [q] =>
               (match Mon.peerResolve tbl q with
                | some got =>
                  if got ≠ want then
                    r.viol s!"C13 wrong_topic@{site}" s!"{here}: the application asked for topic {want} (bytes); the emitted PUBLISH (topic {q.topic}, alias {showOptN q.alias}) resolves at a conformant receiver (table {tbl}) to {got}: {evS}" else r
                | none => r)
             | _, _ => r
           else r
         | none => r)
      | _ => r
    -- C13 (sender side): an alias-only PUBLISH whose alias no emitted PUBLISH of this connection bound
    let r := match op with
      | "send" :: _ =>
        (match parseDescr oracle with
         | some p =>
           let tbl := match delivered with | some _ => [] | none => m.peer
           let accepted := !Mon.hasError evs ∧ (evs.any (fun (e : Ev) => match e with | .send q _ => q.kind = Kind.publish | _ => false) ∨
             (!m.prev.isEmpty ∧ ((g "store").splitOn ":{").length > ((gp "store").splitOn ":{").length))
           if p.ver = 5 ∧ p.kind = Kind.publish ∧ p.topic.isEmpty ∧ (Mon.peerResolve tbl p).isNone ∧ accepted then
             r.viol s!"C13 unbound_alias_accepted@{site}" s!"{here}: a PUBLISH with an empty topic and alias {showOptN p.alias} was accepted although no PUBLISH emitted on this connection bound that alias (receiver's table {tbl}): {evS}" else r
         | none => r)
      | _ => r
    -- C13 (receiver side): ghost table of the bindings the peer announced on this connection
    let connectNow : Bool := evs.any fun (e : Ev) => match e with
      | .send q _ => q.kind = Kind.connect
      | .recv q => q.kind = Kind.connect
      | _ => false
    let inTbl0 : Mon.PeerTable := if op = ["closed"] ∨ connectNow then [] else m.inTbl
    let ownTam0 : Nat := match op with | ["closed"] => 0 | _ => m.ownTam
    let frameTooLarge : Bool := match m.ownMps with
      | some l => totalSize ((((parseRecvOracle oracle).frame.splitOn ":").getD 1 "").length / 2) > l
      | none => false
    let (inTbl, r) := match op with
      | "recv" :: _ =>
        (match parseParsed (parseRecvOracle oracle).parsed with
         | .ok p =>
           if p.ver = 5 ∧ p.kind = Kind.publish ∧ (parseRecvOracle oracle).frame ≠ "none" then
             let r := evs.foldl (fun (r : Report) (e : Ev) => match e with
               | .recv q =>
                 if q.kind = Kind.publish ∧ q.extracted then
                   match q.alias with
                   | some a =>
                     if Mon.peerLookup a inTbl0 ≠ some q.topic then
                       r.viol s!"C13 delivered_under_wrong_topic@{site}" s!"{here}: an alias-only PUBLISH (alias {a}) was delivered with topic {q.topic}; the peer's announcements on this connection bind it to {Mon.peerLookup a inTbl0} (table {inTbl0})"
                     else r
                   | none => r
                 else r
               | _ => r) r
             -- a binding is announced by every PUBLISH that carries a topic and an alias within the
             -- maximum we announced (also one we then refuse for another reason: the peer has said it)
             let t := match p.alias with
               | some a => if !p.topic.isEmpty ∧ 1 ≤ a ∧ a ≤ ownTam0 ∧ !frameTooLarge then (a, p.topic) :: inTbl0.filter (fun (kv : Nat × List Nat) => kv.1 ≠ a) else inTbl0
               | none => inTbl0
             (t, r)
           else (inTbl0, r)
         | .error _ => (inTbl0, r))
      | _ => (inTbl0, r)
    -- C14 (receiver side): a frame larger than the maximum we announced is never delivered
    let ownMps0 : Option Nat := match op with | ["closed"] => none | _ => m.ownMps
    let r := match op with
      | "recv" :: _ =>
        let o := parseRecvOracle oracle
        if o.frame = "none" ∨ o.frame = "err" then r else
        let bodyLen := (((o.frame.splitOn ":").getD 1 "").length) / 2
        let deliveredAny := evs.any (fun (e : Ev) => match e with | .recv _ => true | _ => false)
        (match ownMps0 with
         | some l => if totalSize bodyLen > l ∧ deliveredAny then
             r.viol s!"C14 oversize_delivered@{site}" s!"{here}: a received packet of {totalSize bodyLen} bytes was delivered although we announced Maximum Packet Size {l}: {evS}" else r
         | none => r)
      | _ => r
    let ownTam : Nat := evs.foldl (fun acc (e : Ev) => match e with
      | .send p _ => if p.ver = 5 ∧ (p.kind = Kind.connect ∨ (p.kind = Kind.connack ∧ p.rc = some 0)) then (Mon.findProp p pTAM).getD 0 else acc
      | _ => acc) ownTam0
    let ownMps : Option Nat := evs.foldl (fun acc (e : Ev) => match e with
      | .send p _ => if p.ver = 5 ∧ (p.kind = Kind.connect ∨ (p.kind = Kind.connack ∧ p.rc = some 0)) then Mon.findProp p pMPS else acc
      | _ => acc) ownMps0
    -- C11 / C17: the gates, evaluated on the implementation's observations
    let statusOf (x : String) : Status := if x = "C" then .connected else if x = "G" then .connecting else .disconnected
    let sessionKeys := ["pidfree", "puback", "pubrec", "pubcomp", "store", "h2", "need_store"]
    let changed (except : List String) : List String :=
      if m.prev.isEmpty then [] else
      (dig.filter fun (kv : String × String) => !except.contains kv.1 && kvGet m.prev kv.1 ≠ kv.2).map (fun (kv : String × String) => kv.1)
    let storeCount (x : String) : Nat := (x.splitOn ":{").length - 1
    let r := match op with
      | "send" :: _ =>
        (match parseDescr oracle with
         | some p =>
           let nsB := if m.prev.isEmpty then false else gp "need_store" = "1"
           let offB := if m.prev.isEmpty then false else gp "off" = "1"
           let mayT := Spec.mayTransmit cfg.role ver (statusOf stBefore) p nsB offB
           let transmitted := evs.any (fun (e : Ev) => match e with | .send _ _ => true | _ => false) ||
             (!m.prev.isEmpty && storeCount (g "store") > storeCount (gp "store"))
           let r := if transmitted ∧ !mayT then
               r.viol s!"C11 transmitted_but_forbidden@{site}" s!"{here}: role/version/state forbid this packet (status {stBefore}, need_store {nsB}, offline {offB}) but it was passed to the transport or stored: {evS}" else r
           -- a gate refusal is a no-op: one error event (+ release of the packet's id), state unchanged
           let shapeOk := match evs with
             | [.error _] => true
             | [.error _, .released id] => p.pid = some id
             | _ => false
           let ch := changed ["pidfree"]
           -- (a PUBLISH can also be refused with this code for its alias; those are C13's subject)
           let gateOnly := p.kind != Kind.publish || (p.alias.isNone && !p.topic.isEmpty)
           let r := if mayT ∧ gateOnly ∧ !m.prev.isEmpty ∧ Mon.hasErrorCode evs eNotAllowed ∧ !transmitted then
               r.viol s!"C11 allowed_but_refused@{site}" s!"{here}: role, version and connection state allow this packet (status {stBefore}, need_store {nsB}, offline {offB}), yet it was refused with PacketNotAllowedToSend: {evS}" else r
           if !mayT ∧ (!shapeOk ∨ !ch.isEmpty) then
             r.viol s!"C11 gate_refusal_not_noop@{site}" s!"{here}: the gate refuses this packet, yet events=[{evS}] changed fields={ch}" else r
         | none => r)
      | "recv" :: _ =>
        let o := parseRecvOracle oracle
        if o.frame = "none" ∨ o.frame = "err" then r else
        let fh := ((o.frame.splitOn ":").headD "0").toNat?.getD 0
        let t := fh / 16
        let bodyLen := (((o.frame.splitOn ":").getD 1 "").length) / 2
        let verB := if m.prev.isEmpty then ver else (gp "ver").toNat?.getD 0
        let mprB := if m.prev.isEmpty then noLimit else (gp "mpr").toNat?.getD noLimit
        if totalSize bodyLen > mprB then r else
        let delivered := evs.any (fun (e : Ev) => match e with | .recv _ => true | _ => false)
        let r := if verB ≠ 0 ∧ !Spec.mayReceive cfg.role verB t ∧ (evs ≠ [Ev.error eProtocol] ∨ !(changed ["pb"]).isEmpty) then
            r.viol s!"C17 forbidden_type_not_rejected@{site}" s!"{here}: a packet type the peer of this role may never send must yield exactly a protocol error and change nothing: events=[{evS}] changed={changed ["pb"]}" else r
        let r := if stBefore = "C" ∧ (t = 1 ∨ t = 2) ∧ Spec.mayReceive cfg.role verB t ∧
              (delivered ∨ stAfter = "G" ∨ !(sessionKeys.filter (fun k => (changed []).contains k)).isEmpty) then
            r.viol s!"C17 connect_or_connack_on_established@{site}" s!"{here}: CONNECT/CONNACK on an established connection must be a protocol error that leaves the session untouched: events=[{evS}] changed={sessionKeys.filter (fun k => (changed []).contains k)}" else r
        let r := if verB = 0 ∧ t ≠ 1 ∧ (evs ≠ [Ev.error eMalformed] ∧ evs ≠ [Ev.error eProtocol] ∨ !(changed ["pb"]).isEmpty) then
            r.viol s!"C17 undetermined_first_packet@{site}" s!"{here}: an undetermined connection accepts only CONNECT as first packet: events=[{evS}] changed={changed ["pb"]}" else r
        r
      | _ => r
    -- helpers on digest fields
    let idsOf (x : String) : List Nat := if x = "" then [] else (x.splitOn ",").filterMap (fun (w : String) => w.toNat?)
    let storeIds (x : String) : List Nat :=
      if x = "-" ∨ x = "" then [] else (x.splitOn "};").filterMap fun (e : String) => ((e.splitOn ":").headD "").toNat?
    let usedBefore (id : Nat) : Bool := !m.prev.isEmpty && !ivContains before id
    let newSession := Mon.startsNewSession evs
    -- C08: an id turns free only with an announcement (or a new session); non-persistent close releases
    let cand : List Nat := (idsOf (gp "suback") ++ idsOf (gp "unsuback") ++ idsOf (gp "puback") ++ idsOf (gp "pubrec") ++
        idsOf (gp "pubcomp") ++ storeIds (gp "store") ++ (List.range 40).map (· + 1)).eraseDups
    let silent := cand.filter fun id => usedBefore id && ivContains after id && !rel.contains id
    let r := if !silent.isEmpty ∧ !newSession then
        r.viol s!"C08 unannounced_release@{site}" s!"{here}: identifiers {silent} were in use before the call and are free after it, no NotifyPacketIdReleased was issued and no new session started: {evS}" else r
    let r := if op = ["closed"] ∧ !m.prev.isEmpty then
        let must := idsOf (gp "suback") ++ idsOf (gp "unsuback") ++
          (if !m.nsGhost then idsOf (gp "puback") ++ idsOf (gp "pubrec") ++ idsOf (gp "pubcomp") else [])
        let kept := must.filter fun id => usedBefore id && !ivContains after id
        if !kept.isEmpty then
          r.viol s!"C08 not_released_on_close@{site}" s!"{here}: identifiers {kept} of exchanges that end with the connection are still in use after the transport was reported closed: {evS}" else r
      else r
    -- C08: a refused send of a packet that starts an exchange releases the identifier obtained for it
    let r := match op, parseDescr oracle with
      | "send" :: _, some p =>
        let starts := (p.kind = Kind.publish ∧ p.qos > 0) ∨ p.kind = Kind.subscribe ∨ p.kind = Kind.unsubscribe
        (match p.pid with
         | some id =>
           let owned := (idsOf (gp "suback") ++ idsOf (gp "unsuback") ++ idsOf (gp "puback") ++ idsOf (gp "pubrec") ++
             idsOf (gp "pubcomp") ++ storeIds (gp "store")).contains id
           let sentAny := evs.any fun (e : Ev) => match e with | .send _ _ => true | _ => false
           let storedNow := (storeIds (g "store")).contains id
           if starts ∧ Mon.hasError evs ∧ !sentAny ∧ !storedNow ∧ usedBefore id ∧ !owned ∧ !ivContains after id then
             r.viol s!"C08 refused_send_keeps_id@{site}" s!"{here}: the send was refused ({evS}) but identifier {id}, obtained for it and owned by no exchange, is still in use and no NotifyPacketIdReleased was issued" else r
         | none => r)
      | _, _ => r
    -- C10: the call that starts a new session leaves nothing of the old one
    let r := if newSession ∧ !Mon.hasError evs then
        let idMax := 256 ^ cfg.pw - 1
        let allFree : Bool := match after with | [iv] => iv.lo = 1 ∧ iv.hi = idMax | _ => false
        let left := (if storeIds (g "store") ≠ [] then ["store"] else []) ++
          (["puback", "pubrec", "pubcomp", "h2"].filter fun k => g k ≠ "") ++ (if allFree then [] else ["pidfree"])
        -- C08: an identifier in use that the new session does not know is leaked (nothing will ever release it)
        let r := if !allFree ∧ storeIds (g "store") = [] ∧ (["puback", "pubrec", "pubcomp", "suback", "unsuback"].all fun k => g k = "") then
            r.viol s!"C08 id_leaked_into_new_session@{site}" s!"{here}: this call starts a new session; no exchange and no stored packet exists afterwards, yet identifiers are still in use (free: {g "pidfree"}) - nothing will ever release them; events: {evS}" else r
        if !left.isEmpty then
          r.viol s!"C10 old_session_survives@{site}" s!"{here}: this call starts a new session (clean start, or session not present), yet session state is left afterwards: {left.map fun k => s!"{k}=[{g k}]"}; events: {evS}" else r
      else r
    -- C08: closing a persistent session releases only the identifiers of SUBSCRIBE / UNSUBSCRIBE exchanges
    let r := if op = ["closed"] ∧ !m.prev.isEmpty ∧ m.nsGhost then
        let pubIds := idsOf (gp "puback") ++ idsOf (gp "pubrec") ++ idsOf (gp "pubcomp")
        let bad := rel.filter fun id => pubIds.contains id
        if !bad.isEmpty then
          r.viol s!"C08 released_on_persistent_close@{site}" s!"{here}: the session is persistent, yet closing the transport released the identifiers {bad} of QoS 1/2 exchanges that are still in flight: {evS}" else r
      else r
    -- C06: an erased publish is awaited by nothing any more
    let r := match op with
      | ["erase", v] =>
        (match v.toNat? with
         | some id =>
           if (storeIds (gp "store")).contains id ∧ (idsOf (g "puback") ++ idsOf (g "pubrec")).contains id ∧ !(storeIds (g "store")).contains id then
             r.viol s!"C06 erased_still_awaited@{site}" s!"{here}: the stored PUBLISH {id} was erased but the connection still waits for its acknowledgement (puback=[{g "puback"}] pubrec=[{g "pubrec"}])" else r
         | none => r)
      | _ => r
    -- C10: no timer of the closed connection stays armed
    let r := if op = ["closed"] ∧ flags ≠ "000" then
        r.viol s!"C10 timer_survives_close@{site}" s!"{here}: after the transport was reported closed the timers {flags} (send,recv,resp) are still armed on the application side (no cancel was requested): {evS}" else r
    -- C06
    let stB := storeIds (gp "store")
    let stA := storeIds (g "store")
    -- C06: the send-error hint tells the application to release the identifier if the write fails;
    -- it must not name a packet that was stored (its identifier stays held until the acknowledgement)
    let r :=
      let stored := stA
      let bad := evs.filterMap fun (e : Ev) => match e with
        | .send q (some id) => if (q.kind = Kind.publish ∨ q.kind = Kind.pubrel) ∧ stored.contains id then some id else none
        | _ => none
      if !bad.isEmpty then
        r.viol s!"C06 hint_releases_stored_id@{site}" s!"{here}: release_packet_id_if_send_error names {bad}, yet those packets are in the store (an application following the hint frees an identifier a stored packet still owns): {evS}" else r
    let r := match op, parseDescr oracle with
      | "send" :: _, some p =>
        if p.kind = Kind.publish ∧ p.qos > 0 ∧ !Mon.hasError evs then
          let id := p.pid.getD 0
          let sent := evs.any fun (e : Ev) => match e with | .send q _ => q.kind = Kind.publish ∧ q.pid = some id | _ => false
          if !sent ∧ !stA.contains id then
            r.viol s!"C06 accepted_publish_dropped@{site}" s!"{here}: a QoS {p.qos} PUBLISH (id {id}) was accepted without an error event but neither requested for sending nor stored: events=[{evS}] store ids={stA}" else r
        else r
      | _, _ => r
    -- a stored packet keeps its identifier in use
    let loose := stA.filter fun id => ivContains after id
    let r := if !loose.isEmpty then
        violStore "stored_id_not_held" r s!"{here}: stored packets {loose} are in the store but their identifiers are free (store {stA}, free ids {g "pidfree"}): {evS}" else r
    -- C16: after restore_packets into an object without session state, the identifiers in use are
    -- exactly the store keys and the wait sets are exactly the stored ids by kind
    let r := match op with
      | "restore_p" :: _ =>
        let wasEmpty := m.prev.isEmpty ∨ (stB.isEmpty ∧ gp "puback" = "" ∧ gp "pubrec" = "" ∧ gp "pubcomp" = "" ∧ gp "suback" = "" ∧ gp "unsuback" = "")
        let ents : List (Nat × Nat × Nat) :=
          let x := g "store"
          if x = "-" ∨ x = "" then [] else (x.splitOn "};").filterMap fun (e : String) =>
            match e.splitOn ":{" with
            | [i, rest] =>
              let kv := parseKV rest
              (match i.toNat?, (kvGet kv "k").toNat?, (kvGet kv "q").toNat? with
               | some i, some k, some q => some (i, k, q)
               | _, _, _ => none)
            | _ => none
        let want (k q : Nat) : List Nat := (ents.filter fun (e : Nat × Nat × Nat) => e.2.1 = k ∧ (k ≠ 3 ∨ e.2.2 = q)).map (fun (e : Nat × Nat × Nat) => e.1)
        let sameSet (a b : List Nat) : Bool := a.all (fun x => b.contains x) && b.all (fun x => a.contains x)
        let entIds : List Nat := ents.map (fun (e : Nat × Nat × Nat) => e.1)
        let bad := (if !sameSet (idsOf (g "puback")) (want 3 1) then ["puback"] else []) ++
                   (if !sameSet (idsOf (g "pubrec")) (want 3 2) then ["pubrec"] else []) ++
                   (if !sameSet (idsOf (g "pubcomp")) (want 6 0) then ["pubcomp"] else []) ++
                   (if entIds.any (fun id => ivContains after id) then ["stored id free"] else []) ++
                   (if entIds.eraseDups.length ≠ ents.length then ["duplicate id in store"] else [])
        if wasEmpty ∧ !bad.isEmpty then
          r.viol s!"C16 restore_inconsistent@restore_p" s!"{here}: after restore_packets the store holds {ents} (id, kind, QoS) but {bad} disagree: puback=[{g "puback"}] pubrec=[{g "pubrec"}] pubcomp=[{g "pubcomp"}] free=[{g "pidfree"}]" else r
      | _ => r
    -- (id, kind) entries: a PUBLISH replaced by its PUBREL is a new entry (appended at the back)
    let storeEntries (x : String) : List Nat :=
      if x = "-" ∨ x = "" then [] else (x.splitOn "};").filterMap fun (e : String) =>
        match e.splitOn ":{k=" with
        | [i, rest] => do pure ((← i.toNat?) * 16 + (← ((rest.splitOn ",").headD "").toNat?))
        | _ => none
    let r := if !m.prev.isEmpty ∧ !Mon.sameRelativeOrder (storeEntries (gp "store")) (storeEntries (g "store")) then
        violStore "store_order_changed" r s!"{here}: the relative order of stored packets changed: before {stB}, after {stA}" else r
    let ackedIds : List Nat := evs.filterMap fun (e : Ev) => match e with
      | .recv p => if p.kind = Kind.puback ∨ p.kind = Kind.pubrec ∨ p.kind = Kind.pubcomp then p.pid else none
      | _ => none
    let erasedId : List Nat := match op with | ["erase", v] => (v.toNat?.map ([·])).getD [] | _ => []
    let gone := stB.filter fun id => !stA.contains id
    -- (a release announced while closing a persistent session justifies nothing: such a close keeps the store)
    let unjust := gone.filter fun id => !ackedIds.contains id && !erasedId.contains id && (!rel.contains id || (op = ["closed"] && m.nsGhost))
    let r := if !m.prev.isEmpty ∧ !unjust.isEmpty ∧ !newSession ∧ !(op = ["closed"] ∧ !m.nsGhost) then
        violStore "stored_packet_vanished" r s!"{here}: stored packets {unjust} left the store without matching acknowledgement, erase, oversize drop or new session: {evS}" else r
    let r := match op with
      | "recv" :: _ =>
        (match parseParsed (parseRecvOracle oracle).parsed with
         | .ok p =>
           if (p.kind = Kind.puback ∨ p.kind = Kind.pubrec ∨ p.kind = Kind.pubcomp) ∧ Mon.hasErrorCode evs eProtocol ∧
              !(evs.any fun (e : Ev) => match e with | .recv _ => true | _ => false) then
             let ch := (dig.filter fun (kv : String × String) => ["store", "pidfree", "puback", "pubrec", "pubcomp"].contains kv.1 && kvGet m.prev kv.1 ≠ kv.2).map (fun (kv : String × String) => kv.1)
             if !m.prev.isEmpty ∧ !ch.isEmpty then
               r.viol s!"C06 unmatched_ack_changed_state@{site}" s!"{here}: an acknowledgement matching nothing in flight was reported as a protocol error but changed {ch}" else r
           else r
         | .error _ => r)
      | _ => r
    -- resume: stored packets are requested again right after the CONNACK, in store order
    let resumed : Bool := evs.any fun (e : Ev) => match e with
      | .recv p => p.kind = Kind.connack ∧ p.rc = some 0 ∧ p.sp ∧ stBefore ≠ "C"
      | .send p _ => p.kind = Kind.connack ∧ p.rc = some 0 ∧ p.sp
      | _ => false
    let storeSizes (x : String) : List (Nat × Nat) :=
      if x = "-" ∨ x = "" then [] else (x.splitOn "};").filterMap fun (e : String) =>
        match e.splitOn ":{" with
        | [i, rest] => (match i.toNat?, (kvGet (parseKV rest) "sz").toNat? with
            | some i, some z => some (i, z) | _, _ => none)
        | _ => none
    -- which stored packets fit the limit the peer announced for THIS connection (v5.0; ghost limit)
    let fitsNow (id : Nat) : Bool := ver ≠ 5 || ((storeSizes (gp "store")).all fun (e : Nat × Nat) => e.1 ≠ id || e.2 ≤ peerMps)
    -- a retransmitted PUBLISH carries the DUP flag
    let r := if resumed then
        let noDup := evs.filterMap fun (e : Ev) => match e with
          | .send q _ => if q.kind = Kind.publish ∧ q.qos > 0 ∧ !q.dup then q.pid else none
          | _ => none
        if !noDup.isEmpty then
          violStore "resend_without_dup" r s!"{here}: on session resume the stored PUBLISH packets {noDup} were requested again without the DUP flag: {evS}" else r
      else r
    let r := if resumed ∧ !m.prev.isEmpty ∧ !newSession then
        let keptOversize := (storeSizes (g "store")).filter fun (e : Nat × Nat) => ver = 5 ∧ e.2 > peerMps
        let r := if !keptOversize.isEmpty then
            r.viol s!"C14 oversize_stored_kept@{site}" s!"{here}: the session was resumed under the peer's Maximum Packet Size {peerMps}; stored packets (id, size) {keptOversize} exceed it and are still in the store (they must be dropped and their identifiers released): {evS}" else r
        let expect := stB.filter fun id => fitsNow id
        let got := Mon.sentExchangeIds evs
        if got ≠ expect then
          violStore "resend_mismatch" r s!"{here}: on session resume the stored packets {expect} (store order, minus oversize drops) must be requested again in that order; requested: {got}" else r
      else r
    -- C12: ghost account of incomplete exchanges
    let cstart := Mon.connectionStart evs
    let cr := m.credit
    let cr : Mon.Credit := match op with
      | ["closed"] => {}
      | _ => cr
    let sentConnect : Option Pkt := evs.findSome? fun (e : Ev) => match e with | .send p _ => if p.kind = Kind.connect then some p else none | _ => none
    let sentConnackOk : Option Pkt := evs.findSome? fun (e : Ev) => match e with | .send p _ => if p.kind = Kind.connack ∧ p.rc = some 0 then some p else none | _ => none
    let deliveredStart : Option Pkt := evs.findSome? fun (e : Ev) => match e with
      | .recv p => if p.kind = Kind.connect ∨ (p.kind = Kind.connack ∧ p.rc = some 0) then some p else none | _ => none
    let cr : Mon.Credit := match sentConnect with
      | some p => { out := [], peerMax := none, inn := [], ownMax := Mon.findProp p pRM }
      | none => cr
    let cr : Mon.Credit := match deliveredStart with
      | some p => if p.kind = Kind.connect then { out := [], peerMax := Mon.findProp p pRM, inn := [], ownMax := none }
                  else { cr with out := [], peerMax := Mon.findProp p pRM }
      | none => cr
    let cr : Mon.Credit := match sentConnackOk with
      | some p => { cr with ownMax := Mon.findProp p pRM }
      | none => cr
    -- receiver side: an inbound QoS>0 PUBLISH accepted (no error) beyond our announced maximum
    let (cr, r) := match op with
      | "recv" :: _ =>
        (match parseParsed (parseRecvOracle oracle).parsed with
         | .ok p =>
           if p.kind = Kind.publish ∧ p.ver = 5 ∧ p.qos > 0 ∧ !Mon.hasError evs ∧ (parseRecvOracle oracle).frame ≠ "none" then
             let id := p.pid.getD 0
             let over := match cr.ownMax with | some l => decide (cr.inn.length ≥ l) | none => false
             let r := if over ∧ stBefore = "C" then
                 r.viol s!"C12 excess_publish_accepted@{site}" s!"{here}: the peer has {cr.inn.length} unanswered QoS>0 PUBLISH outstanding (ids {cr.inn}) with our Receive Maximum {showOptN cr.ownMax}; this one must be answered with DISCONNECT 0x93, not accepted: {evS}" else r
             ({ cr with inn := ins id cr.inn }, r)
           else (cr, r)
         | .error _ => (cr, r))
      | _ => (cr, r)
    let cr := { cr with inn := Mon.creditInAnswered cr.inn evs }
    let outBefore := cr.out
    -- a PUBREL opens an account entry only when it is a stored one retransmitted on resume; one sent
    -- in answer to a PUBREC continues the exchange its PUBLISH opened on this connection (an unsolicited
    -- PUBREC for an exchange of an earlier connection does not make it one of this connection)
    let evsC := if resumed then evs else evs.filter fun (e : Ev) => match e with
      | .send q _ => q.kind ≠ Kind.pubrel
      | _ => true
    -- an exchange the application abandons (`release`) after its PUBREL went out stays open for the peer
    -- until the PUBCOMP arrives: the slot is returned then, not at the release
    let evsC := match op with
      | ["release", v] =>
        (match v.toNat? with
         | some id => if (idsOf (gp "pubcomp")).contains id then evsC.filter (fun (e : Ev) => e ≠ Ev.released id) else evsC
         | none => evsC)
      | _ => evsC
    let cr := { cr with out := Mon.creditOutStep cr.out evsC }
    let _ := cstart
    let r := match op with
      | ["vacancy"] =>
        if stAfter = "C" then
          let expect := match cr.peerMax with | some mx => toString (mx - cr.out.length) | none => "none"
          if retS ≠ expect then
            r.viol s!"C12 vacancy_mismatch@{site}" s!"{here}: reported vacancy {retS}; the peer announced Receive Maximum {showOptN cr.peerMax} and {cr.out.length} outbound QoS>0 exchanges of this connection are incomplete (ids {cr.out}): expected {expect}" else r
        else r
      | "send" :: _ =>
        (match parseDescr oracle, cr.peerMax with
         | some p, some mx =>
           if p.kind = Kind.publish ∧ p.ver = 5 ∧ p.qos > 0 ∧ stBefore = "C" then
             let refusedRM := Mon.hasErrorCode evs eRMExceeded
             let sent := evs.any fun (e : Ev) => match e with | .send q _ => q.kind = Kind.publish | _ => false
             let r := if refusedRM ∧ outBefore.length < mx then
                 r.viol s!"C12 refused_with_credit@{site}" s!"{here}: only {outBefore.length} outbound exchanges (ids {outBefore}) are incomplete with the peer's Receive Maximum {mx}, yet the PUBLISH was refused with ReceiveMaximumExceeded" else r
             if sent ∧ outBefore.length ≥ mx ∧ !outBefore.contains (p.pid.getD 0) then
               r.viol s!"C12 sent_without_credit@{site}" s!"{here}: {outBefore.length} outbound exchanges (ids {outBefore}) are already incomplete with the peer's Receive Maximum {mx}, yet another QoS>0 PUBLISH was sent" else r
           else r
         | _, _ => r)
      | _ => r
    -- C15: PINGREQ interval priority (override, Server Keep Alive, CONNECT keep alive; 0 disables)
    let iv := m.ivl
    let iv : Mon.Interval := match op with
      | ["interval", d] => { iv with user := (optNat d).getD none }
      | _ => iv
    let iv : Mon.Interval := match op with
      | ["closed"] => { iv with valid := false }
      | _ => iv
    let iv : Mon.Interval := match sentConnect with
      | some p => { iv with server := none, connect := p.keepAlive * 1000, valid := true }
      | none => iv
    let iv : Mon.Interval := match deliveredStart with
      | some p => if p.kind = Kind.connack then { iv with server := (Mon.findProp p pSKA).map (· * 1000) } else iv
      | none => iv
    let r := match op with
      | _ =>
        -- every call in which a client requests a packet for sending: direct sends, automatic
        -- responses, PINGREQ on expiry, retransmission of stored packets after CONNACK
        let sentSomething := evs.any fun (e : Ev) => match e with | .send q _ => q.kind ≠ Kind.disconnect | _ => false
        if g "cli" = "1" ∧ sentSomething ∧ stAfter = "C" ∧ iv.valid then
          let ex := iv.expected
          match Mon.lastSendTimer evs with
          | some (.timerReset _ ms) =>
            if ex = 0 ∨ ms ≠ ex then
              r.viol s!"C15 wrong_pingreq_interval@{site}" s!"{here}: after a send the PINGREQ timer was re-armed with {ms} ms; by priority (override {showOptN iv.user}, Server Keep Alive {showOptN iv.server}, CONNECT keep alive {iv.connect}) it must be {if ex = 0 then "disabled" else toString ex}" else r
          | _ =>
            if ex > 0 then
              r.viol s!"C15 no_rearm_after_send@{site}" s!"{here}: a client sent a packet but did not re-arm the PINGREQ timer ({ex} ms expected): {evS}" else r
        else r
    -- C08: the exchange owning an identifier completes => the identifier is released, announced
    let pend0 : List (Nat × Nat) := match op with | ["closed"] => [] | _ => (if newSession ∨ cstart.isSome then [] else m.pend)
    let r := match op with
      | "recv" :: _ =>
        (match parseParsed (parseRecvOracle oracle).parsed with
         | .ok p =>
           let id := p.pid.getD 0
           let nib := p.kind.nibble
           let tooLarge : Bool := totalSize ((((parseRecvOracle oracle).frame.splitOn ":").getD 1 "").length / 2) > (if m.prev.isEmpty then noLimit else (gp "mpr").toNat?.getD noLimit)
           if (nib = 4 ∨ nib = 5 ∨ nib = 7) ∧ stBefore = "C" ∧ p.ver = ver ∧ pend0.contains (id, nib) ∧ usedBefore id ∧ (parseRecvOracle oracle).frame ≠ "none" ∧ !tooLarge then
             let deliveredIt := evs.any fun (e : Ev) => match e with | .recv q => q.kind = p.kind ∧ q.pid = some id | _ => false
             let mustRelease := nib = 4 ∨ nib = 7 ∨ (nib = 5 ∧ Mon.isErrorRc p.rc)
             if !deliveredIt ∨ (mustRelease ∧ !rel.contains id) then
               r.viol s!"C08 completion_not_released@{site}" s!"{here}: this acknowledgement completes an exchange this connection started (awaited: {pend0}); it must be delivered{if mustRelease then " and identifier " ++ toString id ++ " released with NotifyPacketIdReleased" else ""}: {evS}" else r
           else r
         | .error _ => r)
      | _ => r
    let pend : List (Nat × Nat) := evs.foldl (fun (acc : List (Nat × Nat)) (e : Ev) => match e with
      | .send q _ =>
        let id := q.pid.getD 0
        if q.kind = Kind.publish ∧ q.qos = 1 then (id, 4) :: acc.filter (fun (x : Nat × Nat) => x.1 ≠ id)
        else if q.kind = Kind.publish ∧ q.qos = 2 then (id, 5) :: acc.filter (fun (x : Nat × Nat) => x.1 ≠ id)
        else if q.kind = Kind.pubrel then (id, 7) :: acc.filter (fun (x : Nat × Nat) => x.1 ≠ id)
        else acc
      | .recv q =>
        if q.kind = Kind.puback ∨ q.kind = Kind.pubcomp then acc.filter (fun (x : Nat × Nat) => x.1 ≠ q.pid.getD 0)
        else if q.kind = Kind.pubrec then acc.filter (fun (x : Nat × Nat) => x ≠ (q.pid.getD 0, 5))
        else acc
      | .released id => acc.filter (fun (x : Nat × Nat) => x.1 ≠ id)
      | _ => acc) pend0
    -- C11: the persistence of the session as the protocol defines it (v3.1.1: CONNECT without
    -- clean session; v5.0: Session Expiry Interval > 0 in CONNECT, overridden by the CONNACK's;
    -- switching offline publishing on keeps packets too) equals the flag the send gate reads
    let ns0 : Bool := match op with | ["set", "off", "1"] => true | _ => m.nsGhost
    let ns : Bool := evs.foldl (fun (acc : Bool) (e : Ev) => match e with
      | .send q _ => if q.kind = Kind.connect then (if q.ver = 4 then !q.clean else decide ((Mon.findProp q pSEI).getD 0 > 0)) else acc
      | .recv q =>
        if q.kind = Kind.connect then (if q.ver = 4 then !q.clean else decide ((Mon.findProp q pSEI).getD 0 > 0))
        else if q.kind = Kind.connack ∧ q.rc = some 0 ∧ q.ver = 5 then (match Mon.findProp q pSEI with | some v => decide (v > 0) | none => acc)
        else acc
      | _ => acc) ns0
    let r := if g "need_store" ≠ b01 ns then
        r.viol s!"C11 persistence_flag@{site}" s!"{here}: by the CONNECT / CONNACK exchanged and the offline option the session is {if ns then "persistent" else "not persistent"}, but the flag the send gate reads is need_store={g "need_store"}: {evS}" else r
    -- C15: a server re-arms its receive timer (1.5 x keep alive) on every packet it accepts
    let srv0 : Nat := match op with | ["closed"] => 0 | _ => m.srvMs
    let r := match op with
      | "recv" :: _ =>
        let o := parseRecvOracle oracle
        (match parseParsed o.parsed with
         | .ok p =>
           if o.frame ≠ "none" ∧ stBefore = "C" ∧ stAfter = "C" ∧ g "cli" = "0" ∧ srv0 > 0 ∧ !Mon.hasError evs ∧ p.kind ≠ Kind.disconnect ∧
              p.kind ≠ Kind.connack ∧ p.kind ≠ Kind.suback ∧ p.kind ≠ Kind.unsuback ∧ p.kind ≠ Kind.pingresp ∧
              !(evs.any fun (e : Ev) => e = Ev.timerReset Timer.pingreqRecv srv0) then
             r.viol s!"C15 no_recv_rearm@{site}" s!"{here}: a server with receive timeout {srv0} ms accepted a packet without re-arming the receive timer: {evS}" else r
         | .error _ => r)
      | _ => r
    -- ... and with exactly that value; never when the keep alive in force is 0
    let r := match op with
      | "recv" :: _ =>
        if stBefore = "C" ∧ stAfter = "C" ∧ g "cli" = "0" then
          let wrong := evs.filterMap fun (e : Ev) => match e with
            | .timerReset k ms => if k = Timer.pingreqRecv ∧ ms ≠ srv0 then some ms else none
            | _ => none
          if !wrong.isEmpty then
            r.viol s!"C15 wrong_recv_timeout@{site}" s!"{here}: the receive timer was armed with {wrong} ms; by the CONNECT keep alive / the Server Keep Alive sent it must be {if srv0 = 0 then "left alone (keep alive 0)" else toString srv0}: {evS}" else r
        else r
      | _ => r
    let srvMs : Nat := evs.foldl (fun (acc : Nat) (e : Ev) => match e with
      | .recv q => if q.kind = Kind.connect then q.keepAlive * 1000 * 3 / 2 else acc
      | .send q _ => if q.kind = Kind.connack ∧ q.rc = some 0 then (match Mon.findProp q pSKA with | some v => v * 1000 * 3 / 2 | none => acc) else acc
      | _ => acc) srv0
    -- C07: inbound QoS 2 exactly once per exchange
    let q2 : List Nat := match op with
      | ["restore_h", ids] => if ids = "-" then [] else ((ids.splitOn ",").filterMap (fun (w : String) => w.toNat?)).eraseDups
      | ["restore_h"] => []
      -- (persistence by the ghost flag - CONNECT / CONNACK exchanged and the offline option -, not by the implementation's own field)
      | ["closed"] => if m.nsGhost then m.q2open else []
      | _ => m.q2open
    let q2 := if newSession then [] else q2
    let (q2', twice) := Mon.q2Step q2 evs
    let r := if !twice.isEmpty then
        r.viol s!"C07 notified_twice@{site}" s!"{here}: QoS 2 PUBLISH {twice} notified to the application again although no PUBREL was received, no error PUBREC sent and no new session started since its first notification (open exchanges {q2}): {evS}" else r
    let r := match op with
      | "recv" :: _ =>
        let o := parseRecvOracle oracle
        (match parseParsed o.parsed with
         | .ok p =>
           let id := p.pid.getD 0
           let notified := evs.any fun (e : Ev) => match e with | .recv q => q.kind = Kind.publish ∧ q.pid = some id | _ => false
           if o.frame ≠ "none" ∧ p.kind = Kind.publish ∧ p.qos = 2 ∧ stBefore = "C" ∧ !Mon.hasError evs ∧ !notified ∧ !q2.contains id then
             r.viol s!"C07 swallowed@{site}" s!"{here}: a valid QoS 2 PUBLISH (id {id}) was accepted without error but not notified, although no earlier PUBLISH of this exchange was notified (open exchanges {q2}): {evS}" else r
         | .error _ => r)
      | _ => r
    ({ prev := dig, armed := armed, peer := peer, peerTam := peerTam, armedBad := armedBad, credit := cr, ivl := iv, q2open := q2', inTbl := inTbl, ownMps := ownMps, pend := pend, nsGhost := ns, srvMs := srvMs, ownTam := ownTam, peerMps := peerMps }, r)

structure ConnRun where
  cs : ConnSt := {}
  mon : MonSt := {}
  lastEv : String := ""          -- the implementation's answer to the last call (for `Y` lines)
  lastRet : String := ""
  lastDig : String := ""
  lastSite : String := ""
  verDiff : Bool := false        -- C10: the adopted-version root cause was seen in this trace
  gpb : Framing.PB := {}         -- C09: ghost frame assembler driven by the byte-step specification
deriving Inhabited

/-- C10 monitor.  `Y <op> | <events> | <ret> | <digest>`: what a *reused* object answered to the
    same call (after its previous connection was closed and a new session started); the line
    before it is the fresh object's answer.  The property's own observation: they must be equal. -/
def connY (run : ConnRun) (ln : Nat) (line : String) (r : Report) : ConnRun × Report :=
  let here := s!"{run.cs.name} line {ln}"
  let pid := run.cs.cmp
  let what := if pid = "C16" then "restored_differs" else if pid = "C17" then "undetermined_differs" else "reused_differs"
  let who := if pid = "C16" then ("original (closed, resumed)", "restored")
    else if pid = "C17" then ("undetermined", "fixed-version") else ("reused", "fresh")
  match line.splitOn " | " with
  | [_, evS, retS, digest] =>
    let verR := kvGet (digestFields digest) "ver"
    let verF := kvGet (digestFields run.lastDig) "ver"
    if pid ≠ "C17" ∧ (run.verDiff ∨ evS = "ADOPTED" ∨ (digest ≠ "-" ∧ run.lastDig ≠ "-" ∧ verR ≠ verF)) then
      -- root cause classified: every further difference in this trace follows from it
      ({ run with verDiff := true }, r.viol s!"{pid} adopted_version_survives_close@undetermined" s!"{here}: a connection created with an undetermined version keeps the version adopted on its first connection after the transport closed: reused ver={verR}, fresh ver={verF}")
    else (run, if evS = "MISSING" ∨ evS.startsWith "EXTRA" then
      r.viol s!"{pid} {what}.call_count@{run.lastSite}" s!"{here}: the {who.1} and the {who.2} object made a different number of receive calls on the same script"
    else
      let r := if stripHex evS ≠ stripHex run.lastEv then
          r.viol s!"{pid} {what}.events@{run.lastSite}" s!"{here}: same call: {who.1} object events=[{stripHex evS}] {who.2} object events=[{stripHex run.lastEv}]" else r
      let r := if retS ≠ run.lastRet then
          r.viol s!"{pid} {what}.return@{run.lastSite}" s!"{here}: {who.1} object returned {retS}, {who.2} object {run.lastRet}" else r
      if digest ≠ run.lastDig ∧ digest ≠ "-" ∧ run.lastDig ≠ "-" then
        let f := firstDiffField digest run.lastDig
        r.viol s!"{pid} {what}.state.{f}@{run.lastSite}" s!"{here}: after the same call the {who.1} object has {f}=[{kvGet (digestFields digest) f}], the {who.2} object {f}=[{kvGet (digestFields run.lastDig) f}]"
      else r)
  | _ => (run, r.mdiff "parse" s!"{here}: unparsable Y line")


/-- bulk probes (`harness bulk`): `K resend role=… ids=… n=<stored> rm=<M> | <PANIC | ok sends=k> | vacancy=<v>`.
    A session with `n` stored QoS 1 packets is resumed under the peer's Receive Maximum `M`:
    no panic, all `n` packets requested again (plus the CONNACK on a server), vacancy = M ∸ n. -/
def bulkLine (ln : Nat) (line : String) (r : Report) : Report :=
  let r := { r with calls := r.calls + 1 }
  match line.splitOn " | " with
  | [what, res, _] =>
    if what.startsWith "exhaust" then
      let here := s!"bulk line {ln}"
      if res = "PANIC" then
        r.viol "C08 panic@bulk.exhaust" s!"{here}: acquiring every packet identifier of a u16 connection panicked"
      else
        let kv := parseKV ((res.replace " " ","))
        let ok := kvGet kv "acquired" = "65535" ∧ kvGet kv "distinct" = "1" ∧ kvGet kv "next" = "E" ∧ kvGet kv "register_max_refused" = "1"
        if !ok then
          r.viol "C08 exhaustion@bulk.exhaust" s!"{here}: all 65535 identifiers must be acquirable at once (distinct, none 0), the next acquire must report exhaustion and register(65535) must be refused: {res}"
        else r
    else
    let vac := ((line.splitOn " | ").getD 2 "")
    let kv := parseKV (what.replace " " ",")
    let n := (kvGet kv "n").toNat?.getD 0
    let m := (kvGet kv "rm").toNat?.getD 0
    let here := s!"bulk line {ln}"
    if res = "PANIC" then
      r.viol "C05 panic@bulk.resend" s!"{here}: resuming a session with {n} stored packets under Receive Maximum {m} panicked ({what})"
    else
      let sends := ((res.splitOn "sends=").getD 1 "").toNat?.getD 0
      let extra := if (kvGet kv "role") = "server" then 1 else 0
      let r := if sends ≠ n + extra then
          r.viol "C06 resend_mismatch@bulk.resend" s!"{here}: {n} stored packets, {sends} packets requested for sending ({what})" else r
      let expect := toString (m - n)
      let got := ((vac.splitOn "vacancy=").getD 1 "")
      if got ≠ expect then
        let r := r.viol "C12 vacancy_mismatch@bulk.resend" s!"{here}: {n} retransmitted exchanges are incomplete under Receive Maximum {m}: vacancy must be {expect}, reported {got} ({what})"
        r.viol "C05 counter_wrap@bulk.resend" s!"{here}: the outbound exchange counter wrapped: {n} retransmitted exchanges, Receive Maximum {m}, reported vacancy {got} instead of {expect} ({what})"
      else r
  | _ => r.mdiff "parse" s!"bulk line {ln}: unparsable `{line.take 80}`"

/-! ### L1 ↔ L2 tie: the harness's packet descriptors are a function of the L1 codec model -/

def descrFields (d : String) : List (String × String) :=
  if d.startsWith "{" && d.endsWith "}" then parseKV ((d.drop 1).dropEnd 1).toString else []

def kindNameOf (d : String) : String :=
  let kv := descrFields d
  MqttVerif.Codec.kindName ((kvGet kv "v").toNat?.getD 0) ((kvGet kv "k").toNat?.getD 0)

/-- compare `view (parse …)` with the descriptor the harness printed from the real packet -/
def viewCheck (pw ver fh : Nat) (body : List Nat) (expected : String) (extracted : Bool) (here : String)
    (r : Report) : Report :=
  let r := r.tag "codec.view.checked"
  match MqttVerif.Codec.parseView ver pw fh body with
  | .ok p =>
    let got := showDescr pw { p with extracted := extracted }
    if got = expected then r
    else if expected.startsWith "E" then
      r.mdiff s!"codec.view.{MqttVerif.Codec.kindName ver (fh / 16)}.outcome" s!"{here}: L1 model accepts ({got}), implementation answered {expected}"
    else
      let f := firstDiffField (got.replace "," " ") (expected.replace "," " ")
      r.mdiff s!"codec.view.{kindNameOf expected}.{f}" s!"{here}: view of the L1 parse {got} ≠ descriptor {expected}"
  | .error e =>
    if expected = s!"E{e}" then r
    else r.mdiff s!"codec.view.{MqttVerif.Codec.kindName ver (fh / 16)}.error" s!"{here}: L1 model answers E{e}, implementation {expected}"

/-- every received complete frame (`frame=<fh>:<body> parsed=<descr|E..>` in the oracle field) and
    every sent packet (`send{descr}rel#<bytes>`) -/
def codecTie (pw verBefore : Nat) (op : List String) (oracle evS here : String) (r : Report) : Report :=
  let r :=
    if op.head? = some "recv" then
      let ws := words oracle
      match ws.find? (·.startsWith "frame="), ws.find? (·.startsWith "parsed=") with
      | some fw, some pwd =>
        let fr := (fw.drop 6).toString
        let parsed := (pwd.drop 7).toString
        match fr.splitOn ":" with
        | [fhS, bodyS] =>
          match fhS.toNat?, (if bodyS = "" then some [] else hexToBytes bodyS) with
          | some fh, some body =>
            let pv := if verBefore = 0 then body.getD 6 0 else verBefore
            if (pv = 4 ∨ pv = 5) ∧ parsed ≠ "PANIC" then viewCheck pw pv fh body parsed false here r else r
          | _, _ => r
        | _ => r
      | _, _ => r
    else r
  (evS.splitOn " ; ").foldl (fun r e =>
    if e.startsWith "send{" then
      match e.splitOn "#" with
      | [front, hexS] =>
        let d := ((front.drop 4).toString.splitOn "}").headD "" ++ "}"
        let kv := descrFields d
        match hexToBytes hexS, (kvGet kv "v").toNat? with
        | some bytes, some v =>
          match MqttVerif.Codec.frameBody bytes with
          | some (fh, rl, body) =>
            -- the Remaining Length on the wire frames exactly the bytes that follow
            let r := if rl ≠ body.length then
                let r := r.mdiff "codec.sent.remlen" s!"{here}: a packet requested for sending declares Remaining Length {rl} but {body.length} bytes follow: {hexS.take 60}"
                if fh / 16 = 3 ∧ v = 5 then
                  r.viol "C13 emitted_publish_malformed@send" s!"{here}: the PUBLISH requested for sending cannot be framed by a conformant receiver (Remaining Length {rl}, {body.length} bytes follow), so neither its topic nor its alias can be resolved: {hexS.take 80}"
                else r
              else r
            viewCheck pw v fh body d (kvGet kv "x" = "1") (here ++ " (sent)") r
          | none => r.mdiff "codec.view.frame" s!"{here}: sent bytes {hexS.take 40} are not a frame"
        | _, _ => r
      | _ => r
    else r) r

/-- one `X` line -/
def connLine (run : ConnRun) (ln : Nat) (line : String) (r : Report) : ConnRun × Report :=
  match line.splitOn " | " with
  | [opS, oracle, evS, retS, digest] =>
    let cs := run.cs
    let op := words opS
    let site := sigOf op oracle
    let r := { r with calls := r.calls + 1 }
    let r := r.tag ("conn." ++ site)
    -- property monitors on the implementation's observation
    let (mon, r) := if cs.legal then monitorCall cs.cfg cs.cmp run.mon cs.name ln op oracle evS retS digest r else (run.mon, r)
    -- L1 ↔ L2 tie (independent of the connection model's state: version before = last digest)
    let verBefore := if run.lastDig = "" then cs.s.ver else (kvGet (digestFields run.lastDig) "ver").toNat?.getD 0
    let r := codecTie cs.cfg.pw verBefore op oracle evS s!"{cs.name} line {ln}" r
    -- C09 at connection level: the byte-at-a-time framing specification (`Framing.feedSpec`, which
    -- `feed` is proved to equal) run on the same receive buffers; the ghost assembler starts
    -- empty with every transport (it does not depend on the connection model's state)
    -- the frame assembler changes only when bytes are received or the transport is reported closed:
    -- whatever else the application calls in the middle of a frame, the rest of the frame still completes it
    let r :=
      let pbB := if run.lastDig = "" then "" else kvGet (digestFields run.lastDig) "pb"
      let pbA := kvGet (digestFields digest) "pb"
      match op with
      | "recv" :: _ => r
      | ["recv_empty"] => r
      | ["closed"] => r
      | _ => if pbB ≠ "" ∧ pbA ≠ "" ∧ pbB ≠ pbA ∧ evS ≠ "PANIC" then
          r.viol s!"C09 assembler_changed_without_input@{site}" s!"{cs.name} line {ln}: `{" ".intercalate (op.take 1)}` is not a receive call, yet the partly assembled frame changed from {pbB} to {pbA}: the bytes that follow on the transport will be framed differently" else r
    let (gpb, r) := match op with
      | ["closed"] => (({} : Framing.PB), r)
      | ["recv_empty"] =>
        (run.gpb, if evS ≠ "-" ∧ evS ≠ "PANIC" ∧ evS ≠ "" then
          r.viol s!"C09 events_without_frame@{site}" s!"{cs.name} line {ln}: an empty receive buffer returned events [{evS}]" else r)
      | ["recv", hx] =>
        (match hexToBytes hx with
         | some inp =>
           let o := parseRecvOracle oracle
           -- (buffers beyond 2000 bytes go through the bulk-copy form `Framing.feed`, proved equal
           -- to the byte-at-a-time specification by `feed_eq_spec`; the latter is quadratic here)
           let (pbS, outS, restS) := if inp.length > 2000 then Framing.feed run.gpb inp else Framing.feedSpec run.gpb inp
           let specFrame := match outS with
             | none => "none"
             | some .error => "err"
             | some (.complete fh d) => s!"{fh}:{bytesToHex d}"
           let specCons := inp.length - restS.length
           let r := if evS ≠ "PANIC" ∧ (specFrame ≠ o.frame ∨ specCons ≠ o.cons) then
               r.viol s!"C09 conn_framing@{site}" s!"{cs.name} line {ln}: receive buffer {hx}: the framing specification yields {specFrame} after consuming {specCons} bytes; the connection reports {o.frame} and consumed {o.cons}" else r
           -- a receive buffer that completes no frame produces no event: otherwise what the
           -- application sees depends on how the transport cut the byte stream
           let r := match outS with
             | none => if evS ≠ "-" ∧ evS ≠ "PANIC" ∧ evS ≠ "" then
                 r.viol s!"C09 events_without_frame@{site}" s!"{cs.name} line {ln}: receive buffer {hx} completes no frame (framing specification), yet the call returned events [{evS}]: the event sequence depends on the chunking" else r
             | _ => r
           -- C05 (usable again after any history): a server or role-Any endpoint that is
           -- disconnected and is handed, by the framing specification on an assembler that starts
           -- empty with the transport, a complete well-formed CONNECT of an acceptable version must
           -- deliver it - whatever an earlier transport left behind
           let stB := if run.lastDig = "" then "D" else kvGet (digestFields run.lastDig) "st"
           let r := match outS with
             | some (.complete fh d) =>
               let lvl := d.getD 6 0
               let verOk := (verBefore = 0 ∧ (lvl = 4 ∨ lvl = 5)) ∨ (verBefore ≠ 0 ∧ verBefore = lvl)
               if fh = 16 ∧ cs.cfg.role ≠ Role.client ∧ stB = "D" ∧ evS ≠ "PANIC" ∧ verOk ∧ cs.legal then
                 match MqttVerif.Codec.parseView lvl cs.cfg.pw fh d with
                 | .ok _ =>
                   if (evS.splitOn "recv{k=1,").length < 2 then
                     r.viol s!"C05 connect_not_delivered_while_disconnected@{site}" s!"{cs.name} line {ln}: the endpoint is disconnected and receives a complete, well-formed CONNECT (version {lvl}) on a new transport, yet it was not delivered: events=[{evS}]"
                   else r
                 | .error _ => r
               else r
             | _ => r
           (pbS, r)
         | none => (run.gpb, r))
      | _ => (run.gpb, r)
    -- correspondence with the model
    let run := { run with lastEv := evS, lastRet := retS, lastDig := digest, lastSite := site, gpb := gpb }
    if cs.diverged then ({ run with mon := mon }, r) else
    match stepOp cs op oracle with
    | none => ({ run with cs := { cs with diverged := true }, mon := mon }, r.mdiff "conn.op_unparsable" s!"{cs.name} line {ln}: `{opS}`")
    | some o =>
      let here := s!"{cs.name} line {ln} {site}"
      if evS = "PANIC" then
        let r := if o.s.panic.isNone then r.mdiff s!"conn.panic.{site}" s!"{here}: implementation panicked, model did not" else r
        ({ run with cs := { cs with diverged := true }, mon := mon }, r)
      else if o.s.panic.isSome then
        ({ run with cs := { cs with diverged := true }, mon := mon },
          r.mdiff s!"conn.model_panic.{site}" s!"{here}: model panics at {o.s.panic.getD ""}, implementation did not")
      else
        let mEv := showEvents cs.cfg.pw o.ev
        let iEv := stripHex evS
        let mSt := showSt cs.cfg.pw o.s
        let bad := mEv ≠ iEv ∨ o.ret ≠ retS ∨ mSt ≠ digest ∨ !o.note.isEmpty
        let r := if mEv ≠ iEv then r.mdiff s!"conn.events.{site}" s!"{here}: events model=[{mEv}] impl=[{iEv}]" else r
        let r := if o.ret ≠ retS then r.mdiff s!"conn.ret.{site}" s!"{here}: return model={o.ret} impl={retS}" else r
        let r := if mSt ≠ digest then
            let f := firstDiffField mSt digest
            r.mdiff s!"conn.state.{f}.{site}" s!"{here}: state field {f}: model=[{kvGet (digestFields mSt) f}] impl=[{kvGet (digestFields digest) f}]" else r
        let r := o.note.foldl (fun r n => r.mdiff s!"conn.frame.{site}" s!"{here}: {n}") r
        ({ run with cs := { cs with s := o.s, diverged := bad }, mon := mon }, r)
  | _ => (run, r.mdiff "parse" s!"{run.cs.name} line {ln}: unparsable `{line.take 80}`")

end MqttVerif.Driver

namespace MqttVerif.Driver
open MqttVerif MqttVerif.Conn

/-- `GC <role> <kind nibble> <packet version> = <0|1>`: does `T: Sendable<Role, u16>` hold
    (computed by rustc in the harness)?  Compared with the specification table. -/
def gatesLine (ln : Nat) (line : String) (r : Report) : Report :=
  match words line with
  | ["GC", roleS, k, v, "=", b] =>
    let role := match roleS with | "client" => Role.client | "server" => .server | _ => .any
    match k.toNat?.bind Kind.ofNibble, v.toNat? with
    | some kind, some pver =>
      let r := { r with calls := r.calls + 1 }
      let spec := Spec.compileTimeOk role kind pver
      let runtime := roleMaySend role { ver := pver, kind := kind }
      let r := if b01 runtime ≠ b then
          r.mdiff s!"gates.compile_time.{roleS}.{kindName kind.nibble}" s!"line {ln}: checked_send accepts={b}, the model's run-time role check says {b01 runtime}" else r
      if b01 spec ≠ b then
        r.viol s!"C11 compile_time_table@{roleS}.v{pver}.{kindName kind.nibble}" s!"line {ln}: checked_send (trait bound) accepts={b} but the MQTT rules / run-time check say {b01 spec} for role {roleS}, {kindName kind.nibble} v{pver}"
      else r
    | _, _ => r.mdiff "parse" s!"line {ln}: bad GC line"
  | _ => r.mdiff "parse" s!"line {ln}: bad GC line"

end MqttVerif.Driver

namespace MqttVerif.Driver
open MqttVerif MqttVerif.Conn

structure PairSt where
  name : String := ""
  losses : Nat := 0
deriving Inhabited

def pairStart (ws : List String) : PairSt :=
  match ws with
  | name :: rest =>
    let get (k : String) : String := match rest.find? (·.startsWith k) with | some w => (w.drop k.length).toString | none => ""
    { name := name, losses := (get "losses=").toNat?.getD 0 }
  | [] => {}

/-- `PM …` lines of a two-endpoint run: the observations C01 is about -/
def pairLine (st : PairSt) (ln : Nat) (line : String) (r : Report) : Report :=
  let ws := words line
  let get : String → String := fun k => match ws.find? (·.startsWith k) with | some w => (w.drop k.length).toString | none => ""
  let here := s!"{st.name} line {ln}"
  let r := { r with calls := r.calls + 1 }
  match ws with
  | "PM" :: "msg" :: tag :: _ =>
    let qos := (get "qos=").toNat?.getD 0
    let n := (get "delivered=").toNat?.getD 0
    let r := r.tag s!"pair.msg.q{qos}.{if (get "accepted=") == "1" then "accepted" else "refused"}"
    let r := if (get "accepted=") == "1" then
        (if !Mon.deliveryOk qos n (st.losses == 0) then
          r.viol s!"C01 delivery_count.qos{qos}@pair" s!"{here}: message {tag} (QoS {qos}, from {get "from="}) was accepted by the sender and notified {n} time(s) at the receiver ({st.losses} transport losses in this run)" else r)
      else (if !Mon.refusedOk n then
          r.viol s!"C01 refused_but_delivered@pair" s!"{here}: message {tag} was refused by the sender yet notified {n} time(s)" else r)
    if (get "topic_ok=") != "1" then
      r.viol s!"C01 wrong_topic@pair" s!"{here}: message {tag} was notified with a topic other than the one the application asked for" else r
  | "PM" :: "err" :: _ =>
    r.viol s!"C01 protocol_error_about_peer.{get "code="}@pair.{get "side="}" s!"{here}: endpoint {get "side="} reported NotifyError {get "code="} while processing bytes its conformant peer requested to send"
  | "PM" :: "closes" :: _ =>
    let r := if (get "c=") != "0" || (get "s=") != "0" then
        r.viol "C01 close_requested@pair" s!"{here}: an endpoint requested to close the transport although both sides follow the protocol (client {get "c="}, server {get "s="})" else r
    if (get "panic_c=") != "0" || (get "panic_s=") != "0" then
      r.viol "C01 panic@pair" s!"{here}: an endpoint panicked" else r
  | "PM" :: "drain" :: _ =>
    if (get "ok=") != "1" then
      r.viol "C01 no_termination@pair" s!"{here}: with no further application input and no further loss the exchange did not drain within {get "steps="} deliveries" else r
  | "PM" :: "quiescent" :: _ =>
    let side := get "side="
    let r := if (get "stored=") != "0" then
        r.viol s!"C01 store_not_empty@pair.{side}" s!"{here}: at quiescence endpoint {side} still stores {get "stored="} packet(s)" else r
    let r := if (get "ids_free=") != "1" then
        r.viol s!"C01 ids_not_released@pair.{side}" s!"{here}: at quiescence endpoint {side} still has packet identifiers in use" else r
    if (get "vacancy=") != (get "rm=") then
      r.viol s!"C01 vacancy_not_restored@pair.{side}" s!"{here}: at quiescence endpoint {side} reports Receive Maximum vacancy {get "vacancy="}, the peer announced {get "rm="}" else r
  | _ => r.mdiff "parse" s!"{here}: bad PM line `{line.take 80}`"

end MqttVerif.Driver
