import MqttVerif.Driver.Common
import MqttVerif.Alloc.Spec
/-!
Trace driver for the allocator (`T alloc …`).  Per operation line it

* steps the impl-shaped model and compares answer and interval list with the implementation
  (`MDIFF` — correspondence), and
* steps the set specification (small ranges only: its search is linear in the range) and
  compares the *implementation's* answer with it, and checks the representation invariant on
  the *implementation's* interval list (`VIOL` — property monitors for C20).
-/
namespace MqttVerif.Driver
open MqttVerif.Alloc

structure AllocSt where
  a : A
  s : S
  useSpec : Bool
  name : String := ""
deriving Inhabited

def parseIvs (s : String) : Option (List Iv) :=
  if s = "-" then some [] else
  (s.splitOn ",").mapM fun p =>
    match p.splitOn "-" with
    | [l, h] => do pure ⟨← l.toNat?, ← h.toNat?⟩
    | _ => none

def showIvs (p : List Iv) : String :=
  if p.isEmpty then "-" else ",".intercalate (p.map fun iv => s!"{iv.lo}-{iv.hi}")

def parseOp : List String → Option Op
  | ["allocate"] => some .allocate
  | ["first"] => some .firstVacant
  | ["dealloc", v] => v.toNat?.map .deallocate
  | ["use", v] => v.toNat?.map .useValue
  | ["isused", v] => v.toNat?.map .isUsed
  | ["clear"] => some .clear
  | ["count"] => some .intervalCount
  | _ => none

def showAns : Ans → String
  | .optVal none => "none"
  | .optVal (some v) => s!"some{v}"
  | .bool b => if b then "true" else "false"
  | .unit => "unit"
  | .nat n => s!"n{n}"
  | .panic _ => "PANIC"

/-- executable form of the representation invariant (same definition as `Alloc.Ok`, plus the
    upper bound) evaluated on the implementation's interval list -/
def okImpl (lowest highest : Nat) : List Iv → Bool
  | [] => true
  | iv :: rest => lowest ≤ iv.lo && iv.lo ≤ iv.hi && iv.hi ≤ highest && okImpl (iv.hi + 2) highest rest

/-- `O <op…> = <ans> ; <intervals>` -/
def allocLine (st : AllocSt) (ln : Nat) (line : String) (r : Report) : AllocSt × Report :=
  match line.splitOn " = " with
  | [opS, restS] =>
    match restS.splitOn " ; " with
    | [ansS, ivS] =>
      match parseOp (words opS), parseIvs ivS with
      | some op, some ivs =>
        let (a', ans) := step st.a op
        let r := { r with calls := r.calls + 1 }
        let opw := match words opS with | w :: _ => w | [] => "?"
        let r := r.tag ("alloc." ++ opw)
        let r := if showAns ans ≠ ansS then
            r.mdiff s!"alloc.answer.{opw}" s!"{st.name} line {ln}: `{opS}` answer model={showAns ans} impl={ansS}" else r
        let r := if ans ≠ .panic "" ∧ showAns ans ≠ "PANIC" ∧ a'.pool ≠ ivs then
            r.mdiff s!"alloc.pool.{opw}" s!"{st.name} line {ln}: `{opS}` pool model={showIvs a'.pool} impl={ivS}" else r
        -- property monitors on the implementation
        let r := if !okImpl st.a.lowest st.a.highest ivs then
            r.viol s!"C20 repr@{opw}" s!"{st.name} line {ln}: `{opS}` leaves pool {ivS} (not sorted/disjoint/merged/in range)" else r
        -- the answer against the set of free integers the implementation's own pool denoted before
        -- the call (any range size): reserve succeeds exactly for free values, a value is used
        -- exactly when it is in range and not free, allocate hands out the smallest free value
        let expect : Option String := (Alloc.poolAnswer st.a op).map showAns
        let r := match expect with
          | some e => if e ≠ ansS ∧ !st.useSpec then
              r.viol s!"C20 answer_vs_pool@{opw}" s!"{st.name} line {ln}: `{opS}` answered {ansS}; the pool before the call was {showIvs st.a.pool} over [{st.a.lowest}, {st.a.highest}], so a set of free integers answers {e}" else r
          | none => r
        -- ... and the pool AFTER the call denotes the set the operation prescribes at the touched value:
        -- a released value is free, a reserved or handed-out value is not, `clear` frees the whole range
        let freeAfter (v : Nat) : Bool := ivs.any fun (iv : Iv) => decide (iv.lo ≤ v ∧ v ≤ iv.hi)
        let inRange (v : Nat) : Bool := decide (st.a.lowest ≤ v ∧ v ≤ st.a.highest)
        let wrong : Option String := match op with
          | .deallocate v => if ansS = "unit" ∧ inRange v ∧ !freeAfter v then some s!"{v} was released but is not free afterwards" else none
          | .useValue v => if ansS = "true" ∧ freeAfter v then some s!"{v} was reserved but is still free afterwards" else none
          | .allocate => (match (ansS.drop 4).toString.toNat? with
              | some v => if ansS.startsWith "some" ∧ freeAfter v then some s!"{v} was handed out but is still free afterwards" else none
              | none => none)
          | .clear => if ivs ≠ [⟨st.a.lowest, st.a.highest⟩] then some "clear did not free the whole range" else none
          | _ => none
        let r := match wrong with
          | some w => r.viol s!"C20 pool_after@{opw}" s!"{st.name} line {ln}: `{opS}` = {ansS}: {w} (pool {ivS} over [{st.a.lowest}, {st.a.highest}])"
          | none => r
        let (s', r) :=
          if st.useSpec then
            let (s', sans) := st.s.step op
            (s', if showAns sans ≠ ansS then
              r.viol s!"C20 answer@{opw}" s!"{st.name} line {ln}: `{opS}` set-spec={showAns sans} impl={ansS}" else r)
          else (st.s, r)
        -- continue from the implementation's state so one divergence is reported once
        ({ st with a := { a' with pool := ivs }, s := s' }, r)
      | _, _ => (st, r.mdiff "parse" s!"{st.name} line {ln}: unparsable `{line}`")
    | _ => (st, r.mdiff "parse" s!"{st.name} line {ln}: unparsable `{line}`")
  | _ => (st, r.mdiff "parse" s!"{st.name} line {ln}: unparsable `{line}`")

def allocStart (ws : List String) : Option AllocSt :=
  match ws with
  | [name, lo, hi, tm] => do
    let lo ← lo.toNat?; let hi ← hi.toNat?; let tm ← tm.toNat?
    pure { a := Alloc.new lo hi tm, s := S.new lo hi, useSpec := hi - lo ≤ 300, name := name }
  | _ => none

end MqttVerif.Driver
