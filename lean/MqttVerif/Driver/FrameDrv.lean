import MqttVerif.Driver.Common
import MqttVerif.Framing.Model
/-!
Trace driver for stream framing (`T frame …`).  One line per `PacketBuilder::feed` call:
`F <unread input hex> = <C fh datahex | I | E> ; <consumed> ; <builder digest>`.
`END` closes a trace: the concatenation of all inputs consumed so far is run through the
byte-step specification and compared with the outputs the *implementation* produced
(chunk-independence monitor for C09).
-/
namespace MqttVerif.Driver
open MqttVerif.Framing

structure FrameSt where
  pb : PB := {}
  name : String := ""
  stream : List (List Nat) := []      -- consumed pieces, reversed
  outs : List String := []            -- implementation outputs, reversed
deriving Inhabited

def showOut : Option Out → String
  | none => "I"
  | some .error => "E"
  | some (.complete fh d) => s!"C {fh} {bytesToHex d}"

def showPB (pb : PB) : String :=
  let st := match pb.st with | .fixedHeader => "F" | .remLen => "L" | .payload => "P"
  let hex (l : List Nat) := if l.isEmpty then "" else bytesToHex l
  s!"{st}/{hex pb.header}/{pb.remaining}/{pb.mult}/{hex pb.buf}"

def parsePB (s : String) : Option PB :=
  match s.splitOn "/" with
  | [st, h, rem, mult, buf] => do
    let st ← (match st with | "F" => some RS.fixedHeader | "L" => some .remLen | "P" => some .payload | _ => none)
    let h ← if h = "" then some [] else hexToBytes h
    let buf ← if buf = "" then some [] else hexToBytes buf
    pure { st := st, header := h, remaining := ← rem.toNat?, mult := ← mult.toNat?, buf := buf }
  | _ => none

def frameLine (st : FrameSt) (ln : Nat) (line : String) (r : Report) : FrameSt × Report :=
  match line.splitOn " = " with
  | [inS, restS] =>
    match restS.splitOn " ; " with
    | [outS, consS, pbS] =>
      match hexToBytes inS.trimAscii.toString, consS.toNat?, parsePB pbS with
      | some inp, some cons, some ipb =>
        let (pb', out, rest) := feed st.pb inp
        let r := { r with calls := r.calls + 1 }
        let r := r.tag ("frame." ++ (match out with | none => "incomplete" | some .error => "error" | some _ => "complete"))
        let r := if showOut out ≠ outS then
            r.mdiff "frame.result" s!"{st.name} line {ln}: feed result model={showOut out} impl={outS}" else r
        let r := if inp.length - rest.length ≠ cons then
            r.mdiff "frame.consumed" s!"{st.name} line {ln}: consumed model={inp.length - rest.length} impl={cons}" else r
        let r := if showPB pb' ≠ pbS then
            r.mdiff "frame.builder" s!"{st.name} line {ln}: builder model={showPB pb'} impl={pbS}" else r
        let r := if cons > inp.length then
            r.viol "C09 consumed@feed" s!"{st.name} line {ln}: consumed {cons} of {inp.length} bytes" else r
        ({ st with pb := ipb, stream := inp.take cons :: st.stream,
                   outs := if outS = "I" then st.outs else outS :: st.outs }, r)
      | _, _, _ => (st, r.mdiff "parse" s!"{st.name} line {ln}: unparsable `{line}`")
    | _ => (st, r.mdiff "parse" s!"{st.name} line {ln}: unparsable `{line}`")
  | _ => (st, r.mdiff "parse" s!"{st.name} line {ln}: unparsable `{line}`")

/-- linear-time reference: the spec outputs of the whole stream, computed with the
    impl-shaped `feed` (proved equal to the byte-step spec: `feedAll_eq_runSpec`) -/
def frameEnd (st : FrameSt) (ln : Nat) (r : Report) : Report :=
  let whole := st.stream.reverse.flatten
  let (_, outs) := feedAll (whole.length + 1) PB.reset whole
  let specOuts := outs.map (fun o => showOut (some o))
  if specOuts ≠ st.outs.reverse then
    r.viol "C09 chunking@feed" s!"{st.name} line {ln}: outputs of the chunked run differ from the whole-stream specification: spec={specOuts} impl={st.outs.reverse}"
  else r

end MqttVerif.Driver
