import MqttVerif.Driver.Common
import MqttVerif.Spec.Placement
import MqttVerif.Gen.Placement
import MqttVerif.Codec.Validate
/-!
Trace driver for the property placement table (`T tables …`, property C18).

* `CELL <location> <propid> <n> <vc> builder=<…> parser=<…>` — one cell of the table as the
  implementation answered it just now.  Monitors (`VIOL`, evaluated with the executable
  `Spec.Placement.specVerdict`): builder / parser accept exactly when the specification does,
  builder and parser agree, nothing panics.  Signature `C18 <clause>@<location>.<propid>`
  with clause ∈ placement | multiplicity | value | agree | panic | unknown.
  Correspondence (`MDIFF tables.gen`): the line equals the entry of the regenerated
  `Gen.Placement` chunk the theorems were proved about.
* `V <location> <auth reason code> <id,id,…|-> builder=<…> parser=<…>` — a property list of
  arbitrary length.  Correspondence (`MDIFF validate.<location>.<path>`): the hand model
  `Codec.Validate.validate` answers like the implementation.  Monitor: the implementation's
  verdict is the list-level reading of the specification (every property allowed, no
  non-repeatable property twice; AUTH cross rules).
* `AUX <location> authdata_without_method builder=<…> parser=<…>` — §3.1.2.11.10 "It is a
  Protocol Error to include Authentication Data if there is no Authentication Method".
-/
namespace MqttVerif.Driver
open MqttVerif.Spec.Placement
open MqttVerif

def findLocation (name : String) : Option Location := Location.all.find? (·.name = name)
def findProp (code : Nat) : Option PropId := PropId.all.find? (·.code = code)

def occurOf : Nat → Option Occur | 1 => some .once | 2 => some .twice | _ => none
def vcOf : Nat → Option ValueClass | 0 => some .v0 | 1 => some .v1 | 2 => some .v2 | 3 => some .vmax | _ => none

/-- same coding as tools/gen_tables.py `code_of` -/
def verdictCode (v : String) : Nat :=
  if v = "ok" then 0
  else if v = "PANIC" then 4
  else if v = "err ProtocolError" then 1
  else if v = "err MalformedPacket" then 2
  else if v.startsWith "err " then 3
  else if v = "valerr ProtocolError" then 5
  else if v = "valerr Unrepresentable" then 6
  else if v.startsWith "valerr " then 7
  else 98

def indexOf? (x : Nat) : List Nat → Nat → Option Nat
  | [], _ => none
  | y :: ys, i => if x = y then some i else indexOf? x ys (i + 1)

def indexOfStr? (x : String) : List String → Nat → Option Nat
  | [], _ => none
  | y :: ys, i => if x = y then some i else indexOfStr? x ys (i + 1)

/-- entry of the regenerated table, addressed by the *generated* names and identifiers -/
def genEntry (table : List (List Nat)) (loc : String) (pid n vc : Nat) : Option Nat := do
  let li ← indexOfStr? loc Gen.Placement.locationNames 0
  let pi ← indexOf? pid Gen.Placement.propIds 0
  (table.getD li [])[(pi * 2 + (n - 1)) * 4 + vc]?

/-- `builder=<…> parser=<…>` at the end of a line -/
def splitVerdicts (line : String) : Option (String × String × String) :=
  match line.splitOn " builder=" with
  | [head, rest] =>
    match rest.splitOn " parser=" with
    | [b, p] => some (head, b.trimAscii.toString, p.trimAscii.toString)
    | _ => none
  | _ => none

def vcName : Nat → String | 0 => "v0" | 1 => "v1" | 2 => "v2" | _ => "vmax"

/-- which clause of the property a disagreeing cell violates -/
def clauseOf (l : Location) (p : PropId) (n : Occur) (v : ValueClass) : String :=
  if !allowed l p then "placement"
  else if !valueOk p v then "value"
  else if n == .twice then "multiplicity"
  else "placement"

structure CellInfo where
  loc : String
  pid : Nat
  n : Nat
  vc : Nat
  builder : String
  parser : String

def describe (c : CellInfo) (specS : String) : String :=
  s!"cell location={c.loc} property={c.pid} count={c.n} valueclass={vcName c.vc} builder=[{c.builder}] parser=[{c.parser}] spec=[{specS}]"

def parseCell (line : String) : Option CellInfo :=
  match splitVerdicts line with
  | some (head, b, p) =>
    match words head with
    | ["CELL", loc, pid, n, vc] => do
      pure { loc := loc, pid := ← pid.toNat?, n := ← n.toNat?, vc := ← vc.toNat?, builder := b, parser := p }
    | _ => none
  | none => none

/-- the deviations of one cell: (clause, spec verdict text) if any monitor fails -/
def cellDeviation (c : CellInfo) : Option (String × String) :=
  match findLocation c.loc, findProp c.pid, occurOf c.n, vcOf c.vc with
  | some l, some p, some n, some v =>
    let sp := specVerdict l p n v
    let specS := if sp then "accept" else "reject"
    let bAcc := verdictCode c.builder == 0
    let pAcc := verdictCode c.parser == 0
    if c.builder = "PANIC" ∨ c.parser = "PANIC" then some ("panic", specS)
    else if bAcc != sp ∨ pAcc != sp then some (clauseOf l p n v, specS)
    else if bAcc != pAcc then some ("agree", specS)
    else none
  | _, _, _, _ =>
    -- a location / property the standard does not have: any acceptance is a violation
    if verdictCode c.builder == 0 ∨ verdictCode c.parser == 0 then some ("unknown", "reject (not in Table 2-4)")
    else none

def cellLine (tname : String) (ln : Nat) (line : String) (r : Report) : Report :=
  match parseCell line with
  | none => r.mdiff "parse" s!"{tname} line {ln}: unparsable `{line}`"
  | some c =>
    let r := { r with calls := r.calls + 2 }
    let r := r.tag (if verdictCode c.builder == 0 then "tables.builder.accept" else "tables.builder.reject")
    let r := r.tag (if verdictCode c.parser == 0 then "tables.parser.accept" else "tables.parser.reject")
    -- correspondence with the regenerated table the theorems are about
    let gb := genEntry Gen.Placement.builder c.loc c.pid c.n c.vc
    let gp := genEntry Gen.Placement.parser c.loc c.pid c.n c.vc
    let r := if gb ≠ some (verdictCode c.builder) ∨ gp ≠ some (verdictCode c.parser) then
        r.mdiff "tables.gen" s!"{tname} line {ln}: Gen/Placement.lean is not the table of this tree: {describe c "-"} generated builder={gb} parser={gp}"
      else r
    match cellDeviation c with
    | some (clause, specS) =>
      r.viol s!"C18 {clause}@{c.loc}.{c.pid}" s!"{tname} line {ln}: {describe c specS}"
    | none => r

/-- list-level reading of the specification (what `validateProps_eq_spec` states): returns
    the first offending (clause, property) or none -/
def listOffender (l : Location) (ps : List PropId) : Option (String × PropId) :=
  match ps.find? (fun p => !allowed l p) with
  | some p => some ("placement", p)
  | none =>
    match ps.find? (fun p => decide (2 ≤ ps.count p) && !mayRepeat l p) with
    | some p => some ("multiplicity", p)
    | none => none

def authCrossOk (l : Location) (rcSuccess : Bool) (ps : List PropId) : Bool :=
  l != .auth ||
    ((!ps.contains .authenticationData || ps.contains .authenticationMethod)
      && (rcSuccess || ps.contains .authenticationMethod))

def showV : Codec.Validate.Verdict → String
  | .ok => "ok"
  | .protocolError => "err ProtocolError"

def vLine (tname : String) (ln : Nat) (line : String) (r : Report) : Report :=
  match splitVerdicts line with
  | some (head, b, p) =>
    match words head with
    | ["V", locS, rcS, idsS] =>
      let ids : Option (List Nat) := if idsS = "-" then some [] else (idsS.splitOn ",").mapM (·.toNat?)
      match findLocation locS, rcS.toNat?, ids with
      | some l, some rc, some ids =>
        match ids.mapM findProp with
        | none => r.mdiff "parse" s!"{tname} line {ln}: property id outside Table 2-4 in `{line}`"
        | some ps =>
          let r := { r with calls := r.calls + 2 }
          let m := showV (Codec.Validate.validate l (rc == 0) ps)
          let r := r.tag s!"validate.{locS}.{if m = "ok" then "ok" else "reject"}"
          -- accept / reject is in C18's cone; a different error *kind* is reported under a
          -- signature outside the cone (visible in the log, does not fail the check)
          let r := if (m = "ok") != (b = "ok") then r.mdiff s!"validate.{locS}.builder" s!"{tname} line {ln}: model={m} builder={b} list={idsS} rc={rc}"
            else if m ≠ b then r.mdiff s!"errkind.validate.{locS}.builder" s!"{tname} line {ln}: model={m} builder={b} list={idsS} rc={rc}" else r
          let r := if (m = "ok") != (p = "ok") then r.mdiff s!"validate.{locS}.parser" s!"{tname} line {ln}: model={m} parser={p} list={idsS} rc={rc}"
            else if m ≠ p then r.mdiff s!"errkind.validate.{locS}.parser" s!"{tname} line {ln}: model={m} parser={p} list={idsS} rc={rc}" else r
          -- monitor on the implementation's own answers
          let off := listOffender l ps
          let specOk := off.isNone && authCrossOk l (rc == 0) ps
          let bad (v : String) := (v = "ok") != specOk
          if b = "PANIC" ∨ p = "PANIC" then
            r.viol s!"C18 panic@{locS}" s!"{tname} line {ln}: list={idsS} rc={rc} builder=[{b}] parser=[{p}]"
          else if bad b ∨ bad p then
            let sig := match off with
              | some (clause, q) => s!"C18 {clause}@{locS}.{q.code}"
              | none => if specOk then s!"C18 rejects-legal-list@{locS}" else s!"C18 auth-cross-rule@{locS}"
            r.viol sig s!"{tname} line {ln}: list location={locS} rc={rc} properties={idsS} builder=[{b}] parser=[{p}] spec=[{if specOk then "accept" else "reject"}]"
          else if (b = "ok") != (p = "ok") then
            r.viol s!"C18 agree@{locS}" s!"{tname} line {ln}: list={idsS} rc={rc} builder=[{b}] parser=[{p}]"
          else r
      | _, _, _ => r.mdiff "parse" s!"{tname} line {ln}: unparsable `{line}`"
    | _ => r.mdiff "parse" s!"{tname} line {ln}: unparsable `{line}`"
  | none => r.mdiff "parse" s!"{tname} line {ln}: unparsable `{line}`"

/-- `AUX <location> authdata_without_method …`: §3.1.2.11.10 (CONNECT) and §3.15.2.2 (AUTH)
    make it a Protocol Error; the standard has no such sentence for CONNACK -/
def auxLine (tname : String) (ln : Nat) (line : String) (r : Report) : Report :=
  match splitVerdicts line with
  | some (head, b, p) =>
    match words head with
    | ["AUX", locS, "authdata_without_method"] =>
      let r := { r with calls := r.calls + 2 }
      -- A cross-property rule (§3.1.2.11.10), NOT part of C18's statement (placement,
      -- multiplicity, forbidden values): recorded as an observation (tag), never a violation.
      if (locS = "connect" ∨ locS = "auth") ∧ (b = "ok" ∨ p = "ok") then
        r.tag s!"tables.observation.authdata_without_method.{locS}"
      else r
    | _ => r
  | none => r

def tablesLine (tname : String) (ln : Nat) (line : String) (r : Report) : Report :=
  if line.startsWith "CELL " then cellLine tname ln line r
  else if line.startsWith "V " then vLine tname ln line r
  else if line.startsWith "AUX " then auxLine tname ln line r
  else if line.startsWith "#" then r
  else r.mdiff "parse" s!"{tname} line {ln}: unexpected `{line}`"

/-- `mqttdrv cells`: list every deviating cell of a `harness tables cells` output, one per
    line (used by `tools/gen_tables.py --deviations` and for notes) -/
def deviationLine (line : String) : Option String :=
  if line.startsWith "CELL " then
    match parseCell line with
    | some c =>
      match cellDeviation c with
      | some (clause, specS) => some s!"DEVIATION clause={clause} {describe c specS}"
      | none => none
    | none => some s!"DEVIATION unparsable `{line}`"
  else none

end MqttVerif.Driver
