import MqttVerif.Driver.ConnDrv
/-!
# Lock-step driver for `TopicAliasSend` used directly (C20: the allocator inside the send-side
alias table; C13's table functions)

`T alias <name> <max>` then `A <op> = <answer> ; <dump>`: the model's table functions
(`TAS.insertOrUpdate`, `get`, `peek`, `findByTopic`, `lruAlias` of `Conn/Model.lean`, the ones the
connection model uses and the C13 / C20 theorems speak about) replay every call; answer and the
complete dump (alias → topic in LRU order, topic → aliases, free alias intervals) are compared.
Monitor `C20 alias_allocator`: the free intervals of the dump are exactly [1, max] minus the
aliases bound in the table, and `get_lru_alias` answers the smallest free alias while one exists.
-/
namespace MqttVerif.Driver
open MqttVerif MqttVerif.Conn

structure AliasSt where
  t : TAS
  name : String

def aliasStart (ws : List String) : Option AliasSt :=
  match ws with
  | [name, mx] => do pure { t := TAS.new (← mx.toNat?), name := name }
  | _ => none

/-- `TopicAliasSend::clear`: both maps emptied, every alias free again -/
def tasClear (t : TAS) : TAS := TAS.new t.max

def showOptTopic : Option (List Nat) → String
  | none => "none"
  | some tp => "some" ++ bytesToHex tp

def aliasLine (st : AliasSt) (ln : Nat) (line : String) (r : Report) : AliasSt × Report :=
  match line.splitOn " = " with
  | [opS, restS] =>
    match restS.splitOn " ; " with
    | [ansS, dumpS] =>
      let op := words opS
      let r := { r with calls := r.calls + 1 }
      let here := s!"{st.name} line {ln}"
      let res : Option (TAS × String) := match op with
        | ["ins", hx, a] => do
          let tp ← hexToBytes hx; let a ← a.toNat?
          if 1 ≤ a ∧ a ≤ st.t.max then pure (st.t.insertOrUpdate tp a, "-") else pure (st.t, "PANIC")
        | ["get", a] => do let a ← a.toNat?; let x := st.t.get a; pure (x.2, showOptTopic x.1)
        | ["peek", a] => do let a ← a.toNat?; pure (st.t, showOptTopic (st.t.peek a))
        | ["find", hx] => do
          let tp ← hexToBytes hx
          pure (st.t, match st.t.findByTopic tp with | some a => s!"some{a}" | none => "none")
        | ["lru"] => pure (st.t, toString st.t.lruAlias)
        | ["clear"] => pure (tasClear st.t, "-")
        | ["max"] => pure (st.t, toString st.t.max)
        | _ => none
      match res with
      | none => (st, r.mdiff "parse" s!"{here}: unparsable `{line}`")
      | some (t', ans) =>
        let opw := op.headD "?"
        let r := r.tag s!"alias.{opw}"
        let r := if ans ≠ ansS then r.mdiff s!"alloc.alias.answer.{opw}" s!"{here}: `{opS}` answer model={ans} impl={ansS}" else r
        let r := if ans ≠ "PANIC" ∧ showTAS t' ≠ dumpS then
            r.mdiff s!"alloc.alias.state.{opw}" s!"{here}: `{opS}` table model={showTAS t'} impl={dumpS}" else r
        -- the property's observation on the implementation's own dump: free intervals = [1, max] minus bound aliases
        let r := match dumpS.splitOn ";" with
          | [hd, _, ivS] =>
            (match hd.splitOn ":" with
             | [mx, a2t] =>
               let bound := if a2t = "" then [] else (a2t.splitOn ",").filterMap fun (e : String) => ((e.splitOn "=").headD "").toNat?
               let mxN := mx.toNat?.getD 0
               (match parseIvs (if ivS = "" then "-" else ivS) with
                | some ivs =>
                  let free (v : Nat) : Bool := ivs.any fun (iv : Alloc.Iv) => decide (iv.lo ≤ v ∧ v ≤ iv.hi)
                  let probe := ((List.range 8).map (· + 1) ++ [mxN - 1, mxN]).filter fun v => 1 ≤ v ∧ v ≤ mxN
                  let bad := probe.filter fun v => free v = bound.contains v
                  let r := if !bad.isEmpty then
                      r.viol s!"C20 alias_allocator@{opw}" s!"{here}: after `{opS}` the aliases {bad} are {if free (bad.headD 0) then "both bound and free" else "neither bound nor free"} (bound {bound}, free intervals {ivS}, maximum {mxN})" else r
                  -- get_lru_alias: the smallest free alias while one exists
                  (match op, ansS.toNat? with
                   | ["lru"], some a =>
                     let firstFree := ((List.range (min mxN 70000)).map (· + 1)).find? free
                     (match firstFree with
                      | some f => if mxN ≤ 70000 ∧ a ≠ f then
                          r.viol s!"C20 alias_allocator@lru" s!"{here}: get_lru_alias answered {a} although alias {f} is the smallest free one (free intervals {ivS})" else r
                      | none => r)
                   | _, _ => r)
                | none => r)
             | _ => r)
          | _ => r
        ({ st with t := t' }, r)
    | _ => (st, r.mdiff "parse" s!"{st.name} line {ln}: unparsable `{line}`")
  | _ => (st, r.mdiff "parse" s!"{st.name} line {ln}: unparsable `{line}`")

end MqttVerif.Driver
