import MqttVerif.Driver.Common
import MqttVerif.Codec.Build
import MqttVerif.Codec.AccDump
/-!
The builder call of a `B` line (`harness/src/codec.rs`, "`<k=v …>` of a `B` line") → the `Args`
of that kind, and the comparison of the MODEL of the builder (`Codec/Build.lean`, `Args.build`)
with what the real builder did: outcome, error value, bytes, `size()`; and, as a property
monitor, "the bytes encode the requested field values" (C03 `built_fields`).
-/
namespace MqttVerif.Driver
open MqttVerif.Codec

namespace Desc

/-- value of `key=` among the tokens (`none`: the key is not there) -/
def get (ws : List String) (key : String) : Option String :=
  (ws.find? (·.startsWith (key ++ "="))).map fun w => (w.drop (key.length + 1)).toString

/-- `none` (setter not called) or a value -/
def opt {α : Type} (f : String → Option α) (v : String) : Option (Option α) :=
  if v = "none" then some none else (f v).map some

def bool (s : String) : Option Bool :=
  if s = "1" then some true else if s = "0" then some false else none

/-- concatenated property encodings -/
def props (s : String) : Option Props := do
  let bs ← hexToBytes s
  match propsLoop bs.length bs with
  | .ok ps c => if c = bs.length then some ps else none
  | _ => none

/-- `<topic hex>,<payload hex>,<qos>,<retain>` -/
def will (s : String) : Option WillArgs :=
  match s.splitOn "," with
  | [t, p, q, r] => do
    let t ← hexToBytes t
    let p ← hexToBytes p
    let q ← q.toNat?
    let r ← bool r
    pure { topic := t, payload := p, qos := q, retain := r }
  | _ => none

def counted {α : Type} (item : String → Option α) (s : String) : Option (List α) :=
  match s.splitOn ":" with
  | [n, rest] => do
    let n ← n.toNat?
    let items ← (if rest = "" then some [] else (rest.splitOn ",").mapM item)
    if items.length = n then some items else none
  | _ => none

/-- `<n>:<filter hex>/<options byte>{,…}` -/
def entries : String → Option (List SubEntry) :=
  counted fun it =>
    match it.splitOn "/" with
    | [t, o] => do
      let t ← hexToBytes t
      let o ← o.toNat?
      pure { topic := t, opts := o }
    | _ => none

/-- `<n>:<filter hex>{,…}` -/
def topics : String → Option (List (List Nat)) := counted hexToBytes

/-- field `key` parsed by `f`; a missing key is a format error -/
def field {α : Type} (ws : List String) (key : String) (f : String → Option α) : Option (Option α) :=
  (get ws key).bind (opt f)

/-- the builder call described by the tokens `ws` of a `B` line of (version, packet type) -/
def toArgs (ver ty : Nat) (ws : List String) : Option Args :=
  let nat := fun k => field ws k String.toNat?
  let hex := fun k => field ws k hexToBytes
  let flag := fun k => field ws k bool
  let ps := fun k => field ws k props
  if ver = 5 then
    match ty with
    | 1 => do
      pure (.connect5 { cleanStart := ← flag "cs", keepAlive := ← nat "ka", clientId := ← hex "cid",
                        will := ← field ws "will" will, userName := ← hex "user", password := ← hex "pass",
                        props := ← ps "props", willProps := ← ps "wprops" })
    | 2 => do pure (.connack5 { sessionPresent := ← flag "sp", rc := ← nat "rc", props := ← ps "props" })
    | 3 => do
      pure (.publish5 { topic := ← hex "topic", qos := ← nat "qos", dup := ← flag "dup", retain := ← flag "retain",
                        pid := ← nat "pid", payload := ← hex "payload", props := ← ps "props" })
    | 4 => do pure (.puback5 { pid := ← nat "pid", rc := ← nat "rc", props := ← ps "props" })
    | 5 => do pure (.pubrec5 { pid := ← nat "pid", rc := ← nat "rc", props := ← ps "props" })
    | 6 => do pure (.pubrel5 { pid := ← nat "pid", rc := ← nat "rc", props := ← ps "props" })
    | 7 => do pure (.pubcomp5 { pid := ← nat "pid", rc := ← nat "rc", props := ← ps "props" })
    | 8 => do pure (.subscribe5 { pid := ← nat "pid", entries := ← field ws "entries" entries, props := ← ps "props" })
    | 9 => do pure (.suback5 { pid := ← nat "pid", codes := ← hex "codes", props := ← ps "props" })
    | 10 => do pure (.unsubscribe5 { pid := ← nat "pid", topics := ← field ws "topics" topics, props := ← ps "props" })
    | 11 => do pure (.unsuback5 { pid := ← nat "pid", codes := ← hex "codes", props := ← ps "props" })
    | 12 => if ws = ["-"] then some .pingreq5 else none
    | 13 => if ws = ["-"] then some .pingresp5 else none
    | 14 => do pure (.disconnect5 { rc := ← nat "rc", props := ← ps "props" })
    | 15 => do pure (.auth5 { rc := ← nat "rc", props := ← ps "props" })
    | _ => none
  else
    -- the v3.1.1 builders have no `props` setter: the token, where the harness prints it, must be `none`
    let noProps := fun (k : String) => match get ws k with | none => true | some v => v == "none"
    if ¬ (noProps "props" && noProps "wprops") then none else
    match ty with
    | 1 => do
      pure (.connect3 { cleanSession := ← flag "cs", keepAlive := ← nat "ka", clientId := ← hex "cid",
                        will := ← field ws "will" will, userName := ← hex "user", password := ← hex "pass" })
    | 2 => do pure (.connack3 { sessionPresent := ← flag "sp", rc := ← nat "rc" })
    | 3 => do
      pure (.publish3 { topic := ← hex "topic", qos := ← nat "qos", dup := ← flag "dup", retain := ← flag "retain",
                        pid := ← nat "pid", payload := ← hex "payload" })
    | 4 => do pure (.puback3 { pid := ← nat "pid", rc := ← nat "rc" })
    | 5 => do pure (.pubrec3 { pid := ← nat "pid", rc := ← nat "rc" })
    | 6 => do pure (.pubrel3 { pid := ← nat "pid", rc := ← nat "rc" })
    | 7 => do pure (.pubcomp3 { pid := ← nat "pid", rc := ← nat "rc" })
    | 8 => do pure (.subscribe3 { pid := ← nat "pid", entries := ← field ws "entries" entries })
    | 9 => do pure (.suback3 { pid := ← nat "pid", codes := ← hex "codes" })
    | 10 => do pure (.unsubscribe3 { pid := ← nat "pid", topics := ← field ws "topics" topics })
    | 11 => do pure (.unsuback3 { pid := ← nat "pid" })
    | 12 => if ws = ["-"] then some .pingreq3 else none
    | 13 => if ws = ["-"] then some .pingresp3 else none
    | 14 => if ws = ["-"] then some .disconnect3 else none
    | _ => none

end Desc

/-- what the real builder did -/
inductive ImplBuild
  | ok (size : Nat) (cont : List Nat)
  | err (e : String)
  | panic

def shortB (bs : List Nat) : String :=
  if bs.length ≤ 48 then bytesToHex bs else bytesToHex (bs.take 48) ++ s!"…({bs.length} bytes)"

/-- run the model of the builder on the call `ws` and compare with the implementation.
    `mdiff codec.build.<kind>.{desc|untyped|outcome|error|bytes|size}`; `viol C03 built_fields@<kind>`
    when the model builder accepts, the implementation's bytes differ from the model's and do not
    parse back (specification parser) to the requested field values; `viol C02 built_wf.<rule>@<kind>`
    when the packet the library built (builder or `op=` operation) breaks a well-formedness rule. -/
def compareBuild (name : String) (ln ver pw ty : Nat) (ws : List String) (impl : ImplBuild) (r : Report) : Report :=
  let kind := kindName ver ty
  let call := " ".intercalate (ws.map fun w => if w.length ≤ 80 then w else (w.take 80).toString ++ "…")
  let loc := s!"{name} line {ln}: build {kind} pw={pw} [{call}]"
  match Desc.toArgs ver ty ws with
  | none => r.mdiff s!"codec.build.{kind}.desc" s!"{loc}: cannot read the builder call"
  | some args =>
    let r := if args.typed pw then r else
      r.mdiff s!"codec.build.{kind}.untyped" s!"{loc}: an argument is outside its Rust type (Args.typed)"
    let m := args.build pw
    -- monitor of `build_ok_wf` on the implementation's own output: the packet the library built (a
    -- builder, or a post-construction operation: `op=`) satisfies the builders' well-formedness rules
    let op := Desc.get ws "op"
    let maker := match op with | some o => s!"operation {(o.splitOn "/").headD o}" | none => "builder"
    let (r, unbuildable) := match impl with
      | .ok _ cont =>
        match frameBody cont with
        | some (fh, _, body) =>
          match Packet.parse ver pw fh body with
          | some (.ok q _) =>
            (match firstFailing (q.checks pw) with
             | some chk => (r.viol s!"C02 built_wf.{chk}@{kind}" s!"{loc}: the {maker} returned Ok with {shortB cont}, a packet that violates the builders' rule `{chk}` (no builder call produces it)", true)
             | none => (r.tag "built.wf.checked", false))
          | _ => (r, false)
        | none => (r, false)
      | _ => (r, false)
    match m, impl with
    | .error (.panic site), .panic => (r.tag s!"build.{kind}.panic").tag site
    | .error (.err e), .err e' =>
      let r := r.tag s!"build.{kind}.err.{e'}"
      if e.name = e' then r
      else r.mdiff s!"codec.build.{kind}.error" s!"{loc}: error model={e.name} impl={e'}"
    | .ok p, .ok size cont =>
      let r := r.tag s!"build.{kind}.ok"
      let enc := p.encode pw
      let r := if p.size ≠ size then r.mdiff s!"codec.build.{kind}.size" s!"{loc}: size() model={p.size} impl={size}" else r
      if enc == cont then r
      else
        let r := r.mdiff s!"codec.build.{kind}.bytes" s!"{loc}: bytes model={shortB enc} impl={shortB cont}"
        -- C02 / C03 on the builder: do the implementation's bytes carry the requested field values?
        let want := Acc.fields (ver == 5) args.abs
        match frameBody cont with
        | none => r.viol s!"C03 built_fields@{kind}" s!"{loc}: the bytes the builder produced, {shortB cont}, are not a frame"
        | some (fh, _, body) =>
          match Packet.parse ver pw fh body with
          | some (.ok q _) =>
            (match Acc.firstDiff want (accFields pw q) with
             | some (key, asked, got) =>
               r.viol s!"C03 built_fields@{kind}" s!"{loc}: the builder was asked for field `{key}` = {asked}; the bytes it produced, {shortB cont}, encode `{key}` = {got}"
             | none => r)
          | _ =>
            r.viol s!"C03 built_fields@{kind}" s!"{loc}: the bytes the builder produced, {shortB cont}, do not parse back (requested fields {Acc.render want})"
    | m, i =>
      let ms := match m with | .ok _ => "ok" | .error (.err e) => s!"err {e.name}" | .error (.panic s) => s!"panic {s}"
      let is := match i with | .ok _ c => s!"ok {shortB c}" | .err e => s!"err {e}" | .panic => "PANIC"
      -- an operation whose result no builder call produces: reported above (`built_wf`), the model of
      -- the BUILDER rightly refuses the derived call
      let explained := op.isSome && unbuildable && (match m, i with | .error (.err _), .ok _ _ => true | _, _ => false)
      if explained then r.tag s!"build.{kind}.op.unbuildable"
      else r.mdiff s!"codec.build.{kind}.outcome" s!"{loc}: model={ms} impl={is}"

end MqttVerif.Driver
