import MqttVerif.Driver.Common
import MqttVerif.Codec.Wf
import MqttVerif.Codec.Abs
import MqttVerif.Codec.AccDump
import MqttVerif.Driver.BuildDesc
import MqttVerif.Spec.Placement
import Std.Data.HashMap
/-!
Trace driver for the packet codecs (`T codec …`).

`P <ver> <pw> <fh> <body> = ok <consumed> <size> <continuous> <buffers|~> <R1|R0> acc=<dump> | err <E> | PANIC`
  one call of a real parser; the model parser is run on the same input and compared
  (outcome, error, consumed, size, re-encoding, verdict of re-parsing the encoding, and the
  FIELD VALUES: `acc=<dump>` is what the real packet's public accessors return, compared key by
  key with `accDump` of the model's packet — `codec.fields.<kind>.<key>` / `C03 accessors@<kind>`),
  and the C04 monitors are evaluated on the implementation's answer.
`B <ver> <pw> <fh> <k=v…> = ok <size> <continuous> <buffers|~> ; <P-style result of parsing its own body> ; eq=<0|1> | err <E> | PANIC`
  one builder call; `<k=v…>` is the call itself (one token per setter, `none` = not called): the MODEL
  of the builder (`Codec/Build.lean`) is run on it and compared with the implementation
  (`codec.build.<kind>.{outcome|error|bytes|size}`, `C03 built_fields@<kind>`, see `Driver/BuildDesc.lean`);
  C02 monitors on the implementation's answer, model parser compared on the parse.
`E …` harness-side exhaustive sweep summary (statistics only; offending cases come as `P` lines).
-/
namespace MqttVerif.Driver
open MqttVerif.Codec

structure CodecSt where
  name : String := ""
  tags : Std.HashMap String Nat := {}

def CodecSt.tag (st : CodecSt) (k : String) : CodecSt :=
  { st with tags := st.tags.insert k (st.tags.getD k 0 + 1) }

/-- an implementation observation -/
inductive ImplRes
  | ok (consumed size : Nat) (cont : List Nat) (bufsEq : Bool) (reparse : Option Bool)
      (acc : Option String)        -- accessor dump (`acc=…`), absent in traces of the old format
  | err (e : String)
  | panic

def parseImplRes (ws : List String) : Option ImplRes :=
  match ws with
  | ["PANIC"] => some .panic
  | ["err", e] => some (.err e)
  | "ok" :: c :: s :: cont :: bufs :: rest => do
    let c ← c.toNat?
    let s ← s.toNat?
    let cont ← hexToBytes cont
    let beq ← (if bufs = "~" then some true else (hexToBytes bufs).map (· == cont))
    let rp := match rest with | "R1" :: _ => some true | "R0" :: _ => some false | _ => none
    let acc := match rest.find? (·.startsWith "acc=") with
      | some w => some (w.drop 4).toString
      | none => none
    pure (.ok c s cont beq rp acc)
  | _ => none

def parseHexByte (s : String) : Option Nat :=
  match hexToBytes s with
  | some [b] => some b
  | _ => none

def short (bs : List Nat) : String :=
  if bs.length ≤ 48 then bytesToHex bs else bytesToHex (bs.take 48) ++ s!"…({bs.length} bytes)"

/-- model verdict of "re-parsing the encoding gives ok with the same encoding" -/
def modelReparse (ver pw : Nat) (enc : List Nat) : Bool :=
  match frameBody enc with
  | some (fh, _, body) =>
    match Packet.parse ver pw fh body with
    | some (.ok q _) => q.encode pw == enc
    | _ => false
  | none => false

/-- compare the model's parse of `body` with the implementation's observation `ir`;
    evaluate the C04 monitors on `ir` -/
def compareParse (st : CodecSt) (ln : Nat) (ver pw fh : Nat) (body : List Nat) (ir : ImplRes)
    (c04 : Bool) (r : Report) : CodecSt × Report :=
  let kind := kindName ver (fh / 16)
  let loc := s!"{st.name} line {ln}: {kind} pw={pw} fh={fh} body={short body}"
  match Packet.parse ver pw fh body with
  | none => (st, r.mdiff "codec.parse.noparser" s!"{loc}: no model parser")
  | some mr =>
    -- monitors on the implementation's answer
    let r := if ¬ c04 then r else match ir with
      | .panic => r.viol s!"C04 no_panic@{kind}" s!"{loc}: the parser panicked"
      | .err _ => r
      | .ok c s cont beq rp _ =>
        let r := if c > body.length then r.viol s!"C04 consumed_le@{kind}" s!"{loc}: consumed {c} > {body.length}" else r
        let r := if s ≠ cont.length then r.viol s!"C04 size_eq@{kind}" s!"{loc}: size()={s} but the encoding {short cont} has {cont.length} bytes" else r
        let r := if ¬ beq then r.viol s!"C04 buffers@{kind}" s!"{loc}: to_buffers() differs from to_continuous_buffer()" else r
        if rp == some false then r.viol s!"C04 reparse@{kind}" s!"{loc}: re-parsing its own encoding {short cont} does not give the same packet" else r
    -- model vs implementation
    match mr, ir with
    | .panic site, .panic => (st.tag s!"{kind}.panic", r.tag site)
    | .err e, .err e' =>
      let st := st.tag s!"{kind}.err.{e'}"
      if e.name = e' then (st, r) else (st, r.mdiff s!"codec.parse.{kind}.error" s!"{loc}: error model={e.name} impl={e'}")
    | .ok p c, .ok c' s' cont' _ rp' acc' =>
      let st := st.tag s!"{kind}.ok"
      -- C03 "…whose accessors return the same values": the field values the real packet's public
      -- accessors return vs. the field values the model parser read from the same bytes
      let (st, r) := match acc' with
        | none => (st.tag "fields.absent", r)
        | some ia =>
          let st := st.tag "fields.checked"
          let mf := accFields pw p
          if Acc.render mf == ia then (st, r)
          else if ia = "PANIC" then
            let r := r.mdiff s!"codec.fields.{kind}.panic" s!"{loc}: an accessor of the accepted packet panicked; model fields {Acc.render mf}"
            (st, r.viol s!"C03 accessors@{kind}" s!"{loc}: for these bytes the specification reads {Acc.render mf}; an accessor of the implementation's packet panicked")
          else
            let (key, mv, iv) := match Acc.firstDiff mf (Acc.unrender ia) with
              | some d => d
              | none => ("token", Acc.render mf, ia)
            let r := r.mdiff s!"codec.fields.{kind}.{key}" s!"{loc}: field `{key}`: model={mv} impl accessor={iv}"
            (st, r.viol s!"C03 accessors@{kind}" s!"{loc}: for these bytes the specification (the model parser, proved equal to WireSpec by C03_parse_spec_encoding / C03_encode_eq_spec) reads {key} = {mv}, the implementation's accessor returns {iv}")
      let enc := p.encode pw
      let r := if c ≠ c' then r.mdiff s!"codec.parse.{kind}.consumed" s!"{loc}: consumed model={c} impl={c'}" else r
      let r := if p.size ≠ s' then r.mdiff s!"codec.parse.{kind}.size" s!"{loc}: size model={p.size} impl={s'}" else r
      let same := enc == cont'
      let r := if ¬ same then r.mdiff s!"codec.parse.{kind}.encoding" s!"{loc}: encoding model={short enc} impl={short cont'}" else r
      let r := match rp' with
        | some b => if same ∧ modelReparse ver pw enc ≠ b then
            r.mdiff s!"codec.parse.{kind}.reparse" s!"{loc}: reparse verdict model={modelReparse ver pw enc} impl={b}" else r
        | none => r
      -- C03 on parsed packets: the re-encoding of an accepted packet is what the specification
      -- prescribes for its field values
      let r := if c04 ∧ same then
          let spec := (Packet.abs p).encode pw
          if spec ≠ cont' then
            r.viol s!"C03 bytes@{kind}" s!"{loc}: the specification prescribes {short spec} for the parsed field values, the implementation re-encodes {short cont'}"
          else r.tag "spec.reencode.checked"
        else r
      -- C04 "buildable": structural rules of the builders, on the (agreeing) packet
      let r := if c04 ∧ same then
          match firstFailing (p.checks pw) with
          | some chk => r.viol s!"C04 buildable.{chk}@{kind}" s!"{loc}: accepted, but no builder produces it ({chk})"
          | none => r
        else r
      (st, r)
    | m, i =>
      let ms := match m with | .ok _ c => s!"ok consumed={c}" | .err e => s!"err {e.name}" | .panic s => s!"panic {s}"
      let is := match i with | .ok c _ _ _ _ _ => s!"ok consumed={c}" | .err e => s!"err {e}" | .panic => "PANIC"
      let r := r.mdiff s!"codec.parse.{kind}.outcome" s!"{loc}: model={ms} impl={is}"
      -- C03 "a spec-conformant encoding of those field values is parsed back": the input is exactly
      -- the byte string the independent reference encoder prescribes for the field values the
      -- specification reads from it, the builders' structural rules hold, and the implementation refuses it
      let r := match m, i with
        | .ok p c, .err e =>
          let frame := fh :: (vbiEnc body.length ++ body)
          if c = body.length ∧ (Packet.abs p).encode pw = frame ∧ (firstFailing (p.checks pw)).isNone then
            r.viol s!"C03 rejects_spec_encoding@{kind}" s!"{loc}: these bytes are exactly the specification's encoding of a well-formed {kind} (fields {Acc.render (accFields pw p)}); the implementation refuses them with {e}"
          else r
        | _, _ => r
      -- C04 "buildable": the implementation accepts, and what it accepted re-encodes to bytes the
      -- model parser refuses.  The model parser accepts every builder output (build_ok_wf +
      -- C02_builder_roundtrip), so no builder produces the accepted packet.
      let r := match m, i with
        | .err e, .ok _ _ cont' _ _ _ =>
          (match frameBody cont' with
           | some (fh', _, body') =>
             (match Packet.parse ver pw fh' body' with
              | some (.err e') =>
                if c04 then r.viol s!"C04 buildable.model_rejects@{kind}" s!"{loc}: accepted (the specification's parser answers {e.name}); the accepted packet re-encodes to {short cont'}, which no builder can produce (every builder output parses; these bytes are refused with {e'.name})" else r
              | _ => r)
           | none => r)
        | _, _ => r
      (st, r)

def codecP (st : CodecSt) (ln : Nat) (line : String) (r : Report) : CodecSt × Report :=
  let bad := (st, r.mdiff "parse" s!"{st.name} line {ln}: unparsable `{line.take 200}`")
  match line.splitOn " = " with
  | [lhs, rhs] =>
    match words lhs, parseImplRes (words rhs) with
    | [_, ver, pw, fh, body], some ir =>
      match ver.toNat?, pw.toNat?, parseHexByte fh, hexToBytes body with
      | some ver, some pw, some fh, some body =>
        compareParse st ln ver pw fh body ir true { r with calls := r.calls + 1 }
      | _, _, _, _ => bad
    | _, _ => bad
  | _ => bad

def codecB (st : CodecSt) (ln : Nat) (line : String) (r : Report) : CodecSt × Report :=
  let bad := (st, r.mdiff "parse" s!"{st.name} line {ln}: unparsable `{line.take 200}`")
  match line.splitOn " = " with
  | [lhs, rhs] =>
    match words lhs with
    | _ :: ver :: pw :: fh :: desc =>
      match ver.toNat?, pw.toNat?, parseHexByte fh with
      | some ver, some pw, some fh =>
        let kind := kindName ver (fh / 16)
        let r := { r with calls := r.calls + 1 }
        let loc := s!"{st.name} line {ln}: build {kind} pw={pw}"
        match rhs.splitOn " ; " with
        | [one] =>
          match words one with
          | ["PANIC"] =>
            let r := compareBuild st.name ln ver pw (fh / 16) desc .panic r
            (st.tag s!"{kind}.build.panic", r.viol s!"C02 build_panic@{kind}" s!"{loc}: build() panicked")
          | ["err", e] => (st.tag s!"{kind}.build.err.{e}", compareBuild st.name ln ver pw (fh / 16) desc (.err e) r)
          | _ => bad
        | [built, parsed, eqs] =>
          match words built with
          | ["ok", size, cont, bufs] =>
            match size.toNat?, hexToBytes cont, parseImplRes (words parsed) with
            | some size, some cont, some ir =>
              let st := st.tag s!"{kind}.build.ok"
              -- the MODEL of the builder on the same call (`desc`): outcome, bytes, size, field values
              let r := compareBuild st.name ln ver pw (fh / 16) desc (.ok size cont) r
              let bufsEq := bufs = "~" || (hexToBytes bufs == some cont)
              -- C02 monitors on the implementation's answer
              let r := if size ≠ cont.length then r.viol s!"C02 size@{kind}" s!"{loc}: size()={size}, encoding {short cont} has {cont.length} bytes" else r
              let r := if ¬ bufsEq then r.viol s!"C02 buffers@{kind}" s!"{loc}: to_buffers() differs from to_continuous_buffer() {short cont}" else r
              match frameBody cont with
              | none => (st, r.viol s!"C02 wire_remlen@{kind}" s!"{loc}: no Remaining Length in {short cont}")
              | some (fh', rl, body) =>
                let r := if rl ≠ body.length then r.viol s!"C02 wire_remlen@{kind}" s!"{loc}: Remaining Length on the wire {rl}, body has {body.length} bytes: {short cont}" else r
                let r := match ir with
                  | .panic => r.viol s!"C02 reparse@{kind}" s!"{loc}: parsing its own body panicked: {short cont}"
                  | .err e =>
                    let r := r.viol s!"C02 reparse@{kind}" s!"{loc}: its own body is rejected ({e}): {short cont}"
                    if ver = 5 then r.viol s!"C18 builder_parser_disagree@{kind}" s!"{loc}: the builder accepted this packet and its property lists, the parser refuses the bytes it serialises to ({e}): {short cont}" else r
                  | .ok c _ cont2 _ _ _ =>
                    let r := if c ≠ body.length then r.viol s!"C02 consumed@{kind}" s!"{loc}: parse consumed {c} of {body.length} body bytes: {short cont}" else r
                    let r := if cont2 ≠ cont then r.viol s!"C02 reparse@{kind}" s!"{loc}: parse(encode p) re-encodes to {short cont2}, not {short cont}" else r
                    if eqs.trimAscii.toString = "eq=0" ∧ cont2 = cont then
                      r.viol s!"C02 equal@{kind}" s!"{loc}: parse(encode p) ≠ p although the bytes agree: {short cont}" else r
                -- C03: the independent reference encoder, applied to the abstraction of the packet the
                -- model parsed from these bytes, must reproduce the implementation's bytes
                let r := match Packet.parse ver pw fh' body with
                  | some (.ok p _) =>
                    let spec := (Packet.abs p).encode pw
                    let r := if spec ≠ cont then
                      r.viol s!"C03 bytes@{kind}" s!"{loc}: the specification prescribes {short spec} for these field values, the implementation wrote {short cont}"
                    else r.tag "spec.bytes.checked"
                    -- the vectored serialisation is "the bytes produced" as well (`~` = equal to the contiguous one)
                    match (if bufs = "~" then none else hexToBytes bufs) with
                    | some vb => if vb ≠ spec then
                        r.viol s!"C03 bytes_vectored@{kind}" s!"{loc}: the specification prescribes {short spec} for these field values, the concatenated to_buffers() output is {short vb}" else r
                    | none => r
                  | _ => r
                compareParse st ln ver pw fh' body ir false r
            | _, _, _ => bad
          | _ => bad
        | _ => bad
      | _, _, _ => bad
    | _ => bad
  | _ => bad

/-- property ids of a `props:[id:val;id:val;…]` field of an accessor dump -/
def accPropIds (acc key : String) : List Nat :=
  match acc.splitOn (key ++ ":[") with
  | _ :: rest :: _ =>
    let inner := (rest.splitOn "]").headD ""
    if inner = "" then [] else (inner.splitOn ";").filterMap fun (it : String) => ((it.splitOn ":").headD "").toNat?
  | _ => []

/-- `BA <ver> <pw> <fh> acc=<dump>`: the property lists of a packet the library BUILT (builder or
    rewriting operation), read through its accessors, against the placement / multiplicity
    table of the specification (`Spec/Placement.lean`, MQTT v5.0 Table 2-4) -/
def codecBA (st : CodecSt) (ln : Nat) (line : String) (r : Report) : CodecSt × Report :=
  match words line with
  | [_, ver, _, fh, accW] =>
    match ver.toNat?, parseHexByte fh with
    | some 5, some fhv =>
      let acc := (accW.drop 4).toString
      let kind := kindName 5 (fhv / 16)
      let loc? : Option Spec.Placement.Location := match fhv / 16 with
        | 1 => some .connect | 2 => some .connack | 3 => some .publish | 4 => some .puback | 5 => some .pubrec
        | 6 => some .pubrel | 7 => some .pubcomp | 8 => some .subscribe | 9 => some .suback | 10 => some .unsubscribe
        | 11 => some .unsuback | 14 => some .disconnect | 15 => some .auth | _ => none
      let check (loc : Spec.Placement.Location) (ids : List Nat) (r : Report) : Report :=
        ids.eraseDups.foldl (fun (r : Report) (c : Nat) =>
          match Spec.Placement.PropId.all.find? (fun (q : Spec.Placement.PropId) => q.code = c) with
          | none => r.viol s!"C18 built_packet_placement@{kind}" s!"{st.name} line {ln}: a built {kind} carries an unknown property identifier {c}"
          | some q =>
            let n := (ids.filter (· = c)).length
            if !Spec.Placement.allowed loc q then
              r.viol s!"C18 built_packet_placement@{kind}" s!"{st.name} line {ln}: a built {kind} carries property {c}, which the specification does not allow in {loc.name}: {acc}"
            else if n > 1 ∧ !Spec.Placement.mayRepeat loc q then
              r.viol s!"C18 built_packet_multiplicity@{kind}" s!"{st.name} line {ln}: a built {kind} carries property {c} {n} times; the specification allows it once in {loc.name}: {acc}"
            else r) r
      (match loc? with
       | some loc =>
         let r := check loc (accPropIds acc "props") r
         let r := if loc = .connect then check .will (accPropIds acc "wprops") r else r
         (st.tag "built.placement.checked", r)
       | none => (st, r))
    | _, _ => (st, r)
  | _ => (st, r.mdiff "parse" s!"{st.name} line {ln}: unparsable `{line.take 120}`")

def codecE (st : CodecSt) (line : String) (r : Report) : CodecSt × Report :=
  let ws := words line
  let get (k : String) : Nat :=
    match ws.find? (·.startsWith (k ++ "=")) with
    | some w => ((w.drop (k.length + 1)).toString.toNat?).getD 0
    | none => 0
  let st := { st with tags := st.tags.insert "exhaustive.full_alphabet.cases" (st.tags.getD "exhaustive.full_alphabet.cases" 0 + get "cases") }
  let st := { st with tags := st.tags.insert "exhaustive.full_alphabet.bad" (st.tags.getD "exhaustive.full_alphabet.bad" 0 + get "bad") }
  (st, r)

def codecEnd (st : CodecSt) (r : Report) : Report :=
  st.tags.fold (fun r k n => { r with tags := (r.tags.filter (·.1 ≠ k)) ++ [(k, n + ((r.tags.find? (·.1 = k)).map (·.2)).getD 0)] }) r

end MqttVerif.Driver
