/-! Shared helpers for the trace driver (`mqttdrv`): hex, splitting, report accumulation. -/
namespace MqttVerif.Driver

def hexDigit (c : Char) : Option Nat :=
  if '0' ≤ c ∧ c ≤ '9' then some (c.toNat - '0'.toNat)
  else if 'a' ≤ c ∧ c ≤ 'f' then some (c.toNat - 'a'.toNat + 10)
  else if 'A' ≤ c ∧ c ≤ 'F' then some (c.toNat - 'A'.toNat + 10)
  else none

def hexToBytesAux : List Char → List Nat → Option (List Nat)
  | [], acc => some acc.reverse
  | [_], _ => none
  | a :: b :: rest, acc =>
    match hexDigit a, hexDigit b with
    | some x, some y => hexToBytesAux rest ((x * 16 + y) :: acc)
    | _, _ => none

/-- "-" denotes the empty byte string -/
def hexToBytes (s : String) : Option (List Nat) :=
  if s = "-" then some [] else hexToBytesAux s.toList []

def hexChar (n : Nat) : Char :=
  if n < 10 then Char.ofNat (n + '0'.toNat) else Char.ofNat (n - 10 + 'a'.toNat)

def bytesToHex (bs : List Nat) : String :=
  if bs.isEmpty then "-" else
  String.ofList (bs.foldr (fun b acc => hexChar (b / 16 % 16) :: hexChar (b % 16) :: acc) [])

def words (s : String) : List String :=
  (s.splitOn " ").filter (· ≠ "")

/-- one class of diagnostics: kind (`MDIFF` model≠implementation, `VIOL` property monitor
    failed on the implementation's trace), signature, count, first message -/
structure Diag where
  kind : String
  sig : String
  count : Nat
  first : String

structure Report where
  traces : Nat := 0
  calls : Nat := 0
  mdiffs : Nat := 0           -- model vs implementation disagreements
  viols : Nat := 0            -- property monitor failures on the implementation's trace
  diags : List Diag := []
  tags : List (String × Nat) := []   -- branch / category histogram

def addDiag (kind sig msg : String) : List Diag → List Diag
  | [] => [⟨kind, sig, 1, msg⟩]
  | d :: rest =>
    if d.kind = kind ∧ d.sig = sig then { d with count := d.count + 1 } :: rest
    else d :: addDiag kind sig msg rest

/-- model and implementation disagree (`sig` groups equal causes) -/
def Report.mdiff (r : Report) (sig msg : String) : Report :=
  { r with mdiffs := r.mdiffs + 1, diags := addDiag "MDIFF" sig msg r.diags }

/-- a property monitor failed on the implementation's own trace; `sig` is
    `<property> <clause>@<site>` and is what `KNOWN_FINDINGS.txt` lists -/
def Report.viol (r : Report) (sig msg : String) : Report :=
  { r with viols := r.viols + 1, diags := addDiag "VIOL" sig msg r.diags }

def bump (k : String) : List (String × Nat) → List (String × Nat)
  | [] => [(k, 1)]
  | (k', n) :: rest => if k = k' then (k', n + 1) :: rest else (k', n) :: bump k rest

def Report.tag (r : Report) (k : String) : Report := { r with tags := bump k r.tags }

def Report.print (r : Report) : IO Unit := do
  for d in r.diags do IO.println s!"{d.kind} sig={d.sig} count={d.count} first={d.first}"
  for (k, n) in r.tags do IO.println s!"TAG {k} {n}"
  IO.println s!"SUMMARY traces={r.traces} calls={r.calls} mdiffs={r.mdiffs} viols={r.viols}"

end MqttVerif.Driver
