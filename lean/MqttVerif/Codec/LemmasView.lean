import MqttVerif.Codec.LemmasSize
import MqttVerif.Codec.View
/-!
# L1 → L2: what the connection model may assume of a *parsed* packet (`WfParsed`)

For every frame the L1 parsers accept (bytes `< 256`, id width 2 or 4), the interface view
satisfies: PUBLISH has `qos ≤ 2`, a packet id iff `qos > 0`, and that id is in `[1, 256^pw − 1]`;
PUBACK/PUBREC/PUBREL/PUBCOMP/SUBSCRIBE/SUBACK/UNSUBSCRIBE/UNSUBACK carry an id in that range;
Receive Maximum and Maximum Packet Size values among the connection-relevant properties are
non-zero; `topic_name_extracted` is false.
-/
namespace MqttVerif.Codec
open MqttVerif.Conn (Pkt Kind)

/-! ### big-endian value of an id slice -/

theorem foldl_be_ne_zero (l : List Nat) (acc : Nat) (h : acc ≠ 0 ∨ allZero l = false) :
    l.foldl (fun a b => a * 256 + b) acc ≠ 0 := by
  induction l generalizing acc with
  | nil =>
    rcases h with h | h
    · exact h
    · simp [allZero] at h
  | cons b t ih =>
    simp only [List.foldl_cons]
    apply ih
    rcases h with h | h
    · left; omega
    · simp only [allZero, List.all_cons, Bool.and_eq_false_iff, beq_eq_false_iff_ne, ne_eq] at h
      rcases h with h | h
      · left; omega
      · right; exact h

theorem beNat_ne_zero (l : List Nat) (h : allZero l = false) : beNat l ≠ 0 :=
  foldl_be_ne_zero l 0 (Or.inr h)

theorem foldl_be_lt (l : List Nat) (acc : Nat) (h : ∀ b ∈ l, b < 256) :
    l.foldl (fun a b => a * 256 + b) acc < (acc + 1) * 256 ^ l.length := by
  induction l generalizing acc with
  | nil => simp
  | cons b t ih =>
    simp only [List.foldl_cons, List.length_cons]
    have hb : b < 256 := h b (by simp)
    have := ih (acc * 256 + b) (fun x hx => h x (by simp [hx]))
    have h2 : (acc * 256 + b + 1) * 256 ^ t.length ≤ ((acc + 1) * 256) * 256 ^ t.length :=
      Nat.mul_le_mul_right _ (by omega)
    rw [Nat.pow_succ, Nat.mul_comm (256 ^ t.length) 256, ← Nat.mul_assoc]
    omega

theorem beNat_lt (l : List Nat) (h : ∀ b ∈ l, b < 256) : beNat l < 256 ^ l.length := by
  have := foldl_be_lt l 0 h
  simpa [beNat] using this

def isBytes (l : List Nat) : Prop := ∀ b ∈ l, b < 256

theorem post_slice_mem {α : Type} {site : String} {data : List Nat} {a b : Nat} {k : List Nat → PRes α}
    {Q : α → Nat → Prop} (hk : ∀ d, d.length = b - a → (∀ x ∈ d, x ∈ data) → Post (k d) Q) :
    Post (slice site data a b k) Q := by
  unfold slice; split
  · rename_i h
    exact hk _ (by simp; omega) (fun x hx => List.mem_of_mem_drop (List.mem_of_mem_take hx))
  · exact post_panic

/-- an id read from `pw` bytes that are not all zero -/
def IdIn (pw id : Nat) : Prop := 1 ≤ id ∧ id < 256 ^ pw

theorem idIn_of_slice (pw : Nat) (data idb : List Nat) (hb : isBytes data) (hl : idb.length = pw)
    (hm : ∀ x ∈ idb, x ∈ data) (hz : allZero idb = false) : IdIn pw (beNat idb) := by
  refine ⟨Nat.one_le_iff_ne_zero.2 (beNat_ne_zero idb hz), ?_⟩
  rw [← hl]
  exact beNat_lt idb (fun b hbm => hb b (hm b hbm))

theorem parseIdFront_idIn (site : String) (pw : Nat) (data : List Nat) (hb : isBytes data) :
    Post (parseIdFront site pw data) (fun id _ => IdIn pw id) := by
  unfold parseIdFront
  split
  · exact post_err
  · refine post_slice_mem fun idb hl hm => ?_
    split
    · exact post_err
    · rename_i hz
      exact post_ok (idIn_of_slice pw data idb hb (by omega) hm (by simpa using hz))

/-! ### property values -/

/-- the value validators of `Property::parse` -/
def Property.valid : Property → Prop
  | .u16 id v => (id = 33 ∨ id = 35) → v ≠ 0
  | .u32 id v => id = 39 → v ≠ 0
  | .vbi id v => id = 11 → v ≠ 0
  | _ => True

theorem parseU8_valid (id : Nat) (rest : List Nat) : Post (parseU8 id rest) (fun p _ => p.valid) := by
  unfold parseU8; split
  · exact post_err
  · refine post_idx fun v => ?_
    split
    · exact post_ok trivial
    · exact post_err

theorem parseU16_valid (id : Nat) (rest : List Nat) : Post (parseU16 id rest) (fun p _ => p.valid) := by
  unfold parseU16; split
  · exact post_err
  · refine post_idx fun b0 => post_idx fun b1 => ?_
    dsimp only; split
    · rename_i hv
      refine post_ok ?_
      intro hid
      simp only [validU16, hid, if_true, bne_iff_ne, ne_eq] at hv
      exact hv
    · exact post_err

theorem parseU32_valid (id : Nat) (rest : List Nat) : Post (parseU32 id rest) (fun p _ => p.valid) := by
  unfold parseU32; split
  · exact post_err
  · refine post_idx fun b0 => post_idx fun b1 => post_idx fun b2 => post_idx fun b3 => ?_
    dsimp only; split
    · rename_i hv
      refine post_ok ?_
      intro hid
      simp only [validU32, hid, if_true, bne_iff_ne, ne_eq] at hv
      exact hv
    · exact post_err

theorem parseVbi_valid (id : Nat) (rest : List Nat) : Post (parseVbi id rest) (fun p _ => p.valid) := by
  unfold parseVbi; split
  · split
    · rename_i hv
      refine post_ok ?_
      intro hid
      simp only [validVbi, hid, if_true, bne_iff_ne, ne_eq] at hv
      exact hv
    · exact post_err
  · exact post_err
  · exact post_err

theorem parsePStr_valid (id : Nat) (rest : List Nat) : Post (parsePStr id rest) (fun p _ => p.valid) := by
  unfold parsePStr
  exact post_bind (P := fun _ _ => True) (fun _ _ _ => trivial) fun s c _ => post_ok trivial

theorem parsePBin_valid (id : Nat) (rest : List Nat) : Post (parsePBin id rest) (fun p _ => p.valid) := by
  unfold parsePBin
  exact post_bind (P := fun _ _ => True) (fun _ _ _ => trivial) fun s c _ => post_ok trivial

theorem parsePair_valid (id : Nat) (rest : List Nat) : Post (parsePair id rest) (fun p _ => p.valid) := by
  unfold parsePair
  refine post_bind (P := fun _ _ => True) (fun _ _ _ => trivial) fun k kc _ => ?_
  refine post_sliceFrom fun d _ => ?_
  exact post_bind (P := fun _ _ => True) (fun _ _ _ => trivial) fun v vc _ => post_ok trivial

theorem Property.parse_valid (bytes : List Nat) : Post (Property.parse bytes) (fun p _ => p.valid) := by
  unfold Property.parse
  split
  · exact post_err
  · refine post_idx fun id => ?_
    split
    · exact post_err
    · rename_i sh _
      refine post_sliceFrom fun rest _ => ?_
      dsimp only
      refine post_bind (P := fun p _ => p.valid) ?_ fun p c h => post_ok h
      cases sh
      · exact parseU8_valid id rest
      · exact parseU16_valid id rest
      · exact parseU32_valid id rest
      · exact parseVbi_valid id rest
      · exact parsePStr_valid id rest
      · exact parsePBin_valid id rest
      · exact parsePair_valid id rest

def propsValid (ps : Props) : Prop := ∀ p ∈ ps, p.valid

theorem propsLoop_valid (fuel : Nat) (region : List Nat) : Post (propsLoop fuel region) (fun ps _ => propsValid ps) := by
  induction fuel generalizing region with
  | zero => unfold propsLoop; split
            · exact post_ok (fun p h => by simp at h)
            · exact post_panic
  | succ fuel ih =>
    unfold propsLoop
    split
    · exact post_ok (fun p h => by simp at h)
    · refine post_bind (Property.parse_valid region) fun p c hp => ?_
      refine post_bind (ih (region.drop c)) fun ps c' hps => post_ok ?_
      intro q hq
      rcases List.mem_cons.1 hq with h | h
      · rw [h]; exact hp
      · exact hps q h

theorem Props.parse_valid (data : List Nat) : Post (Props.parse data) (fun ps _ => propsValid ps) := by
  unfold Props.parse
  split
  · exact post_err
  · split
    · split
      · exact post_ok (fun p h => by simp at h)
      · dsimp only; split
        · exact post_err
        · refine post_slice fun region _ => ?_
          exact post_bind (propsLoop_valid _ region) fun ps c h => post_ok h
    · exact post_err

theorem parsePropsAt_valid (site : String) (validate : Props → Option Err) (data : List Nat) (cursor : Nat) :
    Post (parsePropsAt site validate data cursor) (fun pp _ => propsValid pp.1) := by
  unfold parsePropsAt
  refine post_sliceFrom fun d _ => ?_
  refine post_bind (Props.parse_valid d) fun ps c h => ?_
  split
  · exact post_err
  · exact post_vbiOf fun _ => post_ok h

/-- Receive Maximum / Maximum Packet Size among the connection-relevant properties are non-zero -/
theorem connProps_nonzero (ps : Props) (h : propsValid ps) :
    ∀ id v, (id, v) ∈ connProps ps → (id = 33 ∨ id = 39) → v ≠ 0 := by
  intro id v hm hid
  simp only [connProps, List.mem_filterMap] at hm
  obtain ⟨p, hp, he⟩ := hm
  have hv := h p hp
  cases p with
  | u16 i w =>
    simp only [connProp?] at he
    split at he
    · simp only [Option.some.injEq, Prod.mk.injEq] at he
      obtain ⟨rfl, rfl⟩ := he
      exact hv (by omega)
    · simp at he
  | u32 i w =>
    simp only [connProp?] at he
    split at he
    · simp only [Option.some.injEq, Prod.mk.injEq] at he
      obtain ⟨rfl, rfl⟩ := he
      exact hv (by omega)
    · simp at he
  | _ => simp [connProp?] at he

/-! ### packet ids and QoS -/

theorem Ack3.parse_idIn (k : AckKind) (pw : Nat) (data : List Nat) (hb : isBytes data) :
    Post (Ack3.parse k pw data) (fun q _ => IdIn pw q.pid) := by
  unfold Ack3.parse
  split
  · exact post_err
  · refine post_slice_mem fun idb hl hm => ?_
    split
    · exact post_err
    · rename_i hz
      have hid := idIn_of_slice pw data idb hb (by omega) hm (by simpa using hz)
      dsimp only
      split
      · refine post_idx fun rc => ?_
        split
        · exact post_err
        · exact post_vbiOf fun _ => post_ok hid
      · exact post_vbiOf fun _ => post_ok hid

theorem Ack5.parse_idIn (k : AckKind) (pw : Nat) (data : List Nat) (hb : isBytes data) :
    Post (Ack5.parse k pw data) (fun q _ => IdIn pw q.pid) := by
  unfold Ack5.parse
  split
  · exact post_err
  · refine post_slice_mem fun idb hl hm => ?_
    split
    · exact post_err
    · rename_i hz
      have hid := idIn_of_slice pw data idb hb (by omega) hm (by simpa using hz)
      refine post_bind (P := fun _ _ => True) (fun _ _ _ => trivial) fun r c _ => ?_
      exact post_vbiOf fun _ => post_ok hid

theorem Subscribe3.parse_idIn (pw : Nat) (data : List Nat) (hb : isBytes data) :
    Post (Subscribe3.parse pw data) (fun q _ => IdIn pw q.pid) := by
  unfold Subscribe3.parse
  refine post_bind (parseIdFront_idIn _ pw data hb) fun pid c hid => ?_
  refine post_sliceFrom fun rest _ => ?_
  refine post_bind (P := fun _ _ => True) (fun _ _ _ => trivial) fun es c2 _ => ?_
  split
  · exact post_err
  · exact post_vbiOf fun _ => post_ok hid

theorem Suback3.parse_idIn (pw : Nat) (data : List Nat) (hb : isBytes data) :
    Post (Suback3.parse pw data) (fun q _ => IdIn pw q.pid) := by
  unfold Suback3.parse
  refine post_bind (parseIdFront_idIn _ pw data hb) fun pid c hid => ?_
  refine post_sliceFrom fun codes _ => ?_
  split
  · exact post_err
  · split
    · exact post_err
    · exact post_vbiOf fun _ => post_ok hid

theorem Unsubscribe3.parse_idIn (pw : Nat) (data : List Nat) (hb : isBytes data) :
    Post (Unsubscribe3.parse pw data) (fun q _ => IdIn pw q.pid) := by
  unfold Unsubscribe3.parse
  refine post_bind (parseIdFront_idIn _ pw data hb) fun pid c hid => ?_
  refine post_sliceFrom fun rest _ => ?_
  refine post_bind (P := fun _ _ => True) (fun _ _ _ => trivial) fun ts c2 _ => ?_
  split
  · exact post_err
  · exact post_vbiOf fun _ => post_ok hid

theorem Unsuback3.parse_idIn (pw : Nat) (data : List Nat) (hb : isBytes data) :
    Post (Unsuback3.parse pw data) (fun q _ => IdIn pw q.pid) := by
  unfold Unsuback3.parse
  refine post_bind (parseIdFront_idIn _ pw data hb) fun pid c hid => ?_
  exact post_vbiOf fun _ => post_ok hid

theorem Subscribe5.parse_idIn (pw : Nat) (data : List Nat) (hb : isBytes data) :
    Post (Subscribe5.parse pw data) (fun q _ => IdIn pw q.pid) := by
  unfold Subscribe5.parse
  refine post_bind (parseIdFront_idIn _ pw data hb) fun pid c hid => ?_
  refine post_bind (P := fun _ _ => True) (fun _ _ _ => trivial) fun pp pc _ => ?_
  dsimp only
  refine post_sliceFrom fun rest _ => ?_
  refine post_bind (P := fun _ _ => True) (fun _ _ _ => trivial) fun es c2 _ => ?_
  split
  · exact post_err
  · split
    · exact post_err
    · exact post_vbiOf fun _ => post_ok hid

theorem Codes5.parse_idIn (rcOk : Nat → Bool) (pw : Nat) (data : List Nat) (hb : isBytes data) :
    Post (Codes5.parse rcOk pw data) (fun q _ => IdIn pw q.pid) := by
  unfold Codes5.parse
  refine post_bind (parseIdFront_idIn _ pw data hb) fun pid c hid => ?_
  refine post_bind (P := fun _ _ => True) (fun _ _ _ => trivial) fun pp pc _ => ?_
  dsimp only
  refine post_sliceFrom fun codes _ => ?_
  split
  · exact post_err
  · split
    · exact post_err
    · exact post_vbiOf fun _ => post_ok hid

theorem Unsubscribe5.parse_idIn (pw : Nat) (data : List Nat) (hb : isBytes data) :
    Post (Unsubscribe5.parse pw data) (fun q _ => IdIn pw q.pid) := by
  unfold Unsubscribe5.parse
  refine post_bind (parseIdFront_idIn _ pw data hb) fun pid c hid => ?_
  refine post_bind (P := fun _ _ => True) (fun _ _ _ => trivial) fun pp pc _ => ?_
  dsimp only
  refine post_sliceFrom fun rest _ => ?_
  refine post_bind (P := fun _ _ => True) (fun _ _ _ => trivial) fun ts c2 _ => ?_
  split
  · exact post_err
  · split
    · exact post_err
    · exact post_vbiOf fun _ => post_ok hid

/-- QoS and packet id of an accepted PUBLISH (`flags` = low nibble of the fixed header) -/
def PubOk (pw flags : Nat) (pid : Option Nat) : Prop :=
  flags / 2 % 4 ≤ 2 ∧ (flags / 2 % 4 = 0 → pid = none) ∧ (flags / 2 % 4 > 0 → ∃ id, pid = some id ∧ IdIn pw id)

theorem parsePublishHead_pubOk (v5 : Bool) (pw flags : Nat) (data : List Nat) (hb : isBytes data) :
    Post (parsePublishHead v5 pw flags data) (fun tp _ => PubOk pw flags tp.2) := by
  unfold parsePublishHead
  dsimp only
  split
  · exact post_err
  · rename_i hq
    refine post_sliceFrom fun d _ => ?_
    refine post_bind (P := fun _ c => c ≤ data.length ∨ True) (fun _ _ _ => Or.inr trivial) fun topic c _ => ?_
    split
    · exact post_err
    · split
      · rename_i hq0
        split
        · exact post_err
        · refine post_slice_mem fun idb hl hm => ?_
          split
          · exact post_err
          · rename_i hz
            have hid := idIn_of_slice pw data idb hb (by omega) hm (by simpa using hz)
            exact post_ok ⟨by omega, fun h => absurd h hq0, fun _ => ⟨_, rfl, hid⟩⟩
      · rename_i hq0
        exact post_ok ⟨by omega, fun _ => rfl, fun h => by omega⟩

theorem Publish3.parse_pubOk (pw flags : Nat) (data : List Nat) (hb : isBytes data) :
    Post (Publish3.parse pw flags data) (fun q _ => PubOk pw (q.fh % 16) q.pid) := by
  unfold Publish3.parse
  refine post_bind (parsePublishHead_pubOk false pw flags data hb) fun tp c h => ?_
  refine post_usub fun _ => post_sliceFrom fun payload _ => ?_
  dsimp only
  refine post_vbiOf fun _ => post_ok ?_
  have e : (0x30 + flags % 16) % 16 / 2 % 4 = flags / 2 % 4 := by omega
  unfold PubOk at h ⊢
  dsimp only
  rw [e]
  exact h

theorem Publish5.parse_pubOk (pw flags : Nat) (data : List Nat) (hb : isBytes data) :
    Post (Publish5.parse pw flags data) (fun q _ => PubOk pw (q.fh % 16) q.pid) := by
  unfold Publish5.parse
  refine post_bind (parsePublishHead_pubOk true pw flags data hb) fun tp c h => ?_
  refine post_bind (P := fun _ _ => True) (fun _ _ _ => trivial) fun pp c2 _ => ?_
  refine post_usub fun _ => post_sliceFrom fun payload _ => ?_
  dsimp only
  refine post_vbiOf fun _ => post_ok ?_
  have e : (0x30 + flags % 16) % 16 / 2 % 4 = flags / 2 % 4 := by omega
  unfold PubOk at h ⊢
  dsimp only
  rw [e]
  exact h

theorem Connack5.parse_propsValid (data : List Nat) : Post (Connack5.parse data) (fun q _ => propsValid q.props) := by
  unfold Connack5.parse
  split
  · exact post_err
  · refine post_idx fun flags => ?_
    split
    · exact post_err
    · refine post_idx fun code => ?_
      split
      · exact post_err
      · refine post_bind (parsePropsAt_valid _ _ data 2) fun pp pc h => ?_
        exact post_vbiOf fun _ => post_ok h

theorem Connect5.parse_propsValid (data : List Nat) : Post (Connect5.parse data) (fun q _ => propsValid q.props) := by
  unfold Connect5.parse
  refine post_bind (P := fun _ _ => True) (fun _ _ _ => trivial) fun fk c _ => ?_
  refine post_bind (parsePropsAt_valid _ _ data c) fun pp pc h => ?_
  dsimp only
  refine post_bind (P := fun _ _ => True) (fun _ _ _ => trivial) fun t c2 _ => ?_
  exact post_vbiOf fun _ => post_ok h

/-! ### the predicate on the interface view -/

def idKinds : List Kind :=
  [.puback, .pubrec, .pubrel, .pubcomp, .subscribe, .suback, .unsubscribe, .unsuback]

/-- what the L2 connection model assumes of a packet that came out of a parser -/
structure WfParsed (pw : Nat) (v : Pkt) : Prop where
  publish : v.kind = .publish →
    v.qos ≤ 2 ∧ (v.qos = 0 → v.pid = none) ∧ (v.qos > 0 → ∃ id, v.pid = some id ∧ 1 ≤ id ∧ id ≤ 256 ^ pw - 1)
  ackId : v.kind ∈ idKinds → ∃ id, v.pid = some id ∧ 1 ≤ id ∧ id ≤ 256 ^ pw - 1
  props : ∀ id val, (id, val) ∈ v.props → (id = 33 ∨ id = 39) → val ≠ 0
  notExtracted : v.extracted = false

theorem idIn_le {pw id : Nat} (h : IdIn pw id) : 1 ≤ id ∧ id ≤ 256 ^ pw - 1 := ⟨h.1, by have := h.2; omega⟩

theorem wf_plain (pw : Nat) (v : Pkt) (hk : v.kind ≠ .publish) (hk2 : v.kind ∉ idKinds) (hp : v.props = [])
    (hx : v.extracted = false) : WfParsed pw v :=
  ⟨fun h => absurd h hk, fun h => absurd h hk2, fun id val hm => by rw [hp] at hm; simp at hm, hx⟩

theorem wf_id (pw : Nat) (v : Pkt) (id : Nat) (hk : v.kind ≠ .publish) (hpid : v.pid = some id) (hid : IdIn pw id)
    (hp : v.props = []) (hx : v.extracted = false) : WfParsed pw v :=
  ⟨fun h => absurd h hk, fun _ => ⟨id, hpid, idIn_le hid⟩, fun i val hm => by rw [hp] at hm; simp at hm, hx⟩

theorem wf_props (pw : Nat) (v : Pkt) (ps : Props) (hk : v.kind ≠ .publish) (hk2 : v.kind ∉ idKinds)
    (hp : v.props = connProps ps) (hv : propsValid ps) (hx : v.extracted = false) : WfParsed pw v :=
  ⟨fun h => absurd h hk, fun h => absurd h hk2, fun id val hm => by rw [hp] at hm; exact connProps_nonzero ps hv id val hm, hx⟩

theorem wf_publish (pw ver size fh : Nat) (topic : List Nat) (pid : Option Nat) (props : Props) (payload : List Nat)
    (h : PubOk pw (fh % 16) pid) : WfParsed pw (viewPublish ver size fh topic pid props payload) := by
  obtain ⟨h1, h2, h3⟩ := h
  have e : fh % 16 / 2 % 4 = fh / 2 % 4 := by omega
  rw [e] at h1 h2 h3
  refine ⟨fun _ => ⟨h1, h2, fun hq => ?_⟩, fun hk => by simp [viewPublish, idKinds] at hk, fun id val hm => by simp [viewPublish] at hm, rfl⟩
  obtain ⟨id, hp, hid⟩ := h3 hq
  exact ⟨id, hp, idIn_le hid⟩

/-! ### one lemma per constructor, then the sum type -/

theorem wfv_puback3 (pw : Nat) (a : Ack3) (h : IdIn pw a.pid) : WfParsed pw (view (.puback3 a)) :=
  wf_id pw _ a.pid (by simp [view]) rfl h rfl rfl

theorem wfv_pubrec3 (pw : Nat) (a : Ack3) (h : IdIn pw a.pid) : WfParsed pw (view (.pubrec3 a)) :=
  wf_id pw _ a.pid (by simp [view]) rfl h rfl rfl

theorem wfv_pubrel3 (pw : Nat) (a : Ack3) (h : IdIn pw a.pid) : WfParsed pw (view (.pubrel3 a)) :=
  wf_id pw _ a.pid (by simp [view]) rfl h rfl rfl

theorem wfv_pubcomp3 (pw : Nat) (a : Ack3) (h : IdIn pw a.pid) : WfParsed pw (view (.pubcomp3 a)) :=
  wf_id pw _ a.pid (by simp [view]) rfl h rfl rfl

theorem wfv_puback5 (pw : Nat) (a : Ack5) (h : IdIn pw a.pid) : WfParsed pw (view (.puback5 a)) :=
  wf_id pw _ a.pid (by simp [view]) rfl h rfl rfl

theorem wfv_pubrec5 (pw : Nat) (a : Ack5) (h : IdIn pw a.pid) : WfParsed pw (view (.pubrec5 a)) :=
  wf_id pw _ a.pid (by simp [view]) rfl h rfl rfl

theorem wfv_pubrel5 (pw : Nat) (a : Ack5) (h : IdIn pw a.pid) : WfParsed pw (view (.pubrel5 a)) :=
  wf_id pw _ a.pid (by simp [view]) rfl h rfl rfl

theorem wfv_pubcomp5 (pw : Nat) (a : Ack5) (h : IdIn pw a.pid) : WfParsed pw (view (.pubcomp5 a)) :=
  wf_id pw _ a.pid (by simp [view]) rfl h rfl rfl

theorem wfv_subscribe3 (pw : Nat) (a : Subscribe3) (h : IdIn pw a.pid) : WfParsed pw (view (.subscribe3 a)) :=
  wf_id pw _ a.pid (by simp [view]) rfl h rfl rfl

theorem wfv_suback3 (pw : Nat) (a : Suback3) (h : IdIn pw a.pid) : WfParsed pw (view (.suback3 a)) :=
  wf_id pw _ a.pid (by simp [view]) rfl h rfl rfl

theorem wfv_unsubscribe3 (pw : Nat) (a : Unsubscribe3) (h : IdIn pw a.pid) : WfParsed pw (view (.unsubscribe3 a)) :=
  wf_id pw _ a.pid (by simp [view]) rfl h rfl rfl

theorem wfv_unsuback3 (pw : Nat) (a : Unsuback3) (h : IdIn pw a.pid) : WfParsed pw (view (.unsuback3 a)) :=
  wf_id pw _ a.pid (by simp [view]) rfl h rfl rfl

theorem wfv_subscribe5 (pw : Nat) (a : Subscribe5) (h : IdIn pw a.pid) : WfParsed pw (view (.subscribe5 a)) :=
  wf_id pw _ a.pid (by simp [view]) rfl h rfl rfl

theorem wfv_suback5 (pw : Nat) (a : Codes5) (h : IdIn pw a.pid) : WfParsed pw (view (.suback5 a)) :=
  wf_id pw _ a.pid (by simp [view]) rfl h rfl rfl

theorem wfv_unsubscribe5 (pw : Nat) (a : Unsubscribe5) (h : IdIn pw a.pid) : WfParsed pw (view (.unsubscribe5 a)) :=
  wf_id pw _ a.pid (by simp [view]) rfl h rfl rfl

theorem wfv_unsuback5 (pw : Nat) (a : Codes5) (h : IdIn pw a.pid) : WfParsed pw (view (.unsuback5 a)) :=
  wf_id pw _ a.pid (by simp [view]) rfl h rfl rfl

theorem wfv_connect3 (pw : Nat) (a : Connect3) : WfParsed pw (view (.connect3 a)) :=
  wf_plain pw _ (by simp [view]) (by simp [view, idKinds]) rfl rfl

theorem wfv_connack3 (pw : Nat) (a : Connack3) : WfParsed pw (view (.connack3 a)) :=
  wf_plain pw _ (by simp [view]) (by simp [view, idKinds]) rfl rfl

theorem wfv_pingreq3 (pw : Nat) (a : Codec.Empty) : WfParsed pw (view (.pingreq3 a)) :=
  wf_plain pw _ (by simp [view]) (by simp [view, idKinds]) rfl rfl

theorem wfv_pingresp3 (pw : Nat) (a : Codec.Empty) : WfParsed pw (view (.pingresp3 a)) :=
  wf_plain pw _ (by simp [view]) (by simp [view, idKinds]) rfl rfl

theorem wfv_disconnect3 (pw : Nat) (a : Codec.Empty) : WfParsed pw (view (.disconnect3 a)) :=
  wf_plain pw _ (by simp [view]) (by simp [view, idKinds]) rfl rfl

theorem wfv_pingreq5 (pw : Nat) (a : Codec.Empty) : WfParsed pw (view (.pingreq5 a)) :=
  wf_plain pw _ (by simp [view]) (by simp [view, idKinds]) rfl rfl

theorem wfv_pingresp5 (pw : Nat) (a : Codec.Empty) : WfParsed pw (view (.pingresp5 a)) :=
  wf_plain pw _ (by simp [view]) (by simp [view, idKinds]) rfl rfl

theorem wfv_disconnect5 (pw : Nat) (a : RcProps5) : WfParsed pw (view (.disconnect5 a)) :=
  wf_plain pw _ (by simp [view]) (by simp [view, idKinds]) rfl rfl

theorem wfv_auth5 (pw : Nat) (a : RcProps5) : WfParsed pw (view (.auth5 a)) :=
  wf_plain pw _ (by simp [view]) (by simp [view, idKinds]) rfl rfl

theorem wfv_connect5 (pw : Nat) (a : Connect5) (h : propsValid a.props) : WfParsed pw (view (.connect5 a)) :=
  wf_props pw _ a.props (by simp [view]) (by simp [view, idKinds]) rfl h rfl
theorem wfv_connack5 (pw : Nat) (a : Connack5) (h : propsValid a.props) : WfParsed pw (view (.connack5 a)) :=
  wf_props pw _ a.props (by simp [view]) (by simp [view, idKinds]) rfl h rfl
theorem wfv_publish3 (pw : Nat) (a : Publish3) (h : PubOk pw (a.fh % 16) a.pid) : WfParsed pw (view (.publish3 a)) :=
  wf_publish pw 4 a.size a.fh a.topic a.pid [] a.payload h
theorem wfv_publish5 (pw : Nat) (a : Publish5) (h : PubOk pw (a.fh % 16) a.pid) : WfParsed pw (view (.publish5 a)) :=
  wf_publish pw 5 a.size a.fh a.topic a.pid a.props a.payload h

/-- **every accepted frame yields a view the connection model may rely on** -/
theorem Packet.parse_wfParsed (version pw fh : Nat) (body : List Nat) (p : Packet) (c : Nat) (hb : isBytes body)
    (h : Packet.parse version pw fh body = some (.ok p c)) : WfParsed pw (view p) := by
  unfold Packet.parse at h
  simp only at h
  split at h
  · split at h
    · injection h with h; exact (post_map (Q := fun q _ => WfParsed pw (view q)) (Connect5.parse_propsValid body) (fun a _ hh => wfv_connect5 pw a hh)) _ c h
    · injection h with h; exact (post_map (Q := fun q _ => WfParsed pw (view q)) (Connack5.parse_propsValid body) (fun a _ hh => wfv_connack5 pw a hh)) _ c h
    · injection h with h; exact (post_map (Q := fun q _ => WfParsed pw (view q)) (Publish5.parse_pubOk pw _ body hb) (fun a _ hh => wfv_publish5 pw a hh)) _ c h
    · injection h with h; exact (post_map (Q := fun q _ => WfParsed pw (view q)) (Ack5.parse_idIn _ pw body hb) (fun a _ hh => wfv_puback5 pw a hh)) _ c h
    · injection h with h; exact (post_map (Q := fun q _ => WfParsed pw (view q)) (Ack5.parse_idIn _ pw body hb) (fun a _ hh => wfv_pubrec5 pw a hh)) _ c h
    · injection h with h; exact (post_map (Q := fun q _ => WfParsed pw (view q)) (Ack5.parse_idIn _ pw body hb) (fun a _ hh => wfv_pubrel5 pw a hh)) _ c h
    · injection h with h; exact (post_map (Q := fun q _ => WfParsed pw (view q)) (Ack5.parse_idIn _ pw body hb) (fun a _ hh => wfv_pubcomp5 pw a hh)) _ c h
    · injection h with h; exact (post_map (Q := fun q _ => WfParsed pw (view q)) (Subscribe5.parse_idIn pw body hb) (fun a _ hh => wfv_subscribe5 pw a hh)) _ c h
    · injection h with h; exact (post_map (Q := fun q _ => WfParsed pw (view q)) (Codes5.parse_idIn _ pw body hb) (fun a _ hh => wfv_suback5 pw a hh)) _ c h
    · injection h with h; exact (post_map (Q := fun q _ => WfParsed pw (view q)) (Unsubscribe5.parse_idIn pw body hb) (fun a _ hh => wfv_unsubscribe5 pw a hh)) _ c h
    · injection h with h; exact (post_map (Q := fun q _ => WfParsed pw (view q)) (Codes5.parse_idIn _ pw body hb) (fun a _ hh => wfv_unsuback5 pw a hh)) _ c h
    · injection h with h; obtain ⟨a, rfl⟩ := map_ok_inv h; exact wfv_pingreq5 pw a
    · injection h with h; obtain ⟨a, rfl⟩ := map_ok_inv h; exact wfv_pingresp5 pw a
    · injection h with h; obtain ⟨a, rfl⟩ := map_ok_inv h; exact wfv_disconnect5 pw a
    · injection h with h; obtain ⟨a, rfl⟩ := map_ok_inv h; exact wfv_auth5 pw a
    · exact absurd h (by simp)
  · split at h
    · injection h with h; obtain ⟨a, rfl⟩ := map_ok_inv h; exact wfv_connect3 pw a
    · injection h with h; obtain ⟨a, rfl⟩ := map_ok_inv h; exact wfv_connack3 pw a
    · injection h with h; exact (post_map (Q := fun q _ => WfParsed pw (view q)) (Publish3.parse_pubOk pw _ body hb) (fun a _ hh => wfv_publish3 pw a hh)) _ c h
    · injection h with h; exact (post_map (Q := fun q _ => WfParsed pw (view q)) (Ack3.parse_idIn _ pw body hb) (fun a _ hh => wfv_puback3 pw a hh)) _ c h
    · injection h with h; exact (post_map (Q := fun q _ => WfParsed pw (view q)) (Ack3.parse_idIn _ pw body hb) (fun a _ hh => wfv_pubrec3 pw a hh)) _ c h
    · injection h with h; exact (post_map (Q := fun q _ => WfParsed pw (view q)) (Ack3.parse_idIn _ pw body hb) (fun a _ hh => wfv_pubrel3 pw a hh)) _ c h
    · injection h with h; exact (post_map (Q := fun q _ => WfParsed pw (view q)) (Ack3.parse_idIn _ pw body hb) (fun a _ hh => wfv_pubcomp3 pw a hh)) _ c h
    · injection h with h; exact (post_map (Q := fun q _ => WfParsed pw (view q)) (Subscribe3.parse_idIn pw body hb) (fun a _ hh => wfv_subscribe3 pw a hh)) _ c h
    · injection h with h; exact (post_map (Q := fun q _ => WfParsed pw (view q)) (Suback3.parse_idIn pw body hb) (fun a _ hh => wfv_suback3 pw a hh)) _ c h
    · injection h with h; exact (post_map (Q := fun q _ => WfParsed pw (view q)) (Unsubscribe3.parse_idIn pw body hb) (fun a _ hh => wfv_unsubscribe3 pw a hh)) _ c h
    · injection h with h; exact (post_map (Q := fun q _ => WfParsed pw (view q)) (Unsuback3.parse_idIn pw body hb) (fun a _ hh => wfv_unsuback3 pw a hh)) _ c h
    · injection h with h; obtain ⟨a, rfl⟩ := map_ok_inv h; exact wfv_pingreq3 pw a
    · injection h with h; obtain ⟨a, rfl⟩ := map_ok_inv h; exact wfv_pingresp3 pw a
    · injection h with h; obtain ⟨a, rfl⟩ := map_ok_inv h; exact wfv_disconnect3 pw a
    · exact absurd h (by simp)

/-- in terms of the oracle the connection driver checks -/
theorem parseView_wfParsed (version pw fh : Nat) (body : List Nat) (v : Pkt) (hb : isBytes body)
    (h : parseView version pw fh body = .ok v) : WfParsed pw v := by
  unfold parseView at h
  split at h
  · rename_i p c hp
    injection h with h
    subst h
    exact Packet.parse_wfParsed version pw fh body p c hb hp
  · cases h
  · cases h
  · cases h

/-! ### the builder rules that the parsers now enforce themselves -/

theorem Connack5.parse_flags (data : List Nat) : Post (Connack5.parse data) (fun q _ => q.flags ≤ 1) := by
  unfold Connack5.parse
  split
  · exact post_err
  · refine post_idx fun flags => ?_
    split
    · exact post_err
    · rename_i hf
      refine post_idx fun code => ?_
      split
      · exact post_err
      · refine post_bind (P := fun _ _ => True) (fun _ _ _ => trivial) fun pp pc _ => ?_
        exact post_vbiOf fun _ => post_ok (by dsimp only; omega)

/-- reserved bit clear, Will QoS ≤ 2, no Will QoS / Will Retain without the Will Flag -/
def ConnFlagsOk (flags : Nat) : Prop :=
  flags % 2 = 0 ∧ flags / 8 % 4 ≤ 2 ∧ (flags / 4 % 2 = 0 → flags / 8 % 4 = 0 ∧ flags / 32 % 2 = 0)

theorem parseConnectHead_flags (level : Nat) (data : List Nat) :
    Post (parseConnectHead level data) (fun fk _ => ConnFlagsOk fk.1) := by
  unfold parseConnectHead
  split
  · exact post_err
  · refine post_idx fun n0 => post_idx fun n1 => post_idx fun n2 => post_idx fun n3 => post_idx fun n4 =>
      post_idx fun n5 => ?_
    split
    · exact post_err
    · split
      · exact post_err
      · refine post_idx fun ver => ?_
        split
        · exact post_err
        · split
          · exact post_err
          · refine post_idx fun flags => ?_
            split
            · exact post_err
            · rename_i hf
              split
              · exact post_err
              · refine post_idx fun k0 => post_idx fun k1 => post_ok ?_
                unfold ConnFlagsOk
                dsimp only
                omega

theorem Connect3.parse_flags (data : List Nat) : Post (Connect3.parse data) (fun q _ => ConnFlagsOk q.flags) := by
  unfold Connect3.parse
  refine post_bind (parseConnectHead_flags 4 data) fun fk c h => ?_
  refine post_bind (P := fun _ _ => True) (fun _ _ _ => trivial) fun t c2 _ => ?_
  exact post_vbiOf fun _ => post_ok h

theorem Connect5.parse_flags (data : List Nat) : Post (Connect5.parse data) (fun q _ => ConnFlagsOk q.flags) := by
  unfold Connect5.parse
  refine post_bind (parseConnectHead_flags 5 data) fun fk c h => ?_
  refine post_bind (P := fun _ _ => True) (fun _ _ _ => trivial) fun pp pc _ => ?_
  dsimp only
  refine post_bind (P := fun _ _ => True) (fun _ _ _ => trivial) fun t c2 _ => ?_
  exact post_vbiOf fun _ => post_ok h

theorem parsePublishHead_topic (v5 : Bool) (pw flags : Nat) (data : List Nat) :
    Post (parsePublishHead v5 pw flags data)
      (fun tp _ => noWildcard tp.1 = true ∧ (v5 = false → tp.1 ≠ []) ∧ utf8Ok tp.1 = true) := by
  unfold parsePublishHead
  dsimp only
  split
  · exact post_err
  · refine post_sliceFrom fun d _ => ?_
    refine post_bind (decStr_sat d).toPost fun topic c ⟨_, _, hu⟩ => ?_
    split
    · exact post_err
    · rename_i hc
      have hw : noWildcard topic = true ∧ (v5 = false → topic ≠ []) := by
        simp only [Bool.or_eq_true, Bool.and_eq_true, Bool.not_eq_true', not_or, not_and, Bool.not_eq_true] at hc
        obtain ⟨⟨h1, h2⟩, h3⟩ := hc
        refine ⟨by unfold noWildcard; rw [h2, h3]; rfl, fun hv htn => ?_⟩
        have := h1 hv
        rw [htn] at this
        simp at this
      split
      · split
        · exact post_err
        · refine post_slice fun idb _ => ?_
          split
          · exact post_err
          · exact post_ok ⟨hw.1, hw.2, hu⟩
      · exact post_ok ⟨hw.1, hw.2, hu⟩

theorem Publish3.parse_topic (pw flags : Nat) (data : List Nat) :
    Post (Publish3.parse pw flags data) (fun q _ => noWildcard q.topic = true ∧ q.topic ≠ [] ∧ utf8Ok q.topic = true) := by
  unfold Publish3.parse
  refine post_bind (parsePublishHead_topic false pw flags data) fun tp c ⟨h1, h2, h3⟩ => ?_
  refine post_usub fun _ => post_sliceFrom fun payload _ => ?_
  dsimp only
  exact post_vbiOf fun _ => post_ok ⟨h1, h2 rfl, h3⟩

theorem Publish5.parse_topic (pw flags : Nat) (data : List Nat) :
    Post (Publish5.parse pw flags data) (fun q _ => noWildcard q.topic = true ∧ utf8Ok q.topic = true) := by
  unfold Publish5.parse
  refine post_bind (parsePublishHead_topic true pw flags data) fun tp c ⟨h1, _, h3⟩ => ?_
  refine post_bind (P := fun _ _ => True) (fun _ _ _ => trivial) fun pp c2 _ => ?_
  refine post_usub fun _ => post_sliceFrom fun payload _ => ?_
  dsimp only
  exact post_vbiOf fun _ => post_ok ⟨h1, h3⟩

end MqttVerif.Codec
