import MqttVerif.Codec.LemmasRTConnect
/-!
# L1 Codec — round trip over the sum type `Packet` (C02_all)
-/
namespace MqttVerif.Codec

theorem allOk_mem {cs : List (String × Bool)} (h : allOk cs = true) {n : String} {b : Bool} (hm : (n, b) ∈ cs) :
    b = true := by
  simp only [allOk, List.all_eq_true] at h
  exact h (n, b) hm

/-- the statement of C02 for one packet: its serialisation is `fh :: vbi(remLen) ++ body`, the frame
    splits accordingly, the parser selected by `fh` returns the packet and consumes the body,
    `size` = serialised length, Remaining Length = body length -/
def RoundTrips (pw : Nat) (p : Packet) : Prop :=
  ∃ fh body, p.encode pw = fh :: vbiEnc p.remLen ++ body ∧
    frameBody (p.encode pw) = some (fh, p.remLen, body) ∧
    Packet.parse p.version pw fh body = some (.ok p body.length) ∧
    p.size = (p.encode pw).length ∧ p.remLen = body.length

theorem roundTrips_of {pw : Nat} {p : Packet} {fh : Nat} {body : List Nat} (hmax : p.remLen ≤ vbiMax)
    (henc : p.encode pw = fh :: vbiEnc p.remLen ++ body)
    (hparse : Packet.parse p.version pw fh body = some (.ok p body.length))
    (hsize : p.size = (p.encode pw).length) (hrl : p.remLen = body.length) : RoundTrips pw p :=
  ⟨fh, body, henc, by rw [henc]; exact frameBody_enc fh p.remLen body hmax, hparse, hsize, hrl⟩

theorem map_ok {α β : Type} (a : α) (c : Nat) (f : α → β) : (PRes.ok a c).map f = .ok (f a) c := rfl

theorem AckKind.fh_div (k : AckKind) : k.fh / 16 = match k with | .puback => 4 | .pubrec => 5 | .pubrel => 6 | .pubcomp => 7 := by
  cases k <;> rfl

theorem Packet.roundTrips (pw : Nat) (p : Packet) (hpw : pw = 2 ∨ pw = 4) (h : p.wf pw = true) : RoundTrips pw p := by
  have hpwm : pw + 1 ≤ vbiMax := by unfold vbiMax; omega
  unfold Packet.wf at h
  cases p with
  | connect3 q =>
    obtain ⟨a, b, c, d⟩ := Connect3.roundtrip q h
    have hm : q.remLen ≤ vbiMax := by
      have := allOk_mem h (n := "remlen") (b := q.remLen == q.remaining && decide (q.remLen ≤ vbiMax))
        (by simp [Packet.checks, Connect3.checks])
      simp at this; exact this.2
    exact roundTrips_of hm b (by simp [Packet.parse, Packet.version, a, map_ok]) c d
  | connack3 q =>
    obtain ⟨a, b, c, d⟩ := Connack3.roundtrip q h
    have hm : q.remLen ≤ vbiMax := by
      have := allOk_mem h (n := "remlen") (b := q.remLen == 2) (by simp [Packet.checks, Connack3.checks])
      simp at this; rw [this]; unfold vbiMax; omega
    exact roundTrips_of hm b (by simp [Packet.parse, Packet.version, a, map_ok]) c d
  | publish3 q =>
    obtain ⟨a, b, c, d⟩ := Publish3.roundtrip pw q hpw h
    have hm : q.remLen ≤ vbiMax := by
      have := allOk_mem h (n := "remlen") (b := q.remLen == q.remaining pw && decide (q.remLen ≤ vbiMax))
        (by simp [Packet.checks, Publish3.checks])
      simp at this; exact this.2
    have hf := allOk_mem h (n := "fixed_header") (b := q.fh / 16 == 3 && decide (q.fh < 64))
      (by simp [Packet.checks, Publish3.checks, publishHeadChecks])
    simp at hf
    exact roundTrips_of hm b (by simp [Packet.parse, Packet.version, hf.1, a, map_ok]) c d
  | puback3 q =>
    obtain ⟨a, b, c, d⟩ := Ack3.roundtrip .puback pw q hpw h
    have hm : q.remLen ≤ vbiMax := by
      have := allOk_mem h (n := "remlen") (b := q.remLen == pw + (if q.rc.isSome then 1 else 0))
        (by simp [Packet.checks, Ack3.checks])
      simp at this; rw [this]; split <;> omega
    exact roundTrips_of hm b (by simp [Packet.parse, Packet.version, AckKind.fh, a, map_ok]) c d
  | pubrec3 q =>
    obtain ⟨a, b, c, d⟩ := Ack3.roundtrip .pubrec pw q hpw h
    have hm : q.remLen ≤ vbiMax := by
      have := allOk_mem h (n := "remlen") (b := q.remLen == pw + (if q.rc.isSome then 1 else 0))
        (by simp [Packet.checks, Ack3.checks])
      simp at this; rw [this]; split <;> omega
    exact roundTrips_of hm b (by simp [Packet.parse, Packet.version, AckKind.fh, a, map_ok]) c d
  | pubrel3 q =>
    obtain ⟨a, b, c, d⟩ := Ack3.roundtrip .pubrel pw q hpw h
    have hm : q.remLen ≤ vbiMax := by
      have := allOk_mem h (n := "remlen") (b := q.remLen == pw + (if q.rc.isSome then 1 else 0))
        (by simp [Packet.checks, Ack3.checks])
      simp at this; rw [this]; split <;> omega
    exact roundTrips_of hm b (by simp [Packet.parse, Packet.version, AckKind.fh, a, map_ok]) c d
  | pubcomp3 q =>
    obtain ⟨a, b, c, d⟩ := Ack3.roundtrip .pubcomp pw q hpw h
    have hm : q.remLen ≤ vbiMax := by
      have := allOk_mem h (n := "remlen") (b := q.remLen == pw + (if q.rc.isSome then 1 else 0))
        (by simp [Packet.checks, Ack3.checks])
      simp at this; rw [this]; split <;> omega
    exact roundTrips_of hm b (by simp [Packet.parse, Packet.version, AckKind.fh, a, map_ok]) c d
  | subscribe3 q =>
    obtain ⟨a, b, c, d⟩ := Subscribe3.roundtrip pw q hpw h
    have hm : q.remLen ≤ vbiMax := by
      have := allOk_mem h (n := "remlen") (b := q.remLen == pw + entriesSize q.entries && decide (q.remLen ≤ vbiMax))
        (by simp [Packet.checks, Subscribe3.checks])
      simp at this; exact this.2
    exact roundTrips_of hm b (by simp [Packet.parse, Packet.version, a, map_ok]) c d
  | suback3 q =>
    obtain ⟨a, b, c, d⟩ := Suback3.roundtrip pw q hpw h
    have hm : q.remLen ≤ vbiMax := by
      have := allOk_mem h (n := "remlen") (b := q.remLen == pw + q.codes.length && decide (q.remLen ≤ vbiMax))
        (by simp [Packet.checks, Suback3.checks])
      simp at this; exact this.2
    exact roundTrips_of hm b (by simp [Packet.parse, Packet.version, a, map_ok]) c d
  | unsubscribe3 q =>
    obtain ⟨a, b, c, d⟩ := Unsubscribe3.roundtrip pw q hpw h
    have hm : q.remLen ≤ vbiMax := by
      have := allOk_mem h (n := "remlen") (b := q.remLen == pw + topicsSize q.topics && decide (q.remLen ≤ vbiMax))
        (by simp [Packet.checks, Unsubscribe3.checks])
      simp at this; exact this.2
    exact roundTrips_of hm b (by simp [Packet.parse, Packet.version, a, map_ok]) c d
  | unsuback3 q =>
    obtain ⟨a, b, c, d⟩ := Unsuback3.roundtrip pw q hpw h
    have hm : q.remLen ≤ vbiMax := by
      have := allOk_mem h (n := "remlen") (b := q.remLen == pw) (by simp [Packet.checks, Unsuback3.checks])
      simp at this; rw [this]; omega
    exact roundTrips_of hm b (by simp [Packet.parse, Packet.version, a, map_ok]) c d
  | pingreq3 q =>
    obtain ⟨a, b, c, d⟩ := Empty.roundtrip 0xc0 q h
    have hm : q.remLen ≤ vbiMax := by simp at d; rw [d]; unfold vbiMax; omega
    exact roundTrips_of hm b (by simp [Packet.parse, Packet.version, a, map_ok]) c d
  | pingresp3 q =>
    obtain ⟨a, b, c, d⟩ := Empty.roundtrip 0xd0 q h
    have hm : q.remLen ≤ vbiMax := by simp at d; rw [d]; unfold vbiMax; omega
    exact roundTrips_of hm b (by simp [Packet.parse, Packet.version, a, map_ok]) c d
  | disconnect3 q =>
    obtain ⟨a, b, c, d⟩ := Empty.roundtrip 0xe0 q h
    have hm : q.remLen ≤ vbiMax := by simp at d; rw [d]; unfold vbiMax; omega
    exact roundTrips_of hm b (by simp [Packet.parse, Packet.version, a, map_ok]) c d
  | connect5 q =>
    obtain ⟨a, b, c, d⟩ := Connect5.roundtrip q h
    have hm : q.remLen ≤ vbiMax := by
      have := allOk_mem h (n := "remlen") (b := q.remLen == q.remaining && decide (q.remLen ≤ vbiMax))
        (by simp [Packet.checks, Connect5.checks])
      simp at this; exact this.2
    exact roundTrips_of hm b (by simp [Packet.parse, Packet.version, a, map_ok]) c d
  | connack5 q =>
    obtain ⟨a, b, c, d⟩ := Connack5.roundtrip q h
    have hm : q.remLen ≤ vbiMax := by
      have := allOk_mem h (n := "remlen")
        (b := q.remLen == 2 + vbiSize q.propLen + q.props.size && decide (q.remLen ≤ vbiMax))
        (by simp [Packet.checks, Connack5.checks])
      simp at this; exact this.2
    exact roundTrips_of hm b (by simp [Packet.parse, Packet.version, a, map_ok]) c d
  | publish5 q =>
    obtain ⟨a, b, c, d⟩ := Publish5.roundtrip pw q hpw h
    have hm : q.remLen ≤ vbiMax := by
      have := allOk_mem h (n := "remlen") (b := q.remLen == q.remaining pw && decide (q.remLen ≤ vbiMax))
        (by simp [Packet.checks, Publish5.checks])
      simp at this; exact this.2
    have hf := allOk_mem h (n := "fixed_header") (b := q.fh / 16 == 3 && decide (q.fh < 64))
      (by simp [Packet.checks, Publish5.checks, publishHeadChecks])
    simp at hf
    exact roundTrips_of hm b (by simp [Packet.parse, Packet.version, hf.1, a, map_ok]) c d
  | puback5 q =>
    obtain ⟨a, b, c, d⟩ := Ack5.roundtrip .puback pw q hpw h
    have hm : q.remLen ≤ vbiMax := by
      have := allOk_mem h (n := "remlen")
        (b := q.remLen == pw + rcPropsRemaining q.rc q.props q.propLen && decide (q.remLen ≤ vbiMax))
        (by simp [Packet.checks, Ack5.checks])
      simp at this; exact this.2
    exact roundTrips_of hm b (by simp [Packet.parse, Packet.version, AckKind.fh, a, map_ok]) c d
  | pubrec5 q =>
    obtain ⟨a, b, c, d⟩ := Ack5.roundtrip .pubrec pw q hpw h
    have hm : q.remLen ≤ vbiMax := by
      have := allOk_mem h (n := "remlen")
        (b := q.remLen == pw + rcPropsRemaining q.rc q.props q.propLen && decide (q.remLen ≤ vbiMax))
        (by simp [Packet.checks, Ack5.checks])
      simp at this; exact this.2
    exact roundTrips_of hm b (by simp [Packet.parse, Packet.version, AckKind.fh, a, map_ok]) c d
  | pubrel5 q =>
    obtain ⟨a, b, c, d⟩ := Ack5.roundtrip .pubrel pw q hpw h
    have hm : q.remLen ≤ vbiMax := by
      have := allOk_mem h (n := "remlen")
        (b := q.remLen == pw + rcPropsRemaining q.rc q.props q.propLen && decide (q.remLen ≤ vbiMax))
        (by simp [Packet.checks, Ack5.checks])
      simp at this; exact this.2
    exact roundTrips_of hm b (by simp [Packet.parse, Packet.version, AckKind.fh, a, map_ok]) c d
  | pubcomp5 q =>
    obtain ⟨a, b, c, d⟩ := Ack5.roundtrip .pubcomp pw q hpw h
    have hm : q.remLen ≤ vbiMax := by
      have := allOk_mem h (n := "remlen")
        (b := q.remLen == pw + rcPropsRemaining q.rc q.props q.propLen && decide (q.remLen ≤ vbiMax))
        (by simp [Packet.checks, Ack5.checks])
      simp at this; exact this.2
    exact roundTrips_of hm b (by simp [Packet.parse, Packet.version, AckKind.fh, a, map_ok]) c d
  | subscribe5 q =>
    obtain ⟨a, b, c, d⟩ := Subscribe5.roundtrip pw q hpw h
    have hm : q.remLen ≤ vbiMax := by
      have := allOk_mem h (n := "remlen")
        (b := q.remLen == pw + vbiSize q.propLen + q.props.size + entriesSize q.entries && decide (q.remLen ≤ vbiMax))
        (by simp [Packet.checks, Subscribe5.checks])
      simp at this; exact this.2
    exact roundTrips_of hm b (by simp [Packet.parse, Packet.version, a, map_ok]) c d
  | suback5 q =>
    obtain ⟨a, b, c, d⟩ := Codes5.roundtrip subackRc5Ok 0x90 pw q hpw h
    have hm : q.remLen ≤ vbiMax := by
      have := allOk_mem h (n := "remlen")
        (b := q.remLen == pw + vbiSize q.propLen + q.props.size + q.codes.length && decide (q.remLen ≤ vbiMax))
        (by simp [Packet.checks, Codes5.checks])
      simp at this; exact this.2
    exact roundTrips_of hm b (by simp [Packet.parse, Packet.version, a, map_ok]) c d
  | unsubscribe5 q =>
    obtain ⟨a, b, c, d⟩ := Unsubscribe5.roundtrip pw q hpw h
    have hm : q.remLen ≤ vbiMax := by
      have := allOk_mem h (n := "remlen")
        (b := q.remLen == pw + vbiSize q.propLen + q.props.size + topicsSize q.topics && decide (q.remLen ≤ vbiMax))
        (by simp [Packet.checks, Unsubscribe5.checks])
      simp at this; exact this.2
    exact roundTrips_of hm b (by simp [Packet.parse, Packet.version, a, map_ok]) c d
  | unsuback5 q =>
    obtain ⟨a, b, c, d⟩ := Codes5.roundtrip unsubackRc5Ok 0xb0 pw q hpw h
    have hm : q.remLen ≤ vbiMax := by
      have := allOk_mem h (n := "remlen")
        (b := q.remLen == pw + vbiSize q.propLen + q.props.size + q.codes.length && decide (q.remLen ≤ vbiMax))
        (by simp [Packet.checks, Codes5.checks])
      simp at this; exact this.2
    exact roundTrips_of hm b (by simp [Packet.parse, Packet.version, a, map_ok]) c d
  | pingreq5 q =>
    obtain ⟨a, b, c, d⟩ := Empty.roundtrip 0xc0 q h
    have hm : q.remLen ≤ vbiMax := by simp at d; rw [d]; unfold vbiMax; omega
    exact roundTrips_of hm b (by simp [Packet.parse, Packet.version, a, map_ok]) c d
  | pingresp5 q =>
    obtain ⟨a, b, c, d⟩ := Empty.roundtrip 0xd0 q h
    have hm : q.remLen ≤ vbiMax := by simp at d; rw [d]; unfold vbiMax; omega
    exact roundTrips_of hm b (by simp [Packet.parse, Packet.version, a, map_ok]) c d
  | disconnect5 q =>
    obtain ⟨a, b, c, d⟩ := Disconnect5.roundtrip q h
    have hm : q.remLen ≤ vbiMax := by
      have := allOk_mem h (n := "remlen")
        (b := q.remLen == rcPropsRemaining q.rc q.props (q.propLen.getD 0) && decide (q.remLen ≤ vbiMax))
        (by simp [Packet.checks, Disconnect5.checks, RcProps5.baseChecks])
      simp at this; exact this.2
    exact roundTrips_of hm b (by simp [Packet.parse, Packet.version, a, map_ok]) c d
  | auth5 q =>
    obtain ⟨a, b, c, d⟩ := Auth5.roundtrip q h
    have hm : q.remLen ≤ vbiMax := by
      have := allOk_mem h (n := "remlen")
        (b := q.remLen == rcPropsRemaining q.rc q.props (q.propLen.getD 0) && decide (q.remLen ≤ vbiMax))
        (by simp [Packet.checks, Auth5.checks, RcProps5.baseChecks])
      simp at this; exact this.2
    exact roundTrips_of hm b (by simp [Packet.parse, Packet.version, a, map_ok]) c d

end MqttVerif.Codec
