import MqttVerif.Codec.LemmasRT
/-!
# L1 Codec — per-kind round trip (C02): `parse (body (encode p)) = ok p |body|`, `size p = |encode p|`

for every packet satisfying the well-formedness checks of `Wf.lean` (what `build()` establishes).
-/
namespace MqttVerif.Codec

/-- skipping the fixed header byte and a canonical Remaining Length -/
theorem frameBody_enc (fh rl : Nat) (body : List Nat) (h : rl ≤ vbiMax) :
    frameBody (fh :: vbiEnc rl ++ body) = some (fh, rl, body) := by
  unfold frameBody
  simp only [List.cons_append]
  rw [vbiDec_enc rl body h]
  simp only
  rw [← vbiEnc_length rl h]
  simp

theorem idOk_iff (pw id : Nat) : idOk pw id = true ↔ id ≠ 0 ∧ (if pw = 2 then id < 65536 else id < 4294967296) := by
  unfold idOk
  by_cases h : pw = 2 <;> simp [h]

/-- id at the front of a body -/
theorem parseIdFront_enc (site : String) (pw id : Nat) (rest : List Nat) (hpw : pw = 2 ∨ pw = 4)
    (hr : if pw = 2 then id < 65536 else id < 4294967296) (hnz : id ≠ 0) :
    parseIdFront site pw (encId pw id ++ rest) = .ok id pw := by
  unfold parseIdFront
  have hl := encId_length pw id hpw
  rw [if_neg (by simp [hl])]
  rw [slice_zero_append _ _ _ _ _ hl.symm, allZero_encId pw id hpw hnz hr]
  simp only [Bool.false_eq_true, if_false, beNat_encId pw id hpw hr]

/-! ### PINGREQ / PINGRESP / DISCONNECT v3.1.1 -/

theorem Empty.roundtrip (fh : Nat) (p : Empty) (h : allOk p.checks = true) :
    Empty.parse [] = .ok p 0 ∧ p.encode fh = fh :: vbiEnc p.remLen ++ [] ∧ p.size = (p.encode fh).length
      ∧ p.remLen = ([] : List Nat).length := by
  simp only [allOk, Empty.checks, List.all_cons, List.all_nil, Bool.and_true, beq_iff_eq] at h
  cases p with
  | mk rl =>
    simp only at h
    subst h
    exact ⟨rfl, rfl, rfl, rfl⟩

/-! ### CONNACK v3.1.1 -/

def Connack3.body (p : Connack3) : List Nat := [p.flags, p.rc]

theorem Connack3.roundtrip (p : Connack3) (h : allOk p.checks = true) :
    Connack3.parse p.body = .ok p p.body.length ∧ p.encode = 0x20 :: vbiEnc p.remLen ++ p.body
      ∧ p.size = p.encode.length ∧ p.remLen = p.body.length := by
  simp only [allOk, Connack3.checks, List.all_cons, List.all_nil, Bool.and_true, Bool.and_eq_true, beq_iff_eq,
    decide_eq_true_eq] at h
  obtain ⟨hf, hrc, hrl⟩ := h
  cases p with
  | mk rl flags rc =>
    simp only at hf hrc hrl
    subst hrl
    refine ⟨?_, rfl, by simp [Connack3.size, Connack3.encode, sizeOfRem, vbiSize, vbiEnc, vbiEncAux], rfl⟩
    unfold Connack3.parse Connack3.body
    simp only [List.length_cons, List.length_nil]
    rw [if_neg (by omega), idx_cons_zero, idx_cons_succ, idx_cons_zero, if_neg (by omega)]
    have : flags % 2 = flags := by omega
    rw [this]

/-! ### PUBACK / PUBREC / PUBREL / PUBCOMP v3.1.1 -/

def Ack3.body (pw : Nat) (p : Ack3) : List Nat := encId pw p.pid ++ encOptByte p.rc

theorem Ack3.roundtrip (k : AckKind) (pw : Nat) (p : Ack3) (hpw : pw = 2 ∨ pw = 4)
    (h : allOk (p.checks k pw) = true) :
    Ack3.parse k pw (p.body pw) = .ok p (p.body pw).length ∧ p.encode k pw = k.fh :: vbiEnc p.remLen ++ p.body pw
      ∧ p.size = (p.encode k pw).length ∧ p.remLen = (p.body pw).length := by
  simp only [allOk, Ack3.checks, List.all_cons, List.all_nil, Bool.and_true, Bool.and_eq_true, beq_iff_eq,
    idOk_iff] at h
  obtain ⟨⟨hnz, hr⟩, hrc, hrl⟩ := h
  have hil := encId_length pw p.pid hpw
  have hmax : p.remLen ≤ vbiMax := by
    unfold vbiMax; rcases hpw with h | h <;> subst h <;> split at hrl <;> omega
  have hbl : (p.body pw).length = p.remLen := by
    unfold Ack3.body; rw [List.length_append, hil, hrl]; cases p.rc <;> simp [encOptByte]
  have henc : p.encode k pw = k.fh :: vbiEnc p.remLen ++ p.body pw := by
    simp [Ack3.encode, Ack3.body]
  refine ⟨?_, henc, ?_, hbl.symm⟩
  · cases p with
    | mk rl pid rc =>
      simp only at hnz hr hrc hrl hil hbl
      unfold Ack3.parse Ack3.body
      simp only
      rw [if_neg (by simp [hil])]
      rw [slice_zero_append _ _ _ _ _ hil.symm, allZero_encId pw pid hpw hnz hr]
      simp only [Bool.false_eq_true, if_false, beNat_encId pw pid hpw hr]
      cases rc with
      | none =>
        simp only [encOptByte, List.append_nil, hil, Nat.lt_irrefl, if_false]
        simp only [Option.isSome_none, Bool.false_eq_true, if_false, Nat.add_zero] at hrl
        subst hrl
        unfold vbiOf
        rw [if_pos (by unfold vbiMax; omega)]
      | some c =>
        simp only [encOptByte, List.length_append, hil, List.length_cons, List.length_nil]
        rw [if_pos (by omega)]
        have hi : ∀ (α : Type) (kk : Nat → PRes α), idx "v3_1_1::ack::parse:data[cursor]" (encId pw pid ++ [c]) pw kk = kk c := by
          intro α kk
          unfold idx
          rw [List.getElem?_append_right (by omega)]
          simp [hil]
        rw [hi]
        simp only at hrc
        rw [if_neg (by simp [hrc])]
        simp only [Option.isSome_some, if_true] at hrl
        subst hrl
        unfold vbiOf
        rw [if_pos (by unfold vbiMax; omega)]
  · rw [henc]
    simp only [Ack3.size, sizeOfRem, List.length_cons, List.length_append, vbiEnc_length _ hmax, hbl]
    omega

theorem size_of_frame (fh rl : Nat) (body : List Nat) (h : rl ≤ vbiMax) (hb : body.length = rl) :
    sizeOfRem rl = (fh :: vbiEnc rl ++ body).length := by
  simp only [sizeOfRem, List.length_cons, List.length_append, vbiEnc_length _ h, hb]
  omega

theorem vbiOf_le {α : Type} (site : String) (n : Nat) (k : Nat → PRes α) (h : n ≤ vbiMax) : vbiOf site n k = k n := by
  unfold vbiOf; rw [if_pos h]

/-! ### UNSUBACK v3.1.1 -/

def Unsuback3.body (pw : Nat) (p : Unsuback3) : List Nat := encId pw p.pid

theorem Unsuback3.roundtrip (pw : Nat) (p : Unsuback3) (hpw : pw = 2 ∨ pw = 4) (h : allOk (p.checks pw) = true) :
    Unsuback3.parse pw (p.body pw) = .ok p (p.body pw).length ∧ p.encode pw = 0xb0 :: vbiEnc p.remLen ++ p.body pw
      ∧ p.size = (p.encode pw).length ∧ p.remLen = (p.body pw).length := by
  simp only [allOk, Unsuback3.checks, List.all_cons, List.all_nil, Bool.and_true, Bool.and_eq_true, beq_iff_eq,
    idOk_iff] at h
  obtain ⟨⟨hnz, hr⟩, hrl⟩ := h
  have hil := encId_length pw p.pid hpw
  have hmax : p.remLen ≤ vbiMax := by unfold vbiMax; omega
  have hbl : (p.body pw).length = p.remLen := by unfold Unsuback3.body; omega
  have henc : p.encode pw = 0xb0 :: vbiEnc p.remLen ++ p.body pw := rfl
  refine ⟨?_, henc, by rw [henc]; exact size_of_frame _ _ _ hmax hbl, hbl.symm⟩
  cases p with
  | mk rl pid =>
    simp only at hr hrl hil hmax
    subst rl
    unfold Unsuback3.parse Unsuback3.body
    have := parseIdFront_enc "v3_1_1::unsuback::parse:data[0..buffer_size]" pw pid [] hpw hr hnz
    rw [List.append_nil] at this
    rw [this, bind_ok, vbiOf_le _ _ _ hmax, hil]

/-! ### SUBACK v3.1.1 -/

def Suback3.body (pw : Nat) (p : Suback3) : List Nat := encId pw p.pid ++ p.codes

theorem Suback3.roundtrip (pw : Nat) (p : Suback3) (hpw : pw = 2 ∨ pw = 4) (h : allOk (p.checks pw) = true) :
    Suback3.parse pw (p.body pw) = .ok p (p.body pw).length ∧ p.encode pw = 0x90 :: vbiEnc p.remLen ++ p.body pw
      ∧ p.size = (p.encode pw).length ∧ p.remLen = (p.body pw).length := by
  simp only [allOk, Suback3.checks, List.all_cons, List.all_nil, Bool.and_true, Bool.and_eq_true, beq_iff_eq,
    idOk_iff, decide_eq_true_eq] at h
  obtain ⟨⟨hnz, hr⟩, hne, hco, hrl, hmax⟩ := h
  have hil := encId_length pw p.pid hpw
  have hbl : (p.body pw).length = p.remLen := by unfold Suback3.body; rw [List.length_append, hil, hrl]
  have henc : p.encode pw = 0x90 :: vbiEnc p.remLen ++ p.body pw := by simp [Suback3.encode, Suback3.body]
  refine ⟨?_, henc, by rw [henc]; exact size_of_frame _ _ _ hmax hbl, hbl.symm⟩
  cases p with
  | mk rl pid codes =>
    simp only at hr hrl hil hmax hne hco hbl
    subst hrl
    unfold Suback3.parse Suback3.body
    rw [parseIdFront_enc _ pw pid codes hpw hr hnz, bind_ok, sliceFrom_append _ _ _ _ _ hil.symm]
    rw [if_neg (by simp [hco]), if_neg (by simpa using hne), vbiOf_le _ _ _ hmax]
    simp only [List.length_append, hil]

/-! ### UNSUBSCRIBE v3.1.1 -/

def Unsubscribe3.body (pw : Nat) (p : Unsubscribe3) : List Nat := encId pw p.pid ++ topicsEncode p.topics

theorem Unsubscribe3.roundtrip (pw : Nat) (p : Unsubscribe3) (hpw : pw = 2 ∨ pw = 4)
    (h : allOk (p.checks pw) = true) :
    Unsubscribe3.parse pw (p.body pw) = .ok p (p.body pw).length
      ∧ p.encode pw = 0xa2 :: vbiEnc p.remLen ++ p.body pw
      ∧ p.size = (p.encode pw).length ∧ p.remLen = (p.body pw).length := by
  simp only [allOk, Unsubscribe3.checks, List.all_cons, List.all_nil, Bool.and_true, Bool.and_eq_true, beq_iff_eq,
    idOk_iff, decide_eq_true_eq] at h
  obtain ⟨⟨hnz, hr⟩, hne, hts, hrl, hmax⟩ := h
  have hil := encId_length pw p.pid hpw
  have htl := topicsEncode_length p.topics
  have hbl : (p.body pw).length = p.remLen := by
    unfold Unsubscribe3.body; rw [List.length_append, hil, hrl, htl]
  have henc : p.encode pw = 0xa2 :: vbiEnc p.remLen ++ p.body pw := by simp [Unsubscribe3.encode, Unsubscribe3.body]
  refine ⟨?_, henc, by rw [henc]; exact size_of_frame _ _ _ hmax hbl, hbl.symm⟩
  cases p with
  | mk rl pid topics =>
    simp only at hr hrl hil hmax hne hts hbl htl
    subst hrl
    unfold Unsubscribe3.parse Unsubscribe3.body
    rw [parseIdFront_enc _ pw pid _ hpw hr hnz, bind_ok, sliceFrom_append _ _ _ _ _ hil.symm]
    rw [htl, topicsLoop_enc topics _ hts (Nat.le_refl _), bind_ok]
    rw [if_neg (by simpa using hne), vbiOf_le _ _ _ hmax]
    simp only [List.length_append, hil, htl]

/-! ### SUBSCRIBE v3.1.1 -/

def Subscribe3.body (pw : Nat) (p : Subscribe3) : List Nat := encId pw p.pid ++ entriesEncode p.entries

theorem Subscribe3.roundtrip (pw : Nat) (p : Subscribe3) (hpw : pw = 2 ∨ pw = 4)
    (h : allOk (p.checks pw) = true) :
    Subscribe3.parse pw (p.body pw) = .ok p (p.body pw).length
      ∧ p.encode pw = 0x82 :: vbiEnc p.remLen ++ p.body pw
      ∧ p.size = (p.encode pw).length ∧ p.remLen = (p.body pw).length := by
  simp only [allOk, Subscribe3.checks, List.all_cons, List.all_nil, Bool.and_true, Bool.and_eq_true, beq_iff_eq,
    idOk_iff, decide_eq_true_eq] at h
  obtain ⟨⟨hnz, hr⟩, hne, hes, hrl, hmax⟩ := h
  have hil := encId_length pw p.pid hpw
  have hel := entriesEncode_length p.entries
  have hbl : (p.body pw).length = p.remLen := by
    unfold Subscribe3.body; rw [List.length_append, hil, hrl, hel]
  have henc : p.encode pw = 0x82 :: vbiEnc p.remLen ++ p.body pw := by simp [Subscribe3.encode, Subscribe3.body]
  refine ⟨?_, henc, by rw [henc]; exact size_of_frame _ _ _ hmax hbl, hbl.symm⟩
  cases p with
  | mk rl pid entries =>
    simp only at hr hrl hil hmax hne hes hbl hel
    subst hrl
    unfold Subscribe3.parse Subscribe3.body
    rw [parseIdFront_enc _ pw pid _ hpw hr hnz, bind_ok, sliceFrom_append _ _ _ _ _ hil.symm]
    rw [hel, entriesLoop_enc entries _ hes (Nat.le_refl _), bind_ok]
    rw [if_neg (by simpa using hne), vbiOf_le _ _ _ hmax]
    simp only [List.length_append, hil, hel]

/-! ## v5.0 -/

theorem validateProps_none (allowed uniq : List Nat) (ps : Props) (h : propsAllowed allowed uniq ps = true) :
    validateProps allowed uniq ps = none := by
  unfold validateProps; rw [if_pos h]

/-- properties behind a prefix of known length -/
theorem parsePropsAt_enc (site : String) (validate : Props → Option Err) (pre : List Nat) (ps : Props)
    (rest : List Nat) (cursor : Nat) (hc : cursor = pre.length) (hok : propsOk ps = true) (hs : ps.size ≤ vbiMax)
    (hv : validate ps = none) :
    parsePropsAt site validate (pre ++ (vbiEnc ps.size ++ (Props.encode ps ++ rest))) cursor
      = .ok (ps, ps.size) (vbiSize ps.size + ps.size) := by
  unfold parsePropsAt
  rw [sliceFrom_append _ _ _ _ _ hc, ← List.append_assoc, Props.parse_enc ps rest hok hs, bind_ok, hv]
  simp only
  rw [vbiOf_le _ _ _ hs]

theorem propsChecks_iff (allowed uniq : List Nat) (propLen : Nat) (ps : Props) :
    allOk (propsChecks allowed uniq propLen ps) = true ↔
      propsOk ps = true ∧ propsAllowed allowed uniq ps = true ∧ propLen = ps.size ∧ propLen ≤ vbiMax := by
  simp [allOk, propsChecks]

theorem allOk_append (a b : List (String × Bool)) : allOk (a ++ b) = true ↔ allOk a = true ∧ allOk b = true := by
  simp [allOk, List.all_append]

/-! ### SUBACK / UNSUBACK v5.0 -/

def Codes5.body (pw : Nat) (p : Codes5) : List Nat :=
  encId pw p.pid ++ (vbiEnc p.propLen ++ (Props.encode p.props ++ p.codes))

theorem Codes5.roundtrip (rcOk : Nat → Bool) (fh pw : Nat) (p : Codes5) (hpw : pw = 2 ∨ pw = 4)
    (h : allOk (p.checks rcOk pw) = true) :
    Codes5.parse rcOk pw (p.body pw) = .ok p (p.body pw).length
      ∧ p.encode fh pw = fh :: vbiEnc p.remLen ++ p.body pw
      ∧ p.size = (p.encode fh pw).length ∧ p.remLen = (p.body pw).length := by
  unfold Codes5.checks at h
  rw [allOk_append, allOk_append, propsChecks_iff] at h
  obtain ⟨⟨h1, hpo, hpa, hpl, hplm⟩, h3⟩ := h
  simp only [allOk, List.all_cons, List.all_nil, Bool.and_true, Bool.and_eq_true, beq_iff_eq,
    idOk_iff, decide_eq_true_eq] at h1 h3
  obtain ⟨⟨hnz, hr⟩, hne, hco⟩ := h1
  obtain ⟨hrl, hmax⟩ := h3
  have hil := encId_length pw p.pid hpw
  have hel := Props.encode_length p.props hpo
  have hvl := vbiEnc_length p.propLen hplm
  have hbl : (p.body pw).length = p.remLen := by
    unfold Codes5.body; simp only [List.length_append, hil, hel, hvl, hrl]; omega
  have henc : p.encode fh pw = fh :: vbiEnc p.remLen ++ p.body pw := by simp [Codes5.encode, Codes5.body]
  refine ⟨?_, henc, by rw [henc]; exact size_of_frame _ _ _ hmax hbl, hbl.symm⟩
  cases p with
  | mk rl pid propLen props codes =>
    simp only at hr hrl hil hmax hne hco hbl hpo hpa hpl hplm hel hvl
    subst hpl
    unfold Codes5.parse Codes5.body
    dsimp only
    rw [parseIdFront_enc _ pw pid _ hpw hr hnz, bind_ok]
    rw [parsePropsAt_enc _ validateAckProps _ props codes pw hil.symm hpo hplm (validateProps_none _ _ _ hpa), bind_ok]
    simp only
    have hd : ∀ (α : Type) (k : List Nat → PRes α),
        sliceFrom "v5_0::suback::parse:data[cursor]"
          (encId pw pid ++ (vbiEnc props.size ++ (Props.encode props ++ codes))) (pw + (vbiSize props.size + props.size)) k
          = k codes := by
      intro α k
      have := sliceFrom_append "v5_0::suback::parse:data[cursor]" (encId pw pid ++ (vbiEnc props.size ++ Props.encode props))
        codes (pw + (vbiSize props.size + props.size)) k (by simp [hil, hvl, hel])
      simpa [List.append_assoc] using this
    rw [hd]
    rw [if_neg (by simp [hco]), if_neg (by simpa using hne)]
    have hrl' : pw + (vbiSize props.size + props.size) + codes.length = rl := by omega
    rw [hrl', vbiOf_le _ _ _ hmax]
    simp only [List.length_append, hil, hvl, hel]
    congr 1; omega

/-! ### UNSUBSCRIBE / SUBSCRIBE v5.0 -/

def Unsubscribe5.body (pw : Nat) (p : Unsubscribe5) : List Nat :=
  encId pw p.pid ++ (vbiEnc p.propLen ++ (Props.encode p.props ++ topicsEncode p.topics))

theorem Unsubscribe5.roundtrip (pw : Nat) (p : Unsubscribe5) (hpw : pw = 2 ∨ pw = 4)
    (h : allOk (p.checks pw) = true) :
    Unsubscribe5.parse pw (p.body pw) = .ok p (p.body pw).length
      ∧ p.encode pw = 0xa2 :: vbiEnc p.remLen ++ p.body pw
      ∧ p.size = (p.encode pw).length ∧ p.remLen = (p.body pw).length := by
  unfold Unsubscribe5.checks at h
  rw [allOk_append, allOk_append, propsChecks_iff] at h
  obtain ⟨⟨h1, hpo, hpa, hpl, hplm⟩, h3⟩ := h
  simp only [allOk, List.all_cons, List.all_nil, Bool.and_true, Bool.and_eq_true, beq_iff_eq,
    idOk_iff, decide_eq_true_eq] at h1 h3
  obtain ⟨⟨hnz, hr⟩, hne, hts, hsh⟩ := h1
  obtain ⟨hrl, hmax⟩ := h3
  have hil := encId_length pw p.pid hpw
  have hel := Props.encode_length p.props hpo
  have hvl := vbiEnc_length p.propLen hplm
  have htl := topicsEncode_length p.topics
  have hbl : (p.body pw).length = p.remLen := by
    unfold Unsubscribe5.body; simp only [List.length_append, hil, hel, hvl, hrl, htl]; omega
  have henc : p.encode pw = 0xa2 :: vbiEnc p.remLen ++ p.body pw := by simp [Unsubscribe5.encode, Unsubscribe5.body]
  refine ⟨?_, henc, by rw [henc]; exact size_of_frame _ _ _ hmax hbl, hbl.symm⟩
  cases p with
  | mk rl pid propLen props topics =>
    simp only at hr hrl hil hmax hne hts hsh hbl hpo hpa hpl hplm hel hvl htl
    subst hpl
    unfold Unsubscribe5.parse Unsubscribe5.body
    dsimp only
    rw [parseIdFront_enc _ pw pid _ hpw hr hnz, bind_ok]
    rw [parsePropsAt_enc _ validateUnsubscribeProps _ props _ pw hil.symm hpo hplm (validateProps_none _ _ _ hpa), bind_ok]
    simp only
    have hd : ∀ (α : Type) (k : List Nat → PRes α),
        sliceFrom "v5_0::unsubscribe::parse:data[cursor..]"
          (encId pw pid ++ (vbiEnc props.size ++ (Props.encode props ++ topicsEncode topics)))
          (pw + (vbiSize props.size + props.size)) k = k (topicsEncode topics) := by
      intro α k
      have := sliceFrom_append "v5_0::unsubscribe::parse:data[cursor..]"
        (encId pw pid ++ (vbiEnc props.size ++ Props.encode props))
        (topicsEncode topics) (pw + (vbiSize props.size + props.size)) k (by simp [hil, hvl, hel])
      simpa [List.append_assoc] using this
    rw [hd, htl, topicsLoop_enc topics _ hts (Nat.le_refl _), bind_ok]
    rw [if_neg (by simpa using hne), if_neg (by simp [hsh])]
    have hrl' : pw + (vbiSize props.size + props.size) + topicsSize topics = rl := by omega
    rw [hrl', vbiOf_le _ _ _ hmax]
    simp only [List.length_append, hil, hvl, hel, htl]
    congr 1; omega

def Subscribe5.body (pw : Nat) (p : Subscribe5) : List Nat :=
  encId pw p.pid ++ (vbiEnc p.propLen ++ (Props.encode p.props ++ entriesEncode p.entries))

theorem Subscribe5.roundtrip (pw : Nat) (p : Subscribe5) (hpw : pw = 2 ∨ pw = 4)
    (h : allOk (p.checks pw) = true) :
    Subscribe5.parse pw (p.body pw) = .ok p (p.body pw).length
      ∧ p.encode pw = 0x82 :: vbiEnc p.remLen ++ p.body pw
      ∧ p.size = (p.encode pw).length ∧ p.remLen = (p.body pw).length := by
  unfold Subscribe5.checks at h
  rw [allOk_append, allOk_append, propsChecks_iff] at h
  obtain ⟨⟨h1, hpo, hpa, hpl, hplm⟩, h3⟩ := h
  simp only [allOk, List.all_cons, List.all_nil, Bool.and_true, Bool.and_eq_true, beq_iff_eq,
    idOk_iff, decide_eq_true_eq] at h1 h3
  obtain ⟨⟨hnz, hr⟩, hne, hes, hsh⟩ := h1
  obtain ⟨hrl, hmax⟩ := h3
  have hil := encId_length pw p.pid hpw
  have hel := Props.encode_length p.props hpo
  have hvl := vbiEnc_length p.propLen hplm
  have htl := entriesEncode_length p.entries
  have hbl : (p.body pw).length = p.remLen := by
    unfold Subscribe5.body; simp only [List.length_append, hil, hel, hvl, hrl, htl]; omega
  have henc : p.encode pw = 0x82 :: vbiEnc p.remLen ++ p.body pw := by simp [Subscribe5.encode, Subscribe5.body]
  refine ⟨?_, henc, by rw [henc]; exact size_of_frame _ _ _ hmax hbl, hbl.symm⟩
  cases p with
  | mk rl pid propLen props entries =>
    simp only at hr hrl hil hmax hne hes hsh hbl hpo hpa hpl hplm hel hvl htl
    subst hpl
    unfold Subscribe5.parse Subscribe5.body
    dsimp only
    rw [parseIdFront_enc _ pw pid _ hpw hr hnz, bind_ok]
    rw [parsePropsAt_enc _ validateSubscribeProps _ props _ pw hil.symm hpo hplm (validateProps_none _ _ _ hpa), bind_ok]
    simp only
    have hd : ∀ (α : Type) (k : List Nat → PRes α),
        sliceFrom "v5_0::subscribe::parse:data[cursor..]"
          (encId pw pid ++ (vbiEnc props.size ++ (Props.encode props ++ entriesEncode entries)))
          (pw + (vbiSize props.size + props.size)) k = k (entriesEncode entries) := by
      intro α k
      have := sliceFrom_append "v5_0::subscribe::parse:data[cursor..]"
        (encId pw pid ++ (vbiEnc props.size ++ Props.encode props))
        (entriesEncode entries) (pw + (vbiSize props.size + props.size)) k (by simp [hil, hvl, hel])
      simpa [List.append_assoc] using this
    rw [hd, htl, entriesLoop_enc entries _ hes (Nat.le_refl _), bind_ok]
    rw [if_neg (by simpa using hne), if_neg (by simp [hsh])]
    have hrl' : pw + (vbiSize props.size + props.size) + entriesSize entries = rl := by omega
    rw [hrl', vbiOf_le _ _ _ hmax]
    simp only [List.length_append, hil, hvl, hel, htl]
    congr 1; omega

/-! ### CONNACK v5.0 -/

def Connack5.body (p : Connack5) : List Nat := [p.flags, p.rc] ++ (vbiEnc p.propLen ++ (Props.encode p.props ++ []))

theorem Connack5.roundtrip (p : Connack5) (h : allOk p.checks = true) :
    Connack5.parse p.body = .ok p p.body.length ∧ p.encode = 0x20 :: vbiEnc p.remLen ++ p.body
      ∧ p.size = p.encode.length ∧ p.remLen = p.body.length := by
  unfold Connack5.checks at h
  rw [allOk_append, allOk_append, propsChecks_iff] at h
  obtain ⟨⟨h1, hpo, hpa, hpl, hplm⟩, h3⟩ := h
  simp only [allOk, List.all_cons, List.all_nil, Bool.and_true, Bool.and_eq_true, beq_iff_eq,
    decide_eq_true_eq] at h1 h3
  obtain ⟨hf, hrc⟩ := h1
  obtain ⟨hrl, hmax⟩ := h3
  have hel := Props.encode_length p.props hpo
  have hvl := vbiEnc_length p.propLen hplm
  have hbl : p.body.length = p.remLen := by
    unfold Connack5.body; simp only [List.length_append, List.length_cons, List.length_nil, hel, hvl, hrl]; omega
  have henc : p.encode = 0x20 :: vbiEnc p.remLen ++ p.body := by simp [Connack5.encode, Connack5.body]
  refine ⟨?_, henc, by rw [henc]; exact size_of_frame _ _ _ hmax hbl, hbl.symm⟩
  cases p with
  | mk rl flags rc propLen props =>
    simp only at hrl hmax hf hrc hbl hpo hpa hpl hplm hel hvl
    subst hpl
    have hpos := vbiSize_pos props.size
    unfold Connack5.parse Connack5.body
    dsimp only
    rw [if_neg (by simp [hvl]; omega)]
    simp only [List.cons_append, List.nil_append]
    rw [idx_cons_zero, if_neg (by omega), idx_cons_succ, idx_cons_zero, if_neg (by simp [hrc])]
    have := parsePropsAt_enc "v5_0::connack::parse:props" validateConnackProps [flags, rc] props [] 2 rfl hpo hplm
      (validateProps_none _ _ _ hpa)
    simp only [List.cons_append, List.nil_append] at this
    rw [this, bind_ok]
    simp only
    have hrl' : 2 + (vbiSize props.size + props.size) = rl := by omega
    rw [hrl', vbiOf_le _ _ _ hmax]
    simp only [List.length_cons, List.length_append, List.length_nil, hvl, hel]
    congr 1; omega

/-! ### `[rc [props]]` tails: acks, DISCONNECT, AUTH -/

theorem encOptProps_length (propLen : Nat) (props : Option Props)
    (hp : ∀ ps, props = some ps → propsOk ps = true ∧ ps.size ≤ vbiMax ∧ propLen = ps.size) :
    (encOptProps propLen props).length = (if props.isSome then vbiSize propLen else 0) + optPropsSize props := by
  cases props with
  | none => simp [encOptProps, optPropsSize]
  | some ps =>
    obtain ⟨h1, h2, h3⟩ := hp ps rfl
    subst h3
    simp [encOptProps, optPropsSize, vbiEnc_length _ h2, Props.encode_length ps h1]

theorem parseRcProps_enc (site : String) (rcOk : Nat → Bool) (validate : Props → Option Err) (pre : List Nat)
    (rc : Option Nat) (props : Option Props) (propLen cursor : Nat) (hc : cursor = pre.length)
    (hrc : ∀ c, rc = some c → rcOk c = true)
    (hneed : rc.isSome = true ∨ props = none)
    (hp : ∀ ps, props = some ps → propsOk ps = true ∧ ps.size ≤ vbiMax ∧ validate ps = none ∧ propLen = ps.size)
    (hnone : props = none → propLen = 0) :
    parseRcProps site rcOk validate (pre ++ (encOptByte rc ++ encOptProps propLen props)) cursor
      = .ok (rc, props, propLen) (cursor + (encOptByte rc ++ encOptProps propLen props).length) := by
  subst hc
  unfold parseRcProps
  cases rc with
  | none =>
    have hpn : props = none := by
      rcases hneed with h | h
      · simp at h
      · exact h
    subst hpn
    have := hnone rfl
    subst this
    simp [encOptByte, encOptProps]
  | some c =>
    have hcok := hrc c rfl
    cases props with
    | none =>
      have := hnone rfl
      subst this
      simp only [encOptByte, encOptProps, List.append_nil, List.length_append, List.length_cons, List.length_nil]
      rw [if_pos (by omega)]
      have hi : ∀ (α : Type) (kk : Nat → PRes α), idx (site ++ ":data[cursor] rc") (pre ++ [c]) pre.length kk = kk c := by
        intro α kk
        unfold idx
        rw [List.getElem?_append_right (by omega)]
        simp
      rw [hi, if_neg (by simp [hcok])]
      rw [if_neg (by omega)]
    | some ps =>
      obtain ⟨h1, h2, h3, h4⟩ := hp ps rfl
      subst h4
      have hvl := vbiEnc_length ps.size h2
      have hel := Props.encode_length ps h1
      have hpos := vbiSize_pos ps.size
      simp only [encOptByte, encOptProps, List.length_append, List.length_cons, List.length_nil, hvl, hel]
      rw [if_pos (by omega)]
      have hi : ∀ (α : Type) (kk : Nat → PRes α),
          idx (site ++ ":data[cursor] rc") (pre ++ ([c] ++ (vbiEnc ps.size ++ Props.encode ps))) pre.length kk = kk c := by
        intro α kk
        unfold idx
        rw [List.getElem?_append_right (by omega)]
        simp
      rw [hi, if_neg (by simp [hcok])]
      rw [if_pos (by omega)]
      have := parsePropsAt_enc (site ++ ":props") validate (pre ++ [c]) ps [] (pre.length + 1) (by simp) h1 h2 h3
      simp only [List.append_nil, List.append_assoc] at this
      rw [this, bind_ok]
      congr 1; omega

def Ack5.body (pw : Nat) (p : Ack5) : List Nat := encId pw p.pid ++ (encOptByte p.rc ++ encOptProps p.propLen p.props)

theorem optPropsChecks_some (allowed uniq : List Nat) (propLen : Nat) (props : Option Props)
    (h : allOk (optPropsChecks allowed uniq propLen props) = true) :
    ∀ ps, props = some ps → propsOk ps = true ∧ ps.size ≤ vbiMax ∧ validateProps allowed uniq ps = none ∧ propLen = ps.size := by
  intro ps hps
  subst hps
  simp only [optPropsChecks, propsChecks_iff] at h
  obtain ⟨h1, h2, h3, h4⟩ := h
  exact ⟨h1, by omega, validateProps_none _ _ _ h2, h3⟩

theorem Ack5.roundtrip (k : AckKind) (pw : Nat) (p : Ack5) (hpw : pw = 2 ∨ pw = 4)
    (h : allOk (p.checks k pw) = true) :
    Ack5.parse k pw (p.body pw) = .ok p (p.body pw).length ∧ p.encode k pw = k.fh :: vbiEnc p.remLen ++ p.body pw
      ∧ p.size = (p.encode k pw).length ∧ p.remLen = (p.body pw).length := by
  unfold Ack5.checks at h
  rw [allOk_append, allOk_append] at h
  obtain ⟨⟨h1, h2⟩, h3⟩ := h
  simp only [allOk, List.all_cons, List.all_nil, Bool.and_true, Bool.and_eq_true, beq_iff_eq,
    idOk_iff, decide_eq_true_eq, Bool.or_eq_true, Option.isNone_iff_eq_none] at h1 h3
  obtain ⟨⟨hnz, hr⟩, hrc, hneed, habs⟩ := h1
  obtain ⟨hrl, hmax⟩ := h3
  have hps := optPropsChecks_some _ _ _ _ h2
  have hil := encId_length pw p.pid hpw
  have htl : (encOptByte p.rc ++ encOptProps p.propLen p.props).length = rcPropsRemaining p.rc p.props p.propLen := by
    rw [List.length_append, encOptProps_length _ _ (fun ps e => ⟨(hps ps e).1, (hps ps e).2.1, (hps ps e).2.2.2⟩)]
    unfold rcPropsRemaining
    cases p.rc <;> simp [encOptByte] <;> omega
  have hbl : (p.body pw).length = p.remLen := by
    unfold Ack5.body; rw [List.length_append, hil, htl, hrl]
  have henc : p.encode k pw = k.fh :: vbiEnc p.remLen ++ p.body pw := by simp [Ack5.encode, Ack5.body]
  refine ⟨?_, henc, by rw [henc]; exact size_of_frame _ _ _ hmax hbl, hbl.symm⟩
  cases p with
  | mk rl pid rc propLen props =>
    dsimp only at hnz hr hrc hneed habs hrl hmax hps hil htl hbl
    unfold Ack5.parse Ack5.body
    dsimp only
    rw [if_neg (by simp [hil])]
    have hsl : ∀ (α : Type) (kk : List Nat → PRes α),
        slice "v5_0::ack::parse:data[0..buffer_size]" (encId pw pid ++ (encOptByte rc ++ encOptProps propLen props)) 0 pw kk
          = kk (encId pw pid) := fun α kk => slice_zero_append _ _ _ _ _ hil.symm
    rw [hsl, allZero_encId pw pid hpw hnz hr]
    simp only [Bool.false_eq_true, if_false]
    have hnone : props = none → propLen = 0 := by
      intro e; subst e; simpa using habs
    have hneed' : rc.isSome = true ∨ props = none := hneed
    have hrc' : ∀ c, rc = some c → k.rcOk c = true := by
      intro c e; subst e; simpa using hrc
    rw [parseRcProps_enc "v5_0::ack::parse" k.rcOk validateAckProps (encId pw pid) rc props propLen pw hil.symm hrc'
      hneed' hps hnone, bind_ok]
    dsimp only
    have hrem : pw + (if rc.isSome = true then 1 else 0) + (if props.isSome = true then vbiSize propLen else 0)
        + optPropsSize props = rl := by
      rw [hrl]; unfold rcPropsRemaining; omega
    rw [hrem, vbiOf_le _ _ _ hmax, beNat_encId pw pid hpw hr]
    simp only [List.length_append, hil]

/-! ### DISCONNECT / AUTH v5.0 -/

def RcProps5.body (p : RcProps5) : List Nat := encOptByte p.rc ++ encOptProps (p.propLen.getD 0) p.props

theorem RcProps5.base (rcOk : Nat → Bool) (fh : Nat) (p : RcProps5) (h : allOk (p.baseChecks rcOk) = true) :
    p.encode fh = fh :: vbiEnc p.remLen ++ p.body ∧ p.size = (p.encode fh).length ∧ p.remLen = p.body.length
      ∧ (∀ (site : String) (validate : Props → Option Err), (∀ ps, p.props = some ps → validate ps = none) →
          parseRcProps site rcOk validate ([] ++ p.body) 0 = .ok (p.rc, p.props, p.propLen.getD 0) (0 + p.body.length))
      ∧ p.remLen = rcPropsRemaining p.rc p.props (p.propLen.getD 0) ∧ p.remLen ≤ vbiMax
      ∧ p.propLen = p.props.map (fun _ => p.propLen.getD 0) := by
  simp only [allOk, RcProps5.baseChecks, List.all_cons, List.all_nil, Bool.and_true, Bool.and_eq_true, beq_iff_eq,
    decide_eq_true_eq, Bool.or_eq_true, Option.isNone_iff_eq_none] at h
  obtain ⟨hrc, hneed, hiff, hpo, hpl, hrl, hmax⟩ := h
  cases p with
  | mk rl rc propLen props =>
    dsimp only at hrc hneed hiff hpo hpl hrl hmax
    have hps : ∀ ps, props = some ps → propsOk ps = true ∧ ps.size ≤ vbiMax ∧ propLen.getD 0 = ps.size := by
      intro ps e; subst e
      simp only [Bool.and_eq_true, beq_iff_eq, decide_eq_true_eq] at hpl hpo
      exact ⟨hpo, hpl.2, by rw [hpl.1]; rfl⟩
    have hnone : props = none → propLen.getD 0 = 0 := by
      intro e; subst e
      cases propLen with
      | none => rfl
      | some v => simp at hiff
    have htl : (encOptByte rc ++ encOptProps (propLen.getD 0) props).length = rcPropsRemaining rc props (propLen.getD 0) := by
      rw [List.length_append, encOptProps_length _ _ hps]
      unfold rcPropsRemaining
      cases rc <;> simp [encOptByte] <;> omega
    have hbl : (RcProps5.body ⟨rl, rc, propLen, props⟩).length = rl := by
      unfold RcProps5.body; dsimp only; rw [htl, hrl]
    have henc : RcProps5.encode fh ⟨rl, rc, propLen, props⟩ = fh :: vbiEnc rl ++ RcProps5.body ⟨rl, rc, propLen, props⟩ := by
      unfold RcProps5.encode RcProps5.body
      dsimp only
      cases props with
      | none =>
        cases propLen with
        | none => simp [encOptProps]
        | some v => simp at hiff
      | some ps =>
        cases propLen with
        | none => simp at hiff
        | some v => simp [encOptProps]
    refine ⟨henc, by rw [henc]; exact size_of_frame _ _ _ hmax hbl, hbl.symm, ?_, hrl, hmax, ?_⟩
    · intro site validate hval
      unfold RcProps5.body
      dsimp only
      refine parseRcProps_enc site rcOk validate [] rc props (propLen.getD 0) 0 rfl ?_ hneed ?_ hnone
      · intro c e; subst e; simpa using hrc
      · intro ps e
        obtain ⟨a, b, c⟩ := hps ps e
        exact ⟨a, b, hval ps e, c⟩
    · dsimp only
      cases props with
      | none =>
        cases propLen with
        | none => rfl
        | some v => simp at hiff
      | some ps =>
        cases propLen with
        | none => simp at hiff
        | some v => rfl

theorem Disconnect5.roundtrip (p : RcProps5) (h : allOk (Disconnect5.checks p) = true) :
    Disconnect5.parse p.body = .ok p p.body.length ∧ p.encode 0xe0 = 0xe0 :: vbiEnc p.remLen ++ p.body
      ∧ p.size = (p.encode 0xe0).length ∧ p.remLen = p.body.length := by
  unfold Disconnect5.checks at h
  rw [allOk_append] at h
  obtain ⟨hb, ha⟩ := h
  obtain ⟨henc, hsz, hbl, hparse, hrl, hmax, hpl⟩ := RcProps5.base disconnectRcOk 0xe0 p hb
  refine ⟨?_, henc, hsz, hbl⟩
  have hv : ∀ ps, p.props = some ps → validateDisconnectProps ps = none := by
    intro ps e
    simp only [allOk, List.all_cons, List.all_nil, Bool.and_true, e] at ha
    exact validateProps_none _ _ _ ha
  have := hparse "v5_0::disconnect::parse" validateDisconnectProps hv
  simp only [List.nil_append, Nat.zero_add] at this
  unfold Disconnect5.parse
  rw [this, bind_ok]
  dsimp only
  rw [← hrl, vbiOf_le _ _ _ hmax, ← hpl]

theorem Auth5.roundtrip (p : RcProps5) (h : allOk (Auth5.checks p) = true) :
    Auth5.parse p.body = .ok p p.body.length ∧ p.encode 0xf0 = 0xf0 :: vbiEnc p.remLen ++ p.body
      ∧ p.size = (p.encode 0xf0).length ∧ p.remLen = p.body.length := by
  unfold Auth5.checks at h
  rw [allOk_append] at h
  obtain ⟨hb, ha⟩ := h
  obtain ⟨henc, hsz, hbl, hparse, hrl, hmax, hpl⟩ := RcProps5.base authRcOk 0xf0 p hb
  refine ⟨?_, henc, hsz, hbl⟩
  have := hparse "v5_0::auth::parse" (fun _ => none) (fun _ _ => rfl)
  simp only [List.nil_append, Nat.zero_add] at this
  simp only [allOk, List.all_cons, List.all_nil, Bool.and_true, Option.isNone_iff_eq_none] at ha
  unfold Auth5.parse
  rw [this, bind_ok]
  dsimp only
  rw [ha]
  dsimp only
  rw [← hrl, vbiOf_le _ _ _ hmax, ← hpl]

/-! ### PUBLISH -/

theorem encOptId_length (pw : Nat) (pid : Option Nat) (hpw : pw = 2 ∨ pw = 4) :
    (encOptId pw pid).length = if pid.isSome then pw else 0 := by
  cases pid with
  | none => rfl
  | some id => simp [encOptId, encId_length pw id hpw]

theorem parsePublishHead_enc (v5 : Bool) (pw flags : Nat) (topic : List Nat) (pid : Option Nat) (rest : List Nat)
    (hpw : pw = 2 ∨ pw = 4) (hq : flags / 2 % 4 ≤ 2) (hiff : (flags / 2 % 4 == 0) = pid.isNone)
    (hpid : ∀ id, pid = some id → idOk pw id = true) (ht : strOk topic = true)
    (hnw : noWildcard topic = true) (hne : v5 = false → topic.isEmpty = false) :
    parsePublishHead v5 pw flags (encStr topic ++ (encOptId pw pid ++ rest))
      = .ok (topic, pid) (strSize topic + (if pid.isSome then pw else 0)) := by
  obtain ⟨hl, hu⟩ := (strOk_iff topic).1 ht
  unfold parsePublishHead
  dsimp only
  rw [if_neg (by omega), sliceFrom_zero, decStr_enc topic _ hl hu, bind_ok]
  have hcond : ((!v5 && topic.isEmpty) || topic.contains 35 || topic.contains 43) = false := by
    simp only [noWildcard, Bool.not_eq_true', Bool.or_eq_false_iff] at hnw
    cases v5 with
    | true => rw [hnw.1, hnw.2]; rfl
    | false => rw [hne rfl, hnw.1, hnw.2]; rfl
  rw [hcond]
  simp only [Bool.false_eq_true, if_false]
  cases pid with
  | none =>
    simp only [Option.isNone_none, beq_iff_eq] at hiff
    rw [if_neg (by omega)]
    simp
  | some id =>
    simp only [Option.isNone_some, beq_eq_false_iff_ne, ne_eq] at hiff
    obtain ⟨hnz, hr⟩ := (idOk_iff pw id).1 (hpid id rfl)
    have hil := encId_length pw id hpw
    rw [if_pos hiff]
    simp only [encOptId, List.length_append, encStr_length, hil]
    rw [if_neg (by omega)]
    rw [slice_append _ _ _ _ _ _ _ (encStr_length topic).symm (by rw [encStr_length, hil])]
    rw [allZero_encId pw id hpw hnz hr]
    simp only [Bool.false_eq_true, if_false, beNat_encId pw id hpw hr, Option.isSome_some, if_true]

def Publish3.body (pw : Nat) (p : Publish3) : List Nat := encStr p.topic ++ (encOptId pw p.pid ++ p.payload)

theorem publishHeadChecks_iff (pw fh : Nat) (topic : List Nat) (pid : Option Nat) (aliasOk : Bool)
    (h : allOk (publishHeadChecks pw fh topic pid aliasOk) = true) :
    (fh / 16 = 3 ∧ fh < 64) ∧ fh / 2 % 4 ≤ 2 ∧ strOk topic = true ∧ ((fh / 2 % 4 == 0) = pid.isNone)
      ∧ (∀ id, pid = some id → idOk pw id = true) ∧ noWildcard topic = true
      ∧ (aliasOk = false → topic.isEmpty = false) := by
  simp only [allOk, publishHeadChecks, List.all_cons, List.all_nil, Bool.and_true, Bool.and_eq_true, beq_iff_eq,
    decide_eq_true_eq] at h
  obtain ⟨hfh, hq, hne, hnw, hts, hiff, hpid⟩ := h
  refine ⟨hfh, hq, hts, ?_, ?_, hnw, ?_⟩
  · cases pid <;> simp_all
  · intro id e; subst e; simpa using hpid
  · intro ha; subst ha; simpa using hne

theorem Publish3.roundtrip (pw : Nat) (p : Publish3) (hpw : pw = 2 ∨ pw = 4) (h : allOk (p.checks pw) = true) :
    Publish3.parse pw (p.fh % 16) (p.body pw) = .ok p (p.body pw).length
      ∧ p.encode pw = p.fh :: vbiEnc p.remLen ++ p.body pw
      ∧ p.size = (p.encode pw).length ∧ p.remLen = (p.body pw).length := by
  unfold Publish3.checks at h
  rw [allOk_append] at h
  obtain ⟨hh, h3⟩ := h
  obtain ⟨⟨hf1, hf2⟩, hq, hts, hiff, hpid, hnw, hne⟩ := publishHeadChecks_iff _ _ _ _ _ hh
  simp only [allOk, List.all_cons, List.all_nil, Bool.and_true, Bool.and_eq_true, beq_iff_eq,
    decide_eq_true_eq] at h3
  obtain ⟨hrl, hmax⟩ := h3
  have hol := encOptId_length pw p.pid hpw
  have hbl : (p.body pw).length = p.remLen := by
    unfold Publish3.body; simp only [List.length_append, encStr_length, hol, hrl, Publish3.remaining]; omega
  have henc : p.encode pw = p.fh :: vbiEnc p.remLen ++ p.body pw := by simp [Publish3.encode, Publish3.body]
  refine ⟨?_, henc, by rw [henc]; exact size_of_frame _ _ _ hmax hbl, hbl.symm⟩
  cases p with
  | mk fh rl topic pid payload =>
    dsimp only at hf1 hf2 hq hts hiff hpid hrl hmax hol hbl
    have hqf : fh % 16 / 2 % 4 = fh / 2 % 4 := by omega
    unfold Publish3.parse Publish3.body
    dsimp only
    rw [parsePublishHead_enc false pw (fh % 16) topic pid payload hpw (by omega) (by rw [hqf]; exact hiff) hpid hts hnw
      (fun _ => hne rfl), bind_ok]
    dsimp only
    have hcur : strSize topic + (if pid.isSome = true then pw else 0) = (encStr topic ++ encOptId pw pid).length := by
      rw [List.length_append, encStr_length, hol]
    unfold usub
    rw [if_pos (by rw [hcur]; simp)]
    dsimp only
    have hsf : ∀ (α : Type) (k : List Nat → PRes α),
        sliceFrom "v3_1_1::publish::parse:ArcPayload::new" (encStr topic ++ (encOptId pw pid ++ payload))
          (strSize topic + (if pid.isSome = true then pw else 0)) k = k payload := by
      intro α k
      have := sliceFrom_append "v3_1_1::publish::parse:ArcPayload::new" (encStr topic ++ encOptId pw pid) payload _ k hcur
      simpa [List.append_assoc] using this
    rw [hsf]
    have hrem : strSize topic + (if pid.isSome = true then pw else 0)
        + ((encStr topic ++ (encOptId pw pid ++ payload)).length - (strSize topic + if pid.isSome = true then pw else 0)) = rl := by
      simp only [List.length_append, encStr_length, hol, hrl, Publish3.remaining]; omega
    rw [hrem, vbiOf_le _ _ _ hmax]
    have : 0x30 + fh % 16 % 16 = fh := by omega
    rw [this]

def Publish5.body (pw : Nat) (p : Publish5) : List Nat :=
  encStr p.topic ++ (encOptId pw p.pid ++ (vbiEnc p.propLen ++ (Props.encode p.props ++ p.payload)))

theorem Publish5.roundtrip (pw : Nat) (p : Publish5) (hpw : pw = 2 ∨ pw = 4) (h : allOk (p.checks pw) = true) :
    Publish5.parse pw (p.fh % 16) (p.body pw) = .ok p (p.body pw).length
      ∧ p.encode pw = p.fh :: vbiEnc p.remLen ++ p.body pw
      ∧ p.size = (p.encode pw).length ∧ p.remLen = (p.body pw).length := by
  unfold Publish5.checks at h
  rw [allOk_append, allOk_append, propsChecks_iff] at h
  obtain ⟨⟨hh, hpo, hpa, hpl, hplm⟩, h3⟩ := h
  obtain ⟨⟨hf1, hf2⟩, hq, hts, hiff, hpid, hnw, hne⟩ := publishHeadChecks_iff _ _ _ _ _ hh
  simp only [allOk, List.all_cons, List.all_nil, Bool.and_true, Bool.and_eq_true, beq_iff_eq,
    decide_eq_true_eq] at h3
  obtain ⟨hrl, hmax⟩ := h3
  have hol := encOptId_length pw p.pid hpw
  have hel := Props.encode_length p.props hpo
  have hvl := vbiEnc_length p.propLen hplm
  have hbl : (p.body pw).length = p.remLen := by
    unfold Publish5.body
    simp only [List.length_append, encStr_length, hol, hel, hvl, hrl, Publish5.remaining]; omega
  have henc : p.encode pw = p.fh :: vbiEnc p.remLen ++ p.body pw := by simp [Publish5.encode, Publish5.body]
  refine ⟨?_, henc, by rw [henc]; exact size_of_frame _ _ _ hmax hbl, hbl.symm⟩
  cases p with
  | mk fh rl topic pid propLen props payload =>
    dsimp only at hf1 hf2 hq hts hiff hpid hrl hmax hol hbl hpo hpa hpl hplm hel hvl
    subst hpl
    have hqf : fh % 16 / 2 % 4 = fh / 2 % 4 := by omega
    have hpos := vbiSize_pos props.size
    unfold Publish5.parse Publish5.body
    dsimp only
    rw [parsePublishHead_enc true pw (fh % 16) topic pid _ hpw (by omega) (by rw [hqf]; exact hiff) hpid hts hnw
      (fun h => by simp at h), bind_ok]
    have hcur : strSize topic + (if pid.isSome = true then pw else 0) = (encStr topic ++ encOptId pw pid).length := by
      rw [List.length_append, encStr_length, hol]
    rw [if_pos (by simp only [List.length_append, encStr_length, hol, hvl]; omega)]
    have hpp := parsePropsAt_enc "v5_0::publish::parse:props" validatePublishProps (encStr topic ++ encOptId pw pid)
      props payload _ hcur hpo hplm (validateProps_none _ _ _ hpa)
    rw [List.append_assoc] at hpp
    rw [hpp, bind_ok, bind_ok]
    dsimp only
    have hcur2 : strSize topic + (if pid.isSome = true then pw else 0) + (vbiSize props.size + props.size)
        = (encStr topic ++ (encOptId pw pid ++ (vbiEnc props.size ++ Props.encode props))).length := by
      simp only [List.length_append, encStr_length, hol, hvl, hel]; omega
    unfold usub
    rw [if_pos (by rw [hcur2]; simp only [List.length_append]; omega)]
    dsimp only
    have hsf : ∀ (α : Type) (k : List Nat → PRes α),
        sliceFrom "v5_0::publish::parse:ArcPayload::new"
          (encStr topic ++ (encOptId pw pid ++ (vbiEnc props.size ++ (Props.encode props ++ payload))))
          (strSize topic + (if pid.isSome = true then pw else 0) + (vbiSize props.size + props.size)) k = k payload := by
      intro α k
      have := sliceFrom_append "v5_0::publish::parse:ArcPayload::new"
        (encStr topic ++ (encOptId pw pid ++ (vbiEnc props.size ++ Props.encode props))) payload _ k hcur2
      simpa [List.append_assoc] using this
    rw [hsf]
    have hrem : strSize topic + (if pid.isSome = true then pw else 0) + vbiSize props.size + props.size
        + ((encStr topic ++ (encOptId pw pid ++ (vbiEnc props.size ++ (Props.encode props ++ payload)))).length
            - (strSize topic + (if pid.isSome = true then pw else 0) + (vbiSize props.size + props.size))) = rl := by
      simp only [List.length_append, encStr_length, hol, hrl, hvl, hel, Publish5.remaining]; omega
    rw [hrem, vbiOf_le _ _ _ hmax]
    have : 0x30 + fh % 16 % 16 = fh := by omega
    rw [this]

end MqttVerif.Codec
