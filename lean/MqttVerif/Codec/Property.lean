import MqttVerif.Codec.Str
/-!
# L1 Codec — `Property` (27 kinds, 7 wire shapes) and `Properties` (`src/mqtt/packet/property.rs`)

A property is its wire shape plus its identifier; `propShape` is the table of the 27
identifiers `PropertyId::try_from` accepts.  Integer-valued properties keep the value
(the Rust keeps the big-endian bytes / the canonical `VariableByteInteger`).
-/
namespace MqttVerif.Codec

inductive Shape | u8 | u16 | u32 | vbi | str | bin | pair
deriving DecidableEq, Repr

/-- `PropertyId::try_from` + the macro used for that id -/
def propShape : Nat → Option Shape
  | 1 => some .u8      -- PayloadFormatIndicator
  | 2 => some .u32     -- MessageExpiryInterval
  | 3 => some .str     -- ContentType
  | 8 => some .str     -- ResponseTopic
  | 9 => some .bin     -- CorrelationData
  | 11 => some .vbi    -- SubscriptionIdentifier
  | 17 => some .u32    -- SessionExpiryInterval
  | 18 => some .str    -- AssignedClientIdentifier
  | 19 => some .u16    -- ServerKeepAlive
  | 21 => some .str    -- AuthenticationMethod
  | 22 => some .bin    -- AuthenticationData
  | 23 => some .u8     -- RequestProblemInformation
  | 24 => some .u32    -- WillDelayInterval
  | 25 => some .u8     -- RequestResponseInformation
  | 26 => some .str    -- ResponseInformation
  | 28 => some .str    -- ServerReference
  | 31 => some .str    -- ReasonString
  | 33 => some .u16    -- ReceiveMaximum
  | 34 => some .u16    -- TopicAliasMaximum
  | 35 => some .u16    -- TopicAlias
  | 36 => some .u8     -- MaximumQos
  | 37 => some .u8     -- RetainAvailable
  | 38 => some .pair   -- UserProperty
  | 39 => some .u32    -- MaximumPacketSize
  | 40 => some .u8     -- WildcardSubscriptionAvailable
  | 41 => some .u8     -- SubscriptionIdentifierAvailable
  | 42 => some .u8     -- SharedSubscriptionAvailable
  | _ => none

/-- all 27 identifiers -/
def propIds : List Nat :=
  [1, 2, 3, 8, 9, 11, 17, 18, 19, 21, 22, 23, 24, 25, 26, 28, 31, 33, 34, 35, 36, 37, 38, 39, 40, 41, 42]

inductive Property
  | u8 (id v : Nat)
  | u16 (id v : Nat)
  | u32 (id v : Nat)
  | vbi (id v : Nat)
  | str (id : Nat) (s : List Nat)
  | bin (id : Nat) (b : List Nat)
  | pair (id : Nat) (k v : List Nat)
deriving DecidableEq, Repr, Inhabited

def Property.id : Property → Nat
  | .u8 id _ | .u16 id _ | .u32 id _ | .vbi id _ | .str id _ | .bin id _ | .pair id _ _ => id

/-! value validators (the `$validator` closures); `true` = accepted, failure is `ProtocolError` -/

/-- every one-byte property is a flag-like value `≤ 1` -/
def validU8 (_id v : Nat) : Bool := v ≤ 1
/-- ReceiveMaximum (33) and TopicAlias (35) must be non-zero -/
def validU16 (id v : Nat) : Bool := if id = 33 ∨ id = 35 then v != 0 else true
/-- MaximumPacketSize (39) must be non-zero -/
def validU32 (id v : Nat) : Bool := if id = 39 then v != 0 else true
/-- SubscriptionIdentifier (11) must be non-zero -/
def validVbi (id v : Nat) : Bool := if id = 11 then v != 0 else true

def Property.encode : Property → List Nat
  | .u8 id v => [id, v]
  | .u16 id v => id :: encU16 v
  | .u32 id v => id :: encU32 v
  | .vbi id v => id :: vbiEnc v
  | .str id s => id :: encStr s
  | .bin id b => id :: encStr b
  | .pair id k v => id :: (encStr k ++ encStr v)

def Property.size : Property → Nat
  | .u8 _ _ => 2
  | .u16 _ _ => 3
  | .u32 _ _ => 5
  | .vbi _ v => 1 + vbiSize v
  | .str _ s => 1 + strSize s
  | .bin _ b => 1 + strSize b
  | .pair _ k v => 1 + strSize k + strSize v

/-- `to_buffers()` pieces (id byte, then the value buffers) -/
def Property.buffers : Property → List (List Nat)
  | .u8 id v => [[id], [v]]
  | .u16 id v => [[id], encU16 v]
  | .u32 id v => [[id], encU32 v]
  | .vbi id v => [[id], vbiEnc v]
  | .str id s => [[id], encStr s]
  | .bin id b => [[id], encStr b]
  | .pair id k v => [[id], encStr k, encStr v]

/-- the per-shape `$name::parse(&bytes[1..])` -/
def parseU8 (id : Nat) (bytes : List Nat) : PRes Property :=
  if bytes.length < 1 then .err .MalformedPacket else
  idx "property_u8::parse:bytes[0]" bytes 0 fun v =>
  if validU8 id v then .ok (.u8 id v) 1 else .err .ProtocolError

def parseU16 (id : Nat) (bytes : List Nat) : PRes Property :=
  if bytes.length < 2 then .err .MalformedPacket else
  idx "property_u16::parse:bytes[0]" bytes 0 fun b0 =>
  idx "property_u16::parse:bytes[1]" bytes 1 fun b1 =>
  let v := b0 * 256 + b1
  if validU16 id v then .ok (.u16 id v) 2 else .err .ProtocolError

def parseU32 (id : Nat) (bytes : List Nat) : PRes Property :=
  if bytes.length < 4 then .err .MalformedPacket else
  idx "property_u32::parse:bytes[0]" bytes 0 fun b0 =>
  idx "property_u32::parse:bytes[1]" bytes 1 fun b1 =>
  idx "property_u32::parse:bytes[2]" bytes 2 fun b2 =>
  idx "property_u32::parse:bytes[3]" bytes 3 fun b3 =>
  let v := ((b0 * 256 + b1) * 256 + b2) * 256 + b3
  if validU32 id v then .ok (.u32 id v) 4 else .err .ProtocolError

def parseVbi (id : Nat) (bytes : List Nat) : PRes Property :=
  match vbiDec bytes with
  | .ok v len => if validVbi id v then .ok (.vbi id v) len else .err .ProtocolError
  | .incomplete => .err .InsufficientBytes
  | .err => .err .InsufficientBytes

def parsePStr (id : Nat) (bytes : List Nat) : PRes Property :=
  (decStr bytes).bind fun s c => .ok (.str id s) c

def parsePBin (id : Nat) (bytes : List Nat) : PRes Property :=
  (decBin bytes).bind fun b c => .ok (.bin id b) c

def parsePair (id : Nat) (bytes : List Nat) : PRes Property :=
  (decStr bytes).bind fun k kc =>
  sliceFrom "property_string_pair::parse:bytes[key_consumed..]" bytes kc fun rest =>
  (decStr rest).bind fun v vc => .ok (.pair id k v) (kc + vc)

/-- `Property::parse` -/
def Property.parse (bytes : List Nat) : PRes Property :=
  if bytes.isEmpty then .err .MalformedPacket else
  idx "Property::parse:bytes[0]" bytes 0 fun id =>
  match propShape id with
  | none => .err .MalformedPacket
  | some sh =>
    sliceFrom "Property::parse:bytes[1..]" bytes 1 fun rest =>
    let r := match sh with
      | .u8 => parseU8 id rest
      | .u16 => parseU16 id rest
      | .u32 => parseU32 id rest
      | .vbi => parseVbi id rest
      | .str => parsePStr id rest
      | .bin => parsePBin id rest
      | .pair => parsePair id rest
    r.bind fun p l => .ok p (l + 1)

abbrev Props := List Property

def Props.encode (ps : Props) : List Nat := (ps.map Property.encode).flatten
def Props.size (ps : Props) : Nat := (ps.map Property.size).sum
def Props.buffers (ps : Props) : List (List Nat) := (ps.map Property.buffers).flatten

/-- the `while cursor < props_end` loop on the bounded region `data[cursor..props_end]`;
    returns the properties and the bytes the cursor advanced.  Fuel = region length (each
    property consumes at least one byte; exhausting it is shown impossible). -/
def propsLoop : Nat → List Nat → PRes Props
  | 0, region => if region.isEmpty then .ok [] 0 else .panic "Properties::parse:fuel"
  | fuel + 1, region =>
    if region.isEmpty then .ok [] 0
    else
      (Property.parse region).bind fun p c =>
      (propsLoop fuel (region.drop c)).bind fun ps c' => .ok (p :: ps) (c + c')

/-- `Properties::parse` -/
def Props.parse (data : List Nat) : PRes Props :=
  if data.isEmpty then .err .MalformedPacket else
  match vbiDec data with
  | .ok propLen consumed =>
    if propLen = 0 then .ok [] consumed
    else
      let propsEnd := consumed + propLen
      if propsEnd > data.length then .err .MalformedPacket
      else
        slice "Properties::parse:data[cursor..props_end]" data consumed propsEnd fun region =>
        (propsLoop region.length region).bind fun ps c => .ok ps (consumed + c)
  | _ => .err .MalformedPacket

/-! ### placement validators (`validate_*_properties`) -/

def countId (id : Nat) (ps : Props) : Nat := (ps.filter (fun p => p.id == id)).length

/-- common scheme of every validator: an id outside `allowed` → `ProtocolError` (inside the
    loop); after the loop any id of `uniq` seen more than once → `ProtocolError` -/
def propsAllowed (allowed uniq : List Nat) (ps : Props) : Bool :=
  ps.all (fun p => allowed.contains p.id) && uniq.all (fun u => countId u ps ≤ 1)

def validateProps (allowed uniq : List Nat) (ps : Props) : Option Err :=
  if propsAllowed allowed uniq ps then none else some .ProtocolError

def connectAllowed : List Nat := [17, 33, 39, 34, 25, 23, 38, 21, 22]
def connectUniq : List Nat := [17, 33, 39, 34, 25, 23, 21, 22]
def willAllowed : List Nat := [24, 1, 2, 3, 8, 9, 38]
def willUniq : List Nat := [24, 1, 2, 3, 8, 9]
def connackAllowed : List Nat := [17, 33, 36, 37, 39, 18, 34, 31, 40, 41, 42, 19, 26, 28, 21, 22, 38]
def connackUniq : List Nat := [17, 33, 36, 37, 39, 18, 34, 31, 40, 41, 42, 19, 26, 28, 21, 22]
def publishAllowed : List Nat := [3, 9, 2, 1, 8, 11, 35, 38]
def publishUniq : List Nat := [3, 9, 2, 1, 8, 35]
def ackAllowed : List Nat := [31, 38]       -- puback, pubrec, pubrel, pubcomp, suback, unsuback
def ackUniq : List Nat := [31]
def subscribeAllowed : List Nat := [11, 38]
def subscribeUniq : List Nat := [11]        -- at most one Subscription Identifier (tree 1167158)
def unsubscribeAllowed : List Nat := [38]
def unsubscribeUniq : List Nat := []
def disconnectAllowed : List Nat := [17, 31, 38, 28]
def disconnectUniq : List Nat := [17, 31, 28]
def authAllowed : List Nat := [21, 22, 31, 38]
def authUniq : List Nat := [21, 22, 31]

def validateConnectProps := validateProps connectAllowed connectUniq
def validateWillProps := validateProps willAllowed willUniq
def validateConnackProps := validateProps connackAllowed connackUniq
def validatePublishProps := validateProps publishAllowed publishUniq
def validateAckProps := validateProps ackAllowed ackUniq
def validateSubscribeProps := validateProps subscribeAllowed subscribeUniq
def validateUnsubscribeProps := validateProps unsubscribeAllowed unsubscribeUniq
def validateDisconnectProps := validateProps disconnectAllowed disconnectUniq

/-- `validate_auth_packet(reason_code, &props)`; `rc = none` also stands for an unknown code
    (`try_from(..).ok()`), which the parser has excluded before -/
def validateAuth (rc : Option Nat) (props : Option Props) : Option Err :=
  match props with
  | some ps =>
    if ¬ propsAllowed authAllowed authUniq ps then some .ProtocolError
    else if countId 22 ps > 0 ∧ countId 21 ps = 0 then some .ProtocolError
    else
      match rc with
      | some c => if c ≠ 0 ∧ countId 21 ps = 0 then some .ProtocolError else none
      | none => none
  | none =>
    match rc with
    | some c => if c ≠ 0 then some .ProtocolError else none
    | none => none

end MqttVerif.Codec
