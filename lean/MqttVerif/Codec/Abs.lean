import MqttVerif.Codec.Wf
import MqttVerif.Spec.WireSpec
/-!
# abstraction of an impl-shaped packet to the abstract packet of `WireSpec` (C03)

Forgets the cached lengths; reads the CONNECT / PUBLISH flag bits and the optional fields.
-/
namespace MqttVerif.Codec
open MqttVerif.Spec.Wire (APkt AProp PVal AWill CPType)

def Property.abs : Property → AProp
  | .u8 id v | .u16 id v | .u32 id v | .vbi id v => ⟨id, .num v⟩
  | .str id s => ⟨id, .bytes s⟩
  | .bin id b => ⟨id, .bytes b⟩
  | .pair id k v => ⟨id, .pair k v⟩

def Props.abs (ps : Props) : List AProp := ps.map Property.abs

def AckKind.cp : AckKind → CPType
  | .puback => .PUBACK | .pubrec => .PUBREC | .pubrel => .PUBREL | .pubcomp => .PUBCOMP

def absConnect (level flags keepAlive : Nat) (props : Option Props) (clientId : List Nat) (willProps : Option Props)
    (willTopic willPayload userName password : List Nat) : APkt :=
  .connect level (flags / 2 % 2 == 1) keepAlive (props.map Props.abs) clientId
    (if willFlag flags then
        some { qos := flags / 8 % 4, retain := flags / 32 % 2 == 1, props := willProps.map Props.abs,
               topic := willTopic, payload := willPayload }
      else none)
    (if userNameFlag flags then some userName else none)
    (if passwordFlag flags then some password else none)

def Packet.abs : Packet → APkt
  | .connect3 q => absConnect 4 q.flags q.keepAlive none q.clientId none q.willTopic q.willPayload q.userName q.password
  | .connect5 q => absConnect 5 q.flags q.keepAlive (some q.props) q.clientId (some q.willProps) q.willTopic q.willPayload
      q.userName q.password
  | .connack3 q => .connack (q.flags % 2 == 1) q.rc none
  | .connack5 q => .connack (q.flags % 2 == 1) q.rc (some q.props.abs)
  | .publish3 q => .publish (q.fh / 8 % 2 == 1) (q.fh / 2 % 4) (q.fh % 2 == 1) q.topic q.pid none q.payload
  | .publish5 q => .publish (q.fh / 8 % 2 == 1) (q.fh / 2 % 4) (q.fh % 2 == 1) q.topic q.pid (some q.props.abs) q.payload
  | .puback3 q => .ack .PUBACK q.pid q.rc none
  | .pubrec3 q => .ack .PUBREC q.pid q.rc none
  | .pubrel3 q => .ack .PUBREL q.pid q.rc none
  | .pubcomp3 q => .ack .PUBCOMP q.pid q.rc none
  | .puback5 q => .ack .PUBACK q.pid q.rc (q.props.map Props.abs)
  | .pubrec5 q => .ack .PUBREC q.pid q.rc (q.props.map Props.abs)
  | .pubrel5 q => .ack .PUBREL q.pid q.rc (q.props.map Props.abs)
  | .pubcomp5 q => .ack .PUBCOMP q.pid q.rc (q.props.map Props.abs)
  | .subscribe3 q => .subscribe q.pid none (q.entries.map fun e => (e.topic, e.opts))
  | .subscribe5 q => .subscribe q.pid (some q.props.abs) (q.entries.map fun e => (e.topic, e.opts))
  | .suback3 q => .suback q.pid none q.codes
  | .suback5 q => .suback q.pid (some q.props.abs) q.codes
  | .unsubscribe3 q => .unsubscribe q.pid none q.topics
  | .unsubscribe5 q => .unsubscribe q.pid (some q.props.abs) q.topics
  | .unsuback3 q => .unsuback q.pid none []
  | .unsuback5 q => .unsuback q.pid (some q.props.abs) q.codes
  | .pingreq3 _ | .pingreq5 _ => .pingreq
  | .pingresp3 _ | .pingresp5 _ => .pingresp
  | .disconnect3 _ => .disconnect none none
  | .disconnect5 q => .disconnect q.rc (q.props.map Props.abs)
  | .auth5 q => .auth q.rc (q.props.map Props.abs)

end MqttVerif.Codec
