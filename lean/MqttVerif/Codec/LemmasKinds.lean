import MqttVerif.Codec.Lemmas
/-!
# L1 Codec — per-kind totality lemmas (C04): no panic, `consumed ≤ input.length`

`X.parse_sat : Sat (X.parse … data) (fun p c => c ≤ data.length)` — for every `List Nat`.
Parsers that cache a Remaining Length computed from a quantity that grows with the input need
`data.length ≤ vbiMax` (the Rust `from_u32(..).unwrap()` panics beyond; the framing layer
never delivers such a body).
-/
namespace MqttVerif.Codec

/-! ### CONNECT -/

theorem parseConnectHead_sat (level : Nat) (data : List Nat) :
    Sat (parseConnectHead level data) (fun _ c => c = 10 ∧ 10 ≤ data.length) := by
  unfold parseConnectHead
  split
  · trivial
  · refine sat_idx (by omega) fun n0 => sat_idx (by omega) fun n1 => sat_idx (by omega) fun n2 =>
      sat_idx (by omega) fun n3 => sat_idx (by omega) fun n4 => sat_idx (by omega) fun n5 => ?_
    split
    · trivial
    · split
      · trivial
      · refine sat_idx (by omega) fun ver => ?_
        split
        · trivial
        · split
          · trivial
          · refine sat_idx (by omega) fun flags => ?_
            split
            · trivial
            · split
              · trivial
              · refine sat_idx (by omega) fun k0 => sat_idx (by omega) fun k1 => ?_
                rw [sat_ok]
                omega

theorem parseWill_sat (v5 : Bool) (data : List Nat) (cursor : Nat) (t : ConnTail) (hc : cursor ≤ data.length) :
    Sat (parseWill v5 data cursor t) (fun _ c => cursor ≤ c ∧ c ≤ data.length) := by
  unfold parseWill
  refine sat_bind (P := fun _ c => cursor ≤ c ∧ c ≤ data.length) ?_ fun t1 c1 ⟨h1, h2⟩ => ?_
  · split
    · refine sat_sliceFrom hc fun d hd => ?_
      refine sat_bind (Props.parse_sat d) fun wp c ⟨_, h2, h3, _⟩ => ?_
      split
      · trivial
      · refine sat_vbiOf h3 ?_
        rw [sat_ok]; omega
    · rw [sat_ok]; omega
  · refine sat_sliceFrom h2 fun d hd => ?_
    refine sat_bind (decStr_sat d) fun wt c ⟨_, h4, _⟩ => ?_
    simp only
    refine sat_sliceFrom (by omega) fun d2 hd2 => ?_
    refine sat_bind (decBin_sat d2) fun wp c2 ⟨_, h6⟩ => ?_
    rw [sat_ok]; omega

theorem parseConnectTail_sat (v5 : Bool) (flags : Nat) (data : List Nat) (cursor : Nat) (hc : cursor ≤ data.length) :
    Sat (parseConnectTail v5 flags data cursor) (fun _ c => cursor ≤ c ∧ c ≤ data.length) := by
  unfold parseConnectTail
  refine sat_sliceFrom hc fun d hd => ?_
  refine sat_bind (sat_mapErr (decStr_sat d)) fun cid c ⟨_, h2, _⟩ => ?_
  simp only
  refine sat_bind (P := fun _ c' => cursor ≤ c' ∧ c' ≤ data.length) ?_ fun t1 c1 ⟨h3, h4⟩ => ?_
  · split
    · exact (parseWill_sat v5 data (cursor + c) _ (by omega)).mono fun _ c' ⟨a, b⟩ => ⟨by omega, b⟩
    · rw [sat_ok]; omega
  · refine sat_bind (P := fun _ c' => cursor ≤ c' ∧ c' ≤ data.length) ?_ fun t2 c2 ⟨h5, h6⟩ => ?_
    · split
      · refine sat_sliceFrom h4 fun d hd => ?_
        refine sat_bind (sat_mapErr (decStr_sat d)) fun u c ⟨_, h8, _⟩ => ?_
        rw [sat_ok]; omega
      · rw [sat_ok]; omega
    · refine sat_bind (P := fun _ c' => cursor ≤ c' ∧ c' ≤ data.length) ?_ fun t3 c3 ⟨h7, h8⟩ => ?_
      · split
        · refine sat_sliceFrom h6 fun d hd => ?_
          refine sat_bind (sat_mapErr (decBin_sat d)) fun u c ⟨_, h8⟩ => ?_
          rw [sat_ok]; omega
        · rw [sat_ok]; omega
      · split
        · trivial
        · rw [sat_ok]; omega

theorem Connect3.parse_sat (data : List Nat) (hl : data.length ≤ vbiMax) :
    Sat (Connect3.parse data) (fun _ c => c ≤ data.length) := by
  unfold Connect3.parse
  refine sat_bind (parseConnectHead_sat 4 data) fun fk c ⟨h1, h2⟩ => ?_
  refine sat_bind (parseConnectTail_sat false fk.1 data c (by omega)) fun t c2 ⟨h3, h4⟩ => ?_
  refine sat_vbiOf (by omega) ?_
  rw [sat_ok]; exact h4

theorem Connect5.parse_sat (data : List Nat) (hl : data.length ≤ vbiMax) :
    Sat (Connect5.parse data) (fun _ c => c ≤ data.length) := by
  unfold Connect5.parse
  refine sat_bind (parseConnectHead_sat 5 data) fun fk c ⟨h1, h2⟩ => ?_
  refine sat_bind (parsePropsAt_sat _ _ data c (by omega)) fun pp pc ⟨_, h4, _, _, _⟩ => ?_
  simp only
  refine sat_bind (parseConnectTail_sat true fk.1 data (c + pc) h4) fun t c2 ⟨h5, h6⟩ => ?_
  refine sat_vbiOf (by omega) ?_
  rw [sat_ok]; exact h6

/-! ### CONNACK -/

theorem Connack3.parse_sat (data : List Nat) : Sat (Connack3.parse data) (fun _ c => c ≤ data.length) := by
  unfold Connack3.parse
  split
  · trivial
  · refine sat_idx (by omega) fun flags => sat_idx (by omega) fun code => ?_
    split
    · trivial
    · rw [sat_ok]; omega

theorem Connack5.parse_sat (data : List Nat) (hl : data.length ≤ vbiMax) :
    Sat (Connack5.parse data) (fun _ c => c ≤ data.length) := by
  unfold Connack5.parse
  split
  · trivial
  · refine sat_idx (by omega) fun flags => ?_
    split
    · trivial
    · refine sat_idx (by omega) fun code => ?_
      split
      · trivial
      · refine sat_bind (parsePropsAt_sat _ _ data 2 (by omega)) fun pp pc ⟨_, h4, _, _, _⟩ => ?_
        simp only
        refine sat_vbiOf (by omega) ?_
        rw [sat_ok]; exact h4

/-! ### PUBLISH -/

theorem parsePublishHead_sat (v5 : Bool) (pw flags : Nat) (data : List Nat) :
    Sat (parsePublishHead v5 pw flags data)
      (fun tp c => c ≤ data.length ∧ strSize tp.1 + (if tp.2.isSome then pw else 0) = c) := by
  unfold parsePublishHead
  simp only
  split
  · trivial
  · refine sat_sliceFrom (by omega) fun d hd => ?_
    refine sat_bind (decStr_sat d) fun topic c ⟨h1, h2, _⟩ => ?_
    split
    · trivial
    · split
      · split
        · trivial
        · refine sat_slice (by omega) (by omega) fun idb hi => ?_
          split
          · trivial
          · rw [sat_ok]
            simp only [strSize, Option.isSome_some, if_true]
            omega
      · rw [sat_ok]
        simp only [strSize, Option.isSome_none]
        simp
        omega

theorem Publish3.parse_sat (pw flags : Nat) (data : List Nat) (hl : data.length ≤ vbiMax) :
    Sat (Publish3.parse pw flags data) (fun _ c => c ≤ data.length) := by
  unfold Publish3.parse
  refine sat_bind (parsePublishHead_sat false pw flags data) fun tp c ⟨h1, h2⟩ => ?_
  refine sat_usub h1 ?_
  refine sat_sliceFrom h1 fun payload hp => ?_
  simp only
  refine sat_vbiOf (by omega) ?_
  rw [sat_ok]; omega

theorem Publish5.parse_sat (pw flags : Nat) (data : List Nat) (hl : data.length < vbiMax) :
    Sat (Publish5.parse pw flags data) (fun _ c => c ≤ data.length) := by
  unfold Publish5.parse
  refine sat_bind (parsePublishHead_sat true pw flags data) fun tp c ⟨h1, h2⟩ => ?_
  refine sat_bind (P := fun pp c' => c ≤ c' ∧ c' ≤ data.length ∧ c + vbiSize pp.2 + pp.1.size ≤ c' + 1) ?_
    fun pp c' ⟨h3, h4, h5⟩ => ?_
  · split
    · refine sat_bind (parsePropsAt_sat _ _ data c h1) fun pp pc ⟨h6, h7, _, _, _⟩ => ?_
      rw [sat_ok]; omega
    · rw [sat_ok]
      have : vbiSize 0 = 1 := by decide
      simp only [this, Props.size, List.map_nil, List.sum_nil]
      omega
  · refine sat_usub h4 ?_
    refine sat_sliceFrom h4 fun payload hp => ?_
    simp only
    refine sat_vbiOf (by omega) ?_
    rw [sat_ok]; omega

/-! ### acks, DISCONNECT, AUTH -/

theorem Ack3.parse_sat (k : AckKind) (pw : Nat) (data : List Nat) (hpw : pw + 1 ≤ vbiMax) :
    Sat (Ack3.parse k pw data) (fun _ c => c ≤ data.length) := by
  unfold Ack3.parse
  split
  · trivial
  · refine sat_slice (by omega) (by omega) fun idb hi => ?_
    split
    · trivial
    · simp only
      split
      · refine sat_idx (by omega) fun rc => ?_
        split
        · trivial
        · refine sat_vbiOf hpw ?_
          rw [sat_ok]; omega
      · refine sat_vbiOf (by omega) ?_
        rw [sat_ok]; omega

theorem parseRcProps_sat (site : String) (rcOk : Nat → Bool) (validate : Props → Option Err)
    (data : List Nat) (cursor : Nat) (hc : cursor ≤ data.length) :
    Sat (parseRcProps site rcOk validate data cursor)
      (fun r c => cursor ≤ c ∧ c ≤ data.length ∧ cursor + rcPropsRemaining r.1 r.2.1 r.2.2 ≤ c) := by
  unfold parseRcProps
  split
  · refine sat_idx (by omega) fun rc => ?_
    split
    · trivial
    · simp only
      split
      · refine sat_bind (parsePropsAt_sat _ _ data (cursor + 1) (by omega)) fun pp pc ⟨h1, h2, _, _, _⟩ => ?_
        rw [sat_ok]
        simp only [rcPropsRemaining, optPropsSize, Option.isSome_some, if_true]
        omega
      · rw [sat_ok]
        simp only [rcPropsRemaining, optPropsSize, Option.isSome_some, Option.isSome_none, if_true]
        simp
        omega
  · rw [sat_ok]
    simp only [rcPropsRemaining, optPropsSize, Option.isSome_none]
    simp
    omega

theorem Ack5.parse_sat (k : AckKind) (pw : Nat) (data : List Nat) (hl : data.length ≤ vbiMax) :
    Sat (Ack5.parse k pw data) (fun _ c => c ≤ data.length) := by
  unfold Ack5.parse
  split
  · trivial
  · refine sat_slice (by omega) (by omega) fun idb hi => ?_
    split
    · trivial
    · refine sat_bind (parseRcProps_sat _ _ _ data pw (by omega)) fun r c ⟨h1, h2, h3⟩ => ?_
      simp only
      refine sat_vbiOf ?_ ?_
      · simp only [rcPropsRemaining] at h3; omega
      · rw [sat_ok]; exact h2

theorem Disconnect5.parse_sat (data : List Nat) (hl : data.length ≤ vbiMax) :
    Sat (Disconnect5.parse data) (fun _ c => c ≤ data.length) := by
  unfold Disconnect5.parse
  refine sat_bind (parseRcProps_sat _ _ _ data 0 (by omega)) fun r c ⟨h1, h2, h3⟩ => ?_
  refine sat_vbiOf (by omega) ?_
  rw [sat_ok]; exact h2

theorem Auth5.parse_sat (data : List Nat) (hl : data.length ≤ vbiMax) :
    Sat (Auth5.parse data) (fun _ c => c ≤ data.length) := by
  unfold Auth5.parse
  refine sat_bind (parseRcProps_sat _ _ _ data 0 (by omega)) fun r c ⟨h1, h2, h3⟩ => ?_
  split
  · trivial
  · refine sat_vbiOf (by omega) ?_
    rw [sat_ok]; exact h2

/-! ### SUBSCRIBE / SUBACK / UNSUBSCRIBE / UNSUBACK -/

theorem parseIdFront_sat (site : String) (pw : Nat) (data : List Nat) :
    Sat (parseIdFront site pw data) (fun _ c => c = pw ∧ pw ≤ data.length) := by
  unfold parseIdFront
  split
  · trivial
  · refine sat_slice (by omega) (by omega) fun idb hi => ?_
    split
    · trivial
    · rw [sat_ok]; omega

theorem Subscribe3.parse_sat (pw : Nat) (data : List Nat) (hl : data.length ≤ vbiMax) :
    Sat (Subscribe3.parse pw data) (fun _ c => c ≤ data.length) := by
  unfold Subscribe3.parse
  refine sat_bind (parseIdFront_sat _ pw data) fun pid c ⟨h1, h2⟩ => ?_
  refine sat_sliceFrom (by omega) fun rest hr => ?_
  refine sat_bind (entriesLoop_sat rest.length rest (Nat.le_refl _)) fun es c2 ⟨h3, h4⟩ => ?_
  split
  · trivial
  · refine sat_vbiOf (by omega) ?_
    rw [sat_ok]; omega

theorem Suback3.parse_sat (pw : Nat) (data : List Nat) (hl : data.length ≤ vbiMax) :
    Sat (Suback3.parse pw data) (fun _ c => c ≤ data.length) := by
  unfold Suback3.parse
  refine sat_bind (parseIdFront_sat _ pw data) fun pid c ⟨h1, h2⟩ => ?_
  refine sat_sliceFrom (by omega) fun codes hr => ?_
  split
  · trivial
  · split
    · trivial
    · refine sat_vbiOf (by omega) ?_
      rw [sat_ok]; omega

theorem Unsubscribe3.parse_sat (pw : Nat) (data : List Nat) (hl : data.length ≤ vbiMax) :
    Sat (Unsubscribe3.parse pw data) (fun _ c => c ≤ data.length) := by
  unfold Unsubscribe3.parse
  refine sat_bind (parseIdFront_sat _ pw data) fun pid c ⟨h1, h2⟩ => ?_
  refine sat_sliceFrom (by omega) fun rest hr => ?_
  refine sat_bind (topicsLoop_sat rest.length rest (Nat.le_refl _)) fun ts c2 ⟨h3, h4⟩ => ?_
  split
  · trivial
  · refine sat_vbiOf (by omega) ?_
    rw [sat_ok]; omega

theorem Unsuback3.parse_sat (pw : Nat) (data : List Nat) (hpw : pw ≤ vbiMax) :
    Sat (Unsuback3.parse pw data) (fun _ c => c ≤ data.length) := by
  unfold Unsuback3.parse
  refine sat_bind (parseIdFront_sat _ pw data) fun pid c ⟨h1, h2⟩ => ?_
  refine sat_vbiOf hpw ?_
  rw [sat_ok]; omega

theorem Subscribe5.parse_sat (pw : Nat) (data : List Nat) (hl : data.length ≤ vbiMax) :
    Sat (Subscribe5.parse pw data) (fun _ c => c ≤ data.length) := by
  unfold Subscribe5.parse
  refine sat_bind (parseIdFront_sat _ pw data) fun pid c ⟨h1, h2⟩ => ?_
  refine sat_bind (parsePropsAt_sat _ _ data c (by omega)) fun pp pc ⟨_, h4, _, _, _⟩ => ?_
  simp only
  refine sat_sliceFrom h4 fun rest hr => ?_
  refine sat_bind (entriesLoop_sat rest.length rest (Nat.le_refl _)) fun es c2 ⟨h5, h6⟩ => ?_
  split
  · trivial
  · split
    · trivial
    · refine sat_vbiOf (by omega) ?_
      rw [sat_ok]; omega

theorem Codes5.parse_sat (rcOk : Nat → Bool) (pw : Nat) (data : List Nat) (hl : data.length ≤ vbiMax) :
    Sat (Codes5.parse rcOk pw data) (fun _ c => c ≤ data.length) := by
  unfold Codes5.parse
  refine sat_bind (parseIdFront_sat _ pw data) fun pid c ⟨h1, h2⟩ => ?_
  refine sat_bind (parsePropsAt_sat _ _ data c (by omega)) fun pp pc ⟨_, h4, _, _, _⟩ => ?_
  simp only
  refine sat_sliceFrom h4 fun codes hr => ?_
  split
  · trivial
  · split
    · trivial
    · refine sat_vbiOf (by omega) ?_
      rw [sat_ok]; omega

theorem Unsubscribe5.parse_sat (pw : Nat) (data : List Nat) (hl : data.length ≤ vbiMax) :
    Sat (Unsubscribe5.parse pw data) (fun _ c => c ≤ data.length) := by
  unfold Unsubscribe5.parse
  refine sat_bind (parseIdFront_sat _ pw data) fun pid c ⟨h1, h2⟩ => ?_
  refine sat_bind (parsePropsAt_sat _ _ data c (by omega)) fun pp pc ⟨_, h4, _, _, _⟩ => ?_
  simp only
  refine sat_sliceFrom h4 fun rest hr => ?_
  refine sat_bind (topicsLoop_sat rest.length rest (Nat.le_refl _)) fun ts c2 ⟨h5, h6⟩ => ?_
  split
  · trivial
  · split
    · trivial
    · refine sat_vbiOf (by omega) ?_
      rw [sat_ok]; omega

theorem Empty.parse_sat (data : List Nat) : Sat (Empty.parse data) (fun _ c => c ≤ data.length) := by
  unfold Empty.parse
  rw [sat_ok]; omega

/-! ### the sum type -/

/-- every parser reachable through `Packet.parse` (ids of 2 or 4 bytes, bodies the framing layer
    can deliver) -/
theorem Packet.parse_sat (version pw fh : Nat) (body : List Nat) (r : PRes Packet)
    (hpw : pw = 2 ∨ pw = 4) (hl : body.length < vbiMax) (h : Packet.parse version pw fh body = some r) :
    Sat r (fun _ c => c ≤ body.length) := by
  have hl' : body.length ≤ vbiMax := by omega
  have hpw1 : pw + 1 ≤ vbiMax := by unfold vbiMax; omega
  have hpw2 : pw ≤ vbiMax := by omega
  unfold Packet.parse at h
  simp only at h
  split at h
  · split at h <;> first
      | (injection h with h; subst h; refine sat_map ?_ (fun _ _ hh => hh); first
          | exact Connect5.parse_sat body hl' | exact Connack5.parse_sat body hl'
          | exact Publish5.parse_sat pw _ body hl | exact Ack5.parse_sat _ pw body hl'
          | exact Subscribe5.parse_sat pw body hl' | exact Codes5.parse_sat _ pw body hl'
          | exact Unsubscribe5.parse_sat pw body hl' | exact Empty.parse_sat body
          | exact Disconnect5.parse_sat body hl' | exact Auth5.parse_sat body hl')
      | (exact absurd h (by simp))
  · split at h <;> first
      | (injection h with h; subst h; refine sat_map ?_ (fun _ _ hh => hh); first
          | exact Connect3.parse_sat body hl' | exact Connack3.parse_sat body
          | exact Publish3.parse_sat pw _ body hl' | exact Ack3.parse_sat _ pw body hpw1
          | exact Subscribe3.parse_sat pw body hl' | exact Suback3.parse_sat pw body hl'
          | exact Unsubscribe3.parse_sat pw body hl' | exact Unsuback3.parse_sat pw body hpw2
          | exact Empty.parse_sat body)
      | (exact absurd h (by simp))

end MqttVerif.Codec
