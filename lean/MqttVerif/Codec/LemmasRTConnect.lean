import MqttVerif.Codec.LemmasRTKinds
/-!
# L1 Codec — CONNECT round trip (C02), v3.1.1 and v5.0
-/
namespace MqttVerif.Codec

theorem sliceFrom_of_split {α : Type} (site : String) (data pre suf : List Nat) (a : Nat) (k : List Nat → PRes α)
    (hd : data = pre ++ suf) (ha : a = pre.length) : sliceFrom site data a k = k suf := by
  subst hd; exact sliceFrom_append site pre suf a k ha

theorem parseConnectHead_enc (level flags ka : Nat) (rest : List Nat) (hk : ka < 65536)
    (hfl : ¬ (flags % 2 ≠ 0 ∨ flags / 8 % 4 = 3 ∨ (flags / 4 % 2 = 0 ∧ flags / 8 % 8 ≠ 0))) :
    parseConnectHead level (connectBody level flags ka ++ rest) = .ok (flags, ka) 10 := by
  have : ka / 256 * 256 + ka % 256 = ka := by omega
  unfold parseConnectHead connectBody encU16
  simp only [List.cons_append, List.nil_append, List.length_cons, idx_cons_zero, idx_cons_succ]
  rw [if_neg (by omega), if_neg (by simp), if_neg (by omega), if_neg (by simp), if_neg (by omega), if_neg hfl,
    if_neg (by omega), this]

/-- will part of the payload -/
def willEnc (v5 : Bool) (t : ConnTail) : List Nat :=
  (if v5 then vbiEnc t.willPropLen ++ Props.encode t.willProps else []) ++ (encStr t.willTopic ++ encStr t.willPayload)

/-- client id … password as serialised under `flags` -/
def tailEnc (v5 : Bool) (flags : Nat) (t : ConnTail) : List Nat :=
  encStr t.clientId ++ ((if willFlag flags then willEnc v5 t else []) ++
    ((if userNameFlag flags then encStr t.userName else []) ++ (if passwordFlag flags then encStr t.password else [])))

/-- well-formedness of the tail (what the CONNECT checks say about it) -/
structure TailOk (v5 : Bool) (flags : Nat) (t : ConnTail) : Prop where
  cid : strOk t.clientId = true
  wt : strOk t.willTopic = true
  wp : t.willPayload.length ≤ 65535
  un : strOk t.userName = true
  pw : t.password.length ≤ 65535
  pwNeedsUser : passwordFlag flags = true → userNameFlag flags = true
  noWill : willFlag flags = false → t.willTopic = [] ∧ t.willPayload = [] ∧ t.willProps = [] ∧ t.willPropLen = 0
  noUser : userNameFlag flags = false → t.userName = []
  noPass : passwordFlag flags = false → t.password = []
  wprops : propsOk t.willProps = true ∧ propsAllowed willAllowed willUniq t.willProps = true
            ∧ t.willPropLen = t.willProps.size ∧ t.willPropLen ≤ vbiMax
  v3 : v5 = false → t.willProps = [] ∧ t.willPropLen = 0

theorem willEnc_length (v5 : Bool) (t : ConnTail) (flags : Nat) (h : TailOk v5 flags t) :
    (willEnc v5 t).length = (if v5 then vbiSize t.willPropLen + t.willProps.size else 0)
      + (strSize t.willTopic + strSize t.willPayload) := by
  unfold willEnc
  cases v5 with
  | false => simp [encStr_length]
  | true =>
    simp only [if_true, List.length_append, encStr_length, vbiEnc_length _ h.wprops.2.2.2,
      Props.encode_length _ h.wprops.1]

theorem parseWill_enc (v5 : Bool) (flags : Nat) (data pre suf : List Nat) (t0 t : ConnTail) (h : TailOk v5 flags t)
    (hd : data = pre ++ (willEnc v5 t ++ suf))
    (h0 : t0 = { clientId := t.clientId }) :
    parseWill v5 data pre.length t0 =
      .ok { clientId := t.clientId, willPropLen := t.willPropLen, willProps := t.willProps, willTopic := t.willTopic,
            willPayload := t.willPayload } (pre.length + (willEnc v5 t).length) := by
  obtain ⟨wtl, wtu⟩ := (strOk_iff _).1 h.wt
  obtain ⟨hwo, hwa, hwl, hwm⟩ := h.wprops
  subst h0
  unfold parseWill
  cases v5 with
  | false =>
    obtain ⟨e1, e2⟩ := h.v3 rfl
    have hd' : data = pre ++ (encStr t.willTopic ++ (encStr t.willPayload ++ suf)) := by
      rw [hd]; simp [willEnc, List.append_assoc]
    simp only [Bool.false_eq_true, if_false, bind_ok]
    rw [sliceFrom_of_split _ data pre _ _ _ hd' rfl, decStr_enc _ _ wtl wtu, bind_ok]
    rw [sliceFrom_of_split _ data (pre ++ encStr t.willTopic) (encStr t.willPayload ++ suf) _ _
      (by rw [hd']; simp [List.append_assoc]) (by simp [encStr_length]),
      decBin_enc _ _ h.wp, bind_ok]
    simp only [willEnc, Bool.false_eq_true, if_false, List.nil_append, List.length_append, encStr_length, e1, e2]
    congr 1; omega
  | true =>
    have hd' : data = pre ++ (vbiEnc t.willProps.size ++ (Props.encode t.willProps ++
        (encStr t.willTopic ++ (encStr t.willPayload ++ suf)))) := by
      rw [hd]; simp [willEnc, List.append_assoc, hwl]
    have hvl := vbiEnc_length _ hwm
    have hel := Props.encode_length _ hwo
    rw [hwl] at hvl hwm
    simp only [if_true]
    rw [sliceFrom_of_split _ data pre _ _ _ hd' rfl, ← List.append_assoc,
      Props.parse_enc _ _ hwo hwm, bind_ok]
    have hv : validateWillProps t.willProps = none := validateProps_none _ _ _ hwa
    rw [hv]
    dsimp only
    rw [vbiOf_le _ _ _ hwm, bind_ok]
    rw [sliceFrom_of_split _ data (pre ++ (vbiEnc t.willProps.size ++ Props.encode t.willProps))
      (encStr t.willTopic ++ (encStr t.willPayload ++ suf)) _ _
      (by rw [hd']; simp [List.append_assoc]) (by simp [hvl, hel]), decStr_enc _ _ wtl wtu, bind_ok]
    dsimp only
    rw [sliceFrom_of_split _ data (pre ++ (vbiEnc t.willProps.size ++ (Props.encode t.willProps ++ encStr t.willTopic)))
      (encStr t.willPayload ++ suf) _ _
      (by rw [hd']; simp [List.append_assoc]) (by simp [hvl, hel, encStr_length]; omega), decBin_enc _ _ h.wp, bind_ok]
    simp only [willEnc, if_true, List.length_append, encStr_length, hwl, hvl, hel]
    congr 1; omega

theorem userStep (flag : Bool) (data pre rest u : List Nat) (cursor : Nat)
    (cid wps wt wp : List Nat) (wpl : Nat) (wps' : Props)
    (hu : strOk u = true) (hd : data = pre ++ ((if flag then encStr u else []) ++ rest)) (hc : cursor = pre.length)
    (hno : flag = false → u = []) :
    (if flag = true then
        sliceFrom "connect::parse:user_name data[cursor..]" data cursor fun d =>
          ((decStr d).mapErr Err.BadUserNameOrPassword).bind fun u' c =>
            PRes.ok ({ clientId := cid, willPropLen := wpl, willProps := wps', willTopic := wt, willPayload := wp,
                       userName := u', password := [] } : ConnTail) (cursor + c)
      else PRes.ok ({ clientId := cid, willPropLen := wpl, willProps := wps', willTopic := wt, willPayload := wp,
                      userName := [], password := [] } : ConnTail) cursor)
      = .ok ({ clientId := cid, willPropLen := wpl, willProps := wps', willTopic := wt, willPayload := wp,
               userName := u, password := [] } : ConnTail) (cursor + (if flag then encStr u else []).length) := by
  have _ := wps
  obtain ⟨ul, uu⟩ := (strOk_iff _).1 hu
  subst hc
  cases flag with
  | true =>
    simp only [if_true] at hd ⊢
    rw [sliceFrom_of_split _ data pre _ _ _ hd rfl, decStr_enc _ _ ul uu, mapErr_ok, bind_ok, encStr_length]
  | false =>
    have := hno rfl
    subst this
    simp

theorem passStep (flag : Bool) (data pre rest pwd : List Nat) (cursor : Nat)
    (cid wt wp un : List Nat) (wpl : Nat) (wps' : Props)
    (hp : pwd.length ≤ 65535) (hd : data = pre ++ ((if flag then encStr pwd else []) ++ rest)) (hc : cursor = pre.length)
    (hno : flag = false → pwd = []) :
    (if flag = true then
        sliceFrom "connect::parse:password data[cursor..]" data cursor fun d =>
          ((decBin d).mapErr Err.BadUserNameOrPassword).bind fun p' c =>
            PRes.ok ({ clientId := cid, willPropLen := wpl, willProps := wps', willTopic := wt, willPayload := wp,
                       userName := un, password := p' } : ConnTail) (cursor + c)
      else PRes.ok ({ clientId := cid, willPropLen := wpl, willProps := wps', willTopic := wt, willPayload := wp,
                      userName := un, password := [] } : ConnTail) cursor)
      = .ok ({ clientId := cid, willPropLen := wpl, willProps := wps', willTopic := wt, willPayload := wp,
               userName := un, password := pwd } : ConnTail) (cursor + (if flag then encStr pwd else []).length) := by
  subst hc
  cases flag with
  | true =>
    simp only [if_true] at hd ⊢
    rw [sliceFrom_of_split _ data pre _ _ _ hd rfl, decBin_enc _ _ hp, mapErr_ok, bind_ok, encStr_length]
  | false =>
    have := hno rfl
    subst this
    simp

theorem parseConnectTail_enc (v5 : Bool) (flags : Nat) (data pre : List Nat) (t : ConnTail) (h : TailOk v5 flags t)
    (hd : data = pre ++ tailEnc v5 flags t) :
    parseConnectTail v5 flags data pre.length = .ok t data.length := by
  obtain ⟨cl, cu⟩ := (strOk_iff _).1 h.cid
  unfold parseConnectTail
  have hd1 : data = pre ++ (encStr t.clientId ++ ((if willFlag flags then willEnc v5 t else []) ++
      ((if userNameFlag flags then encStr t.userName else []) ++ ((if passwordFlag flags then encStr t.password else []) ++ [])))) := by
    rw [hd]; simp [tailEnc]
  rw [sliceFrom_of_split _ data pre _ _ _ hd1 rfl, decStr_enc _ _ cl cu, mapErr_ok, bind_ok]
  dsimp only
  -- will
  have hwstep : (if willFlag flags = true then parseWill v5 data (pre.length + strSize t.clientId) { clientId := t.clientId }
        else PRes.ok { clientId := t.clientId } (pre.length + strSize t.clientId))
      = .ok { clientId := t.clientId, willPropLen := t.willPropLen, willProps := t.willProps, willTopic := t.willTopic,
              willPayload := t.willPayload }
          ((pre ++ encStr t.clientId).length + (if willFlag flags then willEnc v5 t else []).length) := by
    by_cases hw : willFlag flags = true
    · rw [if_pos hw, if_pos hw]
      have := parseWill_enc v5 flags data (pre ++ encStr t.clientId)
        ((if userNameFlag flags then encStr t.userName else []) ++ ((if passwordFlag flags then encStr t.password else []) ++ []))
        { clientId := t.clientId } t h (by rw [hd1]; simp [hw, List.append_assoc]) rfl
      simp only [List.length_append, encStr_length] at this ⊢
      exact this
    · have hw' : willFlag flags = false := by simpa using hw
      obtain ⟨e1, e2, e3, e4⟩ := h.noWill hw'
      rw [if_neg hw, if_neg hw]
      simp [e1, e2, e3, e4, encStr_length]
  rw [hwstep, bind_ok]
  dsimp only
  rw [userStep (userNameFlag flags) data (pre ++ (encStr t.clientId ++ (if willFlag flags then willEnc v5 t else [])))
    ((if passwordFlag flags then encStr t.password else []) ++ []) t.userName _ t.clientId [] t.willTopic t.willPayload
    t.willPropLen t.willProps h.un (by rw [hd1]; simp [List.append_assoc]) (by simp only [List.length_append]; omega)
    h.noUser, bind_ok]
  dsimp only
  rw [passStep (passwordFlag flags) data (pre ++ (encStr t.clientId ++ ((if willFlag flags then willEnc v5 t else [])
      ++ (if userNameFlag flags then encStr t.userName else []))))
    [] t.password _ t.clientId t.willTopic t.willPayload t.userName
    t.willPropLen t.willProps h.pw (by rw [hd1]; simp [List.append_assoc]) (by simp only [List.length_append]; omega)
    h.noPass, bind_ok]
  rw [if_neg (by intro ⟨a, b⟩; exact b (h.pwNeedsUser a))]
  congr 1
  rw [hd1]
  simp only [List.length_append, List.length_nil]
  omega

theorem parseConnectTail_enc' (v5 : Bool) (flags : Nat) (data pre : List Nat) (t : ConnTail) (cursor : Nat)
    (h : TailOk v5 flags t) (hd : data = pre ++ tailEnc v5 flags t) (hc : cursor = pre.length) :
    parseConnectTail v5 flags data cursor = .ok t data.length := by
  subst hc; exact parseConnectTail_enc v5 flags data pre t h hd

theorem tailEnc_length (v5 : Bool) (flags : Nat) (t : ConnTail) (h : TailOk v5 flags t) :
    (tailEnc v5 flags t).length = strSize t.clientId
      + (if willFlag flags then (if v5 then vbiSize t.willPropLen + t.willProps.size else 0)
            + (strSize t.willTopic + strSize t.willPayload) else 0)
      + (if userNameFlag flags then strSize t.userName else 0)
      + (if passwordFlag flags then strSize t.password else 0) := by
  unfold tailEnc
  simp only [List.length_append, encStr_length]
  have := willEnc_length v5 t flags h
  cases willFlag flags <;> cases userNameFlag flags <;> cases passwordFlag flags <;>
    simp [this, encStr_length] <;> omega

theorem connectFlagChecks_iff (flags : Nat) (wt wp un pwd : List Nat)
    (h : allOk (connectFlagChecks flags wt wp un pwd) = true) :
    (passwordFlag flags = true → userNameFlag flags = true) ∧ (willFlag flags = false → wt = [] ∧ wp = [])
      ∧ (userNameFlag flags = false → un = []) ∧ (passwordFlag flags = false → pwd = [])
      ∧ ¬ (flags % 2 ≠ 0 ∨ flags / 8 % 4 = 3 ∨ (flags / 4 % 2 = 0 ∧ flags / 8 % 8 ≠ 0)) := by
  simp only [allOk, connectFlagChecks, List.all_cons, List.all_nil, Bool.and_true, Bool.and_eq_true,
    Bool.or_eq_true, List.isEmpty_iff, Bool.not_eq_true', beq_iff_eq, decide_eq_true_eq, willFlag] at h
  obtain ⟨_, hres, hq, hnw, hpu, ⟨hw, hu⟩, hp⟩ := h
  refine ⟨?_, ?_, ?_, ?_, ?_⟩
  · intro a; rcases hpu with b | b
    · rw [a] at b; simp at b
    · exact b
  · intro a; rcases hw with b | b
    · simp only [willFlag, beq_eq_false_iff_ne] at a; exact absurd b a
    · exact b
  · intro a; rcases hu with b | b
    · rw [a] at b; simp at b
    · exact b
  · intro a; rcases hp with b | b
    · rw [a] at b; simp at b
    · exact b
  · rcases hnw with b | ⟨b1, b2⟩ <;> omega

/-! ### CONNECT v3.1.1 -/

def Connect3.tail (p : Connect3) : ConnTail :=
  { clientId := p.clientId, willPropLen := 0, willProps := [], willTopic := p.willTopic, willPayload := p.willPayload,
    userName := p.userName, password := p.password }

def Connect3.body (p : Connect3) : List Nat := connectBody 4 p.flags p.keepAlive ++ tailEnc false p.flags p.tail

theorem Connect3.roundtrip (p : Connect3) (h : allOk p.checks = true) :
    Connect3.parse p.body = .ok p p.body.length ∧ p.encode = 0x10 :: vbiEnc p.remLen ++ p.body
      ∧ p.size = p.encode.length ∧ p.remLen = p.body.length := by
  unfold Connect3.checks at h
  rw [allOk_append] at h
  obtain ⟨hf, h2⟩ := h
  obtain ⟨hpu, hnw, hnu, hnp, hfl⟩ := connectFlagChecks_iff _ _ _ _ _ hf
  simp only [allOk, List.all_cons, List.all_nil, Bool.and_true, Bool.and_eq_true, beq_iff_eq,
    decide_eq_true_eq, binOk] at h2
  obtain ⟨hka, ⟨⟨⟨⟨⟨⟨hcid, hwt⟩, hwp⟩, _⟩, hun⟩, hpw⟩, _⟩, hrl, hmax⟩ := h2
  have htok : TailOk false p.flags p.tail :=
    { cid := hcid, wt := hwt, wp := hwp, un := hun, pw := hpw, pwNeedsUser := hpu,
      noWill := fun a => ⟨(hnw a).1, (hnw a).2, rfl, rfl⟩, noUser := hnu, noPass := hnp,
      wprops := ⟨rfl, rfl, rfl, by unfold vbiMax; exact Nat.zero_le _⟩, v3 := fun _ => ⟨rfl, rfl⟩ }
  have htl := tailEnc_length false p.flags p.tail htok
  have hbl : p.body.length = p.remLen := by
    unfold Connect3.body
    rw [List.length_append, htl, hrl]
    simp [Connect3.remaining, Connect3.tail, connectBody, encU16]
    omega
  have henc : p.encode = 0x10 :: vbiEnc p.remLen ++ p.body := by
    simp [Connect3.encode, Connect3.body, tailEnc, willEnc, Connect3.tail, List.append_assoc]
  refine ⟨?_, henc, by rw [henc]; exact size_of_frame _ _ _ hmax hbl, hbl.symm⟩
  unfold Connect3.parse
  have hb : p.body = connectBody 4 p.flags p.keepAlive ++ tailEnc false p.flags p.tail := rfl
  rw [hb, parseConnectHead_enc 4 p.flags p.keepAlive _ hka hfl, bind_ok]
  dsimp only
  rw [parseConnectTail_enc' false p.flags _ (connectBody 4 p.flags p.keepAlive) p.tail 10 htok rfl rfl, bind_ok]
  rw [← hb, hbl, vbiOf_le _ _ _ hmax]
  cases p; rfl

/-! ### CONNECT v5.0 -/

def Connect5.tail (p : Connect5) : ConnTail :=
  { clientId := p.clientId, willPropLen := p.willPropLen, willProps := p.willProps, willTopic := p.willTopic,
    willPayload := p.willPayload, userName := p.userName, password := p.password }

def Connect5.body (p : Connect5) : List Nat :=
  connectBody 5 p.flags p.keepAlive ++ (vbiEnc p.propLen ++ (Props.encode p.props ++ tailEnc true p.flags p.tail))

theorem Connect5.roundtrip (p : Connect5) (h : allOk p.checks = true) :
    Connect5.parse p.body = .ok p p.body.length ∧ p.encode = 0x10 :: vbiEnc p.remLen ++ p.body
      ∧ p.size = p.encode.length ∧ p.remLen = p.body.length := by
  unfold Connect5.checks at h
  rw [allOk_append, allOk_append, allOk_append, propsChecks_iff] at h
  obtain ⟨⟨⟨hf, h2⟩, hpo, hpa, hpl, hplm⟩, h4⟩ := h
  obtain ⟨hpu, hnw, hnu, hnp, hfl⟩ := connectFlagChecks_iff _ _ _ _ _ hf
  simp only [allOk, List.all_cons, List.all_nil, Bool.and_true, Bool.and_eq_true, beq_iff_eq,
    decide_eq_true_eq, binOk, Bool.or_eq_true, List.isEmpty_iff] at h2 h4
  obtain ⟨hka, ⟨⟨⟨⟨⟨hcid, hwt⟩, hwp⟩, _⟩, hun⟩, hpw⟩, _⟩ := h2
  obtain ⟨hwo, hwa, ⟨hwl, hwm⟩, hwn, hrl, hmax⟩ := h4
  have hnwp : willFlag p.flags = false → p.willProps = [] := by
    intro a; rcases hwn with b | b
    · rw [a] at b; simp at b
    · exact b
  have htok : TailOk true p.flags p.tail :=
    { cid := hcid, wt := hwt, wp := hwp, un := hun, pw := hpw, pwNeedsUser := hpu,
      noWill := fun a => ⟨(hnw a).1, (hnw a).2, hnwp a, by
        show p.willPropLen = 0
        rw [hwl, hnwp a]; rfl⟩,
      noUser := hnu, noPass := hnp,
      wprops := ⟨hwo, hwa, hwl, hwm⟩, v3 := fun a => by simp at a }
  have htl := tailEnc_length true p.flags p.tail htok
  have hel := Props.encode_length p.props hpo
  have hvl := vbiEnc_length p.propLen hplm
  have hbl : p.body.length = p.remLen := by
    unfold Connect5.body
    simp only [List.length_append, htl, hrl, hel, hvl]
    cases hw : willFlag p.flags <;> cases hu : userNameFlag p.flags <;> cases hp : passwordFlag p.flags <;>
      simp [Connect5.remaining, Connect5.tail, connectBody, encU16, hw, hu, hp] <;> omega
  have henc : p.encode = 0x10 :: vbiEnc p.remLen ++ p.body := by
    simp [Connect5.encode, Connect5.body, tailEnc, willEnc, Connect5.tail, List.append_assoc]
  refine ⟨?_, henc, by rw [henc]; exact size_of_frame _ _ _ hmax hbl, hbl.symm⟩
  unfold Connect5.parse
  have hb : p.body = connectBody 5 p.flags p.keepAlive ++ (vbiEnc p.propLen ++ (Props.encode p.props ++ tailEnc true p.flags p.tail)) := rfl
  rw [hb, parseConnectHead_enc 5 p.flags p.keepAlive _ hka hfl, bind_ok]
  dsimp only
  have hpp := parsePropsAt_enc "v5_0::connect::parse:props" validateConnectProps (connectBody 5 p.flags p.keepAlive)
    p.props (tailEnc true p.flags p.tail) 10 rfl hpo (by omega) (validateProps_none _ _ _ hpa)
  rw [← hpl] at hpp
  rw [hpp, bind_ok]
  dsimp only
  rw [parseConnectTail_enc' true p.flags _ (connectBody 5 p.flags p.keepAlive ++ (vbiEnc p.propLen ++ Props.encode p.props))
    p.tail _ htok (by simp [List.append_assoc])
    (by simp only [List.length_append, connectBody, encU16, List.length_cons, List.length_nil, hvl, hel]; omega), bind_ok]
  rw [← hb, hbl, vbiOf_le _ _ _ hmax]
  cases p; rfl

end MqttVerif.Codec
