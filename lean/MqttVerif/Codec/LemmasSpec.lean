import MqttVerif.Codec.LemmasRTAll
import MqttVerif.Codec.Abs
/-!
# C03 — the impl-shaped encoder produces the bytes of the reference encoder: primitives
-/
namespace MqttVerif.Codec
open MqttVerif.Spec.Wire

theorem spec_twoByte (n : Nat) : twoByte n = encU16 n := rfl
theorem spec_fourByte (n : Nat) : fourByte n = encU32 n := rfl
theorem spec_packetId (pw id : Nat) : packetId pw id = encId pw id := rfl
theorem spec_lenPrefixed (bs : List Nat) : lenPrefixed bs = encStr bs := rfl

theorem varInt_small (x : Nat) (h : x < 128) : varInt x = [x] := by
  rw [varInt]; simp [h]

theorem varInt_step (x : Nat) (h : ¬ x < 128) : varInt x = (x % 128 + 128) :: varInt (x / 128) := by
  rw [varInt]; simp [h]

/-- the specification's encoding algorithm and `VariableByteInteger::from_u32` agree on every
    value ≤ 268 435 455 -/
theorem spec_varInt (v : Nat) (hv : v ≤ vbiMax) : varInt v = vbiEnc v := by
  unfold vbiMax at hv
  unfold vbiEnc
  simp only [vbiEncAux]
  by_cases h1 : v < 128
  · rw [varInt_small v h1, if_neg (by omega), Nat.mod_eq_of_lt h1]
  · rw [varInt_step v h1, if_pos (by omega)]
    by_cases h2 : v / 128 < 128
    · rw [varInt_small _ h2, if_neg (by omega), Nat.mod_eq_of_lt h2]
    · rw [varInt_step _ h2, if_pos (by omega)]
      by_cases h3 : v / 128 / 128 < 128
      · rw [varInt_small _ h3, if_neg (by omega), Nat.mod_eq_of_lt h3]
      · rw [varInt_step _ h3, if_pos (by omega)]
        have h4 : v / 128 / 128 / 128 < 128 := by omega
        rw [varInt_small _ h4, if_neg (by omega), Nat.mod_eq_of_lt h4]

def Shape.data : Shape → PData
  | .u8 => .byte | .u16 => .twoByteInt | .u32 => .fourByteInt | .vbi => .varByteInt
  | .str => .utf8 | .bin => .binary | .pair => .utf8Pair

theorem propShape_le (id : Nat) (h : propShape id ≠ none) : id < 43 := by
  unfold propShape at h
  split at h <;> first | omega | (exact absurd rfl h)

/-- the 27 identifiers and their data types: the library's table is Table 2-4 -/
theorem propTable_eq_spec : ∀ id, id < 43 → (propShape id).map Shape.data = propertyType id := by decide

theorem propertyType_of_shape (id : Nat) (sh : Shape) (h : propShape id = some sh) : propertyType id = some sh.data := by
  have hl := propShape_le id (by rw [h]; simp)
  have := propTable_eq_spec id hl
  rw [h] at this
  exact this.symm

theorem spec_prop (p : Property) (h : p.ok = true) : encodeProp p.abs = p.encode := by
  cases p with
  | u8 id v =>
    simp only [Property.ok, Bool.and_eq_true, beq_iff_eq] at h
    have hl := propShape_le id (by rw [h.1]; simp)
    simp [encodeProp, Property.abs, propertyType_of_shape id _ h.1, Shape.data, varInt_small id (by omega), Property.encode]
  | u16 id v =>
    simp only [Property.ok, Bool.and_eq_true, beq_iff_eq] at h
    have hl := propShape_le id (by rw [h.1.1]; simp)
    simp [encodeProp, Property.abs, propertyType_of_shape id _ h.1.1, Shape.data, varInt_small id (by omega), Property.encode,
      spec_twoByte]
  | u32 id v =>
    simp only [Property.ok, Bool.and_eq_true, beq_iff_eq] at h
    have hl := propShape_le id (by rw [h.1.1]; simp)
    simp [encodeProp, Property.abs, propertyType_of_shape id _ h.1.1, Shape.data, varInt_small id (by omega), Property.encode,
      spec_fourByte]
  | vbi id v =>
    simp only [Property.ok, Bool.and_eq_true, beq_iff_eq, decide_eq_true_eq] at h
    have hl := propShape_le id (by rw [h.1.1]; simp)
    simp [encodeProp, Property.abs, propertyType_of_shape id _ h.1.1, Shape.data, varInt_small id (by omega), Property.encode,
      spec_varInt v h.1.2]
  | str id s =>
    simp only [Property.ok, Bool.and_eq_true, beq_iff_eq] at h
    have hl := propShape_le id (by rw [h.1]; simp)
    simp [encodeProp, Property.abs, propertyType_of_shape id _ h.1, Shape.data, varInt_small id (by omega), Property.encode,
      spec_lenPrefixed]
  | bin id b =>
    simp only [Property.ok, Bool.and_eq_true, beq_iff_eq] at h
    have hl := propShape_le id (by rw [h.1.1]; simp)
    simp [encodeProp, Property.abs, propertyType_of_shape id _ h.1.1, Shape.data, varInt_small id (by omega), Property.encode,
      spec_lenPrefixed]
  | pair id k v =>
    simp only [Property.ok, Bool.and_eq_true, beq_iff_eq] at h
    have hl := propShape_le id (by rw [h.1.1]; simp)
    simp [encodeProp, Property.abs, propertyType_of_shape id _ h.1.1, Shape.data, varInt_small id (by omega), Property.encode,
      spec_lenPrefixed]

theorem spec_propsBytes (ps : Props) (h : propsOk ps = true) : propsBytes ps.abs = Props.encode ps := by
  induction ps with
  | nil => rfl
  | cons p ps ih =>
    simp only [propsOk, List.all_cons, Bool.and_eq_true] at h
    have := ih (by simpa [propsOk] using h.2)
    simp only [propsBytes, Props.abs, List.map_cons, List.flatten_cons, Props.encode] at this ⊢
    rw [spec_prop p h.1, this]

/-- Property Length + properties -/
theorem spec_propertiesField (ps : Props) (pl : Nat) (hok : propsOk ps = true) (hpl : pl = ps.size) (hm : pl ≤ vbiMax) :
    propertiesField ps.abs = vbiEnc pl ++ Props.encode ps := by
  unfold propertiesField
  rw [spec_propsBytes ps hok, Props.encode_length ps hok, ← hpl, spec_varInt pl hm]

/-! ### assembling a frame -/

theorem spec_of_parts (pw : Nat) (a : APkt) (fh rl : Nat) (body enc : List Nat)
    (hfh : a.type.value * 16 + a.flags = fh) (hb : a.body pw = body)
    (henc : enc = fh :: vbiEnc rl ++ body) (hrl : rl = body.length) (hm : rl ≤ vbiMax) : a.encode pw = enc := by
  unfold APkt.encode
  rw [hfh, hb, henc, ← hrl, spec_varInt rl hm]

theorem b2n_bit (x : Nat) (h : x ≤ 1) : b2n (x == 1) = x := by
  have : x = 0 ∨ x = 1 := by omega
  rcases this with h | h <;> subst h <;> rfl

theorem spec_entries (es : List SubEntry) :
    ((es.map fun e => (e.topic, e.opts)).map fun f => lenPrefixed f.1 ++ [f.2]).flatten = entriesEncode es := by
  simp only [entriesEncode, List.map_map, Function.comp_def, spec_lenPrefixed]
  rfl

theorem spec_topics (ts : List (List Nat)) : (ts.map lenPrefixed).flatten = topicsEncode ts := rfl

theorem spec_optProps (ps : Option Props) (pl : Nat)
    (h : ∀ q, ps = some q → propsOk q = true ∧ pl = q.size ∧ pl ≤ vbiMax) :
    optProperties (ps.map Props.abs) = encOptProps pl ps := by
  cases ps with
  | none => rfl
  | some q =>
    obtain ⟨a, b, c⟩ := h q rfl
    simp only [Option.map_some, optProperties, encOptProps]
    exact spec_propertiesField q pl a b c

/-- PUBLISH fixed header: type 3, DUP / QoS / RETAIN -/
theorem spec_publish_fh (fh : Nat) (h1 : fh / 16 = 3) (h2 : fh < 64) :
    3 * 16 + (8 * b2n (fh / 8 % 2 == 1) + 2 * (fh / 2 % 4) + b2n (fh % 2 == 1)) = fh := by
  rw [b2n_bit (fh / 8 % 2) (by omega), b2n_bit (fh % 2) (by omega)]
  omega

/-- CONNECT flags byte from the abstract fields -/
theorem spec_connect_flags (flags : Nat) (wp : Option Props) (wt wpay un pwd : List Nat)
    (hb : flags < 256) (hr : flags % 2 = 0) (hw : willFlag flags = false → flags / 8 % 4 = 0 ∧ flags / 32 % 2 = 0) :
    connectFlags (flags / 2 % 2 == 1)
      (if willFlag flags then
          some { qos := flags / 8 % 4, retain := flags / 32 % 2 == 1, props := wp.map Props.abs, topic := wt, payload := wpay }
        else none)
      (if userNameFlag flags then some un else none) (if passwordFlag flags then some pwd else none) = flags := by
  unfold connectFlags
  have hu : b2n (if userNameFlag flags then some un else none).isSome = flags / 128 % 2 := by
    unfold userNameFlag
    by_cases h : flags / 128 % 2 = 1
    · simp [h, b2n]
    · have : flags / 128 % 2 = 0 := by omega
      simp [this, b2n]
  have hp : b2n (if passwordFlag flags then some pwd else none).isSome = flags / 64 % 2 := by
    unfold passwordFlag
    by_cases h : flags / 64 % 2 = 1
    · simp [h, b2n]
    · have : flags / 64 % 2 = 0 := by omega
      simp [this, b2n]
  rw [hu, hp, b2n_bit (flags / 2 % 2) (by omega)]
  by_cases hwf : willFlag flags = true
  · simp only [hwf, if_true]
    rw [b2n_bit (flags / 32 % 2) (by omega)]
    simp only [willFlag, beq_iff_eq] at hwf
    omega
  · have hwf' : willFlag flags = false := by simpa using hwf
    obtain ⟨a, b⟩ := hw hwf'
    simp only [hwf', Bool.false_eq_true, if_false]
    simp only [willFlag, beq_eq_false_iff_ne, ne_eq] at hwf'
    omega

end MqttVerif.Codec
