import MqttVerif.Codec.V5
/-!
# L1 Codec — the 29 packet kinds as one sum type; dispatch as `connection/core.rs` does
(packet type = high nibble of the fixed header byte; only PUBLISH receives the flags).
-/
namespace MqttVerif.Codec

inductive Packet
  | connect3 (p : Connect3) | connack3 (p : Connack3) | publish3 (p : Publish3)
  | puback3 (p : Ack3) | pubrec3 (p : Ack3) | pubrel3 (p : Ack3) | pubcomp3 (p : Ack3)
  | subscribe3 (p : Subscribe3) | suback3 (p : Suback3)
  | unsubscribe3 (p : Unsubscribe3) | unsuback3 (p : Unsuback3)
  | pingreq3 (p : Empty) | pingresp3 (p : Empty) | disconnect3 (p : Empty)
  | connect5 (p : Connect5) | connack5 (p : Connack5) | publish5 (p : Publish5)
  | puback5 (p : Ack5) | pubrec5 (p : Ack5) | pubrel5 (p : Ack5) | pubcomp5 (p : Ack5)
  | subscribe5 (p : Subscribe5) | suback5 (p : Codes5)
  | unsubscribe5 (p : Unsubscribe5) | unsuback5 (p : Codes5)
  | pingreq5 (p : Empty) | pingresp5 (p : Empty) | disconnect5 (p : RcProps5) | auth5 (p : RcProps5)
deriving DecidableEq, Repr

def PRes.map {α β : Type} (x : PRes α) (f : α → β) : PRes β := x.bind fun a c => .ok (f a) c

/-- kind name for diagnostics -/
def kindName (version ty : Nat) : String :=
  let n := match ty with
    | 1 => "connect" | 2 => "connack" | 3 => "publish" | 4 => "puback" | 5 => "pubrec"
    | 6 => "pubrel" | 7 => "pubcomp" | 8 => "subscribe" | 9 => "suback" | 10 => "unsubscribe"
    | 11 => "unsuback" | 12 => "pingreq" | 13 => "pingresp" | 14 => "disconnect" | 15 => "auth"
    | _ => "reserved"
  (if version = 5 then "v5." else "v3.") ++ n

/-- `version ∈ {4, 5}`, `pw ∈ {2, 4}`, `fh` = first byte of the frame, `body` = the bytes after
    the Remaining Length.  `none`: no parser for this (version, type). -/
def Packet.parse (version pw fh : Nat) (body : List Nat) : Option (PRes Packet) :=
  let ty := fh / 16
  let flags := fh % 16
  if version = 5 then
    match ty with
    | 1 => some ((Connect5.parse body).map .connect5)
    | 2 => some ((Connack5.parse body).map .connack5)
    | 3 => some ((Publish5.parse pw flags body).map .publish5)
    | 4 => some ((Ack5.parse .puback pw body).map .puback5)
    | 5 => some ((Ack5.parse .pubrec pw body).map .pubrec5)
    | 6 => some ((Ack5.parse .pubrel pw body).map .pubrel5)
    | 7 => some ((Ack5.parse .pubcomp pw body).map .pubcomp5)
    | 8 => some ((Subscribe5.parse pw body).map .subscribe5)
    | 9 => some ((Codes5.parse subackRc5Ok pw body).map .suback5)
    | 10 => some ((Unsubscribe5.parse pw body).map .unsubscribe5)
    | 11 => some ((Codes5.parse unsubackRc5Ok pw body).map .unsuback5)
    | 12 => some ((Empty.parse body).map .pingreq5)
    | 13 => some ((Empty.parse body).map .pingresp5)
    | 14 => some ((Disconnect5.parse body).map .disconnect5)
    | 15 => some ((Auth5.parse body).map .auth5)
    | _ => none
  else
    match ty with
    | 1 => some ((Connect3.parse body).map .connect3)
    | 2 => some ((Connack3.parse body).map .connack3)
    | 3 => some ((Publish3.parse pw flags body).map .publish3)
    | 4 => some ((Ack3.parse .puback pw body).map .puback3)
    | 5 => some ((Ack3.parse .pubrec pw body).map .pubrec3)
    | 6 => some ((Ack3.parse .pubrel pw body).map .pubrel3)
    | 7 => some ((Ack3.parse .pubcomp pw body).map .pubcomp3)
    | 8 => some ((Subscribe3.parse pw body).map .subscribe3)
    | 9 => some ((Suback3.parse pw body).map .suback3)
    | 10 => some ((Unsubscribe3.parse pw body).map .unsubscribe3)
    | 11 => some ((Unsuback3.parse pw body).map .unsuback3)
    | 12 => some ((Empty.parse body).map .pingreq3)
    | 13 => some ((Empty.parse body).map .pingresp3)
    | 14 => some ((Empty.parse body).map .disconnect3)
    | _ => none

/-- `to_continuous_buffer()` -/
def Packet.encode (pw : Nat) : Packet → List Nat
  | .connect3 p => p.encode | .connack3 p => p.encode | .publish3 p => p.encode pw
  | .puback3 p => p.encode .puback pw | .pubrec3 p => p.encode .pubrec pw
  | .pubrel3 p => p.encode .pubrel pw | .pubcomp3 p => p.encode .pubcomp pw
  | .subscribe3 p => p.encode pw | .suback3 p => p.encode pw
  | .unsubscribe3 p => p.encode pw | .unsuback3 p => p.encode pw
  | .pingreq3 p => p.encode 0xc0 | .pingresp3 p => p.encode 0xd0 | .disconnect3 p => p.encode 0xe0
  | .connect5 p => p.encode | .connack5 p => p.encode | .publish5 p => p.encode pw
  | .puback5 p => p.encode .puback pw | .pubrec5 p => p.encode .pubrec pw
  | .pubrel5 p => p.encode .pubrel pw | .pubcomp5 p => p.encode .pubcomp pw
  | .subscribe5 p => p.encode pw | .suback5 p => p.encode 0x90 pw
  | .unsubscribe5 p => p.encode pw | .unsuback5 p => p.encode 0xb0 pw
  | .pingreq5 p => p.encode 0xc0 | .pingresp5 p => p.encode 0xd0
  | .disconnect5 p => p.encode 0xe0 | .auth5 p => p.encode 0xf0

/-- cached `remaining_length` -/
def Packet.remLen : Packet → Nat
  | .connect3 p => p.remLen | .connack3 p => p.remLen | .publish3 p => p.remLen
  | .puback3 p | .pubrec3 p | .pubrel3 p | .pubcomp3 p => p.remLen
  | .subscribe3 p => p.remLen | .suback3 p => p.remLen
  | .unsubscribe3 p => p.remLen | .unsuback3 p => p.remLen
  | .pingreq3 p | .pingresp3 p | .disconnect3 p => p.remLen
  | .connect5 p => p.remLen | .connack5 p => p.remLen | .publish5 p => p.remLen
  | .puback5 p | .pubrec5 p | .pubrel5 p | .pubcomp5 p => p.remLen
  | .subscribe5 p => p.remLen | .suback5 p | .unsuback5 p => p.remLen
  | .unsubscribe5 p => p.remLen
  | .pingreq5 p | .pingresp5 p => p.remLen
  | .disconnect5 p | .auth5 p => p.remLen

/-- `size()` -/
def Packet.size (p : Packet) : Nat := sizeOfRem p.remLen

/-- MQTT version (4 / 5) the packet belongs to -/
def Packet.version : Packet → Nat
  | .connect3 _ | .connack3 _ | .publish3 _ | .puback3 _ | .pubrec3 _ | .pubrel3 _ | .pubcomp3 _
  | .subscribe3 _ | .suback3 _ | .unsubscribe3 _ | .unsuback3 _ | .pingreq3 _ | .pingresp3 _
  | .disconnect3 _ => 4
  | _ => 5

/-- the body of a frame: skip the fixed header byte and the Remaining Length field
    (`none` if that field is not a complete variable-byte integer) -/
def frameBody (frame : List Nat) : Option (Nat × Nat × List Nat) :=
  match frame with
  | [] => none
  | fh :: rest =>
    match vbiDec rest with
    | .ok v c => some (fh, v, rest.drop c)
    | _ => none

end MqttVerif.Codec
