import MqttVerif.Codec.V3
/-!
# L1 Codec — MQTT v5.0 packets (`src/mqtt/packet/v5_0/*.rs`), impl-shaped

Cached `remaining_length` (`remLen`) and `property_length` (`propLen`) are kept as in the Rust
structs.  Parsers that set `remaining_length := cursor` (CONNECT, CONNACK) or
`remaining := id + consumed_props + …` (SUBSCRIBE, SUBACK, UNSUBSCRIBE, UNSUBACK) do so here
too, which makes `size` differ from the length of `encode` for non-minimal
variable-byte integers, exactly as in the implementation.
-/
namespace MqttVerif.Codec

/-- `Properties::parse(&data[cursor..])?` followed by a validator and
    `VariableByteInteger::from_u32(props.size() as u32).unwrap()`:
    value `(props, propLen)`, consumed = bytes `Properties::parse` consumed -/
def parsePropsAt (site : String) (validate : Props → Option Err) (data : List Nat) (cursor : Nat) :
    PRes (Props × Nat) :=
  sliceFrom site data cursor fun d =>
  (Props.parse d).bind fun ps c =>
  match validate ps with
  | some e => .err e
  | none => vbiOf (site ++ ":property_length") ps.size fun pl => .ok (ps, pl) c

/-! ### CONNECT -/

structure Connect5 where
  remLen : Nat
  flags : Nat
  keepAlive : Nat
  propLen : Nat
  props : Props
  clientId : List Nat
  willPropLen : Nat
  willProps : Props
  willTopic : List Nat
  willPayload : List Nat
  userName : List Nat
  password : List Nat
deriving DecidableEq, Repr, Inhabited

def Connect5.parse (data : List Nat) : PRes Connect5 :=
  (parseConnectHead 5 data).bind fun fk cursor =>
  (parsePropsAt "v5_0::connect::parse:props" validateConnectProps data cursor).bind fun pp c =>
  let cursor := cursor + c
  (parseConnectTail true fk.1 data cursor).bind fun t cursor =>
  vbiOf "v5_0::connect::parse:remaining_length" cursor fun rl =>
  .ok { remLen := rl, flags := fk.1, keepAlive := fk.2, propLen := pp.2, props := pp.1,
        clientId := t.clientId, willPropLen := t.willPropLen, willProps := t.willProps,
        willTopic := t.willTopic, willPayload := t.willPayload, userName := t.userName,
        password := t.password } cursor

def Connect5.encode (p : Connect5) : List Nat :=
  0x10 :: vbiEnc p.remLen ++ connectBody 5 p.flags p.keepAlive ++ vbiEnc p.propLen ++ p.props.encode
    ++ encStr p.clientId
    ++ (if willFlag p.flags then
          vbiEnc p.willPropLen ++ p.willProps.encode ++ encStr p.willTopic ++ encStr p.willPayload
        else [])
    ++ (if userNameFlag p.flags then encStr p.userName else [])
    ++ (if passwordFlag p.flags then encStr p.password else [])

def Connect5.size (p : Connect5) : Nat := sizeOfRem p.remLen

/-! ### CONNACK -/

def connectRcOk (rc : Nat) : Bool :=
  [0x00, 0x80, 0x81, 0x82, 0x83, 0x84, 0x85, 0x86, 0x87, 0x88, 0x89, 0x8a, 0x8c, 0x90, 0x95, 0x97,
   0x99, 0x9a, 0x9b, 0x9c, 0x9d, 0x9f].contains rc

structure Connack5 where
  remLen : Nat
  flags : Nat
  rc : Nat
  propLen : Nat
  props : Props
deriving DecidableEq, Repr, Inhabited

/-- reserved acknowledge-flag bits rejected (since 2f6b66c); `remaining_length := cursor` -/
def Connack5.parse (data : List Nat) : PRes Connack5 :=
  if data.length < 3 then .err .MalformedPacket else
  idx "v5_0::connack::parse:data[cursor] flags" data 0 fun flags =>
  if flags > 1 then .err .MalformedPacket else          -- `(flags & 0xFE) != 0` on a byte
  idx "v5_0::connack::parse:data[cursor] code" data 1 fun code =>
  if ¬ connectRcOk code then .err .MalformedPacket else
  (parsePropsAt "v5_0::connack::parse:props" validateConnackProps data 2).bind fun pp c =>
  let cursor := 2 + c
  vbiOf "v5_0::connack::parse:remaining_length" cursor fun rl =>
  .ok { remLen := rl, flags := flags, rc := code, propLen := pp.2, props := pp.1 } cursor

def Connack5.encode (p : Connack5) : List Nat :=
  0x20 :: vbiEnc p.remLen ++ [p.flags, p.rc] ++ vbiEnc p.propLen ++ p.props.encode
def Connack5.size (p : Connack5) : Nat := sizeOfRem p.remLen

/-! ### PUBLISH -/

structure Publish5 where
  fh : Nat
  remLen : Nat
  topic : List Nat
  pid : Option Nat
  propLen : Nat
  props : Props
  payload : List Nat
deriving DecidableEq, Repr, Inhabited

/-- the property-length byte is optional on input (nothing after the id → empty properties) -/
def Publish5.parse (pw flags : Nat) (data : List Nat) : PRes Publish5 :=
  (parsePublishHead true pw flags data).bind fun tp cursor =>
  (if cursor < data.length then
      (parsePropsAt "v5_0::publish::parse:props" validatePublishProps data cursor).bind fun pp c =>
      .ok pp (cursor + c)
    else .ok ([], 0) cursor).bind fun pp cursor =>
  usub "v5_0::publish::parse:data_arc.len()-cursor" data.length cursor fun payloadLen =>
  sliceFrom "v5_0::publish::parse:ArcPayload::new" data cursor fun payload =>
  let remaining := strSize tp.1 + (if tp.2.isSome then pw else 0) + vbiSize pp.2 + pp.1.size + payloadLen
  vbiOf "v5_0::publish::parse:remaining_length" remaining fun rl =>
  .ok { fh := 0x30 + flags % 16, remLen := rl, topic := tp.1, pid := tp.2, propLen := pp.2,
        props := pp.1, payload := payload } data.length

def Publish5.encode (pw : Nat) (p : Publish5) : List Nat :=
  p.fh :: vbiEnc p.remLen ++ encStr p.topic ++ encOptId pw p.pid ++ vbiEnc p.propLen ++ p.props.encode
    ++ p.payload
def Publish5.size (p : Publish5) : Nat := sizeOfRem p.remLen

/-! ### PUBACK / PUBREC / PUBREL / PUBCOMP -/

/-- `property_length` is written iff `props` is `Some` (PUBACK keeps a plain
    `VariableByteInteger` that is 0 when absent, the other three an `Option`; same bytes) -/
structure Ack5 where
  remLen : Nat
  pid : Nat
  rc : Option Nat
  propLen : Nat
  props : Option Props
deriving DecidableEq, Repr, Inhabited

/-- `[rc [props]]` after `cursor`, shared by the four acks, DISCONNECT and AUTH:
    value `(rc, props, propLen)`, consumed = new cursor -/
def parseRcProps (site : String) (rcOk : Nat → Bool) (validate : Props → Option Err)
    (data : List Nat) (cursor : Nat) : PRes (Option Nat × Option Props × Nat) :=
  if cursor < data.length then
    idx (site ++ ":data[cursor] rc") data cursor fun rc =>
    if ¬ rcOk rc then .err .MalformedPacket else
    let cursor := cursor + 1
    if cursor < data.length then
      (parsePropsAt (site ++ ":props") validate data cursor).bind fun pp c =>
      .ok (some rc, some pp.1, pp.2) (cursor + c)
    else .ok (some rc, none, 0) cursor
  else .ok (none, none, 0) cursor

def optPropsSize : Option Props → Nat
  | some ps => ps.size
  | none => 0

def Ack5.parse (k : AckKind) (pw : Nat) (data : List Nat) : PRes Ack5 :=
  if data.length < pw then .err .MalformedPacket else
  slice "v5_0::ack::parse:data[0..buffer_size]" data 0 pw fun idb =>
  if allZero idb then .err .MalformedPacket else
  (parseRcProps "v5_0::ack::parse" k.rcOk validateAckProps data pw).bind fun r cursor =>
  let remaining := pw + (if r.1.isSome then 1 else 0) + (if r.2.1.isSome then vbiSize r.2.2 else 0)
                    + optPropsSize r.2.1
  vbiOf "v5_0::ack::parse:remaining_length" remaining fun rl =>
  .ok { remLen := rl, pid := beNat idb, rc := r.1, propLen := r.2.2, props := r.2.1 } cursor

def encOptProps (propLen : Nat) : Option Props → List Nat
  | some ps => vbiEnc propLen ++ ps.encode
  | none => []

def Ack5.encode (k : AckKind) (pw : Nat) (p : Ack5) : List Nat :=
  k.fh :: vbiEnc p.remLen ++ encId pw p.pid ++ encOptByte p.rc ++ encOptProps p.propLen p.props
def Ack5.size (p : Ack5) : Nat := sizeOfRem p.remLen

/-! ### SUBSCRIBE / SUBACK / UNSUBSCRIBE / UNSUBACK
`remaining := buffer_size + property_length(consumed by Properties::parse) + …` -/

structure Subscribe5 where
  remLen : Nat
  pid : Nat
  propLen : Nat
  props : Props
  entries : List SubEntry
deriving DecidableEq, Repr, Inhabited

def Subscribe5.parse (pw : Nat) (data : List Nat) : PRes Subscribe5 :=
  (parseIdFront "v5_0::subscribe::parse:data[0..buffer_size]" pw data).bind fun pid cursor =>
  (parsePropsAt "v5_0::subscribe::parse:props" validateSubscribeProps data cursor).bind fun pp pc =>
  let cursor := cursor + pc
  sliceFrom "v5_0::subscribe::parse:data[cursor..]" data cursor fun rest =>
  (entriesLoop rest.length rest).bind fun es c =>
  if es.isEmpty then .err .ProtocolError else
  if ¬ es.all (fun e => shareNameOk e.topic) then .err .MalformedPacket else
  vbiOf "v5_0::subscribe::parse:remaining_length" (pw + pc + entriesSize es) fun rl =>
  .ok { remLen := rl, pid := pid, propLen := pp.2, props := pp.1, entries := es } (cursor + c)

def Subscribe5.encode (pw : Nat) (p : Subscribe5) : List Nat :=
  0x82 :: vbiEnc p.remLen ++ encId pw p.pid ++ vbiEnc p.propLen ++ p.props.encode ++ entriesEncode p.entries
def Subscribe5.size (p : Subscribe5) : Nat := sizeOfRem p.remLen

/-- SUBACK and UNSUBACK (reason-code table differs) -/
structure Codes5 where
  remLen : Nat
  pid : Nat
  propLen : Nat
  props : Props
  codes : List Nat
deriving DecidableEq, Repr, Inhabited

def subackRc5Ok (rc : Nat) : Bool :=
  [0x00, 0x01, 0x02, 0x80, 0x83, 0x87, 0x8f, 0x91, 0x97, 0x9e, 0xa1, 0xa2].contains rc
def unsubackRc5Ok (rc : Nat) : Bool := [0x00, 0x11, 0x80, 0x83, 0x87, 0x8f, 0x91].contains rc

def Codes5.parse (rcOk : Nat → Bool) (pw : Nat) (data : List Nat) : PRes Codes5 :=
  (parseIdFront "v5_0::suback::parse:data[0..buffer_size]" pw data).bind fun pid cursor =>
  (parsePropsAt "v5_0::suback::parse:props" validateAckProps data cursor).bind fun pp pc =>
  let cursor := cursor + pc
  sliceFrom "v5_0::suback::parse:data[cursor]" data cursor fun codes =>
  if ¬ codesOk rcOk codes then .err .MalformedPacket else
  if codes.isEmpty then .err .ProtocolError else
  vbiOf "v5_0::suback::parse:remaining_length" (pw + pc + codes.length) fun rl =>
  .ok { remLen := rl, pid := pid, propLen := pp.2, props := pp.1, codes := codes } (cursor + codes.length)

def Codes5.encode (fh pw : Nat) (p : Codes5) : List Nat :=
  fh :: vbiEnc p.remLen ++ encId pw p.pid ++ vbiEnc p.propLen ++ p.props.encode ++ p.codes
def Codes5.size (p : Codes5) : Nat := sizeOfRem p.remLen

structure Unsubscribe5 where
  remLen : Nat
  pid : Nat
  propLen : Nat
  props : Props
  topics : List (List Nat)
deriving DecidableEq, Repr, Inhabited

def Unsubscribe5.parse (pw : Nat) (data : List Nat) : PRes Unsubscribe5 :=
  (parseIdFront "v5_0::unsubscribe::parse:data[0..buffer_size]" pw data).bind fun pid cursor =>
  (parsePropsAt "v5_0::unsubscribe::parse:props" validateUnsubscribeProps data cursor).bind fun pp pc =>
  let cursor := cursor + pc
  sliceFrom "v5_0::unsubscribe::parse:data[cursor..]" data cursor fun rest =>
  (topicsLoop rest.length rest).bind fun ts c =>
  if ts.isEmpty then .err .ProtocolError else
  if ¬ ts.all shareNameOk then .err .MalformedPacket else
  vbiOf "v5_0::unsubscribe::parse:remaining_length" (pw + pc + topicsSize ts) fun rl =>
  .ok { remLen := rl, pid := pid, propLen := pp.2, props := pp.1, topics := ts } (cursor + c)

def Unsubscribe5.encode (pw : Nat) (p : Unsubscribe5) : List Nat :=
  0xa2 :: vbiEnc p.remLen ++ encId pw p.pid ++ vbiEnc p.propLen ++ p.props.encode ++ topicsEncode p.topics
def Unsubscribe5.size (p : Unsubscribe5) : Nat := sizeOfRem p.remLen

/-! ### DISCONNECT / AUTH -/

/-- `property_length` and `props` are both `Option`s (always `Some` together) -/
structure RcProps5 where
  remLen : Nat
  rc : Option Nat
  propLen : Option Nat
  props : Option Props
deriving DecidableEq, Repr, Inhabited

def disconnectRcOk (rc : Nat) : Bool :=
  [0x00, 0x04, 0x80, 0x81, 0x82, 0x83, 0x87, 0x89, 0x8b, 0x8d, 0x8e, 0x8f, 0x90, 0x93, 0x94, 0x95,
   0x96, 0x97, 0x98, 0x99, 0x9a, 0x9b, 0x9c, 0x9d, 0x9e, 0x9f, 0xa0, 0xa1, 0xa2].contains rc
def authRcOk (rc : Nat) : Bool := [0x00, 0x18, 0x19].contains rc

def rcPropsRemaining (rc : Option Nat) (props : Option Props) (propLen : Nat) : Nat :=
  (if rc.isSome then 1 else 0) + (if props.isSome then vbiSize propLen else 0) + optPropsSize props

def Disconnect5.parse (data : List Nat) : PRes RcProps5 :=
  (parseRcProps "v5_0::disconnect::parse" disconnectRcOk validateDisconnectProps data 0).bind fun r cursor =>
  vbiOf "v5_0::disconnect::parse:remaining_length" (rcPropsRemaining r.1 r.2.1 r.2.2) fun rl =>
  .ok { remLen := rl, rc := r.1, propLen := r.2.1.map (fun _ => r.2.2), props := r.2.1 } cursor

/-- AUTH validates the property *set* together with the reason code, after parsing -/
def Auth5.parse (data : List Nat) : PRes RcProps5 :=
  (parseRcProps "v5_0::auth::parse" authRcOk (fun _ => none) data 0).bind fun r cursor =>
  match validateAuth r.1 r.2.1 with
  | some e => .err e
  | none =>
    vbiOf "v5_0::auth::parse:remaining_length" (rcPropsRemaining r.1 r.2.1 r.2.2) fun rl =>
    .ok { remLen := rl, rc := r.1, propLen := r.2.1.map (fun _ => r.2.2), props := r.2.1 } cursor

def RcProps5.encode (fh : Nat) (p : RcProps5) : List Nat :=
  fh :: vbiEnc p.remLen ++ encOptByte p.rc
    ++ (match p.propLen with | some pl => vbiEnc pl | none => [])
    ++ (match p.props with | some ps => ps.encode | none => [])
def RcProps5.size (p : RcProps5) : Nat := sizeOfRem p.remLen

end MqttVerif.Codec
