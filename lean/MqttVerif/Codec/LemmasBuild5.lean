import MqttVerif.Codec.LemmasBuild
/-!
# L1 Codec — the v5.0 builders establish `wf` and keep the requested field values
(continuation of `LemmasBuild.lean`)
-/
namespace MqttVerif.Codec

/-- the three property checks, from: constructed properties (`typed`), the placement validator of
    `validate()`, and the `property_length` that `build()` computed -/
theorem propsChecks_ok {al un : List Nat} {props : Option Props} {pl : Nat}
    (ht : optPropsTyped props = true) (hv : ∀ ps, props = some ps → validateProps al un ps = none)
    (hpl : pl = (props.getD []).size) (hmax : pl ≤ vbiMax) :
    allOk (propsChecks al un pl (props.getD [])) = true := by
  simp only [propsChecks, allOk_cns, allOk_nl, Bool.and_true, Bool.and_eq_true]
  refine ⟨propsOk_getD ht, allowed_getD hv, ?_, decide_eq_true hmax⟩
  rw [hpl]; exact beq_self_eq_true _

theorem codesOk_getD {ok : Nat → Bool} {codes : Option (List Nat)} (ht : optCodesTyped ok codes = true) :
    codesOk ok (codes.getD []) = true := by
  cases codes with
  | none => simp [codesOk]
  | some cs => exact ht

/-! ### CONNACK -/

theorem Connack5Args.build_ok {a : Connack5Args} {p : Connack5}
    (ht1 : optCodeTyped connectRcOk a.rc = true) (ht2 : optPropsTyped a.props = true)
    (hf : 2 + 4 + (a.props.getD []).size < 4294967296) (h : a.build = .ok p) :
    allOk p.checks = true ∧ p.props = a.props.getD [] ∧
      ∃ sp rc, a.sessionPresent = some sp ∧ a.rc = some rc ∧ p.flags = bitN sp ∧ p.rc = rc := by
  unfold Connack5Args.build at h
  split at h
  · cases h
  · rename_i sp hsp
    split at h
    · cases h
    · rename_i rc hrc
      obtain ⟨hv, h⟩ := checkProps_ok h
      try dsimp only at h
      obtain ⟨hmax1, h⟩ := vbiB_ok h
      obtain ⟨hmax2, h⟩ := vbiB_ok h
      cases h
      refine ⟨?_, rfl, sp, rc, hsp, hrc, rfl, rfl⟩
      have hvs := vbiSize_le4 (asU32 (a.props.getD []).size)
      have e1 : asU32 (a.props.getD []).size = (a.props.getD []).size := asU32_of_lt (by omega)
      rw [e1] at hmax1 hmax2 hvs ⊢
      have e2 : asU32 (1 + 1 + vbiSize (a.props.getD []).size + (a.props.getD []).size)
          = 1 + 1 + vbiSize (a.props.getD []).size + (a.props.getD []).size := asU32_of_lt (by omega)
      rw [e2] at hmax2 ⊢
      rw [hrc] at ht1
      simp only [Connack5.checks, allOk_app, allOk_cns, allOk_nl, Bool.and_true, Bool.and_eq_true]
      refine ⟨⟨⟨?_, ht1⟩, propsChecks_ok ht2 hv rfl hmax1⟩, ?_, decide_eq_true hmax2⟩
      · cases sp <;> simp [bitN]
      · simp <;> omega

/-! ### PUBACK / PUBREC / PUBREL / PUBCOMP -/

theorem Ack5Args.build_ok {k : AckKind} {pw : Nat} {a : Ack5Args} {p : Ack5}
    (ht1 : optPidTyped pw a.pid = true) (ht2 : optCodeTyped k.rcOk a.rc = true) (ht3 : optPropsTyped a.props = true)
    (hf : pw + 1 + 4 + optPropsSize a.props < 4294967296) (h : a.build pw = .ok p) :
    allOk (p.checks k pw) = true ∧ a.pid = some p.pid ∧ p.rc = a.rc ∧ p.props = a.props := by
  unfold Ack5Args.build at h
  obtain ⟨id, hid, hne, h⟩ := needPid_ok h
  obtain ⟨hrp, h⟩ := ite_bErr_ok h
  obtain ⟨hv, h⟩ := checkProps_ok h
  obtain ⟨hmax1, h⟩ := vbiB_ok h
  try dsimp only at h
  obtain ⟨hmax2, h⟩ := vbiB_ok h
  cases h
  refine ⟨?_, hid, rfl, rfl⟩
  rw [hid] at ht1
  have e1 : asU32 (optPropsSize a.props) = optPropsSize a.props := asU32_of_lt (by omega)
  rw [e1] at hmax1 hmax2 ⊢
  have hvs := vbiSize_le4 (optPropsSize a.props)
  have e2 : ∀ n, n ≤ pw + 1 + 4 + optPropsSize a.props → asU32 n = n := fun n hn => asU32_of_lt (by omega)
  rw [e2 _ (by split <;> split <;> omega)] at hmax2 ⊢
  simp only [Ack5.checks, allOk_app, allOk_cns, allOk_nl, Bool.and_true, Bool.and_eq_true]
  refine ⟨⟨⟨idOk_of_typed ht1 hne, optCode_match ht2, ?_, ?_⟩, ?_⟩, ?_, decide_eq_true hmax2⟩
  · cases hr : a.rc <;> cases hp : a.props <;> simp_all
  · cases hp : a.props <;> simp [optPropsSize]
  · cases hp : a.props with
    | none => rfl
    | some ps =>
      have := propsChecks_ok (al := ackAllowed) (un := ackUniq) (props := some ps) (pl := ps.size)
        (by simpa [hp] using ht3) (fun ps' h' => by cases h'; exact hv ps hp) rfl
        (by simpa [hp, optPropsSize] using hmax1)
      simpa [optPropsChecks, optPropsSize] using this
  · simp only [rcPropsRemaining, beq_iff_eq]
    cases hp : a.props <;> simp [optPropsSize] <;> omega

/-! ### SUBACK / UNSUBACK -/

theorem Codes5Args.build_ok {rcOk : Nat → Bool} {pw : Nat} {a : Codes5Args} {p : Codes5}
    (ht1 : optPidTyped pw a.pid = true) (ht2 : optCodesTyped rcOk a.codes = true) (ht3 : optPropsTyped a.props = true)
    (hf : pw + 4 + (a.props.getD []).size + (a.codes.getD []).length < 4294967296) (h : a.build pw = .ok p) :
    allOk (p.checks rcOk pw) = true ∧ a.pid = some p.pid ∧ p.props = a.props.getD [] ∧ p.codes = a.codes.getD [] := by
  unfold Codes5Args.build at h
  obtain ⟨id, hid, hne, h⟩ := needPid_ok h
  obtain ⟨hne2, h⟩ := ite_bErr_ok h
  obtain ⟨hv, h⟩ := checkProps_ok h
  try dsimp only at h
  obtain ⟨hmax1, h⟩ := vbiB_ok h
  obtain ⟨hmax2, h⟩ := vbiB_ok h
  cases h
  refine ⟨?_, hid, rfl, rfl⟩
  rw [hid] at ht1
  have e1 : asU32 (a.props.getD []).size = (a.props.getD []).size := asU32_of_lt (by omega)
  rw [e1] at hmax1 hmax2 ⊢
  have hvs := vbiSize_le4 (a.props.getD []).size
  rw [asU32_of_lt (by omega)] at hmax2 ⊢
  simp only [Codes5.checks, allOk_app, allOk_cns, allOk_nl, Bool.and_true, Bool.and_eq_true]
  refine ⟨⟨⟨idOk_of_typed ht1 hne, ?_, codesOk_getD ht2⟩, propsChecks_ok ht3 hv rfl hmax1⟩, beq_self_eq_true _,
    decide_eq_true hmax2⟩
  simp [listEmptyOrUnset_false hne2]

/-! ### SUBSCRIBE / UNSUBSCRIBE -/

theorem Subscribe5Args.build_ok {pw : Nat} {a : Subscribe5Args} {p : Subscribe5}
    (ht1 : optPidTyped pw a.pid = true) (ht2 : optEntriesTyped a.entries = true) (ht3 : optPropsTyped a.props = true)
    (hf : pw + 4 + (a.props.getD []).size + entriesSize (a.entries.getD []) < 4294967296) (h : a.build pw = .ok p) :
    allOk (p.checks pw) = true ∧ a.pid = some p.pid ∧ p.props = a.props.getD [] ∧ p.entries = a.entries.getD [] := by
  unfold Subscribe5Args.build at h
  obtain ⟨hlong, h⟩ := ite_bErr_ok h
  obtain ⟨id, hid, hne, h⟩ := needPid_ok h
  obtain ⟨hne2, h⟩ := ite_bErr_ok h
  try dsimp only at h
  obtain ⟨hshare, h⟩ := ite_bErr_ok h
  obtain ⟨hv, h⟩ := checkProps_ok h
  try dsimp only at h
  obtain ⟨hmax1, h⟩ := vbiB_ok h
  obtain ⟨hmax2, h⟩ := vbiB_ok h
  cases h
  refine ⟨?_, hid, rfl, rfl⟩
  rw [hid] at ht1
  have e1 : asU32 (a.props.getD []).size = (a.props.getD []).size := asU32_of_lt (by omega)
  rw [e1] at hmax1 hmax2 ⊢
  have hvs := vbiSize_le4 (a.props.getD []).size
  rw [asU32_of_lt (by omega)] at hmax2 ⊢
  simp only [Subscribe5.checks, allOk_app, allOk_cns, allOk_nl, Bool.and_true, Bool.and_eq_true]
  refine ⟨⟨⟨idOk_of_typed ht1 hne, ?_, entryOk_of_typed ht2 hlong, ?_⟩, propsChecks_ok ht3 hv rfl hmax1⟩,
    beq_self_eq_true _, decide_eq_true hmax2⟩
  · simp [listEmptyOrUnset_false hne2]
  · simpa using hshare

theorem Unsubscribe5Args.build_ok {pw : Nat} {a : Unsubscribe5Args} {p : Unsubscribe5}
    (ht1 : optPidTyped pw a.pid = true) (ht2 : optTopicsTyped a.topics = true) (ht3 : optPropsTyped a.props = true)
    (hf : pw + 4 + (a.props.getD []).size + topicsSize (a.topics.getD []) < 4294967296) (h : a.build pw = .ok p) :
    allOk (p.checks pw) = true ∧ a.pid = some p.pid ∧ p.props = a.props.getD [] ∧ p.topics = a.topics.getD [] := by
  unfold Unsubscribe5Args.build at h
  obtain ⟨hlong, h⟩ := ite_bErr_ok h
  obtain ⟨hshare, h⟩ := ite_bErr_ok h
  obtain ⟨id, hid, hne, h⟩ := needPid_ok h
  obtain ⟨hne2, h⟩ := ite_bErr_ok h
  obtain ⟨hv, h⟩ := checkProps_ok h
  try dsimp only at h
  obtain ⟨hmax1, h⟩ := vbiB_ok h
  obtain ⟨hmax2, h⟩ := vbiB_ok h
  cases h
  refine ⟨?_, hid, rfl, rfl⟩
  rw [hid] at ht1
  have e1 : asU32 (a.props.getD []).size = (a.props.getD []).size := asU32_of_lt (by omega)
  rw [e1] at hmax1 hmax2 ⊢
  have hvs := vbiSize_le4 (a.props.getD []).size
  rw [asU32_of_lt (by omega)] at hmax2 ⊢
  simp only [Unsubscribe5.checks, allOk_app, allOk_cns, allOk_nl, Bool.and_true, Bool.and_eq_true]
  refine ⟨⟨⟨idOk_of_typed ht1 hne, ?_, strOk_of_typed ht2 hlong, ?_⟩, propsChecks_ok ht3 hv rfl hmax1⟩,
    beq_self_eq_true _, decide_eq_true hmax2⟩
  · simp [listEmptyOrUnset_false hne2]
  · simpa using hshare

/-! ### PUBLISH -/

theorem Publish5Args.build_ok {pw : Nat} {a : Publish5Args} {p : Publish5}
    (ht1 : optStrTyped a.topic = true) (ht2 : optCodeTyped (fun q => decide (q ≤ 2)) a.qos = true)
    (ht3 : optPidTyped pw a.pid = true) (ht4 : optPropsTyped a.props = true)
    (hf : strSize (a.topic.getD []) + pw + 4 + (a.props.getD []).size + (a.payload.getD []).length < 4294967296)
    (h : a.build pw = .ok p) :
    allOk (p.checks pw) = true ∧ p.fh = fhOf a.qos a.dup a.retain ∧ p.topic = a.topic.getD [] ∧ p.pid = a.pid
      ∧ p.props = a.props.getD [] ∧ p.payload = a.payload.getD [] := by
  have hq := qos_le_of_typed ht2
  unfold Publish5Args.build at h
  obtain ⟨hts, h⟩ := ite_bErr_ok h
  try dsimp only at h
  obtain ⟨hv, h⟩ := checkProps_ok h
  try dsimp only at h
  obtain ⟨hte, h⟩ := ite_bErr_ok h
  obtain ⟨hpb, h⟩ := ite_bErr_ok h
  obtain ⟨_, h⟩ := ite_bErr_ok h
  try dsimp only at h
  obtain ⟨hmax1, h⟩ := vbiB_ok h
  try dsimp only at h
  obtain ⟨hmax2, h⟩ := vbiB_ok h
  cases h
  rw [publishHeader_getD] at hmax2 ⊢
  refine ⟨?_, rfl, rfl, rfl, rfl, rfl⟩
  obtain ⟨f1, f2, f3, _, _⟩ := fhOf_facts a.qos a.dup a.retain hq
  obtain ⟨hiff, hnz⟩ := publishPidBad_false hq hpb
  obtain ⟨hw, hs⟩ := topicSetter_ok ht1 hts
  have hne : (!(a.topic.getD []).isEmpty || decide (countId 35 (a.props.getD []) > 0)) = true := by
    cases ht : a.topic with
    | none => simpa [ht, Nat.pos_iff_ne_zero] using hte
    | some t =>
      simp only [ht, Bool.and_eq_true, Bool.not_eq_true', decide_eq_false_iff_not, not_and] at hte
      cases he : t.isEmpty with
      | false => simp [he]
      | true => simpa [he, Nat.pos_iff_ne_zero] using hte he
  have e1 : asU32 (a.props.getD []).size = (a.props.getD []).size := asU32_of_lt (by omega)
  rw [e1] at hmax1 hmax2 ⊢
  have hvs := vbiSize_le4 (a.props.getD []).size
  have hrem : (if fhOf a.qos a.dup a.retain / 2 % 4 ≠ 0 ∧ a.pid.isSome = true then pw else 0)
      = (if a.pid.isSome = true then pw else 0) := by
    rw [f3]
    cases hp : a.pid with
    | none => simp
    | some id => simp; intro h0; have := hiff.mp h0; simp [hp] at this
  rw [hrem] at hmax2 ⊢
  have hlt : strSize (a.topic.getD []) + (if a.pid.isSome = true then pw else 0)
      + (vbiSize (a.props.getD []).size + (a.props.getD []).size) + (a.payload.getD []).length < 4294967296 := by
    split <;> omega
  rw [asU32_of_lt hlt] at hmax2 ⊢
  simp only [Publish5.checks, publishHeadChecks, allOk_app, allOk_cns, allOk_nl, Bool.and_true, Bool.and_eq_true,
    Publish5.remaining]
  refine ⟨⟨⟨?_, ?_, hne, hw, hs, ?_, ?_⟩, propsChecks_ok ht4 hv rfl hmax1⟩, ?_, decide_eq_true hmax2⟩
  · simp [f1, f2]
  · simp [f3, hq]
  · rw [f3]
    cases hp : a.pid with
    | none => simp [hiff.mpr hp]
    | some id => simp; intro h0; have := hiff.mp h0; simp [hp] at this
  · cases hp : a.pid with
    | none => rfl
    | some id => rw [hp] at ht3; exact idOk_of_typed ht3 (hnz id hp)
  · simp only [beq_iff_eq]; omega

/-! ### DISCONNECT / AUTH -/

theorem buildRcProps_ok {site : String} {rc : Option Nat} {props : Option Props} {p : RcProps5}
    (hf : 1 + 4 + optPropsSize props < 4294967296) (h : buildRcProps site rc props = .ok p) :
    p.rc = rc ∧ p.props = props ∧ p.propLen = props.map Props.size ∧ optPropsSize props ≤ vbiMax
      ∧ p.remLen = rcPropsRemaining rc props (optPropsSize props) ∧ p.remLen ≤ vbiMax := by
  unfold buildRcProps at h
  cases props with
  | none =>
    simp only at h
    obtain ⟨hmax, h⟩ := vbiB_ok h
    cases h
    have e : asU32 (if rc.isSome = true then 1 else 0) = (if rc.isSome = true then 1 else 0) :=
      asU32_of_lt (by split <;> omega)
    rw [e] at hmax ⊢
    refine ⟨rfl, rfl, rfl, by simp [optPropsSize, vbiMax], ?_, hmax⟩
    simp [rcPropsRemaining, optPropsSize]
  | some ps =>
    simp only [optPropsSize] at hf
    simp only at h
    obtain ⟨hmax1, h⟩ := vbiB_ok h
    obtain ⟨hmax2, h⟩ := vbiB_ok h
    cases h
    have e1 : asU32 ps.size = ps.size := asU32_of_lt (by omega)
    rw [e1] at hmax1 hmax2 ⊢
    have hvs := vbiSize_le4 ps.size
    have e2 : asU32 ((if rc.isSome = true then 1 else 0) + (vbiSize ps.size + ps.size))
        = (if rc.isSome = true then 1 else 0) + (vbiSize ps.size + ps.size) := asU32_of_lt (by split <;> omega)
    rw [e2] at hmax2 ⊢
    refine ⟨rfl, rfl, rfl, hmax1, ?_, hmax2⟩
    simp [rcPropsRemaining, optPropsSize]; omega

theorem optCode_match' {ok : Nat → Bool} {rc : Option Nat} :
    optCodeTyped ok rc = true → (match rc with | some rc => ok rc | none => true) = true := optCode_match

theorem RcProps5.baseChecks_ok {rcOk : Nat → Bool} {rc : Option Nat} {props : Option Props} {p : RcProps5}
    (ht1 : optCodeTyped rcOk rc = true) (ht2 : optPropsTyped props = true)
    (hrp : ¬ (rc.isNone && props.isSome) = true)
    (h : p.rc = rc ∧ p.props = props ∧ p.propLen = props.map Props.size ∧ optPropsSize props ≤ vbiMax
      ∧ p.remLen = rcPropsRemaining rc props (optPropsSize props) ∧ p.remLen ≤ vbiMax) :
    allOk (p.baseChecks rcOk) = true := by
  obtain ⟨h1, h2, h3, h4, h5, h6⟩ := h
  simp only [RcProps5.baseChecks, allOk_cns, allOk_nl, Bool.and_true, Bool.and_eq_true, h1, h2, h3]
  refine ⟨optCode_match ht1, ?_, ?_, ?_, ?_, ?_, decide_eq_true h6⟩
  · cases rc <;> cases props <;> simp_all
  · cases props <;> rfl
  · cases props with
    | none => rfl
    | some ps => exact ht2
  · cases props with
    | none => rfl
    | some ps => simp only [optPropsSize] at h4; simp [h4]
  · rw [h5]
    cases props <;> simp [optPropsSize]

theorem Disconnect5Args.build_ok {a : RcProps5Args} {p : RcProps5}
    (ht1 : optCodeTyped disconnectRcOk a.rc = true) (ht2 : optPropsTyped a.props = true)
    (hf : 1 + 4 + optPropsSize a.props < 4294967296) (h : Disconnect5Args.build a = .ok p) :
    allOk (Disconnect5.checks p) = true ∧ p.rc = a.rc ∧ p.props = a.props := by
  unfold Disconnect5Args.build at h
  obtain ⟨hrp, h⟩ := ite_bErr_ok h
  obtain ⟨hv, h⟩ := checkProps_ok h
  have hb := buildRcProps_ok hf h
  refine ⟨?_, hb.1, hb.2.1⟩
  simp only [Disconnect5.checks, allOk_app, allOk_cns, allOk_nl, Bool.and_true, Bool.and_eq_true]
  refine ⟨RcProps5.baseChecks_ok ht1 ht2 hrp hb, ?_⟩
  rw [hb.2.1]
  cases hp : a.props with
  | none => rfl
  | some ps => exact validateProps_none_ok (hv ps hp)

theorem Auth5Args.build_ok {a : RcProps5Args} {p : RcProps5}
    (ht1 : optCodeTyped authRcOk a.rc = true) (ht2 : optPropsTyped a.props = true)
    (hf : 1 + 4 + optPropsSize a.props < 4294967296) (h : Auth5Args.build a = .ok p) :
    allOk (Auth5.checks p) = true ∧ p.rc = a.rc ∧ p.props = authPropsOf a := by
  unfold Auth5Args.build at h
  try dsimp only at h
  obtain ⟨hrp, h⟩ := ite_bErr_ok h
  split at h
  · cases h
  · rename_i hva
    have hsz : optPropsSize (authPropsOf a) = optPropsSize a.props := by
      unfold authPropsOf
      cases a.props with
      | none => cases a.rc <;> rfl
      | some ps => rfl
    have hty : optPropsTyped (authPropsOf a) = true := by
      unfold authPropsOf
      cases hp : a.props with
      | none => cases a.rc <;> rfl
      | some ps => simpa [hp] using ht2
    have hb := buildRcProps_ok (by rw [hsz]; exact hf) h
    refine ⟨?_, hb.1, hb.2.1⟩
    simp only [Auth5.checks, allOk_app, allOk_cns, allOk_nl, Bool.and_true, Bool.and_eq_true]
    refine ⟨RcProps5.baseChecks_ok ht1 hty hrp hb, ?_⟩
    rw [hb.1, hb.2.1, hva]; rfl

/-! ### CONNECT -/

theorem Connect5Args.build_ok {a : Connect5Args} {p : Connect5}
    (ht1 : optStrTyped a.clientId = true) (ht2 : willTyped a.will = true) (ht3 : optStrTyped a.userName = true)
    (ht4 : optBinTyped a.password = true) (ht5 : optU16Typed a.keepAlive = true)
    (ht6 : optPropsTyped a.props = true) (ht7 : optPropsTyped a.willProps = true)
    (hf : 10 + 4 + (a.props.getD []).size + strSize (a.clientId.getD []) + 4 + (a.willProps.getD []).size
      + strSize (willTopicOf a.will) + strSize (willPayloadOf a.will) + strSize (a.userName.getD [])
      + strSize (a.password.getD []) < 4294967296)
    (h : a.build = .ok p) :
    allOk p.checks = true
      ∧ p.flags = connectFlagsOf a.cleanStart a.will a.userName.isSome a.password.isSome
      ∧ p.keepAlive = a.keepAlive.getD 0 ∧ p.props = a.props.getD [] ∧ p.clientId = a.clientId.getD []
      ∧ p.willProps = a.willProps.getD []
      ∧ p.willTopic = willTopicOf a.will ∧ p.willPayload = willPayloadOf a.will
      ∧ p.userName = a.userName.getD [] ∧ p.password = a.password.getD [] := by
  unfold Connect5Args.build at h
  obtain ⟨hl1, h⟩ := ite_bErr_ok h
  obtain ⟨hl2, h⟩ := ite_bErr_ok h
  obtain ⟨hl3, h⟩ := ite_bErr_ok h
  obtain ⟨hl4, h⟩ := ite_bErr_ok h
  try dsimp only at h
  obtain ⟨hpu, h⟩ := ite_bErr_ok h
  obtain ⟨hwp, h⟩ := ite_bErr_ok h
  obtain ⟨hv1, h⟩ := checkProps_ok h
  obtain ⟨hv2, h⟩ := checkProps_ok h
  try dsimp only at h
  obtain ⟨hmax1, h⟩ := vbiB_ok h
  obtain ⟨hmax2, h⟩ := vbiB_ok h
  obtain ⟨hmax3, h⟩ := vbiB_ok h
  cases h
  refine ⟨?_, rfl, rfl, rfl, rfl, rfl, rfl, rfl, rfl, rfl⟩
  obtain ⟨w1, w2, w3, w4⟩ := will_ok ht2 hl2
  obtain ⟨f1, f2, f3, f4, f5, f6, f7, _⟩ :=
    connectFlagsOf_facts a.cleanStart a.will a.userName.isSome a.password.isSome w4
  have e1 : asU32 (a.props.getD []).size = (a.props.getD []).size := asU32_of_lt (by omega)
  have e2 : asU32 (a.willProps.getD []).size = (a.willProps.getD []).size := asU32_of_lt (by omega)
  have hvs1 := vbiSize_le4 (a.props.getD []).size
  have hvs2 := vbiSize_le4 (a.willProps.getD []).size
  rw [e1] at hmax1 ⊢
  rw [e2] at hmax2 ⊢
  have e3 : a.remaining < 4294967296 := by
    unfold Connect5Args.remaining
    rw [e1, e2]
    split <;> split <;> split <;> omega
  rw [asU32_of_lt e3] at hmax3 ⊢
  rw [f4, f5] at hpu
  rw [f3] at hwp
  simp only [Connect5.checks, connectFlagChecks, Connect5.remaining, allOk_app, allOk_cns, allOk_nl, Bool.and_true,
    Bool.and_eq_true, f3, f4, f5]
  refine ⟨⟨⟨⟨by simpa using f1, by simp [f2], by simp [f6, w4], ?_, ?_, ⟨⟨?_, isEmpty_getD_of_none⟩, isEmpty_getD_of_none⟩⟩,
      by simpa using u16_getD ht5,
      ⟨⟨⟨⟨⟨⟨strOk_getD ht1 hl1, w1⟩, w2⟩, w3⟩, strOk_getD ht3 hl3⟩, binOk_getD hl4⟩, bytesOk_getD ht4⟩⟩,
      propsChecks_ok ht6 hv1 rfl hmax1⟩,
    propsOk_getD ht7, allowed_getD hv2, ⟨beq_self_eq_true _, decide_eq_true hmax2⟩, ?_, ?_, decide_eq_true hmax3⟩
  · rw [f6, f7]
    cases a.will <;> simp [willQosOf, willRetainOf, bitN]
  · cases hp : a.password.isSome <;> cases hu : a.userName.isSome <;> simp_all
  · cases a.will <;> simp [willTopicOf, willPayloadOf]
  · cases hw : a.will.isSome with
    | true => rfl
    | false =>
      cases hwps : a.willProps with
      | none => rfl
      | some wp => simpa [hw, hwps] using hwp
  · simp only [beq_iff_eq, Connect5Args.remaining, e1, e2]

end MqttVerif.Codec
