/-!
# L1 Codec — primitives (impl-shaped)

Result type of every parser, explicit index / slice sites, big-endian integers, packet ids,
`VariableByteInteger` (`src/mqtt/packet/variable_byte_integer.rs`).

Conventions: bytes and machine integers are `Nat`.  A Rust `data[i]`, `&data[a..]`,
`&data[a..b]` or `.unwrap()` that *could* panic is written with `idx` / `sliceFrom` / `slice` /
`vbiOf`, which return `panic site` when the Rust would panic; "no panic" is then a theorem
about the guards in front of those sites.  No imports: linked into `mqttdrv`.
-/
namespace MqttVerif.Codec

/-- the `MqttError` variants the codecs can return -/
inductive Err
  | MalformedPacket | ProtocolError | UnsupportedProtocolVersion | ClientIdentifierNotValid
  | BadUserNameOrPassword | InsufficientBytes | ValueOutOfRange | TopicNameInvalid
deriving DecidableEq, Repr, Inhabited

def Err.name : Err → String
  | .MalformedPacket => "MalformedPacket"
  | .ProtocolError => "ProtocolError"
  | .UnsupportedProtocolVersion => "UnsupportedProtocolVersion"
  | .ClientIdentifierNotValid => "ClientIdentifierNotValid"
  | .BadUserNameOrPassword => "BadUserNameOrPassword"
  | .InsufficientBytes => "InsufficientBytes"
  | .ValueOutOfRange => "ValueOutOfRange"
  | .TopicNameInvalid => "TopicNameInvalid"

/-- parser result: `Ok((value, consumed))`, `Err(e)`, or a Rust panic at `site` -/
inductive PRes (α : Type) where
  | ok (v : α) (consumed : Nat)
  | err (e : Err)
  | panic (site : String)
deriving Repr, DecidableEq

/-- `?` -/
def PRes.bind {α β : Type} (x : PRes α) (f : α → Nat → PRes β) : PRes β :=
  match x with
  | .ok a c => f a c
  | .err e => .err e
  | .panic s => .panic s

/-- `.map_err(|_| e)?` -/
def PRes.mapErr {α : Type} (x : PRes α) (e : Err) : PRes α :=
  match x with
  | .ok a c => .ok a c
  | .err _ => .err e
  | .panic s => .panic s

def PRes.isPanic {α : Type} : PRes α → Bool
  | .panic _ => true
  | _ => false

/-! ### index / slice sites -/

/-- `data[i]` -/
def idx {α : Type} (site : String) (data : List Nat) (i : Nat) (k : Nat → PRes α) : PRes α :=
  match data[i]? with
  | some b => k b
  | none => .panic site

/-- `&data[a..]` -/
def sliceFrom {α : Type} (site : String) (data : List Nat) (a : Nat) (k : List Nat → PRes α) : PRes α :=
  if a ≤ data.length then k (data.drop a) else .panic site

/-- `&data[a..b]` -/
def slice {α : Type} (site : String) (data : List Nat) (a b : Nat) (k : List Nat → PRes α) : PRes α :=
  if a ≤ b ∧ b ≤ data.length then k ((data.drop a).take (b - a)) else .panic site

/-! ### big-endian integers -/

/-- `u16::from_be_bytes` / `u32::from_be_bytes` / `PacketId::from_buffer` on a slice of the right size -/
def beNat (bs : List Nat) : Nat := bs.foldl (fun acc b => acc * 256 + b) 0

def encU16 (v : Nat) : List Nat := [v / 256, v % 256]
def encU32 (v : Nat) : List Nat := [v / 16777216, v / 65536 % 256, v / 256 % 256, v % 256]

/-- `PacketIdType::to_buffer` for `pw = 2` (u16) or `pw = 4` (u32) -/
def encId (pw v : Nat) : List Nat := if pw = 2 then encU16 v else encU32 v

def allZero (bs : List Nat) : Bool := bs.all (· == 0)

/-! ### VariableByteInteger -/

def vbiMax : Nat := 268435455

/-- the `loop` of `from_u32` (at most 4 iterations for `v ≤ MAX`) -/
def vbiEncAux : Nat → Nat → List Nat
  | 0, _ => []
  | fuel + 1, v =>
    if v / 128 > 0 then (v % 128 + 128) :: vbiEncAux fuel (v / 128) else [v % 128]

/-- bytes of `VariableByteInteger::from_u32(v).unwrap()` (`as_bytes`) -/
def vbiEnc (v : Nat) : List Nat := vbiEncAux 4 v

/-- `VariableByteInteger::size` (= `encoded.len()`) -/
def vbiSize (v : Nat) : Nat :=
  if v < 128 then 1 else if v < 16384 then 2 else if v < 2097152 then 3 else 4

/-- `VariableByteInteger::from_u32(n as u32).unwrap()`; the model keeps the *value* (the Rust
    object is always the canonical encoding of its value) -/
def vbiOf {α : Type} (site : String) (n : Nat) (k : Nat → PRes α) : PRes α :=
  if n ≤ vbiMax then k n else .panic site

inductive VRes
  | ok (v consumed : Nat)
  | incomplete
  | err
deriving DecidableEq, Repr

/-- the `for (i, &b) in buf.iter().take(4).enumerate()` loop of `decode_stream`.
    `len` = `buf.len()` of the whole buffer (for the Incomplete / Err distinction).
    (`saturating_add` never saturates: `value ≤ MAX` and the addend is `< 2^28`.) -/
def vbiDecAux : Nat → List Nat → Nat → Nat → Nat → Nat → VRes
  | 0, _, _, _, _, len => if len < 4 then .incomplete else .err
  | _ + 1, [], _, _, _, len => if len < 4 then .incomplete else .err
  | fuel + 1, b :: rest, mult, value, i, len =>
    let value := value + (b % 128) * mult
    if value > vbiMax then .err
    else if b < 128 then                        -- `(b & 0x80) == 0`
      -- `from_u32(value)` is the canonical encoding; a longer input is rejected (since b1b35e9)
      if vbiSize value = i + 1 then .ok value (i + 1) else .err
    else vbiDecAux fuel rest (mult * 128) value (i + 1) len

/-- `VariableByteInteger::decode_stream` -/
def vbiDec (buf : List Nat) : VRes := vbiDecAux 4 buf 1 0 0 buf.length

end MqttVerif.Codec
