import MqttVerif.Codec.Build
import MqttVerif.Codec.Wf
/-!
# L1 Codec — the builders establish `wf` and keep the requested field values

Per argument structure: `X.build_ok : a.build = .ok p → allOk (p.checks) ∧ (fields of p = arguments,
defaults filled in)`, under `typed` (what the Rust argument types guarantee) and, where a size
is computed from lists, the no-truncation bound of the `usize → u32` casts.
Consumed by `Props/C02Build.lean`.
-/
namespace MqttVerif.Codec

/-! ## decomposition of the builder combinators -/

theorem bErr_ne_ok {α : Type} (e : Err) (p : α) : (bErr e : BRes α) ≠ .ok p := by
  intro h; cases h

theorem vbiB_ok {α : Type} {site : String} {n : Nat} {k : Nat → BRes α} {p : α}
    (h : vbiB site n k = .ok p) : asU32 n ≤ vbiMax ∧ k (asU32 n) = .ok p := by
  unfold vbiB at h
  split at h
  · exact ⟨‹_›, h⟩
  · cases h

theorem needPid_ok {α : Type} {pid : Option Nat} {k : Nat → BRes α} {p : α}
    (h : needPid pid k = .ok p) : ∃ id, pid = some id ∧ id ≠ 0 ∧ k id = .ok p := by
  unfold needPid at h
  split at h
  · cases h
  · rename_i id
    split at h
    · cases h
    · exact ⟨id, rfl, ‹_›, h⟩

theorem ite_bErr_ok {α : Type} {c : Prop} [Decidable c] {e : Err} {x : BRes α} {p : α}
    (h : (if c then bErr e else x) = .ok p) : ¬ c ∧ x = .ok p := by
  split at h
  · cases h
  · exact ⟨‹_›, h⟩

theorem checkProps_ok {α : Type} {validate : Props → Option Err} {props : Option Props} {k : BRes α} {p : α}
    (h : checkProps validate props k = .ok p) : (∀ ps, props = some ps → validate ps = none) ∧ k = .ok p := by
  unfold checkProps at h
  split at h
  · exact ⟨fun _ h' => (by cases h'), h⟩
  · rename_i ps
    split at h
    · cases h
    · exact ⟨fun ps' h' => (by cases h'; assumption), h⟩

theorem validateProps_none_ok {al un : List Nat} {ps : Props} (h : validateProps al un ps = none) :
    propsAllowed al un ps = true := by
  unfold validateProps at h
  split at h
  · assumption
  · cases h

/-- `props.getD []` passes the placement check when the `Option` does -/
theorem allowed_getD {al un : List Nat} {props : Option Props}
    (hv : ∀ ps, props = some ps → validateProps al un ps = none) : propsAllowed al un (props.getD []) = true := by
  cases props with
  | none => simp [propsAllowed, countId]
  | some ps => exact validateProps_none_ok (hv ps rfl)

theorem asU32_of_lt {n : Nat} (h : n < 4294967296) : asU32 n = n := Nat.mod_eq_of_lt h

theorem vbiSize_le4 (v : Nat) : vbiSize v ≤ 4 := by
  unfold vbiSize; split <;> (try split) <;> (try split) <;> omega

/-! ## `allOk` of a check list, conjunct by conjunct -/

theorem allOk_nl : allOk [] = true := rfl
theorem allOk_cns (n : String) (b : Bool) (cs : List (String × Bool)) : allOk ((n, b) :: cs) = (b && allOk cs) := rfl
theorem allOk_app (a b : List (String × Bool)) : allOk (a ++ b) = (allOk a && allOk b) := by
  simp [allOk, List.all_append]

/-! ## what `typed` gives -/

theorem idOk_of_typed {pw id : Nat} (ht : optPidTyped pw (some id) = true) (hne : id ≠ 0) : idOk pw id = true := by
  simp only [optPidTyped] at ht
  have h0 : (id != 0) = true := by simpa using hne
  simp only [idOk, h0, Bool.true_and]
  exact ht

theorem optCode_match {ok : Nat → Bool} {rc : Option Nat} :
    optCodeTyped ok rc = true → (match rc with | some rc => ok rc | none => true) = true := by
  cases rc with
  | none => intro _; rfl
  | some c => intro ht; exact ht

theorem propsOk_getD {props : Option Props} (ht : optPropsTyped props = true) : propsOk (props.getD []) = true := by
  cases props with
  | none => simp [propsOk]
  | some ps => simpa [optPropsTyped] using ht

theorem listEmptyOrUnset_false {α : Type} {l : Option (List α)} (h : ¬ listEmptyOrUnset l = true) :
    (l.getD []).isEmpty = false := by
  cases l with
  | none => simp [listEmptyOrUnset] at h
  | some x => simpa [listEmptyOrUnset] using h

/-! ## v3.1.1 -/

theorem buildEmpty_ok {p : Empty} (h : buildEmpty = .ok p) : allOk p.checks = true := by
  cases h; decide

theorem Connack3Args.build_ok {a : Connack3Args} {p : Connack3}
    (ht : optCodeTyped (fun c => decide (c ≤ 5)) a.rc = true) (h : a.build = .ok p) :
    allOk p.checks = true ∧ ∃ sp rc, a.sessionPresent = some sp ∧ a.rc = some rc ∧ p.flags = bitN sp ∧ p.rc = rc := by
  unfold Connack3Args.build at h
  split at h
  · cases h
  · rename_i sp hsp
    split at h
    · cases h
    · rename_i rc hrc
      cases h
      rw [hrc] at ht
      simp only [optCodeTyped, decide_eq_true_eq] at ht
      refine ⟨?_, sp, rc, hsp, hrc, rfl, rfl⟩
      cases sp <;> simp [Connack3.checks, allOk, bitN, ht]

theorem Ack3Args.build_ok {k : AckKind} {pw : Nat} (hpw : pw = 2 ∨ pw = 4) {a : Ack3Args} {p : Ack3}
    (ht1 : optPidTyped pw a.pid = true) (ht2 : optCodeTyped k.rcOk a.rc = true) (h : a.build pw = .ok p) :
    allOk (p.checks k pw) = true ∧ a.pid = some p.pid ∧ p.rc = a.rc := by
  unfold Ack3Args.build at h
  obtain ⟨id, hid, hne, h⟩ := needPid_ok h
  obtain ⟨_, h⟩ := vbiB_ok h
  cases h
  rw [hid] at ht1
  have hlt : pw + (if a.rc.isSome = true then 1 else 0) < 4294967296 := by split <;> omega
  refine ⟨?_, hid, rfl⟩
  simp only [asU32_of_lt hlt, Ack3.checks, allOk_cns, allOk_nl, Bool.and_true, Bool.and_eq_true]
  exact ⟨idOk_of_typed ht1 hne, optCode_match ht2, by simp⟩

theorem Unsuback3Args.build_ok {pw : Nat} (hpw : pw = 2 ∨ pw = 4) {a : Unsuback3Args} {p : Unsuback3}
    (ht1 : optPidTyped pw a.pid = true) (h : a.build pw = .ok p) :
    allOk (p.checks pw) = true ∧ a.pid = some p.pid := by
  unfold Unsuback3Args.build at h
  obtain ⟨id, hid, hne, h⟩ := needPid_ok h
  obtain ⟨_, h⟩ := vbiB_ok h
  cases h
  rw [hid] at ht1
  refine ⟨?_, hid⟩
  simp only [asU32_of_lt (show pw < 4294967296 by omega)]
  simp [Unsuback3.checks, allOk, idOk_of_typed ht1 hne]

theorem Suback3Args.build_ok {pw : Nat} {a : Suback3Args} {p : Suback3}
    (ht1 : optPidTyped pw a.pid = true) (ht2 : optCodesTyped subackRc3Ok a.codes = true)
    (hf : pw + (a.codes.getD []).length < 4294967296) (h : a.build pw = .ok p) :
    allOk (p.checks pw) = true ∧ a.pid = some p.pid ∧ p.codes = a.codes.getD [] := by
  unfold Suback3Args.build at h
  obtain ⟨id, hid, hne, h⟩ := needPid_ok h
  obtain ⟨hne2, h⟩ := ite_bErr_ok h
  obtain ⟨hmax, h⟩ := vbiB_ok h
  cases h
  rw [hid] at ht1
  refine ⟨?_, hid, rfl⟩
  rw [asU32_of_lt hf] at hmax ⊢
  have hc : codesOk subackRc3Ok (a.codes.getD []) = true := by
    cases hcs : a.codes with
    | none => simp [codesOk]
    | some cs => simpa [optCodesTyped, codesOk, hcs] using ht2
  simp [Suback3.checks, allOk, idOk_of_typed ht1 hne, listEmptyOrUnset_false hne2, hc, hmax]

theorem entryOk_of_typed {es : Option (List SubEntry)} (ht : optEntriesTyped es = true)
    (hl : ¬ entriesTooLong es = true) : (es.getD []).all entryOk = true := by
  cases es with
  | none => simp
  | some l =>
    simp only [optEntriesTyped, List.all_eq_true, Bool.and_eq_true, decide_eq_true_eq] at ht
    simp only [entriesTooLong, List.any_eq_true, not_exists, not_and, tooLong, decide_eq_true_eq] at hl
    simp only [Option.getD_some, List.all_eq_true]
    intro e he
    have := ht e he
    have hle := hl e he
    simp [entryOk, strOk, this.1.1, this.1.2, this.2]
    omega

theorem Subscribe3Args.build_ok {pw : Nat} {a : Subscribe3Args} {p : Subscribe3}
    (ht1 : optPidTyped pw a.pid = true) (ht2 : optEntriesTyped a.entries = true)
    (hf : pw + entriesSize (a.entries.getD []) < 4294967296) (h : a.build pw = .ok p) :
    allOk (p.checks pw) = true ∧ a.pid = some p.pid ∧ p.entries = a.entries.getD [] := by
  unfold Subscribe3Args.build at h
  obtain ⟨hlong, h⟩ := ite_bErr_ok h
  obtain ⟨id, hid, hne, h⟩ := needPid_ok h
  obtain ⟨hne2, h⟩ := ite_bErr_ok h
  obtain ⟨hmax, h⟩ := vbiB_ok h
  cases h
  rw [hid] at ht1
  refine ⟨?_, hid, rfl⟩
  rw [asU32_of_lt hf] at hmax ⊢
  simp [Subscribe3.checks, allOk, idOk_of_typed ht1 hne, listEmptyOrUnset_false hne2,
    entryOk_of_typed ht2 hlong, hmax]

theorem strOk_of_typed {ts : Option (List (List Nat))} (ht : optTopicsTyped ts = true)
    (hl : ¬ topicsTooLong ts = true) : (ts.getD []).all strOk = true := by
  cases ts with
  | none => simp
  | some l =>
    simp only [optTopicsTyped, List.all_eq_true] at ht
    simp only [topicsTooLong, List.any_eq_true, not_exists, not_and, tooLong, decide_eq_true_eq] at hl
    simp only [Option.getD_some, List.all_eq_true]
    intro t hin
    have hle := hl t hin
    simp [strOk, ht t hin]
    omega

theorem Unsubscribe3Args.build_ok {pw : Nat} {a : Unsubscribe3Args} {p : Unsubscribe3}
    (ht1 : optPidTyped pw a.pid = true) (ht2 : optTopicsTyped a.topics = true)
    (hf : pw + topicsSize (a.topics.getD []) < 4294967296) (h : a.build pw = .ok p) :
    allOk (p.checks pw) = true ∧ a.pid = some p.pid ∧ p.topics = a.topics.getD [] := by
  unfold Unsubscribe3Args.build at h
  obtain ⟨hlong, h⟩ := ite_bErr_ok h
  obtain ⟨id, hid, hne, h⟩ := needPid_ok h
  obtain ⟨hne2, h⟩ := ite_bErr_ok h
  obtain ⟨hmax, h⟩ := vbiB_ok h
  cases h
  rw [hid] at ht1
  refine ⟨?_, hid, rfl⟩
  rw [asU32_of_lt hf] at hmax ⊢
  simp [Unsubscribe3.checks, allOk, idOk_of_typed ht1 hne, listEmptyOrUnset_false hne2,
    strOk_of_typed ht2 hlong, hmax]


/-! ### PUBLISH -/


theorem bitN_le (b : Bool) : bitN b ≤ 1 := by cases b <;> simp [bitN]

/-- the header byte the PUBLISH setters leave behind -/
def fhOf (qos : Option Nat) (dup retain : Option Bool) : Nat :=
  48 + 8 * bitN (dup.getD false) + 2 * qos.getD 0 + bitN (retain.getD false)

theorem publishHeader_getD (qos : Option Nat) (dup retain : Option Bool) :
    (publishHeader qos dup retain).getD 48 = fhOf qos dup retain := by
  unfold publishHeader fhOf
  split
  · rename_i h
    simp only [Bool.and_eq_true, Option.isNone_iff_eq_none] at h
    obtain ⟨⟨h1, h2⟩, h3⟩ := h
    subst h1 h2 h3
    rfl
  · rfl

theorem fhOf_facts (qos : Option Nat) (dup retain : Option Bool) (hq : qos.getD 0 ≤ 2) :
    fhOf qos dup retain / 16 = 3 ∧ fhOf qos dup retain < 64 ∧ fhOf qos dup retain / 2 % 4 = qos.getD 0
      ∧ fhOf qos dup retain / 8 % 2 = bitN (dup.getD false) ∧ fhOf qos dup retain % 2 = bitN (retain.getD false) := by
  unfold fhOf
  have := bitN_le (dup.getD false)
  have := bitN_le (retain.getD false)
  omega

theorem publishPidBad_false {qos : Option Nat} {dup retain : Option Bool} {pid : Option Nat} (hq : qos.getD 0 ≤ 2)
    (h : ¬ publishPidBad (publishHeader qos dup retain) pid = true) :
    ((qos.getD 0 = 0) ↔ pid = none) ∧ ∀ id, pid = some id → id ≠ 0 := by
  unfold publishPidBad publishHeader at h
  split at h
  · rename_i hd heq
    split at heq
    · cases heq
    · cases heq
      have hb1 := bitN_le (dup.getD false)
      have hb2 := bitN_le (retain.getD false)
      have hq2 : (48 + 8 * bitN (dup.getD false) + 2 * qos.getD 0 + bitN (retain.getD false)) / 2 % 4 = qos.getD 0 := by omega
      rw [hq2] at h
      split at h
      · rename_i h0
        cases pid with
        | none => simp [h0]
        | some id => simp at h
      · rename_i h0
        cases pid with
        | none => simp at h
        | some id => simp at h; simp [h0, h]
  · rename_i heq
    split at heq
    · rename_i hall
      simp only [Bool.and_eq_true, Option.isNone_iff_eq_none] at hall
      cases pid with
      | none => simp [hall.1.1]
      | some id => simp at h
    · cases heq



theorem qos_le_of_typed {qos : Option Nat} (ht : optCodeTyped (fun q => decide (q ≤ 2)) qos = true) : qos.getD 0 ≤ 2 := by
  cases qos with
  | none => simp
  | some q => simpa [optCodeTyped] using ht

theorem topicSetter_ok {t : Option (List Nat)} (ht : optStrTyped t = true) (h : ¬ topicSetterFails t = true) :
    noWildcard (t.getD []) = true ∧ strOk (t.getD []) = true := by
  cases t with
  | none => simp [noWildcard, strOk, utf8Ok, utf8Go]
  | some s =>
    simp only [topicSetterFails, tooLong, Bool.or_eq_true, decide_eq_true_eq, not_or] at h
    simp only [optStrTyped] at ht
    simp only [Option.getD_some, noWildcard, strOk, ht, Bool.and_true, decide_eq_true_eq]
    refine ⟨?_, by omega⟩
    have h1 := h.1.2
    have h2 := h.2
    simp only [List.contains_iff_mem] at h1 h2
    simp [h1, h2]

theorem Publish3Args.build_ok {pw : Nat} {a : Publish3Args} {p : Publish3}
    (ht1 : optStrTyped a.topic = true) (ht2 : optCodeTyped (fun q => decide (q ≤ 2)) a.qos = true)
    (ht3 : optPidTyped pw a.pid = true)
    (hf : strSize (a.topic.getD []) + pw + (a.payload.getD []).length < 4294967296) (h : a.build pw = .ok p) :
    allOk (p.checks pw) = true ∧ p.fh = fhOf a.qos a.dup a.retain ∧ p.topic = a.topic.getD [] ∧ p.pid = a.pid
      ∧ p.payload = a.payload.getD [] := by
  have hq := qos_le_of_typed ht2
  unfold Publish3Args.build at h
  obtain ⟨hts, h⟩ := ite_bErr_ok h
  dsimp only at h
  obtain ⟨hte, h⟩ := ite_bErr_ok h
  obtain ⟨hpb, h⟩ := ite_bErr_ok h
  obtain ⟨_, h⟩ := ite_bErr_ok h
  obtain ⟨hmax, h⟩ := vbiB_ok h
  cases h
  rw [publishHeader_getD] at hmax ⊢
  refine ⟨?_, rfl, rfl, rfl, rfl⟩
  obtain ⟨f1, f2, f3, _, _⟩ := fhOf_facts a.qos a.dup a.retain hq
  obtain ⟨hiff, hnz⟩ := publishPidBad_false hq hpb
  obtain ⟨hw, hs⟩ := topicSetter_ok ht1 hts
  have hne : (a.topic.getD []).isEmpty = false := by
    cases ht : a.topic with
    | none => simp [ht] at hte
    | some t => simpa [ht] using hte
  have hrem : (if fhOf a.qos a.dup a.retain / 2 % 4 ≠ 0 ∧ a.pid.isSome = true then pw else 0)
      = (if a.pid.isSome = true then pw else 0) := by
    rw [f3]
    cases hp : a.pid with
    | none => simp
    | some id => simp; intro h0; have := hiff.mp h0; simp [hp] at this
  rw [hrem] at hmax ⊢
  have hlt : strSize (a.topic.getD []) + (if a.pid.isSome = true then pw else 0) + (a.payload.getD []).length < 4294967296 := by
    split <;> omega
  rw [asU32_of_lt hlt] at hmax ⊢
  simp only [Publish3.checks, publishHeadChecks, allOk_app, allOk_cns, allOk_nl, Bool.and_true, Bool.and_eq_true,
    Publish3.remaining]
  refine ⟨⟨?_, ?_, ?_, hw, hs, ?_, ?_⟩, ?_⟩
  · simp [f1, f2]
  · simp [f3, hq]
  · simp [hne]
  · rw [f3]
    cases hp : a.pid with
    | none => simp [hiff.mpr hp]
    | some id => simp; intro h0; have := hiff.mp h0; simp [hp] at this
  · cases hp : a.pid with
    | none => rfl
    | some id => rw [hp] at ht3; exact idOk_of_typed ht3 (hnz id hp)
  · simp [hmax]


/-! ### CONNECT -/


def willQosOf : Option WillArgs → Nat
  | some w => w.qos
  | none => 0
def willRetainOf : Option WillArgs → Bool
  | some w => w.retain
  | none => false

theorem connectFlagsOf_facts (cs : Option Bool) (will : Option WillArgs) (u pf : Bool) (hq : willQosOf will ≤ 2) :
    connectFlagsOf cs will u pf < 256 ∧ connectFlagsOf cs will u pf % 2 = 0
      ∧ willFlag (connectFlagsOf cs will u pf) = will.isSome
      ∧ userNameFlag (connectFlagsOf cs will u pf) = u
      ∧ passwordFlag (connectFlagsOf cs will u pf) = pf
      ∧ connectFlagsOf cs will u pf / 8 % 4 = willQosOf will
      ∧ connectFlagsOf cs will u pf / 32 % 2 = bitN (willRetainOf will)
      ∧ connectFlagsOf cs will u pf / 2 % 2 = bitN (cs.getD true) := by
  have hb := bitN_le (cs.getD true)
  unfold connectFlagsOf
  generalize bitN (cs.getD true) = c at hb ⊢
  cases will with
  | none =>
    cases u <;> cases pf <;> simp [willFlag, userNameFlag, passwordFlag, bitN, willQosOf, willRetainOf] <;> omega
  | some w =>
    have hr := bitN_le w.retain
    simp only [willQosOf] at hq
    simp only [willRetainOf, willQosOf]
    generalize bitN w.retain = r at hr ⊢
    generalize w.qos = q at hq ⊢
    cases u <;> cases pf <;> simp [willFlag, userNameFlag, passwordFlag, bitN] <;> omega



theorem utf8Ok_nil : utf8Ok [] = true := by decide

theorem strOk_getD {s : Option (List Nat)} (ht : optStrTyped s = true) (hl : ¬ optTooLong s = true) :
    strOk (s.getD []) = true := by
  cases s with
  | none => simp [strOk, utf8Ok_nil]
  | some x =>
    simp only [optTooLong, tooLong, decide_eq_true_eq] at hl
    simp only [optStrTyped] at ht
    simp only [Option.getD_some, strOk, ht, Bool.and_true, decide_eq_true_eq]
    omega

theorem binOk_getD {s : Option (List Nat)} (hl : ¬ optTooLong s = true) : binOk (s.getD []) = true := by
  cases s with
  | none => simp [binOk]
  | some x =>
    simp only [optTooLong, tooLong, decide_eq_true_eq] at hl
    simp only [Option.getD_some, binOk, decide_eq_true_eq]
    omega

theorem bytesOk_getD {s : Option (List Nat)} (ht : optBinTyped s = true) : bytesOk (s.getD []) = true := by
  cases s with
  | none => simp [bytesOk]
  | some x => exact ht

theorem will_ok {w : Option WillArgs} (ht : willTyped w = true) (hl : ¬ willTooLong w = true) :
    strOk (willTopicOf w) = true ∧ binOk (willPayloadOf w) = true ∧ bytesOk (willPayloadOf w) = true ∧ willQosOf w ≤ 2 := by
  cases w with
  | none => simp [willTopicOf, willPayloadOf, willQosOf, strOk, binOk, bytesOk, utf8Ok_nil]
  | some x =>
    simp only [willTooLong, tooLong, Bool.or_eq_true, decide_eq_true_eq, not_or] at hl
    simp only [willTyped, Bool.and_eq_true, decide_eq_true_eq] at ht
    obtain ⟨⟨u1, u2⟩, u3⟩ := ht
    refine ⟨?_, ?_, u2, u3⟩
    · simp only [willTopicOf, Option.map_some, Option.getD_some, strOk, u1, Bool.and_true]; exact decide_eq_true (by omega)
    · simp only [willPayloadOf, Option.map_some, Option.getD_some, binOk]; exact decide_eq_true (by omega)

theorem u16_getD {v : Option Nat} (ht : optU16Typed v = true) : v.getD 0 < 65536 := by
  cases v with
  | none => simp
  | some x => simpa [optU16Typed] using ht

theorem isEmpty_getD_of_none {s : Option (List Nat)} : (s.isSome || (s.getD []).isEmpty) = true := by
  cases s <;> simp

theorem Connect3Args.build_ok {a : Connect3Args} {p : Connect3}
    (ht1 : optStrTyped a.clientId = true) (ht2 : willTyped a.will = true) (ht3 : optStrTyped a.userName = true)
    (ht4 : optBinTyped a.password = true) (ht5 : optU16Typed a.keepAlive = true)
    (hf : a.remaining < 4294967296) (h : a.build = .ok p) :
    allOk p.checks = true
      ∧ p.flags = connectFlagsOf a.cleanSession a.will a.userName.isSome a.password.isSome
      ∧ p.keepAlive = a.keepAlive.getD 0 ∧ p.clientId = a.clientId.getD []
      ∧ p.willTopic = willTopicOf a.will ∧ p.willPayload = willPayloadOf a.will
      ∧ p.userName = a.userName.getD [] ∧ p.password = a.password.getD [] := by
  unfold Connect3Args.build at h
  obtain ⟨hl1, h⟩ := ite_bErr_ok h
  obtain ⟨hl2, h⟩ := ite_bErr_ok h
  obtain ⟨hl3, h⟩ := ite_bErr_ok h
  obtain ⟨hl4, h⟩ := ite_bErr_ok h
  dsimp only at h
  obtain ⟨hpu, h⟩ := ite_bErr_ok h
  obtain ⟨hmax, h⟩ := vbiB_ok h
  cases h
  refine ⟨?_, rfl, rfl, rfl, rfl, rfl, rfl, rfl⟩
  obtain ⟨w1, w2, w3, w4⟩ := will_ok ht2 hl2
  obtain ⟨f1, f2, f3, f4, f5, f6, f7, _⟩ :=
    connectFlagsOf_facts a.cleanSession a.will a.userName.isSome a.password.isSome w4
  rw [asU32_of_lt hf] at hmax ⊢
  rw [f4, f5] at hpu
  simp only [Connect3.checks, connectFlagChecks, Connect3.remaining, allOk_app, allOk_cns, allOk_nl, Bool.and_true,
    Bool.and_eq_true, f3, f4, f5]
  refine ⟨⟨by simpa using f1, by simp [f2], by simp [f6, w4], ?_, ?_, ⟨⟨?_, isEmpty_getD_of_none⟩, isEmpty_getD_of_none⟩⟩,
    by simpa using u16_getD ht5,
    ⟨⟨⟨⟨⟨⟨strOk_getD ht1 hl1, w1⟩, w2⟩, w3⟩, strOk_getD ht3 hl3⟩, binOk_getD hl4⟩, bytesOk_getD ht4⟩, ?_⟩
  · rw [f6, f7]
    cases a.will <;> simp [willQosOf, willRetainOf, bitN]
  · cases hp : a.password.isSome <;> cases hu : a.userName.isSome <;> simp_all
  · cases a.will <;> simp [willTopicOf, willPayloadOf]
  · simp only [Connect3Args.remaining, beq_self_eq_true, true_and]; exact decide_eq_true hmax


end MqttVerif.Codec
