import MqttVerif.Codec.LemmasRTKinds
import MqttVerif.Codec.LemmasKinds
/-!
# L1 Codec — `size = |encode|` for *accepted* input (C04), without assuming well-formedness

Partial-correctness triples `Post x Q` (`x = ok a c → Q a c`): no guard obligations (totality is
in `LemmasKinds.lean`).  Holds for the 23 parsers that compute `remaining_length` from the sizes
of the parts; the other six (CONNECT, CONNACK, SUBSCRIBE, SUBACK, UNSUBSCRIBE, UNSUBACK v5.0)
take it from the consumed byte count and are refuted in `Props/C04.lean`.
-/
namespace MqttVerif.Codec

def Post {α : Type} (x : PRes α) (Q : α → Nat → Prop) : Prop := ∀ a c, x = .ok a c → Q a c

theorem post_ok {α : Type} {a : α} {c : Nat} {Q : α → Nat → Prop} (h : Q a c) : Post (.ok a c) Q := by
  intro a' c' e; cases e; exact h
theorem post_err {α : Type} {e : Err} {Q : α → Nat → Prop} : Post (.err e : PRes α) Q := by
  intro a c h; cases h
theorem post_panic {α : Type} {s : String} {Q : α → Nat → Prop} : Post (.panic s : PRes α) Q := by
  intro a c h; cases h

theorem Sat.toPost {α : Type} {x : PRes α} {Q : α → Nat → Prop} (h : Sat x Q) : Post x Q := h.post

theorem post_bind {α β : Type} {x : PRes α} {f : α → Nat → PRes β} {P : α → Nat → Prop} {Q : β → Nat → Prop}
    (hx : Post x P) (hf : ∀ a c, P a c → Post (f a c) Q) : Post (x.bind f) Q := by
  cases x with
  | ok a c => exact hf a c (hx a c rfl)
  | err e => exact post_err
  | panic s => exact post_panic

theorem post_mapErr {α : Type} {x : PRes α} {e : Err} {Q : α → Nat → Prop} (h : Post x Q) : Post (x.mapErr e) Q := by
  cases x with
  | ok a c => exact h
  | err e => exact post_err
  | panic s => exact post_panic

theorem post_and {α : Type} {x : PRes α} {P Q : α → Nat → Prop} (h1 : Post x P) (h2 : Post x Q) :
    Post x (fun a c => P a c ∧ Q a c) := fun a c e => ⟨h1 a c e, h2 a c e⟩

theorem post_idx {α : Type} {site : String} {data : List Nat} {i : Nat} {k : Nat → PRes α} {Q : α → Nat → Prop}
    (hk : ∀ b, Post (k b) Q) : Post (idx site data i k) Q := by
  unfold idx; split
  · exact hk _
  · exact post_panic

theorem post_sliceFrom {α : Type} {site : String} {data : List Nat} {a : Nat} {k : List Nat → PRes α}
    {Q : α → Nat → Prop} (hk : ∀ d, d.length = data.length - a → Post (k d) Q) : Post (sliceFrom site data a k) Q := by
  unfold sliceFrom; split
  · exact hk _ (by simp)
  · exact post_panic

theorem post_slice {α : Type} {site : String} {data : List Nat} {a b : Nat} {k : List Nat → PRes α}
    {Q : α → Nat → Prop} (hk : ∀ d, d.length = b - a → Post (k d) Q) : Post (slice site data a b k) Q := by
  unfold slice; split
  · rename_i h; exact hk _ (by simp; omega)
  · exact post_panic

theorem post_vbiOf {α : Type} {site : String} {n : Nat} {k : Nat → PRes α} {Q : α → Nat → Prop}
    (hk : n ≤ vbiMax → Post (k n) Q) : Post (vbiOf site n k) Q := by
  unfold vbiOf; split
  · rename_i h; exact hk h
  · exact post_panic

theorem post_usub {α : Type} {site : String} {a b : Nat} {k : Nat → PRes α} {Q : α → Nat → Prop}
    (hk : b ≤ a → Post (k (a - b)) Q) : Post (usub site a b k) Q := by
  unfold usub; split
  · rename_i h; exact hk h
  · exact post_panic

theorem post_map {α β : Type} {x : PRes α} {f : α → β} {P : α → Nat → Prop} {Q : β → Nat → Prop}
    (hx : Post x P) (hf : ∀ a c, P a c → Q (f a) c) : Post (x.map f) Q :=
  post_bind hx (fun a c h => post_ok (hf a c h))

/-! ### properties: the re-encoding of a parsed property has its reported size -/

theorem parseU8_lenOk (id : Nat) (rest : List Nat) : Post (parseU8 id rest) (fun p _ => p.encode.length = p.size) := by
  unfold parseU8; split
  · exact post_err
  · refine post_idx fun v => ?_
    split
    · exact post_ok rfl
    · exact post_err

theorem parseU16_lenOk (id : Nat) (rest : List Nat) : Post (parseU16 id rest) (fun p _ => p.encode.length = p.size) := by
  unfold parseU16; split
  · exact post_err
  · refine post_idx fun b0 => post_idx fun b1 => ?_
    dsimp only; split
    · exact post_ok rfl
    · exact post_err

theorem parseU32_lenOk (id : Nat) (rest : List Nat) : Post (parseU32 id rest) (fun p _ => p.encode.length = p.size) := by
  unfold parseU32; split
  · exact post_err
  · refine post_idx fun b0 => post_idx fun b1 => post_idx fun b2 => post_idx fun b3 => ?_
    dsimp only; split
    · exact post_ok rfl
    · exact post_err

theorem parseVbi_lenOk (id : Nat) (rest : List Nat) : Post (parseVbi id rest) (fun p _ => p.encode.length = p.size) := by
  unfold parseVbi; split
  · rename_i v len hv
    split
    · refine post_ok ?_
      simp [Property.encode, Property.size, vbiEnc_length v (vbiDec_ok hv).1]; omega
    · exact post_err
  · exact post_err
  · exact post_err

theorem parsePStr_lenOk (id : Nat) (rest : List Nat) : Post (parsePStr id rest) (fun p _ => p.encode.length = p.size) := by
  unfold parsePStr
  refine post_bind (decStr_sat rest).toPost fun s c _ => post_ok ?_
  simp [Property.encode, Property.size, encStr_length]; omega

theorem parsePBin_lenOk (id : Nat) (rest : List Nat) : Post (parsePBin id rest) (fun p _ => p.encode.length = p.size) := by
  unfold parsePBin
  refine post_bind (decBin_sat rest).toPost fun s c _ => post_ok ?_
  simp [Property.encode, Property.size, encStr_length]; omega

theorem parsePair_lenOk (id : Nat) (rest : List Nat) : Post (parsePair id rest) (fun p _ => p.encode.length = p.size) := by
  unfold parsePair
  refine post_bind (decStr_sat rest).toPost fun k kc _ => ?_
  refine post_sliceFrom fun d _ => ?_
  refine post_bind (decStr_sat d).toPost fun v vc _ => post_ok ?_
  simp [Property.encode, Property.size, encStr_length]; omega

theorem Property.parse_lenOk (bytes : List Nat) : Post (Property.parse bytes) (fun p _ => p.encode.length = p.size) := by
  unfold Property.parse
  split
  · exact post_err
  · refine post_idx fun id => ?_
    split
    · exact post_err
    · rename_i sh _
      refine post_sliceFrom fun rest _ => ?_
      dsimp only
      refine post_bind (P := fun p _ => p.encode.length = p.size) ?_ fun p c h => post_ok h
      cases sh
      · exact parseU8_lenOk id rest
      · exact parseU16_lenOk id rest
      · exact parseU32_lenOk id rest
      · exact parseVbi_lenOk id rest
      · exact parsePStr_lenOk id rest
      · exact parsePBin_lenOk id rest
      · exact parsePair_lenOk id rest

theorem propsLoop_lenOk (fuel : Nat) (region : List Nat) :
    Post (propsLoop fuel region) (fun ps _ => (Props.encode ps).length = ps.size) := by
  induction fuel generalizing region with
  | zero => unfold propsLoop; split
            · exact post_ok rfl
            · exact post_panic
  | succ fuel ih =>
    unfold propsLoop
    split
    · exact post_ok rfl
    · refine post_bind (Property.parse_lenOk region) fun p c hp => ?_
      refine post_bind (ih (region.drop c)) fun ps c' hps => post_ok ?_
      rw [Props.encode_cons, List.length_append, Props.size_cons, hp, hps]

theorem Props.parse_lenOk (data : List Nat) :
    Post (Props.parse data) (fun ps _ => (Props.encode ps).length = ps.size) := by
  unfold Props.parse
  split
  · exact post_err
  · split
    · split
      · exact post_ok rfl
      · dsimp only; split
        · exact post_err
        · refine post_slice fun region _ => ?_
          exact post_bind (propsLoop_lenOk _ region) fun ps c h => post_ok h
    · exact post_err

/-- properties at a cursor: value `(props, propLen)` with `propLen = props.size ≤ MAX` and the
    re-encoding of the right length -/
theorem parsePropsAt_lenOk (site : String) (validate : Props → Option Err) (data : List Nat) (cursor : Nat) :
    Post (parsePropsAt site validate data cursor)
      (fun pp c => (Props.encode pp.1).length = pp.1.size ∧ pp.2 = pp.1.size ∧ pp.2 ≤ vbiMax
                    ∧ c = vbiSize pp.2 + pp.1.size) := by
  unfold parsePropsAt
  refine post_sliceFrom fun d _ => ?_
  refine post_bind (post_and (Props.parse_lenOk d) (Props.parse_sat d).toPost) fun ps c ⟨h, h2, _, _, _⟩ => ?_
  split
  · exact post_err
  · exact post_vbiOf fun hm => post_ok ⟨h, rfl, hm, h2.symm⟩

/-! ### per kind: `size = |encode|` for accepted input -/

theorem sizeOfRem_eq (fh rl : Nat) (body : List Nat) (h : rl ≤ vbiMax) (hb : body.length = rl) :
    sizeOfRem rl = (fh :: vbiEnc rl ++ body).length := size_of_frame fh rl body h hb

theorem Connack3.size_ok (data : List Nat) : Post (Connack3.parse data) (fun p _ => p.size = p.encode.length) := by
  unfold Connack3.parse
  split
  · exact post_err
  · refine post_idx fun f => post_idx fun c => ?_
    split
    · exact post_err
    · exact post_ok (by simp [Connack3.size, Connack3.encode, sizeOfRem, vbiSize, vbiEnc, vbiEncAux])

theorem Empty.size_ok (fh : Nat) (data : List Nat) : Post (Empty.parse data) (fun p _ => p.size = (p.encode fh).length) := by
  unfold Empty.parse
  exact post_ok (by simp [Empty.size, Empty.encode, sizeOfRem, vbiSize, vbiEnc, vbiEncAux])

theorem Ack3.size_ok (k : AckKind) (pw : Nat) (data : List Nat) (hpw : pw = 2 ∨ pw = 4) :
    Post (Ack3.parse k pw data) (fun p _ => p.size = (p.encode k pw).length) := by
  unfold Ack3.parse
  split
  · exact post_err
  · refine post_slice fun idb _ => ?_
    split
    · exact post_err
    · dsimp only
      split
      · refine post_idx fun rc => ?_
        split
        · exact post_err
        · refine post_vbiOf fun hm => post_ok ?_
          have := sizeOfRem_eq k.fh (pw + 1) (encId pw (beNat idb) ++ [rc]) hm (by simp [encId_length pw _ hpw])
          simpa [Ack3.size, Ack3.encode, encOptByte] using this
      · refine post_vbiOf fun hm => post_ok ?_
        have := sizeOfRem_eq k.fh pw (encId pw (beNat idb)) hm (encId_length pw _ hpw)
        simpa [Ack3.size, Ack3.encode, encOptByte] using this

theorem parseIdFront_post (site : String) (pw : Nat) (data : List Nat) :
    Post (parseIdFront site pw data) (fun _ c => c = pw) :=
  fun a c e => ((parseIdFront_sat site pw data).post a c e).1

theorem Unsuback3.size_ok (pw : Nat) (data : List Nat) (hpw : pw = 2 ∨ pw = 4) :
    Post (Unsuback3.parse pw data) (fun p _ => p.size = (p.encode pw).length) := by
  unfold Unsuback3.parse
  refine post_bind (parseIdFront_post _ pw data) fun pid c _ => ?_
  refine post_vbiOf fun hm => post_ok ?_
  exact sizeOfRem_eq 0xb0 pw (encId pw pid) hm (encId_length pw _ hpw)

theorem Suback3.size_ok (pw : Nat) (data : List Nat) (hpw : pw = 2 ∨ pw = 4) :
    Post (Suback3.parse pw data) (fun p _ => p.size = (p.encode pw).length) := by
  unfold Suback3.parse
  refine post_bind (parseIdFront_post _ pw data) fun pid c _ => ?_
  refine post_sliceFrom fun codes _ => ?_
  split
  · exact post_err
  · split
    · exact post_err
    · refine post_vbiOf fun hm => post_ok ?_
      have := sizeOfRem_eq 0x90 (pw + codes.length) (encId pw pid ++ codes) hm (by simp [encId_length pw _ hpw])
      simpa [Suback3.size, Suback3.encode] using this

theorem Subscribe3.size_ok (pw : Nat) (data : List Nat) (hpw : pw = 2 ∨ pw = 4) :
    Post (Subscribe3.parse pw data) (fun p _ => p.size = (p.encode pw).length) := by
  unfold Subscribe3.parse
  refine post_bind (parseIdFront_post _ pw data) fun pid c _ => ?_
  refine post_sliceFrom fun rest _ => ?_
  refine post_bind (P := fun _ _ => True) (fun _ _ _ => trivial) fun es c2 _ => ?_
  split
  · exact post_err
  · refine post_vbiOf fun hm => post_ok ?_
    have := sizeOfRem_eq 0x82 (pw + entriesSize es) (encId pw pid ++ entriesEncode es) hm
      (by simp [encId_length pw _ hpw, entriesEncode_length])
    simpa [Subscribe3.size, Subscribe3.encode] using this

theorem Unsubscribe3.size_ok (pw : Nat) (data : List Nat) (hpw : pw = 2 ∨ pw = 4) :
    Post (Unsubscribe3.parse pw data) (fun p _ => p.size = (p.encode pw).length) := by
  unfold Unsubscribe3.parse
  refine post_bind (parseIdFront_post _ pw data) fun pid c _ => ?_
  refine post_sliceFrom fun rest _ => ?_
  refine post_bind (P := fun _ _ => True) (fun _ _ _ => trivial) fun ts c2 _ => ?_
  split
  · exact post_err
  · refine post_vbiOf fun hm => post_ok ?_
    have := sizeOfRem_eq 0xa2 (pw + topicsSize ts) (encId pw pid ++ topicsEncode ts) hm
      (by simp [encId_length pw _ hpw, topicsEncode_length])
    simpa [Unsubscribe3.size, Unsubscribe3.encode] using this

theorem parsePublishHead_post (v5 : Bool) (pw flags : Nat) (data : List Nat) :
    Post (parsePublishHead v5 pw flags data) (fun _ c => c ≤ data.length) :=
  fun a c e => ((parsePublishHead_sat v5 pw flags data).post a c e).1

theorem Publish3.size_ok (pw flags : Nat) (data : List Nat) (hpw : pw = 2 ∨ pw = 4) :
    Post (Publish3.parse pw flags data) (fun p _ => p.size = (p.encode pw).length) := by
  unfold Publish3.parse
  refine post_bind (parsePublishHead_post false pw flags data) fun tp c _ => ?_
  refine post_usub fun _ => ?_
  refine post_sliceFrom fun payload hp => ?_
  dsimp only
  refine post_vbiOf fun hm => post_ok ?_
  have := sizeOfRem_eq (0x30 + flags % 16) _ (encStr tp.1 ++ (encOptId pw tp.2 ++ payload)) hm
    (by simp only [List.length_append, encStr_length, encOptId_length pw _ hpw, hp]; omega)
  simpa [Publish3.size, Publish3.encode, List.append_assoc] using this

theorem Publish5.size_ok (pw flags : Nat) (data : List Nat) (hpw : pw = 2 ∨ pw = 4) :
    Post (Publish5.parse pw flags data) (fun p _ => p.size = (p.encode pw).length) := by
  unfold Publish5.parse
  refine post_bind (parsePublishHead_post true pw flags data) fun tp c _ => ?_
  refine post_bind (P := fun pp _ => (Props.encode pp.1).length = pp.1.size ∧ pp.2 ≤ vbiMax) ?_ fun pp c2 ⟨h1, h2⟩ => ?_
  · split
    · exact post_bind (parsePropsAt_lenOk _ _ data c) fun pp pc ⟨a, _, b, _⟩ => post_ok ⟨a, b⟩
    · exact post_ok ⟨rfl, by unfold vbiMax; omega⟩
  · refine post_usub fun _ => ?_
    refine post_sliceFrom fun payload hp => ?_
    dsimp only
    refine post_vbiOf fun hm => post_ok ?_
    have := sizeOfRem_eq (0x30 + flags % 16) _
      (encStr tp.1 ++ (encOptId pw tp.2 ++ (vbiEnc pp.2 ++ (Props.encode pp.1 ++ payload)))) hm
      (by simp only [List.length_append, encStr_length, encOptId_length pw _ hpw, hp, vbiEnc_length _ h2, h1]; omega)
    simpa [Publish5.size, Publish5.encode, List.append_assoc] using this

/-- `[rc [props]]`: when properties were read their re-encoding has the cached length -/
theorem parseRcProps_post (site : String) (rcOk : Nat → Bool) (validate : Props → Option Err) (data : List Nat)
    (cursor : Nat) :
    Post (parseRcProps site rcOk validate data cursor)
      (fun r _ => (encOptByte r.1 ++ encOptProps r.2.2 r.2.1).length = rcPropsRemaining r.1 r.2.1 r.2.2
                  ∧ (r.2.1.isSome = true → r.1.isSome = true)) := by
  unfold parseRcProps
  split
  · refine post_idx fun rc => ?_
    split
    · exact post_err
    · dsimp only
      split
      · refine post_bind (parsePropsAt_lenOk _ _ data (cursor + 1)) fun pp pc ⟨a, b, c, _⟩ => post_ok ?_
        simp [encOptByte, encOptProps, rcPropsRemaining, optPropsSize, vbiEnc_length _ c, a]; omega
      · exact post_ok (by simp [encOptByte, encOptProps, rcPropsRemaining, optPropsSize])
  · exact post_ok (by simp [encOptByte, encOptProps, rcPropsRemaining, optPropsSize])

theorem Ack5.size_ok (k : AckKind) (pw : Nat) (data : List Nat) (hpw : pw = 2 ∨ pw = 4) :
    Post (Ack5.parse k pw data) (fun p _ => p.size = (p.encode k pw).length) := by
  unfold Ack5.parse
  split
  · exact post_err
  · refine post_slice fun idb _ => ?_
    split
    · exact post_err
    · refine post_bind (parseRcProps_post _ _ _ data pw) fun r c ⟨h1, _⟩ => ?_
      dsimp only
      refine post_vbiOf fun hm => post_ok ?_
      have := sizeOfRem_eq k.fh _ (encId pw (beNat idb) ++ (encOptByte r.1 ++ encOptProps r.2.2 r.2.1)) hm
        (by rw [List.length_append, encId_length pw _ hpw, h1]; unfold rcPropsRemaining; omega)
      simpa [Ack5.size, Ack5.encode, List.append_assoc] using this

theorem rcProps5_encode (fh rl : Nat) (rc : Option Nat) (props : Option Props) (pl : Nat) :
    RcProps5.encode fh ⟨rl, rc, props.map (fun _ => pl), props⟩ = fh :: vbiEnc rl ++ (encOptByte rc ++ encOptProps pl props) := by
  cases props <;> simp [RcProps5.encode, encOptProps]

theorem Disconnect5.size_ok (data : List Nat) :
    Post (Disconnect5.parse data) (fun p _ => p.size = (p.encode 0xe0).length) := by
  unfold Disconnect5.parse
  refine post_bind (parseRcProps_post _ _ _ data 0) fun r c ⟨h1, _⟩ => ?_
  refine post_vbiOf fun hm => post_ok ?_
  rw [rcProps5_encode]
  exact sizeOfRem_eq 0xe0 _ _ hm h1

theorem Auth5.size_ok (data : List Nat) :
    Post (Auth5.parse data) (fun p _ => p.size = (p.encode 0xf0).length) := by
  unfold Auth5.parse
  refine post_bind (parseRcProps_post _ _ _ data 0) fun r c ⟨h1, _⟩ => ?_
  split
  · exact post_err
  · refine post_vbiOf fun hm => post_ok ?_
    rw [rcProps5_encode]
    exact sizeOfRem_eq 0xf0 _ _ hm h1

/-! ### the v5.0 kinds that take `remaining_length` from the consumed byte count
(true since `decode_stream` rejects non-minimal encodings: consumed = canonical size) -/

theorem Connack5.size_ok (data : List Nat) : Post (Connack5.parse data) (fun p _ => p.size = p.encode.length) := by
  unfold Connack5.parse
  split
  · exact post_err
  · refine post_idx fun flags => ?_
    split
    · exact post_err
    · refine post_idx fun code => ?_
      split
      · exact post_err
      · refine post_bind (parsePropsAt_lenOk _ _ data 2) fun pp pc ⟨a, _, b, c⟩ => ?_
        dsimp only
        refine post_vbiOf fun hm => post_ok ?_
        have := sizeOfRem_eq 0x20 (2 + pc) ([flags, code] ++ (vbiEnc pp.2 ++ Props.encode pp.1)) hm
          (by simp only [List.length_append, List.length_cons, List.length_nil, vbiEnc_length _ b, a]; omega)
        simpa [Connack5.size, Connack5.encode, List.append_assoc] using this

theorem Codes5.size_ok (rcOk : Nat → Bool) (fh pw : Nat) (data : List Nat) (hpw : pw = 2 ∨ pw = 4) :
    Post (Codes5.parse rcOk pw data) (fun p _ => p.size = (p.encode fh pw).length) := by
  unfold Codes5.parse
  refine post_bind (parseIdFront_post _ pw data) fun pid c hc => ?_
  refine post_bind (parsePropsAt_lenOk _ _ data c) fun pp pc ⟨a, _, b, e⟩ => ?_
  dsimp only
  refine post_sliceFrom fun codes _ => ?_
  split
  · exact post_err
  · split
    · exact post_err
    · refine post_vbiOf fun hm => post_ok ?_
      have := sizeOfRem_eq fh (pw + pc + codes.length) (encId pw pid ++ (vbiEnc pp.2 ++ (Props.encode pp.1 ++ codes))) hm
        (by simp only [List.length_append, encId_length pw _ hpw, vbiEnc_length _ b, a]; omega)
      simpa [Codes5.size, Codes5.encode, List.append_assoc] using this

theorem Subscribe5.size_ok (pw : Nat) (data : List Nat) (hpw : pw = 2 ∨ pw = 4) :
    Post (Subscribe5.parse pw data) (fun p _ => p.size = (p.encode pw).length) := by
  unfold Subscribe5.parse
  refine post_bind (parseIdFront_post _ pw data) fun pid c hc => ?_
  refine post_bind (parsePropsAt_lenOk _ _ data c) fun pp pc ⟨a, _, b, e⟩ => ?_
  dsimp only
  refine post_sliceFrom fun rest _ => ?_
  refine post_bind (P := fun _ _ => True) (fun _ _ _ => trivial) fun es c2 _ => ?_
  split
  · exact post_err
  · split
    · exact post_err
    · refine post_vbiOf fun hm => post_ok ?_
      have := sizeOfRem_eq 0x82 (pw + pc + entriesSize es)
        (encId pw pid ++ (vbiEnc pp.2 ++ (Props.encode pp.1 ++ entriesEncode es))) hm
        (by simp only [List.length_append, encId_length pw _ hpw, vbiEnc_length _ b, a, entriesEncode_length]; omega)
      simpa [Subscribe5.size, Subscribe5.encode, List.append_assoc] using this

theorem Unsubscribe5.size_ok (pw : Nat) (data : List Nat) (hpw : pw = 2 ∨ pw = 4) :
    Post (Unsubscribe5.parse pw data) (fun p _ => p.size = (p.encode pw).length) := by
  unfold Unsubscribe5.parse
  refine post_bind (parseIdFront_post _ pw data) fun pid c hc => ?_
  refine post_bind (parsePropsAt_lenOk _ _ data c) fun pp pc ⟨a, _, b, e⟩ => ?_
  dsimp only
  refine post_sliceFrom fun rest _ => ?_
  refine post_bind (P := fun _ _ => True) (fun _ _ _ => trivial) fun ts c2 _ => ?_
  split
  · exact post_err
  · split
    · exact post_err
    · refine post_vbiOf fun hm => post_ok ?_
      have := sizeOfRem_eq 0xa2 (pw + pc + topicsSize ts)
        (encId pw pid ++ (vbiEnc pp.2 ++ (Props.encode pp.1 ++ topicsEncode ts))) hm
        (by simp only [List.length_append, encId_length pw _ hpw, vbiEnc_length _ b, a, topicsEncode_length]; omega)
      simpa [Unsubscribe5.size, Unsubscribe5.encode, List.append_assoc] using this

/-! ### CONNECT -/

theorem decStr_post (d : List Nat) : Post (decStr d) (fun s c => c = strSize s) :=
  fun a c e => by have := ((decStr_sat d).post a c e).1; simpa [strSize] using this
theorem decBin_post (d : List Nat) : Post (decBin d) (fun s c => c = strSize s) :=
  fun a c e => by have := ((decBin_sat d).post a c e).1; simpa [strSize] using this

/-- the will properties of a tail re-encode to their cached length -/
def ConnTail.wOk (t : ConnTail) : Prop :=
  (Props.encode t.willProps).length = t.willProps.size ∧ t.willPropLen ≤ vbiMax

def willLen (v5 : Bool) (t : ConnTail) : Nat :=
  (if v5 then vbiSize t.willPropLen + t.willProps.size else 0) + (strSize t.willTopic + strSize t.willPayload)

theorem parseWill_post (v5 : Bool) (data : List Nat) (cursor : Nat) (t : ConnTail) (ht : t.wOk) :
    Post (parseWill v5 data cursor t)
      (fun t' c => c = cursor + willLen v5 t' ∧ t'.clientId = t.clientId ∧ t'.wOk) := by
  unfold parseWill
  refine post_bind (P := fun t1 c1 => c1 = cursor + (if v5 then vbiSize t1.willPropLen + t1.willProps.size else 0)
      ∧ t1.clientId = t.clientId ∧ t1.wOk) ?_ fun t1 c1 ⟨h1, h2, h3⟩ => ?_
  · cases v5 with
    | false => exact post_ok ⟨by simp, rfl, ht⟩
    | true =>
      simp only [if_true]
      refine post_sliceFrom fun d _ => ?_
      refine post_bind (post_and (Props.parse_lenOk d) (Props.parse_sat d).toPost) fun wp c ⟨a, b, _, _, _⟩ => ?_
      split
      · exact post_err
      · refine post_vbiOf fun hm => post_ok ?_
        exact ⟨by dsimp only; omega, rfl, a, hm⟩
  · refine post_sliceFrom fun d _ => ?_
    refine post_bind (decStr_post d) fun wt c h4 => ?_
    dsimp only
    refine post_sliceFrom fun d2 _ => ?_
    refine post_bind (decBin_post d2) fun wp c2 h5 => post_ok ?_
    refine ⟨?_, h2, h3⟩
    simp only [willLen]
    omega

def tailLen (v5 : Bool) (flags : Nat) (t : ConnTail) : Nat :=
  strSize t.clientId + (if willFlag flags then willLen v5 t else 0)
    + (if userNameFlag flags then strSize t.userName else 0) + (if passwordFlag flags then strSize t.password else 0)

theorem parseConnectTail_post (v5 : Bool) (flags : Nat) (data : List Nat) (cursor : Nat) :
    Post (parseConnectTail v5 flags data cursor) (fun t c => c = cursor + tailLen v5 flags t ∧ t.wOk) := by
  unfold parseConnectTail
  refine post_sliceFrom fun d _ => ?_
  refine post_bind (post_mapErr (decStr_post d)) fun cid c h0 => ?_
  dsimp only
  refine post_bind
    (P := fun t c1 => c1 = cursor + strSize t.clientId + (if willFlag flags then willLen v5 t else 0) ∧ t.wOk)
    ?_ fun t1 c1 ⟨h1, w1⟩ => ?_
  · split
    · refine fun t' c' e => ?_
      obtain ⟨a, b, w⟩ := parseWill_post v5 data (cursor + c) { clientId := cid }
        ⟨rfl, by unfold vbiMax; exact Nat.zero_le _⟩ t' c' e
      refine ⟨?_, w⟩
      simp only [b]
      omega
    · refine post_ok ⟨?_, rfl, by unfold vbiMax; exact Nat.zero_le _⟩
      try dsimp only
      omega
  · refine post_bind
      (P := fun t c2 => c2 = cursor + strSize t.clientId + (if willFlag flags then willLen v5 t else 0)
              + (if userNameFlag flags then strSize t.userName else 0) ∧ t.wOk) ?_ fun t2 c2 ⟨h2, w2⟩ => ?_
    · split
      · refine post_sliceFrom fun d _ => ?_
        refine post_bind (post_mapErr (decStr_post d)) fun u c h => post_ok ⟨?_, w1⟩
        try dsimp only [willLen]
        simp only [willLen] at h1 ⊢
        omega
      · refine post_ok ⟨?_, w1⟩
        try dsimp only
        omega
    · refine post_bind (P := fun t c3 => c3 = cursor + tailLen v5 flags t ∧ t.wOk) ?_ fun t3 c3 h3 => ?_
      · split
        · rename_i hp
          refine post_sliceFrom fun d _ => ?_
          refine post_bind (post_mapErr (decBin_post d)) fun p c h => post_ok ⟨?_, w2⟩
          simp only [tailLen, willLen, if_pos hp] at h2 ⊢
          omega
        · rename_i hp
          refine post_ok ⟨?_, w2⟩
          simp only [tailLen, if_neg hp]
          omega
      · split
        · exact post_err
        · exact post_ok h3

def tailBytes (v5 : Bool) (flags : Nat) (t : ConnTail) : List Nat :=
  encStr t.clientId
    ++ ((if willFlag flags then
            (if v5 then vbiEnc t.willPropLen ++ Props.encode t.willProps else []) ++ (encStr t.willTopic ++ encStr t.willPayload)
          else [])
    ++ ((if userNameFlag flags then encStr t.userName else []) ++ (if passwordFlag flags then encStr t.password else [])))

theorem tail_encode_length (v5 : Bool) (flags : Nat) (t : ConnTail) (w : t.wOk) :
    (tailBytes v5 flags t).length = tailLen v5 flags t := by
  unfold tailBytes tailLen willLen
  cases v5 <;> cases willFlag flags <;> cases userNameFlag flags <;> cases passwordFlag flags <;>
    simp [encStr_length, vbiEnc_length _ w.2, w.1] <;> omega

theorem Connect3.size_ok (data : List Nat) : Post (Connect3.parse data) (fun p _ => p.size = p.encode.length) := by
  unfold Connect3.parse
  refine post_bind (P := fun _ c => c = 10) (fun a c e => ((parseConnectHead_sat 4 data).post a c e).1) fun fk c hc => ?_
  subst hc
  refine post_bind (parseConnectTail_post false fk.1 data 10) fun t c2 ⟨h2, w⟩ => ?_
  refine post_vbiOf fun hm => post_ok ?_
  have := sizeOfRem_eq 0x10 c2 (connectBody 4 fk.1 fk.2 ++ tailBytes false fk.1 t) hm
    (by rw [List.length_append, tail_encode_length false fk.1 t w, h2]; simp [connectBody, encU16] <;> omega)
  simpa [Connect3.size, Connect3.encode, List.append_assoc, tailBytes] using this

theorem Connect5.size_ok (data : List Nat) : Post (Connect5.parse data) (fun p _ => p.size = p.encode.length) := by
  unfold Connect5.parse
  refine post_bind (P := fun _ c => c = 10) (fun a c e => ((parseConnectHead_sat 5 data).post a c e).1) fun fk c hc => ?_
  subst hc
  refine post_bind (parsePropsAt_lenOk _ _ data 10) fun pp pc ⟨a, _, b, e⟩ => ?_
  dsimp only
  refine post_bind (parseConnectTail_post true fk.1 data (10 + pc)) fun t c2 ⟨h2, w⟩ => ?_
  refine post_vbiOf fun hm => post_ok ?_
  have := sizeOfRem_eq 0x10 c2 (connectBody 5 fk.1 fk.2 ++ (vbiEnc pp.2 ++ (Props.encode pp.1 ++ tailBytes true fk.1 t))) hm
    (by simp only [List.length_append, tail_encode_length true fk.1 t w, h2, vbiEnc_length _ b, a]
        simp [connectBody, encU16] <;> omega)
  simpa [Connect5.size, Connect5.encode, List.append_assoc, tailBytes] using this

/-! ### the sum type -/

theorem map_ok_inv {α : Type} {x : PRes α} {f : α → Packet} {p : Packet} {c : Nat} (h : x.map f = .ok p c) :
    ∃ a, p = f a := by
  cases x with
  | ok a c' =>
    simp only [PRes.map, PRes.bind, PRes.ok.injEq] at h
    exact ⟨a, h.1.symm⟩
  | err e => simp [PRes.map, PRes.bind] at h
  | panic s => simp [PRes.map, PRes.bind] at h

/-- every accepted input of every parser yields a packet whose `size()` is the length of its
    serialisation — no well-formedness assumed -/
theorem Packet.size_ok (version pw fh : Nat) (body : List Nat) (p : Packet) (c : Nat) (hpw : pw = 2 ∨ pw = 4)
    (h : Packet.parse version pw fh body = some (.ok p c)) : p.size = (p.encode pw).length := by
  unfold Packet.parse at h
  simp only at h
  split at h
  · split at h <;> first
      | (injection h with h; obtain ⟨a, rfl⟩ := map_ok_inv h; first
          | exact (post_map (Q := fun q _ => q.size = (q.encode pw).length) (Connect5.size_ok body) (fun _ _ hh => hh)) _ c h
          | exact (post_map (Q := fun q _ => q.size = (q.encode pw).length) (Connack5.size_ok body) (fun _ _ hh => hh)) _ c h
          | exact (post_map (Q := fun q _ => q.size = (q.encode pw).length) (Publish5.size_ok pw _ body hpw) (fun _ _ hh => hh)) _ c h
          | exact (post_map (Q := fun q _ => q.size = (q.encode pw).length) (Ack5.size_ok _ pw body hpw) (fun _ _ hh => hh)) _ c h
          | exact (post_map (Q := fun q _ => q.size = (q.encode pw).length) (Subscribe5.size_ok pw body hpw) (fun _ _ hh => hh)) _ c h
          | exact (post_map (Q := fun q _ => q.size = (q.encode pw).length) (Codes5.size_ok _ _ pw body hpw) (fun _ _ hh => hh)) _ c h
          | exact (post_map (Q := fun q _ => q.size = (q.encode pw).length) (Unsubscribe5.size_ok pw body hpw) (fun _ _ hh => hh)) _ c h
          | exact (post_map (Q := fun q _ => q.size = (q.encode pw).length) (Empty.size_ok _ body) (fun _ _ hh => hh)) _ c h
          | exact (post_map (Q := fun q _ => q.size = (q.encode pw).length) (Disconnect5.size_ok body) (fun _ _ hh => hh)) _ c h
          | exact (post_map (Q := fun q _ => q.size = (q.encode pw).length) (Auth5.size_ok body) (fun _ _ hh => hh)) _ c h)
      | (exact absurd h (by simp))
  · split at h <;> first
      | (injection h with h; obtain ⟨a, rfl⟩ := map_ok_inv h; first
          | exact (post_map (Q := fun q _ => q.size = (q.encode pw).length) (Connect3.size_ok body) (fun _ _ hh => hh)) _ c h
          | exact (post_map (Q := fun q _ => q.size = (q.encode pw).length) (Connack3.size_ok body) (fun _ _ hh => hh)) _ c h
          | exact (post_map (Q := fun q _ => q.size = (q.encode pw).length) (Publish3.size_ok pw _ body hpw) (fun _ _ hh => hh)) _ c h
          | exact (post_map (Q := fun q _ => q.size = (q.encode pw).length) (Ack3.size_ok _ pw body hpw) (fun _ _ hh => hh)) _ c h
          | exact (post_map (Q := fun q _ => q.size = (q.encode pw).length) (Subscribe3.size_ok pw body hpw) (fun _ _ hh => hh)) _ c h
          | exact (post_map (Q := fun q _ => q.size = (q.encode pw).length) (Suback3.size_ok pw body hpw) (fun _ _ hh => hh)) _ c h
          | exact (post_map (Q := fun q _ => q.size = (q.encode pw).length) (Unsubscribe3.size_ok pw body hpw) (fun _ _ hh => hh)) _ c h
          | exact (post_map (Q := fun q _ => q.size = (q.encode pw).length) (Unsuback3.size_ok pw body hpw) (fun _ _ hh => hh)) _ c h
          | exact (post_map (Q := fun q _ => q.size = (q.encode pw).length) (Empty.size_ok _ body) (fun _ _ hh => hh)) _ c h)
      | (exact absurd h (by simp))

end MqttVerif.Codec
