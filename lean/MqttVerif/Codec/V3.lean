import MqttVerif.Codec.Property
/-!
# L1 Codec — MQTT v3.1.1 packets (`src/mqtt/packet/v3_1_1/*.rs`), impl-shaped

Every structure keeps the cached `remaining_length` (`remLen`) exactly as the Rust struct does;
`size = 1 + vbiSize remLen + remLen` is computed from the cache, `encode` writes the cache.
`pw` = `size_of::<PacketIdType::Buffer>()` (2 or 4).
-/
namespace MqttVerif.Codec

/-- `usize` subtraction `a - b` (debug build: panics on underflow) -/
def usub {α : Type} (site : String) (a b : Nat) (k : Nat → PRes α) : PRes α :=
  if b ≤ a then k (a - b) else .panic site

/-- `1 + remaining_length.size() + remaining_length.to_u32()` -/
def sizeOfRem (remLen : Nat) : Nat := 1 + vbiSize remLen + remLen

/-! ### CONNECT (shared head/tail with v5.0) -/

/-- protocol name, level, flags, keep alive: `(flags, keep_alive)`, consumed = 10 -/
def parseConnectHead (level : Nat) (data : List Nat) : PRes (Nat × Nat) :=
  if data.length < 0 + 6 then .err .MalformedPacket else
  idx "connect::parse:data[cursor]" data 0 fun n0 =>
  idx "connect::parse:data[cursor+1]" data 1 fun n1 =>
  idx "connect::parse:data[cursor+2]" data 2 fun n2 =>
  idx "connect::parse:data[cursor+3]" data 3 fun n3 =>
  idx "connect::parse:data[cursor+4]" data 4 fun n4 =>
  idx "connect::parse:data[cursor+5]" data 5 fun n5 =>
  if [n2, n3, n4, n5] ≠ [77, 81, 84, 84] ∨ n0 ≠ 0 ∨ n1 ≠ 4 then .err .ProtocolError else
  if data.length < 6 + 1 then .err .MalformedPacket else
  idx "connect::parse:version" data 6 fun ver =>
  if ver ≠ level then .err .UnsupportedProtocolVersion else
  if data.length < 7 + 1 then .err .MalformedPacket else
  idx "connect::parse:flags" data 7 fun flags =>
  -- reserved bit, Will QoS 3, Will QoS / Will Retain without Will Flag (since b95b779)
  if flags % 2 ≠ 0 ∨ flags / 8 % 4 = 3 ∨ (flags / 4 % 2 = 0 ∧ flags / 8 % 8 ≠ 0) then .err .MalformedPacket else
  if data.length < 8 + 2 then .err .MalformedPacket else
  idx "connect::parse:keep_alive[0]" data 8 fun k0 =>
  idx "connect::parse:keep_alive[1]" data 9 fun k1 =>
  .ok (flags, k0 * 256 + k1) 10

def willFlag (flags : Nat) : Bool := flags / 4 % 2 == 1
def passwordFlag (flags : Nat) : Bool := flags / 64 % 2 == 1
def userNameFlag (flags : Nat) : Bool := flags / 128 % 2 == 1

/-- client id … password, as both CONNECT parsers read them -/
structure ConnTail where
  clientId : List Nat := []
  willPropLen : Nat := 0
  willProps : Props := []
  willTopic : List Nat := []
  willPayload : List Nat := []
  userName : List Nat := []
  password : List Nat := []
deriving DecidableEq, Repr, Inhabited

/-- will properties (v5.0 only), will topic, will payload, from `cursor`; the `consumed`
    component of the result is the new cursor -/
def parseWill (v5 : Bool) (data : List Nat) (cursor : Nat) (t : ConnTail) : PRes ConnTail :=
  (if v5 then
      sliceFrom "connect::parse:will_props data[cursor..]" data cursor fun d =>
      (Props.parse d).bind fun wp c =>
      match validateWillProps wp with
      | some e => .err e
      | none => vbiOf "connect::parse:will_property_length" wp.size fun wpl =>
        .ok { t with willProps := wp, willPropLen := wpl } (cursor + c)
    else .ok t cursor).bind fun t cursor =>
  sliceFrom "connect::parse:will_topic data[cursor..]" data cursor fun d =>
  (decStr d).bind fun wt c =>
  let cursor := cursor + c
  sliceFrom "connect::parse:will_payload data[cursor..]" data cursor fun d =>
  (decBin d).bind fun wpay c =>
  .ok { t with willTopic := wt, willPayload := wpay } (cursor + c)

/-- from the client identifier to the end; `consumed` = final cursor -/
def parseConnectTail (v5 : Bool) (flags : Nat) (data : List Nat) (cursor : Nat) : PRes ConnTail :=
  sliceFrom "connect::parse:client_id data[cursor..]" data cursor fun d =>
  ((decStr d).mapErr .ClientIdentifierNotValid).bind fun cid c =>
  let cursor := cursor + c
  let t : ConnTail := { clientId := cid }
  (if willFlag flags then parseWill v5 data cursor t else .ok t cursor).bind fun t cursor =>
  (if userNameFlag flags then
      sliceFrom "connect::parse:user_name data[cursor..]" data cursor fun d =>
      ((decStr d).mapErr .BadUserNameOrPassword).bind fun u c => .ok { t with userName := u } (cursor + c)
    else .ok t cursor).bind fun t cursor =>
  (if passwordFlag flags then
      sliceFrom "connect::parse:password data[cursor..]" data cursor fun d =>
      ((decBin d).mapErr .BadUserNameOrPassword).bind fun p c => .ok { t with password := p } (cursor + c)
    else .ok t cursor).bind fun t cursor =>
  if passwordFlag flags ∧ ¬ userNameFlag flags then .err .ProtocolError else .ok t cursor

structure Connect3 where
  remLen : Nat
  flags : Nat
  keepAlive : Nat
  clientId : List Nat
  willTopic : List Nat
  willPayload : List Nat
  userName : List Nat
  password : List Nat
deriving DecidableEq, Repr, Inhabited

def Connect3.parse (data : List Nat) : PRes Connect3 :=
  (parseConnectHead 4 data).bind fun fk cursor =>
  (parseConnectTail false fk.1 data cursor).bind fun t cursor =>
  vbiOf "v3_1_1::connect::parse:remaining_length" cursor fun rl =>
  .ok { remLen := rl, flags := fk.1, keepAlive := fk.2, clientId := t.clientId, willTopic := t.willTopic,
        willPayload := t.willPayload, userName := t.userName, password := t.password } cursor

def connectBody (level flags keepAlive : Nat) : List Nat :=
  [0, 4, 77, 81, 84, 84, level, flags] ++ encU16 keepAlive

def Connect3.encode (p : Connect3) : List Nat :=
  0x10 :: vbiEnc p.remLen ++ connectBody 4 p.flags p.keepAlive ++ encStr p.clientId
    ++ (if willFlag p.flags then encStr p.willTopic ++ encStr p.willPayload else [])
    ++ (if userNameFlag p.flags then encStr p.userName else [])
    ++ (if passwordFlag p.flags then encStr p.password else [])

def Connect3.size (p : Connect3) : Nat := sizeOfRem p.remLen

/-! ### CONNACK -/

structure Connack3 where
  remLen : Nat
  flags : Nat
  rc : Nat
deriving DecidableEq, Repr, Inhabited

/-- goes through `ConnackBuilder` with `session_present = flags & 1` (reserved bits dropped) -/
def Connack3.parse (data : List Nat) : PRes Connack3 :=
  if data.length < 2 then .err .MalformedPacket else
  idx "v3_1_1::connack::parse:data[0]" data 0 fun flags =>
  idx "v3_1_1::connack::parse:data[1]" data 1 fun code =>
  if code > 5 then .err .MalformedPacket else
  .ok { remLen := 2, flags := flags % 2, rc := code } 2

def Connack3.encode (p : Connack3) : List Nat := 0x20 :: vbiEnc p.remLen ++ [p.flags, p.rc]
def Connack3.size (p : Connack3) : Nat := sizeOfRem p.remLen

/-! ### PUBLISH -/

structure Publish3 where
  fh : Nat
  remLen : Nat
  topic : List Nat
  pid : Option Nat
  payload : List Nat
deriving DecidableEq, Repr, Inhabited

/-- topic and optional packet id, common to both PUBLISH parsers: `(topic, pid)`, consumed = cursor -/
def parsePublishHead (v5 : Bool) (pw flags : Nat) (data : List Nat) : PRes (List Nat × Option Nat) :=
  let qos := flags / 2 % 4
  if qos = 3 then .err .MalformedPacket else
  sliceFrom "publish::parse:data_arc[cursor..]" data 0 fun d =>
  (decStr d).bind fun topic c =>
  let cursor := c
  -- wildcard topic names rejected; v3.1.1 also rejects the empty topic (since 5455204 / 6429d75)
  if (!v5 && topic.isEmpty) || topic.contains 35 || topic.contains 43 then .err .MalformedPacket else
  if qos ≠ 0 then
    if data.length < cursor + pw then .err .MalformedPacket else
    slice "publish::parse:data_arc[cursor..cursor+buffer_size]" data cursor (cursor + pw) fun idb =>
    if allZero idb then .err .MalformedPacket else      -- packet identifier 0 rejected (since 1d6b1a7)
    .ok (topic, some (beNat idb)) (cursor + pw)
  else .ok (topic, none) cursor

def Publish3.parse (pw flags : Nat) (data : List Nat) : PRes Publish3 :=
  (parsePublishHead false pw flags data).bind fun tp cursor =>
  usub "v3_1_1::publish::parse:data_arc.len()-cursor" data.length cursor fun payloadLen =>
  sliceFrom "v3_1_1::publish::parse:ArcPayload::new" data cursor fun payload =>
  let remaining := strSize tp.1 + (if tp.2.isSome then pw else 0) + payloadLen
  vbiOf "v3_1_1::publish::parse:remaining_length" remaining fun rl =>
  .ok { fh := 0x30 + flags % 16, remLen := rl, topic := tp.1, pid := tp.2, payload := payload } data.length

def encOptId (pw : Nat) : Option Nat → List Nat
  | some id => encId pw id
  | none => []

def Publish3.encode (pw : Nat) (p : Publish3) : List Nat :=
  p.fh :: vbiEnc p.remLen ++ encStr p.topic ++ encOptId pw p.pid ++ p.payload

def Publish3.size (p : Publish3) : Nat := sizeOfRem p.remLen

/-! ### PUBACK / PUBREC / PUBREL / PUBCOMP (identical up to header byte and reason-code table) -/

inductive AckKind | puback | pubrec | pubrel | pubcomp
deriving DecidableEq, Repr, Inhabited

def AckKind.fh : AckKind → Nat
  | .puback => 0x40 | .pubrec => 0x50 | .pubrel => 0x62 | .pubcomp => 0x70

/-- `PubackReasonCode::try_from` … `PubcompReasonCode::try_from` succeeds -/
def AckKind.rcOk : AckKind → Nat → Bool
  | .puback, rc | .pubrec, rc => [0x00, 0x10, 0x80, 0x83, 0x87, 0x90, 0x91, 0x97, 0x99].contains rc
  | .pubrel, rc | .pubcomp, rc => [0x00, 0x92].contains rc

structure Ack3 where
  remLen : Nat
  pid : Nat
  rc : Option Nat
deriving DecidableEq, Repr, Inhabited

def Ack3.parse (k : AckKind) (pw : Nat) (data : List Nat) : PRes Ack3 :=
  if data.length < pw then .err .MalformedPacket else
  slice "v3_1_1::ack::parse:data[0..buffer_size]" data 0 pw fun idb =>
  if allZero idb then .err .MalformedPacket else
  let cursor := pw
  if cursor < data.length then
    idx "v3_1_1::ack::parse:data[cursor]" data cursor fun rc =>
    if ¬ k.rcOk rc then .err .MalformedPacket else
    vbiOf "v3_1_1::ack::parse:remaining_length" (pw + 1) fun rl =>
    .ok { remLen := rl, pid := beNat idb, rc := some rc } (cursor + 1)
  else
    vbiOf "v3_1_1::ack::parse:remaining_length" pw fun rl =>
    .ok { remLen := rl, pid := beNat idb, rc := none } cursor

def encOptByte : Option Nat → List Nat
  | some b => [b]
  | none => []

def Ack3.encode (k : AckKind) (pw : Nat) (p : Ack3) : List Nat :=
  k.fh :: vbiEnc p.remLen ++ encId pw p.pid ++ encOptByte p.rc

def Ack3.size (p : Ack3) : Nat := sizeOfRem p.remLen

/-! ### SUBSCRIBE / SUBACK / UNSUBSCRIBE / UNSUBACK -/

/-- `while cursor < data.len() { SubEntry::parse(&data[cursor..]) }` on the rest of the body;
    consumed = bytes the cursor advanced -/
def entriesLoop : Nat → List Nat → PRes (List SubEntry)
  | 0, rest => if rest.isEmpty then .ok [] 0 else .panic "subscribe::parse:fuel"
  | fuel + 1, rest =>
    if rest.isEmpty then .ok [] 0
    else
      (SubEntry.parse rest).bind fun e c =>
      (entriesLoop fuel (rest.drop c)).bind fun es c' => .ok (e :: es) (c + c')

/-- `while cursor < data.len() { MqttString::decode(&data[cursor..]) }` -/
def topicsLoop : Nat → List Nat → PRes (List (List Nat))
  | 0, rest => if rest.isEmpty then .ok [] 0 else .panic "unsubscribe::parse:fuel"
  | fuel + 1, rest =>
    if rest.isEmpty then .ok [] 0
    else
      (decStr rest).bind fun t c =>
      (topicsLoop fuel (rest.drop c)).bind fun ts c' => .ok (t :: ts) (c + c')

/-- `while cursor < data.len() { try_from(data[cursor]) }`: all codes valid, else `MalformedPacket` -/
def codesOk (valid : Nat → Bool) (codes : List Nat) : Bool := codes.all valid

def subackRc3Ok (rc : Nat) : Bool := [0x00, 0x01, 0x02, 0x80].contains rc

def entriesSize (es : List SubEntry) : Nat := (es.map SubEntry.size).sum
def topicsSize (ts : List (List Nat)) : Nat := (ts.map strSize).sum
def entriesEncode (es : List SubEntry) : List Nat := (es.map SubEntry.encode).flatten
def topicsEncode (ts : List (List Nat)) : List Nat := (ts.map encStr).flatten

/-- packet id at the front of the body: value, consumed = `pw`; id 0 rejected (since 9f5ac85) -/
def parseIdFront (site : String) (pw : Nat) (data : List Nat) : PRes Nat :=
  if data.length < pw then .err .MalformedPacket else
  slice site data 0 pw fun idb =>
  if allZero idb then .err .MalformedPacket else .ok (beNat idb) pw

structure Subscribe3 where
  remLen : Nat
  pid : Nat
  entries : List SubEntry
deriving DecidableEq, Repr, Inhabited

def Subscribe3.parse (pw : Nat) (data : List Nat) : PRes Subscribe3 :=
  (parseIdFront "v3_1_1::subscribe::parse:data[0..buffer_size]" pw data).bind fun pid cursor =>
  sliceFrom "v3_1_1::subscribe::parse:data[cursor..]" data cursor fun rest =>
  (entriesLoop rest.length rest).bind fun es c =>
  if es.isEmpty then .err .ProtocolError else
  vbiOf "v3_1_1::subscribe::parse:remaining_length" (pw + entriesSize es) fun rl =>
  .ok { remLen := rl, pid := pid, entries := es } (cursor + c)

def Subscribe3.encode (pw : Nat) (p : Subscribe3) : List Nat :=
  0x82 :: vbiEnc p.remLen ++ encId pw p.pid ++ entriesEncode p.entries
def Subscribe3.size (p : Subscribe3) : Nat := sizeOfRem p.remLen

structure Suback3 where
  remLen : Nat
  pid : Nat
  codes : List Nat
deriving DecidableEq, Repr, Inhabited

def Suback3.parse (pw : Nat) (data : List Nat) : PRes Suback3 :=
  (parseIdFront "v3_1_1::suback::parse:data[0..buffer_size]" pw data).bind fun pid cursor =>
  sliceFrom "v3_1_1::suback::parse:data[cursor]" data cursor fun codes =>
  if ¬ codesOk subackRc3Ok codes then .err .MalformedPacket else
  if codes.isEmpty then .err .ProtocolError else
  vbiOf "v3_1_1::suback::parse:remaining_length" (pw + codes.length) fun rl =>
  .ok { remLen := rl, pid := pid, codes := codes } (cursor + codes.length)

def Suback3.encode (pw : Nat) (p : Suback3) : List Nat :=
  0x90 :: vbiEnc p.remLen ++ encId pw p.pid ++ p.codes
def Suback3.size (p : Suback3) : Nat := sizeOfRem p.remLen

structure Unsubscribe3 where
  remLen : Nat
  pid : Nat
  topics : List (List Nat)
deriving DecidableEq, Repr, Inhabited

def Unsubscribe3.parse (pw : Nat) (data : List Nat) : PRes Unsubscribe3 :=
  (parseIdFront "v3_1_1::unsubscribe::parse:data[0..buffer_size]" pw data).bind fun pid cursor =>
  sliceFrom "v3_1_1::unsubscribe::parse:data[cursor..]" data cursor fun rest =>
  (topicsLoop rest.length rest).bind fun ts c =>
  if ts.isEmpty then .err .ProtocolError else
  vbiOf "v3_1_1::unsubscribe::parse:remaining_length" (pw + topicsSize ts) fun rl =>
  .ok { remLen := rl, pid := pid, topics := ts } (cursor + c)

def Unsubscribe3.encode (pw : Nat) (p : Unsubscribe3) : List Nat :=
  0xa2 :: vbiEnc p.remLen ++ encId pw p.pid ++ topicsEncode p.topics
def Unsubscribe3.size (p : Unsubscribe3) : Nat := sizeOfRem p.remLen

structure Unsuback3 where
  remLen : Nat
  pid : Nat
deriving DecidableEq, Repr, Inhabited

def Unsuback3.parse (pw : Nat) (data : List Nat) : PRes Unsuback3 :=
  (parseIdFront "v3_1_1::unsuback::parse:data[0..buffer_size]" pw data).bind fun pid cursor =>
  vbiOf "v3_1_1::unsuback::parse:remaining_length" pw fun rl =>
  .ok { remLen := rl, pid := pid } cursor

def Unsuback3.encode (pw : Nat) (p : Unsuback3) : List Nat := 0xb0 :: vbiEnc p.remLen ++ encId pw p.pid
def Unsuback3.size (p : Unsuback3) : Nat := sizeOfRem p.remLen

/-! ### PINGREQ / PINGRESP / DISCONNECT (both versions for the pings): the body is ignored -/

structure Empty where
  remLen : Nat
deriving DecidableEq, Repr, Inhabited

def Empty.parse (_data : List Nat) : PRes Empty := .ok { remLen := 0 } 0
def Empty.encode (fh : Nat) (p : Empty) : List Nat := fh :: vbiEnc p.remLen
def Empty.size (p : Empty) : Nat := sizeOfRem p.remLen

end MqttVerif.Codec
