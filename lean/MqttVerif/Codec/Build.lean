import MqttVerif.Codec.Abs
/-!
# L1 Codec — the BUILDERS (`XBuilder::…setters….build()`), impl-shaped

For every packet kind and version: a structure of *optional* builder arguments (one field per
public setter of the derive_builder-generated `XBuilder`; `none` = the setter is not called) and
a total function `build… : Args → Except BuildError Packet` that reproduces

* the setters that can fail themselves (`topic_name(..)?`, `client_id(..)?`, `will_message(..)?`,
  `user_name(..)?`, `password(..)?`, `entries(..)?` of UNSUBSCRIBE, `SubEntry::new(..)?` for the
  SUBSCRIBE entry list): they run BEFORE `build()`, in the order in which the callers
  (`harness/src/codec.rs`) apply them, and return their error at once;
* `validate()`: every check, in source order, with the `MqttError` it returns;
* `build()`: defaults of unset fields, the cached `property_length` / `remaining_length`
  (`VariableByteInteger::from_u32(n as u32).unwrap()`: the `usize → u32` cast is modelled by
  `asU32`, the `unwrap()` of a value above 268 435 455 by `BuildError.panic`).

What Rust guarantees by *type* is not checked by `build` but stated once as `Args.typed`
(a `&str` is valid UTF-8, a `u16` is `< 65536`, a `Qos` is `≤ 2`, a `PubackReasonCode` is one of
its variants, a `Property` came out of its constructor, a packet id fits its integer type).

No Mathlib, no proofs here: linked into `mqttdrv`, which runs `Args.build` next to the real
builders on every `B` line of a codec trace (`Driver/BuildDesc.lean`, `Driver/CodecDrv.lean`).
The theorems are in `Props/C02Build.lean`.
-/
namespace MqttVerif.Codec
open MqttVerif.Spec.Wire (APkt AWill)

inductive BuildError
  | err (e : Err)              -- `Err(MqttError::…)`
  | panic (site : String)      -- an `unwrap()` on `None`
deriving DecidableEq, Repr

abbrev BRes (α : Type) := Except BuildError α

/-- `n as u32` for a `usize` (64-bit target) -/
def asU32 (n : Nat) : Nat := n % 4294967296

/-- `VariableByteInteger::from_u32(n as u32).unwrap()` -/
def vbiB {α : Type} (site : String) (n : Nat) (k : Nat → BRes α) : BRes α :=
  if asU32 n ≤ vbiMax then k (asU32 n) else .error (.panic site)

def bErr {α : Type} (e : Err) : BRes α := .error (.err e)

/-- `MqttString::new` / `MqttBinary::new` (via `TryInto`) refuse more than 65535 bytes
    (`MalformedPacket`) -/
def tooLong (s : List Nat) : Bool := decide (s.length > 65535)

def optTooLong : Option (List Nat) → Bool
  | some s => tooLong s
  | none => false

def bitN (b : Bool) : Nat := if b then 1 else 0

/-! ## argument structures -/

/-- the four arguments of `will_message(topic, payload, qos, retain)` -/
structure WillArgs where
  topic : List Nat
  payload : List Nat
  qos : Nat
  retain : Bool
deriving DecidableEq, Repr, Inhabited

/-- v3.1.1 `ConnectBuilder`: `clean_session`, `client_id?`, `will_message?`, `user_name?`,
    `password?`, `keep_alive` -/
structure Connect3Args where
  cleanSession : Option Bool := none
  clientId : Option (List Nat) := none
  will : Option WillArgs := none
  userName : Option (List Nat) := none
  password : Option (List Nat) := none
  keepAlive : Option Nat := none
deriving DecidableEq, Repr, Inhabited

/-- v5.0 `ConnectBuilder`: `clean_start`, `client_id?`, `will_message?`, `user_name?`, `password?`,
    `keep_alive`, `props`, `will_props` -/
structure Connect5Args where
  cleanStart : Option Bool := none
  clientId : Option (List Nat) := none
  will : Option WillArgs := none
  userName : Option (List Nat) := none
  password : Option (List Nat) := none
  keepAlive : Option Nat := none
  props : Option Props := none
  willProps : Option Props := none
deriving DecidableEq, Repr, Inhabited

/-- v3.1.1 `ConnackBuilder`: `session_present`, `return_code` -/
structure Connack3Args where
  sessionPresent : Option Bool := none
  rc : Option Nat := none
deriving DecidableEq, Repr, Inhabited

/-- v5.0 `ConnackBuilder`: `session_present`, `reason_code`, `props` -/
structure Connack5Args where
  sessionPresent : Option Bool := none
  rc : Option Nat := none
  props : Option Props := none
deriving DecidableEq, Repr, Inhabited

/-- v3.1.1 `GenericPublishBuilder`: `topic_name?`, `qos`, `dup`, `retain`, `packet_id`, `payload` -/
structure Publish3Args where
  topic : Option (List Nat) := none
  qos : Option Nat := none
  dup : Option Bool := none
  retain : Option Bool := none
  pid : Option Nat := none
  payload : Option (List Nat) := none
deriving DecidableEq, Repr, Inhabited

/-- v5.0 `GenericPublishBuilder`: the same and `props` -/
structure Publish5Args where
  topic : Option (List Nat) := none
  qos : Option Nat := none
  dup : Option Bool := none
  retain : Option Bool := none
  pid : Option Nat := none
  payload : Option (List Nat) := none
  props : Option Props := none
deriving DecidableEq, Repr, Inhabited

/-- v3.1.1 `GenericPuback/Pubrec/Pubrel/PubcompBuilder`: `packet_id`, `reason_code` -/
structure Ack3Args where
  pid : Option Nat := none
  rc : Option Nat := none
deriving DecidableEq, Repr, Inhabited

/-- v5.0 `GenericPuback/Pubrec/Pubrel/PubcompBuilder`: `packet_id`, `reason_code`, `props` -/
structure Ack5Args where
  pid : Option Nat := none
  rc : Option Nat := none
  props : Option Props := none
deriving DecidableEq, Repr, Inhabited

/-- v3.1.1 `GenericSubscribeBuilder`: `packet_id`, `entries` (each made by `SubEntry::new(filter, opts)?`) -/
structure Subscribe3Args where
  pid : Option Nat := none
  entries : Option (List SubEntry) := none
deriving DecidableEq, Repr, Inhabited

structure Subscribe5Args where
  pid : Option Nat := none
  entries : Option (List SubEntry) := none
  props : Option Props := none
deriving DecidableEq, Repr, Inhabited

/-- v3.1.1 `GenericSubackBuilder`: `packet_id`, `return_codes` -/
structure Suback3Args where
  pid : Option Nat := none
  codes : Option (List Nat) := none
deriving DecidableEq, Repr, Inhabited

/-- v5.0 `GenericSubackBuilder` / `GenericUnsubackBuilder`: `packet_id`, `reason_codes`, `props` -/
structure Codes5Args where
  pid : Option Nat := none
  codes : Option (List Nat) := none
  props : Option Props := none
deriving DecidableEq, Repr, Inhabited

/-- v3.1.1 `GenericUnsubscribeBuilder`: `packet_id`, `entries?` -/
structure Unsubscribe3Args where
  pid : Option Nat := none
  topics : Option (List (List Nat)) := none
deriving DecidableEq, Repr, Inhabited

structure Unsubscribe5Args where
  pid : Option Nat := none
  topics : Option (List (List Nat)) := none
  props : Option Props := none
deriving DecidableEq, Repr, Inhabited

/-- v3.1.1 `GenericUnsubackBuilder`: `packet_id` -/
structure Unsuback3Args where
  pid : Option Nat := none
deriving DecidableEq, Repr, Inhabited

/-- v5.0 `DisconnectBuilder` / `AuthBuilder`: `reason_code`, `props` -/
structure RcProps5Args where
  rc : Option Nat := none
  props : Option Props := none
deriving DecidableEq, Repr, Inhabited

/-! ## shared pieces -/

/-- `packet_id_buf.is_none()` → `MalformedPacket`; all bytes zero → `MalformedPacket`
    (`id.to_buffer()` is all zero iff `id = 0`) -/
def needPid {α : Type} (pid : Option Nat) (k : Nat → BRes α) : BRes α :=
  match pid with
  | none => bErr .MalformedPacket
  | some id => if id = 0 then bErr .MalformedPacket else k id

/-- `if let Some(ref props) = self.props { validate_…_properties(props)?; }` -/
def checkProps {α : Type} (validate : Props → Option Err) (props : Option Props) (k : BRes α) : BRes α :=
  match props with
  | none => k
  | some ps =>
    match validate ps with
    | some e => bErr e
    | none => k

/-! ## CONNECT -/

/-- the connect-flags byte after the setters: `clean_*` sets / clears bit 1 (default when never
    called: set), `will_message` ORs in `0x04 | qos << 3 | retain << 5`, `user_name` `0x80`,
    `password` `0x40` (each setter is applied at most once, so OR = +) -/
def connectFlagsOf (clean : Option Bool) (will : Option WillArgs) (user pass : Bool) : Nat :=
  128 * bitN user + 64 * bitN pass
    + (match will with
       | some w => 32 * bitN w.retain + 8 * w.qos + 4
       | none => 0)
    + 2 * bitN (clean.getD true)

def willTopicOf (will : Option WillArgs) : List Nat := (will.map (·.topic)).getD []
def willPayloadOf (will : Option WillArgs) : List Nat := (will.map (·.payload)).getD []

def willTooLong : Option WillArgs → Bool
  | some w => tooLong w.topic || tooLong w.payload
  | none => false

def Connect3Args.remaining (a : Connect3Args) : Nat :=
  10 + strSize (a.clientId.getD [])
    + (if a.will.isSome then strSize (willTopicOf a.will) + strSize (willPayloadOf a.will) else 0)
    + (if a.userName.isSome then strSize (a.userName.getD []) else 0)
    + (if a.password.isSome then strSize (a.password.getD []) else 0)

def Connect3Args.build (a : Connect3Args) : BRes Connect3 :=
  -- setters: client_id, will_message (topic, then payload), user_name, password
  if optTooLong a.clientId then bErr .MalformedPacket else
  if willTooLong a.will then bErr .MalformedPacket else
  if optTooLong a.userName then bErr .MalformedPacket else
  if optTooLong a.password then bErr .MalformedPacket else
  let flags := connectFlagsOf a.cleanSession a.will a.userName.isSome a.password.isSome
  -- validate(): password flag without user name flag; (will flag ⇒ will topic / payload set:
  -- only `will_message` sets the flag, the `MalformedPacket` branch cannot be reached)
  if passwordFlag flags && !userNameFlag flags then bErr .ProtocolError else
  -- build()
  vbiB "v3_1_1::connect::build:remaining_length" a.remaining fun rl =>
  .ok { remLen := rl, flags := flags, keepAlive := a.keepAlive.getD 0, clientId := a.clientId.getD [],
        willTopic := willTopicOf a.will, willPayload := willPayloadOf a.will,
        userName := a.userName.getD [], password := a.password.getD [] }

def Connect5Args.remaining (a : Connect5Args) : Nat :=
  10 + vbiSize (asU32 (a.props.getD []).size) + (a.props.getD []).size + strSize (a.clientId.getD [])
    + (if a.will.isSome then
         vbiSize (asU32 (a.willProps.getD []).size) + (a.willProps.getD []).size
           + strSize (willTopicOf a.will) + strSize (willPayloadOf a.will)
       else 0)
    + (if a.userName.isSome then strSize (a.userName.getD []) else 0)
    + (if a.password.isSome then strSize (a.password.getD []) else 0)

def Connect5Args.build (a : Connect5Args) : BRes Connect5 :=
  if optTooLong a.clientId then bErr .MalformedPacket else
  if willTooLong a.will then bErr .MalformedPacket else
  if optTooLong a.userName then bErr .MalformedPacket else
  if optTooLong a.password then bErr .MalformedPacket else
  let flags := connectFlagsOf a.cleanStart a.will a.userName.isSome a.password.isSome
  -- validate()
  if passwordFlag flags && !userNameFlag flags then bErr .ProtocolError else
  -- no will flag, but non-empty will properties (since a9d6f1f)
  if !willFlag flags && (match a.willProps with | some wp => !wp.isEmpty | none => false) then bErr .MalformedPacket else
  checkProps validateConnectProps a.props <|
  checkProps validateWillProps a.willProps <|
  -- build()
  let props := a.props.getD []
  let willProps := a.willProps.getD []
  vbiB "v5_0::connect::build:property_length" props.size fun pl =>
  vbiB "v5_0::connect::build:will_property_length" willProps.size fun wpl =>
  vbiB "v5_0::connect::build:remaining_length" a.remaining fun rl =>
  .ok { remLen := rl, flags := flags, keepAlive := a.keepAlive.getD 0, propLen := pl, props := props,
        clientId := a.clientId.getD [], willPropLen := wpl, willProps := willProps,
        willTopic := willTopicOf a.will, willPayload := willPayloadOf a.will,
        userName := a.userName.getD [], password := a.password.getD [] }

/-! ## CONNACK -/

def Connack3Args.build (a : Connack3Args) : BRes Connack3 :=
  match a.sessionPresent with
  | none => bErr .MalformedPacket
  | some sp =>
    match a.rc with
    | none => bErr .MalformedPacket
    | some rc => .ok { remLen := 2, flags := bitN sp, rc := rc }

def Connack5Args.build (a : Connack5Args) : BRes Connack5 :=
  match a.sessionPresent with
  | none => bErr .MalformedPacket
  | some sp =>
    match a.rc with
    | none => bErr .MalformedPacket
    | some rc =>
      checkProps validateConnackProps a.props <|
      let props := a.props.getD []
      vbiB "v5_0::connack::build:property_length" props.size fun pl =>
      vbiB "v5_0::connack::build:remaining_length" (1 + 1 + vbiSize pl + props.size) fun rl =>
      .ok { remLen := rl, flags := bitN sp, rc := rc, propLen := pl, props := props }

/-! ## PUBLISH -/

/-- `fixed_header` of the builder: `None` until `qos` / `dup` / `retain` is called, then `0x30` with
    the bits of the setters that were called -/
def publishHeader (qos : Option Nat) (dup retain : Option Bool) : Option Nat :=
  if qos.isNone && dup.isNone && retain.isNone then none
  else some (48 + 8 * bitN (dup.getD false) + 2 * qos.getD 0 + bitN (retain.getD false))

/-- `topic_name(..)?`: conversion, then no `#` / `+` -/
def topicSetterFails : Option (List Nat) → Bool
  | some t => tooLong t || t.contains 35 || t.contains 43
  | none => false

/-- the packet-id / QoS block of both `validate()`s; `true` = `MalformedPacket` -/
def publishPidBad (hdr : Option Nat) (pid : Option Nat) : Bool :=
  match hdr with
  | some h =>
    if h / 2 % 4 = 0 then pid.isSome
    else
      match pid with
      | none => true
      | some id => id == 0
  | none => pid.isSome

def payloadTooBig : Option (List Nat) → Bool
  | some p => decide (p.length > 268435455)
  | none => false

def Publish3Args.build (pw : Nat) (a : Publish3Args) : BRes Publish3 :=
  if topicSetterFails a.topic then bErr .MalformedPacket else
  let hdr := publishHeader a.qos a.dup a.retain
  -- validate()
  if (match a.topic with | some t => t.isEmpty | none => true) then bErr .MalformedPacket else
  if publishPidBad hdr a.pid then bErr .MalformedPacket else
  if payloadTooBig a.payload then bErr .MalformedPacket else
  -- build()
  let topic := a.topic.getD []
  let fh := hdr.getD 48
  let payload := a.payload.getD []
  let remaining := strSize topic + (if fh / 2 % 4 ≠ 0 ∧ a.pid.isSome then pw else 0) + payload.length
  vbiB "v3_1_1::publish::build:remaining_length" remaining fun rl =>
  .ok { fh := fh, remLen := rl, topic := topic, pid := a.pid, payload := payload }

def Publish5Args.build (pw : Nat) (a : Publish5Args) : BRes Publish5 :=
  if topicSetterFails a.topic then bErr .MalformedPacket else
  let hdr := publishHeader a.qos a.dup a.retain
  -- validate(): properties first (they decide whether an empty topic is allowed)
  checkProps validatePublishProps a.props <|
  let hasAlias := decide (countId 35 (a.props.getD []) > 0)
  if (match a.topic with | some t => t.isEmpty && !hasAlias | none => !hasAlias) then bErr .MalformedPacket else
  if publishPidBad hdr a.pid then bErr .MalformedPacket else
  if payloadTooBig a.payload then bErr .MalformedPacket else
  -- build()
  let topic := a.topic.getD []
  let fh := hdr.getD 48
  let props := a.props.getD []
  let payload := a.payload.getD []
  vbiB "v5_0::publish::build:property_length" props.size fun pl =>
  let remaining := strSize topic + (if fh / 2 % 4 ≠ 0 ∧ a.pid.isSome then pw else 0) + (vbiSize pl + props.size)
                    + payload.length
  vbiB "v5_0::publish::build:remaining_length" remaining fun rl =>
  .ok { fh := fh, remLen := rl, topic := topic, pid := a.pid, propLen := pl, props := props, payload := payload }

/-! ## PUBACK / PUBREC / PUBREL / PUBCOMP -/

def Ack3Args.build (pw : Nat) (a : Ack3Args) : BRes Ack3 :=
  needPid a.pid fun id =>
  vbiB "v3_1_1::ack::build:remaining_length" (pw + (if a.rc.isSome then 1 else 0)) fun rl =>
  .ok { remLen := rl, pid := id, rc := a.rc }

/-- PUBACK keeps a plain `property_length` (0 when there are no properties), the other three
    an `Option`: the same value in the model's `Ack5` -/
def Ack5Args.build (pw : Nat) (a : Ack5Args) : BRes Ack5 :=
  needPid a.pid fun id =>
  if a.rc.isNone && a.props.isSome then bErr .MalformedPacket else
  checkProps validateAckProps a.props <|
  vbiB "v5_0::ack::build:property_length" (optPropsSize a.props) fun pl =>
  let remaining := pw + (if a.rc.isSome then 1 else 0)
                    + (if a.props.isSome then vbiSize pl + optPropsSize a.props else 0)
  vbiB "v5_0::ack::build:remaining_length" remaining fun rl =>
  .ok { remLen := rl, pid := id, rc := a.rc, propLen := pl, props := a.props }

/-! ## SUBSCRIBE / SUBACK / UNSUBSCRIBE / UNSUBACK -/

/-- `SubEntry::new(filter, opts)?` for every entry, before the `entries` setter is reached -/
def entriesTooLong : Option (List SubEntry) → Bool
  | some es => es.any fun e => tooLong e.topic
  | none => false

def listEmptyOrUnset {α : Type} : Option (List α) → Bool
  | some l => l.isEmpty
  | none => true

def Subscribe3Args.build (pw : Nat) (a : Subscribe3Args) : BRes Subscribe3 :=
  if entriesTooLong a.entries then bErr .MalformedPacket else
  needPid a.pid fun id =>
  if listEmptyOrUnset a.entries then bErr .ProtocolError else
  let es := a.entries.getD []
  vbiB "v3_1_1::subscribe::build:remaining_length" (pw + entriesSize es) fun rl =>
  .ok { remLen := rl, pid := id, entries := es }

def Subscribe5Args.build (pw : Nat) (a : Subscribe5Args) : BRes Subscribe5 :=
  if entriesTooLong a.entries then bErr .MalformedPacket else
  needPid a.pid fun id =>
  if listEmptyOrUnset a.entries then bErr .ProtocolError else
  let es := a.entries.getD []
  if !es.all (fun e => shareNameOk e.topic) then bErr .MalformedPacket else
  checkProps validateSubscribeProps a.props <|
  let props := a.props.getD []
  vbiB "v5_0::subscribe::build:property_length" props.size fun pl =>
  vbiB "v5_0::subscribe::build:remaining_length" (pw + vbiSize pl + props.size + entriesSize es) fun rl =>
  .ok { remLen := rl, pid := id, propLen := pl, props := props, entries := es }

def Suback3Args.build (pw : Nat) (a : Suback3Args) : BRes Suback3 :=
  needPid a.pid fun id =>
  if listEmptyOrUnset a.codes then bErr .ProtocolError else
  let codes := a.codes.getD []
  vbiB "v3_1_1::suback::build:remaining_length" (pw + codes.length) fun rl =>
  .ok { remLen := rl, pid := id, codes := codes }

/-- SUBACK and UNSUBACK v5.0 -/
def Codes5Args.build (pw : Nat) (a : Codes5Args) : BRes Codes5 :=
  needPid a.pid fun id =>
  if listEmptyOrUnset a.codes then bErr .ProtocolError else
  checkProps validateAckProps a.props <|
  let codes := a.codes.getD []
  let props := a.props.getD []
  vbiB "v5_0::suback::build:property_length" props.size fun pl =>
  vbiB "v5_0::suback::build:remaining_length" (pw + vbiSize pl + props.size + codes.length) fun rl =>
  .ok { remLen := rl, pid := id, propLen := pl, props := props, codes := codes }

/-- `entries(..)?` of UNSUBSCRIBE: every item through `TryInto<MqttString>` -/
def topicsTooLong : Option (List (List Nat)) → Bool
  | some ts => ts.any tooLong
  | none => false

def Unsubscribe3Args.build (pw : Nat) (a : Unsubscribe3Args) : BRes Unsubscribe3 :=
  if topicsTooLong a.topics then bErr .MalformedPacket else
  needPid a.pid fun id =>
  if listEmptyOrUnset a.topics then bErr .ProtocolError else
  let ts := a.topics.getD []
  vbiB "v3_1_1::unsubscribe::build:remaining_length" (pw + topicsSize ts) fun rl =>
  .ok { remLen := rl, pid := id, topics := ts }

def Unsubscribe5Args.build (pw : Nat) (a : Unsubscribe5Args) : BRes Unsubscribe5 :=
  -- the setter: conversion of every item, then `validate_share_name` of every item
  if topicsTooLong a.topics then bErr .MalformedPacket else
  if !(a.topics.getD []).all shareNameOk then bErr .MalformedPacket else
  needPid a.pid fun id =>
  if listEmptyOrUnset a.topics then bErr .ProtocolError else
  checkProps validateUnsubscribeProps a.props <|
  let ts := a.topics.getD []
  let props := a.props.getD []
  vbiB "v5_0::unsubscribe::build:property_length" props.size fun pl =>
  vbiB "v5_0::unsubscribe::build:remaining_length" (pw + vbiSize pl + props.size + topicsSize ts) fun rl =>
  .ok { remLen := rl, pid := id, propLen := pl, props := props, topics := ts }

def Unsuback3Args.build (pw : Nat) (a : Unsuback3Args) : BRes Unsuback3 :=
  needPid a.pid fun id =>
  vbiB "v3_1_1::unsuback::build:remaining_length" pw fun rl =>
  .ok { remLen := rl, pid := id }

/-! ## PINGREQ / PINGRESP / DISCONNECT v3.1.1: no setters, `from_u32(0)` -/

def buildEmpty : BRes Empty := .ok { remLen := 0 }

/-! ## DISCONNECT / AUTH v5.0 -/

/-- the tail of both `build()`s: `property_length` is `Some` iff `props` is -/
def buildRcProps (site : String) (rc : Option Nat) (props : Option Props) : BRes RcProps5 :=
  match props with
  | some ps =>
    vbiB (site ++ ":property_length") ps.size fun pl =>
    vbiB (site ++ ":remaining_length") ((if rc.isSome then 1 else 0) + (vbiSize pl + ps.size)) fun rl =>
    .ok { remLen := rl, rc := rc, propLen := some pl, props := some ps }
  | none =>
    vbiB (site ++ ":remaining_length") (if rc.isSome then 1 else 0) fun rl =>
    .ok { remLen := rl, rc := rc, propLen := none, props := none }

def Disconnect5Args.build (a : RcProps5Args) : BRes RcProps5 :=
  if a.rc.isNone && a.props.isSome then bErr .MalformedPacket else
  checkProps validateDisconnectProps a.props <|
  buildRcProps "v5_0::disconnect::build" a.rc a.props

/-- `AuthBuilder::reason_code` also sets `props` to an empty list when they are still unset
    (so a reason code is always followed by a property length) -/
def authPropsOf (a : RcProps5Args) : Option Props :=
  match a.props with
  | some ps => some ps
  | none => if a.rc.isSome then some [] else none

def Auth5Args.build (a : RcProps5Args) : BRes RcProps5 :=
  let props := authPropsOf a
  if a.rc.isNone && props.isSome then bErr .MalformedPacket else
  match validateAuth a.rc props with
  | some e => bErr e
  | none => buildRcProps "v5_0::auth::build" a.rc props

/-! ## all 29 kinds -/

inductive Args
  | connect3 (a : Connect3Args) | connack3 (a : Connack3Args) | publish3 (a : Publish3Args)
  | puback3 (a : Ack3Args) | pubrec3 (a : Ack3Args) | pubrel3 (a : Ack3Args) | pubcomp3 (a : Ack3Args)
  | subscribe3 (a : Subscribe3Args) | suback3 (a : Suback3Args)
  | unsubscribe3 (a : Unsubscribe3Args) | unsuback3 (a : Unsuback3Args)
  | pingreq3 | pingresp3 | disconnect3
  | connect5 (a : Connect5Args) | connack5 (a : Connack5Args) | publish5 (a : Publish5Args)
  | puback5 (a : Ack5Args) | pubrec5 (a : Ack5Args) | pubrel5 (a : Ack5Args) | pubcomp5 (a : Ack5Args)
  | subscribe5 (a : Subscribe5Args) | suback5 (a : Codes5Args)
  | unsubscribe5 (a : Unsubscribe5Args) | unsuback5 (a : Codes5Args)
  | pingreq5 | pingresp5 | disconnect5 (a : RcProps5Args) | auth5 (a : RcProps5Args)
deriving DecidableEq, Repr

/-- `XBuilder::default()`, the setters of `a`, `.build()` -/
def Args.build (pw : Nat) : Args → BRes Packet
  | .connect3 a => a.build.map .connect3
  | .connack3 a => a.build.map .connack3
  | .publish3 a => (a.build pw).map .publish3
  | .puback3 a => (a.build pw).map .puback3
  | .pubrec3 a => (a.build pw).map .pubrec3
  | .pubrel3 a => (a.build pw).map .pubrel3
  | .pubcomp3 a => (a.build pw).map .pubcomp3
  | .subscribe3 a => (a.build pw).map .subscribe3
  | .suback3 a => (a.build pw).map .suback3
  | .unsubscribe3 a => (a.build pw).map .unsubscribe3
  | .unsuback3 a => (a.build pw).map .unsuback3
  | .pingreq3 => buildEmpty.map .pingreq3
  | .pingresp3 => buildEmpty.map .pingresp3
  | .disconnect3 => buildEmpty.map .disconnect3
  | .connect5 a => a.build.map .connect5
  | .connack5 a => a.build.map .connack5
  | .publish5 a => (a.build pw).map .publish5
  | .puback5 a => (a.build pw).map .puback5
  | .pubrec5 a => (a.build pw).map .pubrec5
  | .pubrel5 a => (a.build pw).map .pubrel5
  | .pubcomp5 a => (a.build pw).map .pubcomp5
  | .subscribe5 a => (a.build pw).map .subscribe5
  | .suback5 a => (a.build pw).map .suback5
  | .unsubscribe5 a => (a.build pw).map .unsubscribe5
  | .unsuback5 a => (a.build pw).map .unsuback5
  | .pingreq5 => buildEmpty.map .pingreq5
  | .pingresp5 => buildEmpty.map .pingresp5
  | .disconnect5 a => (Disconnect5Args.build a).map .disconnect5
  | .auth5 a => (Auth5Args.build a).map .auth5

/-! ## what the Rust types guarantee about the arguments -/

/-- a `&str` argument: valid UTF-8 -/
def optStrTyped : Option (List Nat) → Bool
  | some s => utf8Ok s
  | none => true

/-- a `Vec<u8>` argument -/
def optBinTyped : Option (List Nat) → Bool
  | some b => bytesOk b
  | none => true

/-- a `Properties` argument: every element came out of its constructor -/
def optPropsTyped : Option Props → Bool
  | some ps => propsOk ps
  | none => true

/-- a `PacketIdType` argument (`u16` / `u32`) -/
def optPidTyped (pw : Nat) : Option Nat → Bool
  | some id => if pw = 2 then decide (id < 65536) else decide (id < 4294967296)
  | none => true

/-- an argument of an enum type with the discriminants `ok` -/
def optCodeTyped (ok : Nat → Bool) : Option Nat → Bool
  | some c => ok c
  | none => true

def willTyped : Option WillArgs → Bool
  | some w => utf8Ok w.topic && bytesOk w.payload && decide (w.qos ≤ 2)
  | none => true

def optU16Typed : Option Nat → Bool
  | some v => decide (v < 65536)
  | none => true

/-- `SubEntry::new(&str, SubOpts)`: a UTF-8 filter and an options byte made of typed parts -/
def optEntriesTyped : Option (List SubEntry) → Bool
  | some es => es.all fun e => utf8Ok e.topic && subOptsOk e.opts && decide (e.opts < 256)
  | none => true

def optTopicsTyped : Option (List (List Nat)) → Bool
  | some ts => ts.all utf8Ok
  | none => true

def optCodesTyped (ok : Nat → Bool) : Option (List Nat) → Bool
  | some cs => cs.all ok
  | none => true

def Args.typed (pw : Nat) : Args → Bool
  | .connect3 a => optStrTyped a.clientId && willTyped a.will && optStrTyped a.userName && optBinTyped a.password
      && optU16Typed a.keepAlive
  | .connect5 a => optStrTyped a.clientId && willTyped a.will && optStrTyped a.userName && optBinTyped a.password
      && optU16Typed a.keepAlive && optPropsTyped a.props && optPropsTyped a.willProps
  | .connack3 a => optCodeTyped (fun c => decide (c ≤ 5)) a.rc
  | .connack5 a => optCodeTyped connectRcOk a.rc && optPropsTyped a.props
  | .publish3 a => optStrTyped a.topic && optCodeTyped (fun q => decide (q ≤ 2)) a.qos && optPidTyped pw a.pid
  | .publish5 a => optStrTyped a.topic && optCodeTyped (fun q => decide (q ≤ 2)) a.qos && optPidTyped pw a.pid
      && optPropsTyped a.props
  | .puback3 a => optPidTyped pw a.pid && optCodeTyped AckKind.puback.rcOk a.rc
  | .pubrec3 a => optPidTyped pw a.pid && optCodeTyped AckKind.pubrec.rcOk a.rc
  | .pubrel3 a => optPidTyped pw a.pid && optCodeTyped AckKind.pubrel.rcOk a.rc
  | .pubcomp3 a => optPidTyped pw a.pid && optCodeTyped AckKind.pubcomp.rcOk a.rc
  | .puback5 a => optPidTyped pw a.pid && optCodeTyped AckKind.puback.rcOk a.rc && optPropsTyped a.props
  | .pubrec5 a => optPidTyped pw a.pid && optCodeTyped AckKind.pubrec.rcOk a.rc && optPropsTyped a.props
  | .pubrel5 a => optPidTyped pw a.pid && optCodeTyped AckKind.pubrel.rcOk a.rc && optPropsTyped a.props
  | .pubcomp5 a => optPidTyped pw a.pid && optCodeTyped AckKind.pubcomp.rcOk a.rc && optPropsTyped a.props
  | .subscribe3 a => optPidTyped pw a.pid && optEntriesTyped a.entries
  | .subscribe5 a => optPidTyped pw a.pid && optEntriesTyped a.entries && optPropsTyped a.props
  | .suback3 a => optPidTyped pw a.pid && optCodesTyped subackRc3Ok a.codes
  | .suback5 a => optPidTyped pw a.pid && optCodesTyped subackRc5Ok a.codes && optPropsTyped a.props
  | .unsuback5 a => optPidTyped pw a.pid && optCodesTyped unsubackRc5Ok a.codes && optPropsTyped a.props
  | .unsubscribe3 a => optPidTyped pw a.pid && optTopicsTyped a.topics
  | .unsubscribe5 a => optPidTyped pw a.pid && optTopicsTyped a.topics && optPropsTyped a.props
  | .unsuback3 a => optPidTyped pw a.pid
  | .pingreq3 | .pingresp3 | .disconnect3 | .pingreq5 | .pingresp5 => true
  | .disconnect5 a => optCodeTyped disconnectRcOk a.rc && optPropsTyped a.props
  | .auth5 a => optCodeTyped authRcOk a.rc && optPropsTyped a.props

/-- the size `build()` computes in `usize` before the `as u32` cast: when it (and the property
    block sizes in it) stays below 2³² no cast truncates -/
def Args.rawSize (pw : Nat) : Args → Nat
  | .connect3 a => a.remaining
  | .connect5 a => 10 + 4 + (a.props.getD []).size + strSize (a.clientId.getD [])
      + 4 + (a.willProps.getD []).size + strSize (willTopicOf a.will) + strSize (willPayloadOf a.will)
      + strSize (a.userName.getD []) + strSize (a.password.getD [])
  | .connack3 _ => 2
  | .connack5 a => 2 + 4 + (a.props.getD []).size
  | .publish3 a => strSize (a.topic.getD []) + pw + (a.payload.getD []).length
  | .publish5 a => strSize (a.topic.getD []) + pw + 4 + (a.props.getD []).size + (a.payload.getD []).length
  | .puback3 _ | .pubrec3 _ | .pubrel3 _ | .pubcomp3 _ => pw + 1
  | .puback5 a | .pubrec5 a | .pubrel5 a | .pubcomp5 a => pw + 1 + 4 + optPropsSize a.props
  | .subscribe3 a => pw + entriesSize (a.entries.getD [])
  | .subscribe5 a => pw + 4 + (a.props.getD []).size + entriesSize (a.entries.getD [])
  | .suback3 a => pw + (a.codes.getD []).length
  | .suback5 a | .unsuback5 a => pw + 4 + (a.props.getD []).size + (a.codes.getD []).length
  | .unsubscribe3 a => pw + topicsSize (a.topics.getD [])
  | .unsubscribe5 a => pw + 4 + (a.props.getD []).size + topicsSize (a.topics.getD [])
  | .unsuback3 _ => pw
  | .pingreq3 | .pingresp3 | .disconnect3 | .pingreq5 | .pingresp5 => 0
  | .disconnect5 a | .auth5 a => 1 + 4 + optPropsSize a.props

/-- no `usize → u32` cast in `build()` truncates (an upper bound of every cast operand is below 2³²) -/
def Args.fits32 (pw : Nat) (a : Args) : Prop := a.rawSize pw < 4294967296

instance (pw : Nat) (a : Args) : Decidable (a.fits32 pw) := by unfold Args.fits32; infer_instance

/-! ## the requested field values: the arguments with the defaults filled in, as an abstract
packet of `Spec/WireSpec.lean` (independent of `build`) -/

def absWill (props : Option Props) (w : WillArgs) : AWill :=
  { qos := w.qos, retain := w.retain, props := props.map Props.abs, topic := w.topic, payload := w.payload }

def Args.abs : Args → APkt
  | .connect3 a => .connect 4 (a.cleanSession.getD true) (a.keepAlive.getD 0) none (a.clientId.getD [])
      (a.will.map (absWill none)) a.userName a.password
  | .connect5 a => .connect 5 (a.cleanStart.getD true) (a.keepAlive.getD 0) (some (a.props.getD []).abs)
      (a.clientId.getD []) (a.will.map (absWill (some (a.willProps.getD [])))) a.userName a.password
  | .connack3 a => .connack (a.sessionPresent.getD false) (a.rc.getD 0) none
  | .connack5 a => .connack (a.sessionPresent.getD false) (a.rc.getD 0) (some (a.props.getD []).abs)
  | .publish3 a => .publish (a.dup.getD false) (a.qos.getD 0) (a.retain.getD false) (a.topic.getD []) a.pid none
      (a.payload.getD [])
  | .publish5 a => .publish (a.dup.getD false) (a.qos.getD 0) (a.retain.getD false) (a.topic.getD []) a.pid
      (some (a.props.getD []).abs) (a.payload.getD [])
  | .puback3 a => .ack .PUBACK (a.pid.getD 0) a.rc none
  | .pubrec3 a => .ack .PUBREC (a.pid.getD 0) a.rc none
  | .pubrel3 a => .ack .PUBREL (a.pid.getD 0) a.rc none
  | .pubcomp3 a => .ack .PUBCOMP (a.pid.getD 0) a.rc none
  | .puback5 a => .ack .PUBACK (a.pid.getD 0) a.rc (a.props.map Props.abs)
  | .pubrec5 a => .ack .PUBREC (a.pid.getD 0) a.rc (a.props.map Props.abs)
  | .pubrel5 a => .ack .PUBREL (a.pid.getD 0) a.rc (a.props.map Props.abs)
  | .pubcomp5 a => .ack .PUBCOMP (a.pid.getD 0) a.rc (a.props.map Props.abs)
  | .subscribe3 a => .subscribe (a.pid.getD 0) none ((a.entries.getD []).map fun e => (e.topic, e.opts))
  | .subscribe5 a => .subscribe (a.pid.getD 0) (some (a.props.getD []).abs)
      ((a.entries.getD []).map fun e => (e.topic, e.opts))
  | .suback3 a => .suback (a.pid.getD 0) none (a.codes.getD [])
  | .suback5 a => .suback (a.pid.getD 0) (some (a.props.getD []).abs) (a.codes.getD [])
  | .unsubscribe3 a => .unsubscribe (a.pid.getD 0) none (a.topics.getD [])
  | .unsubscribe5 a => .unsubscribe (a.pid.getD 0) (some (a.props.getD []).abs) (a.topics.getD [])
  | .unsuback3 a => .unsuback (a.pid.getD 0) none []
  | .unsuback5 a => .unsuback (a.pid.getD 0) (some (a.props.getD []).abs) (a.codes.getD [])
  | .pingreq3 | .pingreq5 => .pingreq
  | .pingresp3 | .pingresp5 => .pingresp
  | .disconnect3 => .disconnect none none
  | .disconnect5 a => .disconnect a.rc (a.props.map Props.abs)
  | .auth5 a => .auth a.rc ((authPropsOf a).map Props.abs)

/-- MQTT version of the builder -/
def Args.version : Args → Nat
  | .connect3 _ | .connack3 _ | .publish3 _ | .puback3 _ | .pubrec3 _ | .pubrel3 _ | .pubcomp3 _
  | .subscribe3 _ | .suback3 _ | .unsubscribe3 _ | .unsuback3 _ | .pingreq3 | .pingresp3 | .disconnect3 => 4
  | _ => 5

end MqttVerif.Codec
