import MqttVerif.Codec.Basic
/-!
# L1 Codec — `MqttString`, `MqttBinary`, `SubOpts`, `SubEntry`, share-name validation

A string / binary is modelled by its *content* bytes (`List Nat`); the Rust object stores the
2-byte length prefix followed by the content (SSO variants are representation only).
-/
namespace MqttVerif.Codec

/-! ### UTF-8 validity, `core::str::from_utf8` semantics
(no overlong forms, no surrogates, ≤ U+10FFFF; U+0000 is accepted) -/

/-- one byte at a time: `need` continuation bytes outstanding, the next one must lie in `[lo, hi]` -/
def utf8Go : List Nat → Nat → Nat → Nat → Bool
  | [], need, _, _ => need == 0
  | b :: rest, 0, _, _ =>
    if b < 0x80 then utf8Go rest 0 0 0
    else if 0xC2 ≤ b && b ≤ 0xDF then utf8Go rest 1 0x80 0xBF
    else if b == 0xE0 then utf8Go rest 2 0xA0 0xBF
    else if (0xE1 ≤ b && b ≤ 0xEC) || b == 0xEE || b == 0xEF then utf8Go rest 2 0x80 0xBF
    else if b == 0xED then utf8Go rest 2 0x80 0x9F
    else if b == 0xF0 then utf8Go rest 3 0x90 0xBF
    else if 0xF1 ≤ b && b ≤ 0xF3 then utf8Go rest 3 0x80 0xBF
    else if b == 0xF4 then utf8Go rest 3 0x80 0x8F
    else false
  | b :: rest, need + 1, lo, hi =>
    if lo ≤ b && b ≤ hi then utf8Go rest need 0x80 0xBF else false

def utf8Ok (s : List Nat) : Bool := utf8Go s 0 0 0

/-! ### MqttString / MqttBinary -/

/-- `as_bytes()` of an `MqttString` / `MqttBinary` with content `s` (`s.length ≤ 65535`) -/
def encStr (s : List Nat) : List Nat := s.length / 256 :: s.length % 256 :: s

/-- `MqttString::size` / `MqttBinary::size` -/
def strSize (s : List Nat) : Nat := 2 + s.length

/-- `MqttBinary::decode` -/
def decBin (data : List Nat) : PRes (List Nat) :=
  if data.length < 2 then .err .MalformedPacket else
  idx "MqttBinary::decode:data[0]" data 0 fun b0 =>
  idx "MqttBinary::decode:data[1]" data 1 fun b1 =>
  let n := b0 * 256 + b1
  if data.length < 2 + n then .err .MalformedPacket else
  slice "MqttBinary::decode:data[2..2+len]" data 2 (2 + n) fun s =>
  .ok s (2 + n)

/-- `MqttString::decode` -/
def decStr (data : List Nat) : PRes (List Nat) :=
  if data.length < 2 then .err .MalformedPacket else
  idx "MqttString::decode:data[0]" data 0 fun b0 =>
  idx "MqttString::decode:data[1]" data 1 fun b1 =>
  let n := b0 * 256 + b1
  if data.length < 2 + n then .err .MalformedPacket else
  slice "MqttString::decode:data[2..2+len]" data 2 (2 + n) fun s =>
  if utf8Ok s then .ok s (2 + n) else .err .MalformedPacket

/-- `MqttString::new(&str)` / `MqttBinary::new` (the `&str` is valid UTF-8 by type) -/
def newStr (s : List Nat) : Except Err (List Nat) :=
  if s.length > 65535 then .error .MalformedPacket else .ok s

/-! ### SubOpts / SubEntry -/

/-- `SubOpts::from_u8` accepts -/
def subOptsOk (v : Nat) : Bool :=
  v / 64 % 4 == 0 && v % 4 ≤ 2 && v / 16 % 4 ≤ 2

structure SubEntry where
  topic : List Nat
  opts : Nat
deriving DecidableEq, Repr, Inhabited

def SubEntry.encode (e : SubEntry) : List Nat := encStr e.topic ++ [e.opts]
def SubEntry.size (e : SubEntry) : Nat := strSize e.topic + 1

/-- `SubEntry::parse` -/
def SubEntry.parse (data : List Nat) : PRes SubEntry :=
  sliceFrom "SubEntry::parse:data[cursor..]" data 0 fun d0 =>
  (decStr d0).bind fun topic consumed =>
  let cursor := consumed
  if cursor ≥ data.length then .err .MalformedPacket else
  idx "SubEntry::parse:data[cursor]" data cursor fun o =>
  if subOptsOk o then .ok ⟨topic, o⟩ (cursor + 1) else .err .MalformedPacket

/-! ### `validate_share_name` (v5_0/common.rs), on the UTF-8 bytes -/

/-- "$share/" -/
def sharePrefix : List Nat := [36, 115, 104, 97, 114, 101, 47]

/-- `true` = `Ok(())` -/
def shareNameOk (t : List Nat) : Bool :=
  if ¬ sharePrefix.isPrefixOf t then true
  else
    let after := t.drop 7
    let name := after.takeWhile (· != 47)          -- up to the first '/'
    if name.length == after.length then false        -- no '/' : no filter part
    else if name.length == 0 then false              -- empty ShareName
    else !(name.contains 43 || name.contains 35)     -- '+' / '#'

end MqttVerif.Codec
