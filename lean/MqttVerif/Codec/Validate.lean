import MqttVerif.Spec.Placement
/-!
# Hand model of the `validate_*_properties` functions (src/mqtt/packet/v5_0/*.rs)

Every one of the 13 `validate_<packet>_properties` functions and `validate_auth_packet` has
the same shape in Rust:

```rust
let mut count_a = 0; let mut count_b = 0; …
for prop in props {
    match prop {
        Property::A(_) => count_a += 1,        // arm `count`
        Property::UserProperty(_) => {}        // arm `free`
        _ => return Err(MqttError::ProtocolError),   // arm `reject`
    }
}
if count_a > 1 || count_b > 1 … { return Err(MqttError::ProtocolError); }
Ok(())
```

They look at the *variant* of each property only, never at its value (values are checked
by the property constructors / `Property::parse`), so the model works on the list of
property kinds.  The enumeration of kinds (`PropId`, = the variants of `Property` = the
variants of `PropertyId`) and of locations is shared with `Spec.Placement`; nothing else of
the specification is used here: each `…Arm` function below is a transcription of the `match`
of the corresponding Rust function, arm by arm.

The loop is modelled as written (left to right, one counter per kind, early return on the
first kind without an arm); `validateWith_ok_iff` then characterises the verdict for
property lists of ANY length and order.
-/
namespace MqttVerif.Codec.Validate
open MqttVerif.Spec.Placement (PropId Location)

/-- what the `match` of a validator does with a property kind -/
inductive Arm
  | count    -- `Property::X(_) => count_x += 1`
  | free     -- `Property::X(_) => {}`
  | reject   -- `_ => return Err(MqttError::ProtocolError)`
deriving DecidableEq, Repr

inductive Verdict
  | ok
  | protocolError
deriving DecidableEq, Repr

abbrev Counters := PropId → Nat

def Counters.zero : Counters := fun _ => 0

def Counters.bump (c : Counters) (p : PropId) : Counters :=
  fun q => if q = p then c q + 1 else c q

/-- `for prop in props { match prop { … } }`; `none` = the early `return Err(ProtocolError)` -/
def loop (arm : PropId → Arm) : List PropId → Counters → Option Counters
  | [], c => some c
  | p :: ps, c =>
    match arm p with
    | .count => loop arm ps (c.bump p)
    | .free => loop arm ps c
    | .reject => none

/-- `if count_a > 1 || count_b > 1 || … { return Err(ProtocolError) }` (counters of kinds
    without a counting arm stay 0, so the disjunction may range over all kinds) -/
def anyAboveOne (c : Counters) : Bool :=
  PropId.all.any fun p => decide (c p > 1)

def validateWith (arm : PropId → Arm) (ps : List PropId) : Verdict :=
  match loop arm ps Counters.zero with
  | none => .protocolError
  | some c => if anyAboveOne c then .protocolError else .ok

/-! ## the fourteen `match`es, transcribed -/

/-- connect.rs `validate_connect_properties` -/
def connectArm : PropId → Arm
  | .sessionExpiryInterval => .count
  | .receiveMaximum => .count
  | .maximumPacketSize => .count
  | .topicAliasMaximum => .count
  | .requestResponseInformation => .count
  | .requestProblemInformation => .count
  | .userProperty => .free
  | .authenticationMethod => .count
  | .authenticationData => .count
  | _ => .reject

/-- connect.rs `validate_will_properties` -/
def willArm : PropId → Arm
  | .willDelayInterval => .count
  | .payloadFormatIndicator => .count
  | .messageExpiryInterval => .count
  | .contentType => .count
  | .responseTopic => .count
  | .correlationData => .count
  | .userProperty => .free
  | _ => .reject

/-- connack.rs `validate_connack_properties` -/
def connackArm : PropId → Arm
  | .sessionExpiryInterval => .count
  | .receiveMaximum => .count
  | .maximumQoS => .count
  | .retainAvailable => .count
  | .maximumPacketSize => .count
  | .assignedClientIdentifier => .count
  | .topicAliasMaximum => .count
  | .reasonString => .count
  | .wildcardSubscriptionAvailable => .count
  | .subscriptionIdentifierAvailable => .count
  | .sharedSubscriptionAvailable => .count
  | .serverKeepAlive => .count
  | .responseInformation => .count
  | .serverReference => .count
  | .authenticationMethod => .count
  | .authenticationData => .count
  | .userProperty => .free
  | _ => .reject

/-- publish.rs `validate_publish_properties` -/
def publishArm : PropId → Arm
  | .contentType => .count
  | .correlationData => .count
  | .messageExpiryInterval => .count
  | .payloadFormatIndicator => .count
  | .responseTopic => .count
  | .subscriptionIdentifier => .free
  | .topicAlias => .count
  | .userProperty => .free
  | _ => .reject

/-- puback.rs / pubrec.rs / pubrel.rs / pubcomp.rs / suback.rs / unsuback.rs: Reason String
    counted, User Property free -/
def ackArm : PropId → Arm
  | .reasonString => .count
  | .userProperty => .free
  | _ => .reject

/-- subscribe.rs `validate_subscribe_properties` -/
def subscribeArm : PropId → Arm
  | .subscriptionIdentifier => .count
  | .userProperty => .free
  | _ => .reject

/-- unsubscribe.rs `validate_unsubscribe_properties` -/
def unsubscribeArm : PropId → Arm
  | .userProperty => .free
  | _ => .reject

/-- disconnect.rs `validate_disconnect_properties` -/
def disconnectArm : PropId → Arm
  | .sessionExpiryInterval => .count
  | .reasonString => .count
  | .userProperty => .free
  | .serverReference => .count
  | _ => .reject

/-- auth.rs `validate_auth_packet`, the `match` inside `if let Some(properties) = props` -/
def authArm : PropId → Arm
  | .authenticationMethod => .count
  | .authenticationData => .count
  | .reasonString => .count
  | .userProperty => .free
  | _ => .reject

def arm : Location → PropId → Arm
  | .connect => connectArm
  | .will => willArm
  | .connack => connackArm
  | .publish => publishArm
  | .puback => ackArm
  | .pubrec => ackArm
  | .pubrel => ackArm
  | .pubcomp => ackArm
  | .subscribe => subscribeArm
  | .suback => ackArm
  | .unsubscribe => unsubscribeArm
  | .unsuback => ackArm
  | .disconnect => disconnectArm
  | .auth => authArm

/-- auth.rs `validate_auth_packet(reason_code, &Some(props))`: the loop, the three duplicate
    checks, then the two cross-property rules (Authentication Data requires Authentication
    Method; a reason code other than Success requires Authentication Method) -/
def validateAuth (rcIsSuccess : Bool) (ps : List PropId) : Verdict :=
  match loop authArm ps Counters.zero with
  | none => .protocolError
  | some c =>
    if c .authenticationMethod > 1 then .protocolError
    else if c .authenticationData > 1 then .protocolError
    else if c .reasonString > 1 then .protocolError
    else if c .authenticationData > 0 ∧ c .authenticationMethod = 0 then .protocolError
    else if rcIsSuccess = false ∧ c .authenticationMethod = 0 then .protocolError
    else .ok

/-- the validator of each location; `rcIsSuccess` is looked at by AUTH only -/
def validate (l : Location) (rcIsSuccess : Bool) (ps : List PropId) : Verdict :=
  match l with
  | .auth => validateAuth rcIsSuccess ps
  | l => validateWith (arm l) ps

/-! ## the loop, characterised for lists of any length and order -/

theorem loop_some_iff (arm : PropId → Arm) (ps : List PropId) (c : Counters) :
    (∃ c', loop arm ps c = some c') ↔ ∀ p ∈ ps, arm p ≠ .reject := by
  induction ps generalizing c with
  | nil => simp [loop]
  | cons p ps ih =>
    cases h : arm p <;> simp [loop, h, ih]

/-- after the loop every counter holds its initial value plus the number of occurrences of
    its kind, provided the kind has a counting arm -/
theorem loop_counts (arm : PropId → Arm) (ps : List PropId) (c c' : Counters)
    (h : loop arm ps c = some c') (q : PropId) :
    c' q = c q + (if arm q = .count then ps.count q else 0) := by
  induction ps generalizing c with
  | nil => simp [loop] at h; subst h; simp
  | cons p ps ih =>
    cases hp : arm p with
    | count =>
      simp only [loop, hp] at h
      rw [ih _ h, List.count_cons]
      by_cases hq : q = p
      · subst hq; simp [Counters.bump, hp]; omega
      · have : (p == q) = false := by simp; exact fun e => hq e.symm
        simp [Counters.bump, hq, this]
    | free =>
      simp only [loop, hp] at h
      rw [ih _ h, List.count_cons]
      by_cases hq : q = p
      · subst hq; simp [hp]
      · have : (p == q) = false := by simp; exact fun e => hq e.symm
        simp [this]
    | reject => simp [loop, hp] at h

theorem mem_all (p : PropId) : p ∈ PropId.all := by cases p <;> decide

theorem anyAboveOne_eq_false (c : Counters) : anyAboveOne c = false ↔ ∀ p, c p ≤ 1 := by
  unfold anyAboveOne
  rw [List.any_eq_false]
  constructor
  · intro h p
    have := h p (mem_all p)
    simpa using this
  · intro h p _
    have := h p
    simp; omega

/-- UNBOUNDED characterisation of a counting validator: for a property list of any length,
    in any order, the verdict is `ok` iff every kind in the list has an arm and every kind
    with a counting arm occurs at most once -/
theorem validateWith_ok_iff (arm : PropId → Arm) (ps : List PropId) :
    validateWith arm ps = .ok ↔
      (∀ p ∈ ps, arm p ≠ .reject) ∧ (∀ p, arm p = .count → ps.count p ≤ 1) := by
  unfold validateWith
  cases h : loop arm ps Counters.zero with
  | none =>
    have hn : ¬ ∀ p ∈ ps, arm p ≠ .reject := fun hh => by
      have ⟨c', hc'⟩ := (loop_some_iff arm ps Counters.zero).mpr hh
      simp [h] at hc'
    constructor
    · intro hv; simp at hv
    · intro ⟨h1, _⟩; exact absurd h1 hn
  | some c =>
    have hall := (loop_some_iff arm ps Counters.zero).mp ⟨c, h⟩
    have hz : ∀ q, c q = if arm q = .count then ps.count q else 0 := by
      intro q; simpa [Counters.zero] using loop_counts arm ps _ _ h q
    show (if anyAboveOne c = true then Verdict.protocolError else Verdict.ok) = .ok ↔ _
    constructor
    · intro hv
      have ha : anyAboveOne c = false := by
        cases ha : anyAboveOne c with
        | false => rfl
        | true => simp [ha] at hv
      refine ⟨hall, fun p hp => ?_⟩
      have := (anyAboveOne_eq_false c).mp ha p
      rw [hz p, if_pos hp] at this; exact this
    · intro ⟨_, h2⟩
      have ha : anyAboveOne c = false := (anyAboveOne_eq_false c).mpr (fun p => by
        rw [hz p]; split
        · exact h2 p ‹_›
        · omega)
      simp [ha]

/-- UNBOUNDED characterisation of `validate_auth_packet`: the counting validator of AUTH plus
    the two cross-property rules -/
theorem validateAuth_ok_iff (rc : Bool) (ps : List PropId) :
    validateAuth rc ps = .ok ↔
      (∀ p ∈ ps, authArm p ≠ .reject) ∧ (∀ p, authArm p = .count → ps.count p ≤ 1)
      ∧ (.authenticationData ∈ ps → .authenticationMethod ∈ ps)
      ∧ (rc = false → .authenticationMethod ∈ ps) := by
  unfold validateAuth
  cases h : loop authArm ps Counters.zero with
  | none =>
    have hn : ¬ ∀ p ∈ ps, authArm p ≠ .reject := fun hh => by
      have ⟨c', hc'⟩ := (loop_some_iff authArm ps Counters.zero).mpr hh
      simp [h] at hc'
    constructor
    · intro hv; simp at hv
    · intro ⟨h1, _⟩; exact absurd h1 hn
  | some c =>
    have hall := (loop_some_iff authArm ps Counters.zero).mp ⟨c, h⟩
    have hz : ∀ q, c q = if authArm q = .count then ps.count q else 0 := by
      intro q; simpa [Counters.zero] using loop_counts authArm ps _ _ h q
    have hm : c .authenticationMethod = ps.count .authenticationMethod := by rw [hz]; simp [authArm]
    have hd : c .authenticationData = ps.count .authenticationData := by rw [hz]; simp [authArm]
    have hr : c .reasonString = ps.count .reasonString := by rw [hz]; simp [authArm]
    have memM : PropId.authenticationMethod ∈ ps ↔ 0 < ps.count .authenticationMethod := List.count_pos_iff.symm
    have memD : PropId.authenticationData ∈ ps ↔ 0 < ps.count .authenticationData := List.count_pos_iff.symm
    have cnt : (∀ p, authArm p = .count → ps.count p ≤ 1) ↔
        ps.count .authenticationMethod ≤ 1 ∧ ps.count .authenticationData ≤ 1 ∧ ps.count .reasonString ≤ 1 := by
      constructor
      · intro hh; exact ⟨hh _ rfl, hh _ rfl, hh _ rfl⟩
      · intro ⟨a, b, d⟩ p hp
        cases p <;> first | exact a | exact b | exact d | (simp [authArm] at hp)
    show (if c .authenticationMethod > 1 then Verdict.protocolError
      else if c .authenticationData > 1 then .protocolError
      else if c .reasonString > 1 then .protocolError
      else if c .authenticationData > 0 ∧ c .authenticationMethod = 0 then .protocolError
      else if rc = false ∧ c .authenticationMethod = 0 then .protocolError
      else .ok) = .ok ↔ _
    rw [hm, hd, hr, cnt, memM, memD]
    constructor
    · intro hv
      refine ⟨hall, ?_⟩
      repeat' split at hv
      all_goals first | (simp at hv; done) | skip
      refine ⟨⟨by omega, by omega, by omega⟩, fun _ => by omega, fun hrc => ?_⟩
      rename_i h5
      simp only [hrc, true_and] at h5
      omega
    · intro ⟨_, ⟨a, b, d⟩, e, f⟩
      have f' : rc = false → 0 < List.count PropId.authenticationMethod ps := f
      rw [if_neg (by omega), if_neg (by omega), if_neg (by omega), if_neg (by omega), if_neg]
      intro ⟨h1, h2⟩
      have := f' h1
      omega

end MqttVerif.Codec.Validate
