import MqttVerif.Codec.LemmasSpec
/-!
# C03 — `encode p = WireSpec.encode (abs p)` for every well-formed packet of the 29 kinds
-/
namespace MqttVerif.Codec
open MqttVerif.Spec.Wire

/-- cached Remaining Length of a well-formed packet is a legal Variable Byte Integer -/
theorem Packet.remLen_le (pw : Nat) (p : Packet) (hpw : pw = 2 ∨ pw = 4) (h : p.wf pw = true) : p.remLen ≤ vbiMax := by
  obtain ⟨fh, body, henc, hfb, _, _, _⟩ := Packet.roundTrips pw p hpw h
  -- the frame splits with Remaining Length `remLen`; `frameBody` only returns values ≤ MAX
  rw [henc] at hfb
  unfold frameBody at hfb
  simp only [List.cons_append] at hfb
  split at hfb
  · rename_i v c hv
    have := (vbiDec_ok hv).1
    simp only [Option.some.injEq, Prod.mk.injEq] at hfb
    omega
  · cases hfb

theorem or_false_left {f : Nat} {P : Prop} (hw : willFlag f = true ∨ P) (a : willFlag f = false) : P := by
  rcases hw with b | b
  · rw [a] at b; simp at b
  · exact b

theorem spec_connect3_body (pw : Nat) (q : Connect3) (h : allOk q.checks = true) :
    (Packet.abs (.connect3 q)).body pw = q.body := by
  have hf : allOk (connectFlagChecks q.flags q.willTopic q.willPayload q.userName q.password) = true := by
    unfold Connect3.checks at h; rw [allOk_append] at h; exact h.1
  have hb := allOk_mem hf (n := "flags_byte") (b := decide (q.flags < 256)) (by simp [connectFlagChecks])
  have hr := allOk_mem hf (n := "reserved_flag_zero") (b := q.flags % 2 == 0) (by simp [connectFlagChecks])
  have hw := allOk_mem hf (n := "will_qos_retain_need_will")
    (b := willFlag q.flags || (q.flags / 8 % 4 == 0 && q.flags / 32 % 2 == 0)) (by simp [connectFlagChecks])
  simp only [decide_eq_true_eq, beq_iff_eq, Bool.or_eq_true, Bool.and_eq_true] at hb hr hw
  have hfl := spec_connect_flags q.flags none q.willTopic q.willPayload q.userName q.password hb hr
    (or_false_left hw)
  simp only [Packet.abs, absConnect, APkt.body]
  rw [hfl]
  unfold Connect3.body connectBody tailEnc willEnc Connect3.tail
  cases willFlag q.flags <;> cases userNameFlag q.flags <;> cases passwordFlag q.flags <;>
    simp [lenPrefixed, twoByte, encU16, encStr, willBytes, optLenPrefixed, optProperties]

theorem propsChecks_mem (allowed uniq : List Nat) (pl : Nat) (ps : Props) (cs : List (String × Bool))
    (h : allOk cs = true) (hs : ∀ x ∈ propsChecks allowed uniq pl ps, x ∈ cs) :
    propsOk ps = true ∧ pl = ps.size ∧ pl ≤ vbiMax := by
  have h1 := allOk_mem h (n := "props_values") (b := propsOk ps) (hs _ (by simp [propsChecks]))
  have h2 := allOk_mem h (n := "property_length") (b := pl == ps.size && decide (pl ≤ vbiMax)) (hs _ (by simp [propsChecks]))
  simp only [Bool.and_eq_true, beq_iff_eq, decide_eq_true_eq] at h2
  exact ⟨h1, h2.1, h2.2⟩

theorem spec_connect5_body (pw : Nat) (q : Connect5) (h : allOk q.checks = true) :
    (Packet.abs (.connect5 q)).body pw = q.body := by
  have hb := allOk_mem h (n := "flags_byte") (b := decide (q.flags < 256)) (by simp [Connect5.checks, connectFlagChecks])
  have hr := allOk_mem h (n := "reserved_flag_zero") (b := q.flags % 2 == 0) (by simp [Connect5.checks, connectFlagChecks])
  have hw := allOk_mem h (n := "will_qos_retain_need_will")
    (b := willFlag q.flags || (q.flags / 8 % 4 == 0 && q.flags / 32 % 2 == 0)) (by simp [Connect5.checks, connectFlagChecks])
  obtain ⟨hpo, hpl, hpm⟩ := propsChecks_mem connectAllowed connectUniq q.propLen q.props _ h
    (fun x hx => by simp only [Connect5.checks, List.mem_append]; exact Or.inl (Or.inr hx))
  have hwo := allOk_mem h (n := "will_props_values") (b := propsOk q.willProps) (by simp [Connect5.checks])
  have hwl := allOk_mem h (n := "will_property_length")
    (b := q.willPropLen == q.willProps.size && decide (q.willPropLen ≤ vbiMax)) (by simp [Connect5.checks])
  simp only [decide_eq_true_eq, beq_iff_eq, Bool.or_eq_true, Bool.and_eq_true] at hb hr hw hwl
  have hfl := spec_connect_flags q.flags (some q.willProps) q.willTopic q.willPayload q.userName q.password hb hr
    (or_false_left hw)
  simp only [Packet.abs, absConnect, APkt.body]
  rw [hfl]
  unfold Connect5.body connectBody tailEnc willEnc Connect5.tail
  have hp := spec_propertiesField q.props q.propLen hpo hpl hpm
  have hwp := spec_propertiesField q.willProps q.willPropLen hwo hwl.1 hwl.2
  cases willFlag q.flags <;> cases userNameFlag q.flags <;> cases passwordFlag q.flags <;>
    simp [lenPrefixed, twoByte, encU16, encStr, willBytes, optLenPrefixed, optProperties, hp, hwp]

theorem spec_connack3_body (pw : Nat) (q : Connack3) (h : allOk q.checks = true) :
    (Packet.abs (.connack3 q)).body pw = q.body := by
  have hf := allOk_mem h (n := "flags_le_1") (b := decide (q.flags ≤ 1)) (by simp [Connack3.checks])
  simp only [decide_eq_true_eq] at hf
  simp only [Packet.abs, APkt.body, Connack3.body, optProperties, List.append_nil]
  rw [b2n_bit (q.flags % 2) (by omega)]
  have : q.flags % 2 = q.flags := by omega
  rw [this]

theorem spec_connack5_body (pw : Nat) (q : Connack5) (h : allOk q.checks = true) :
    (Packet.abs (.connack5 q)).body pw = q.body := by
  have hf := allOk_mem h (n := "flags_le_1") (b := decide (q.flags ≤ 1)) (by simp [Connack5.checks])
  simp only [decide_eq_true_eq] at hf
  obtain ⟨hpo, hpl, hpm⟩ := propsChecks_mem connackAllowed connackUniq q.propLen q.props _ h
    (fun x hx => by simp only [Connack5.checks, List.mem_append]; left; right; exact hx)
  simp only [Packet.abs, APkt.body, Connack5.body, optProperties, spec_propertiesField q.props q.propLen hpo hpl hpm]
  rw [b2n_bit (q.flags % 2) (by omega)]
  have : q.flags % 2 = q.flags := by omega
  rw [this]
  simp

theorem spec_publish3_body (pw : Nat) (q : Publish3) : (Packet.abs (.publish3 q)).body pw = q.body pw := by
  simp only [Packet.abs, APkt.body, Publish3.body, optProperties, spec_lenPrefixed, List.append_nil, List.append_assoc]
  cases q.pid <;> rfl

theorem spec_publish5_body (pw : Nat) (q : Publish5) (h : allOk (q.checks pw) = true) :
    (Packet.abs (.publish5 q)).body pw = q.body pw := by
  obtain ⟨hpo, hpl, hpm⟩ := propsChecks_mem publishAllowed publishUniq q.propLen q.props _ h
    (fun x hx => by simp only [Publish5.checks, List.mem_append]; left; right; exact hx)
  simp only [Packet.abs, APkt.body, Publish5.body, optProperties, spec_lenPrefixed, List.append_assoc,
    spec_propertiesField q.props q.propLen hpo hpl hpm]
  cases q.pid <;> rfl

theorem spec_ack3_body (pw : Nat) (t : CPType) (q : Ack3) :
    (APkt.ack t q.pid q.rc none).body pw = q.body pw := by
  simp only [APkt.body, Ack3.body, optProperties, List.append_nil, spec_packetId]
  cases q.rc <;> rfl

theorem spec_ack5_body (k : AckKind) (pw : Nat) (t : CPType) (q : Ack5) (h : allOk (q.checks k pw) = true) :
    (APkt.ack t q.pid q.rc (q.props.map Props.abs)).body pw = q.body pw := by
  have hp : ∀ ps, q.props = some ps → propsOk ps = true ∧ q.propLen = ps.size ∧ q.propLen ≤ vbiMax := by
    intro ps e
    exact propsChecks_mem ackAllowed ackUniq q.propLen ps _ h
      (fun x hx => by simp only [Ack5.checks, List.mem_append, optPropsChecks, e]; left; right; exact hx)
  simp only [APkt.body, Ack5.body, spec_packetId, spec_optProps q.props q.propLen hp, List.append_assoc]
  cases q.rc <;> rfl

theorem spec_codes5_body (rcOk : Nat → Bool) (pw : Nat) (q : Codes5) (h : allOk (q.checks rcOk pw) = true) :
    packetId pw q.pid ++ optProperties (some q.props.abs) ++ q.codes = q.body pw := by
  obtain ⟨hpo, hpl, hpm⟩ := propsChecks_mem ackAllowed ackUniq q.propLen q.props _ h
    (fun x hx => by simp only [Codes5.checks, List.mem_append]; left; right; exact hx)
  simp only [Codes5.body, optProperties, spec_packetId, spec_propertiesField q.props q.propLen hpo hpl hpm, List.append_assoc]

theorem spec_subscribe5_body (pw : Nat) (q : Subscribe5) (h : allOk (q.checks pw) = true) :
    (Packet.abs (.subscribe5 q)).body pw = q.body pw := by
  obtain ⟨hpo, hpl, hpm⟩ := propsChecks_mem subscribeAllowed subscribeUniq q.propLen q.props _ h
    (fun x hx => by simp only [Subscribe5.checks, List.mem_append]; left; right; exact hx)
  simp only [Packet.abs, APkt.body, Subscribe5.body, optProperties, spec_packetId, spec_entries,
    spec_propertiesField q.props q.propLen hpo hpl hpm, List.append_assoc]

theorem spec_unsubscribe5_body (pw : Nat) (q : Unsubscribe5) (h : allOk (q.checks pw) = true) :
    (Packet.abs (.unsubscribe5 q)).body pw = q.body pw := by
  obtain ⟨hpo, hpl, hpm⟩ := propsChecks_mem unsubscribeAllowed unsubscribeUniq q.propLen q.props _ h
    (fun x hx => by simp only [Unsubscribe5.checks, List.mem_append]; left; right; exact hx)
  simp only [Packet.abs, APkt.body, Unsubscribe5.body, optProperties, spec_packetId, spec_topics,
    spec_propertiesField q.props q.propLen hpo hpl hpm, List.append_assoc]

theorem spec_rcprops5_body (rcOk : Nat → Bool) (pw : Nat) (q : RcProps5) (h : allOk (q.baseChecks rcOk) = true) :
    optByte q.rc ++ optProperties (q.props.map Props.abs) = q.body := by
  simp only [allOk, RcProps5.baseChecks, List.all_cons, List.all_nil, Bool.and_true, Bool.and_eq_true, beq_iff_eq,
    decide_eq_true_eq, Bool.or_eq_true, Option.isNone_iff_eq_none] at h
  obtain ⟨_, _, _, hpo, hpl, _, _⟩ := h
  have hp : ∀ ps, q.props = some ps → propsOk ps = true ∧ q.propLen.getD 0 = ps.size ∧ q.propLen.getD 0 ≤ vbiMax := by
    intro ps e
    rw [e] at hpo hpl
    simp only [Bool.and_eq_true, beq_iff_eq, decide_eq_true_eq] at hpl hpo
    refine ⟨hpo, ?_, ?_⟩ <;> rw [hpl.1] <;> simp [hpl.2]
  unfold RcProps5.body
  rw [spec_optProps q.props (q.propLen.getD 0) hp]
  cases q.rc <;> rfl

/-- **C03, encoder direction.** For every well-formed packet of the 29 kinds and both id widths the
    impl-shaped serialisation is exactly what the reference encoder of `WireSpec` prescribes for
    the packet's field values. -/
theorem Packet.spec_eq (pw : Nat) (p : Packet) (hpw : pw = 2 ∨ pw = 4) (h : p.wf pw = true) :
    (Packet.abs p).encode pw = p.encode pw := by
  have hm := Packet.remLen_le pw p hpw h
  unfold Packet.wf at h
  cases p with
  | connect3 q =>
    obtain ⟨_, henc, _, hrl⟩ := Connect3.roundtrip q h
    exact spec_of_parts pw _ _ q.remLen (q.body) _ rfl (spec_connect3_body pw q h) henc hrl hm
  | connack3 q =>
    obtain ⟨_, henc, _, hrl⟩ := Connack3.roundtrip q h
    exact spec_of_parts pw _ _ q.remLen (q.body) _ rfl (spec_connack3_body pw q h) henc hrl hm
  | publish3 q =>
    obtain ⟨_, henc, _, hrl⟩ := Publish3.roundtrip pw q hpw h
    exact spec_of_parts pw _ _ q.remLen (q.body pw) _ (by
      have hf := allOk_mem h (n := "fixed_header") (b := q.fh / 16 == 3 && decide (q.fh < 64))
        (by simp [Packet.checks, Publish3.checks, Publish5.checks, publishHeadChecks])
      simp only [Bool.and_eq_true, beq_iff_eq, decide_eq_true_eq] at hf
      exact spec_publish_fh q.fh hf.1 hf.2) (spec_publish3_body pw q) henc hrl hm
  | puback3 q =>
    obtain ⟨_, henc, _, hrl⟩ := Ack3.roundtrip .puback pw q hpw h
    exact spec_of_parts pw _ _ q.remLen (q.body pw) _ rfl (spec_ack3_body pw .PUBACK q) henc hrl hm
  | pubrec3 q =>
    obtain ⟨_, henc, _, hrl⟩ := Ack3.roundtrip .pubrec pw q hpw h
    exact spec_of_parts pw _ _ q.remLen (q.body pw) _ rfl (spec_ack3_body pw .PUBREC q) henc hrl hm
  | pubrel3 q =>
    obtain ⟨_, henc, _, hrl⟩ := Ack3.roundtrip .pubrel pw q hpw h
    exact spec_of_parts pw _ _ q.remLen (q.body pw) _ rfl (spec_ack3_body pw .PUBREL q) henc hrl hm
  | pubcomp3 q =>
    obtain ⟨_, henc, _, hrl⟩ := Ack3.roundtrip .pubcomp pw q hpw h
    exact spec_of_parts pw _ _ q.remLen (q.body pw) _ rfl (spec_ack3_body pw .PUBCOMP q) henc hrl hm
  | subscribe3 q =>
    obtain ⟨_, henc, _, hrl⟩ := Subscribe3.roundtrip pw q hpw h
    exact spec_of_parts pw _ _ q.remLen (q.body pw) _ rfl (by simp only [Packet.abs, APkt.body, Subscribe3.body, optProperties, spec_packetId, spec_entries, List.append_nil]) henc hrl hm
  | suback3 q =>
    obtain ⟨_, henc, _, hrl⟩ := Suback3.roundtrip pw q hpw h
    exact spec_of_parts pw _ _ q.remLen (q.body pw) _ rfl (by simp only [Packet.abs, APkt.body, Suback3.body, optProperties, spec_packetId, List.append_nil]) henc hrl hm
  | unsubscribe3 q =>
    obtain ⟨_, henc, _, hrl⟩ := Unsubscribe3.roundtrip pw q hpw h
    exact spec_of_parts pw _ _ q.remLen (q.body pw) _ rfl (by simp only [Packet.abs, APkt.body, Unsubscribe3.body, optProperties, spec_packetId, spec_topics, List.append_nil]) henc hrl hm
  | unsuback3 q =>
    obtain ⟨_, henc, _, hrl⟩ := Unsuback3.roundtrip pw q hpw h
    exact spec_of_parts pw _ _ q.remLen (q.body pw) _ rfl (by simp only [Packet.abs, APkt.body, Unsuback3.body, optProperties, spec_packetId, List.append_nil]) henc hrl hm
  | pingreq3 q =>
    obtain ⟨_, henc, _, hrl⟩ := Empty.roundtrip 0xc0 q h
    exact spec_of_parts pw _ _ q.remLen ([]) _ rfl rfl henc hrl hm
  | pingresp3 q =>
    obtain ⟨_, henc, _, hrl⟩ := Empty.roundtrip 0xd0 q h
    exact spec_of_parts pw _ _ q.remLen ([]) _ rfl rfl henc hrl hm
  | disconnect3 q =>
    obtain ⟨_, henc, _, hrl⟩ := Empty.roundtrip 0xe0 q h
    exact spec_of_parts pw _ _ q.remLen ([]) _ rfl rfl henc hrl hm
  | connect5 q =>
    obtain ⟨_, henc, _, hrl⟩ := Connect5.roundtrip q h
    exact spec_of_parts pw _ _ q.remLen (q.body) _ rfl (spec_connect5_body pw q h) henc hrl hm
  | connack5 q =>
    obtain ⟨_, henc, _, hrl⟩ := Connack5.roundtrip q h
    exact spec_of_parts pw _ _ q.remLen (q.body) _ rfl (spec_connack5_body pw q h) henc hrl hm
  | publish5 q =>
    obtain ⟨_, henc, _, hrl⟩ := Publish5.roundtrip pw q hpw h
    exact spec_of_parts pw _ _ q.remLen (q.body pw) _ (by
      have hf := allOk_mem h (n := "fixed_header") (b := q.fh / 16 == 3 && decide (q.fh < 64))
        (by simp [Packet.checks, Publish3.checks, Publish5.checks, publishHeadChecks])
      simp only [Bool.and_eq_true, beq_iff_eq, decide_eq_true_eq] at hf
      exact spec_publish_fh q.fh hf.1 hf.2) (spec_publish5_body pw q h) henc hrl hm
  | puback5 q =>
    obtain ⟨_, henc, _, hrl⟩ := Ack5.roundtrip .puback pw q hpw h
    exact spec_of_parts pw _ _ q.remLen (q.body pw) _ rfl (spec_ack5_body .puback pw .PUBACK q h) henc hrl hm
  | pubrec5 q =>
    obtain ⟨_, henc, _, hrl⟩ := Ack5.roundtrip .pubrec pw q hpw h
    exact spec_of_parts pw _ _ q.remLen (q.body pw) _ rfl (spec_ack5_body .pubrec pw .PUBREC q h) henc hrl hm
  | pubrel5 q =>
    obtain ⟨_, henc, _, hrl⟩ := Ack5.roundtrip .pubrel pw q hpw h
    exact spec_of_parts pw _ _ q.remLen (q.body pw) _ rfl (spec_ack5_body .pubrel pw .PUBREL q h) henc hrl hm
  | pubcomp5 q =>
    obtain ⟨_, henc, _, hrl⟩ := Ack5.roundtrip .pubcomp pw q hpw h
    exact spec_of_parts pw _ _ q.remLen (q.body pw) _ rfl (spec_ack5_body .pubcomp pw .PUBCOMP q h) henc hrl hm
  | subscribe5 q =>
    obtain ⟨_, henc, _, hrl⟩ := Subscribe5.roundtrip pw q hpw h
    exact spec_of_parts pw _ _ q.remLen (q.body pw) _ rfl (spec_subscribe5_body pw q h) henc hrl hm
  | suback5 q =>
    obtain ⟨_, henc, _, hrl⟩ := Codes5.roundtrip subackRc5Ok 0x90 pw q hpw h
    exact spec_of_parts pw _ _ q.remLen (q.body pw) _ rfl (spec_codes5_body subackRc5Ok pw q h) henc hrl hm
  | unsubscribe5 q =>
    obtain ⟨_, henc, _, hrl⟩ := Unsubscribe5.roundtrip pw q hpw h
    exact spec_of_parts pw _ _ q.remLen (q.body pw) _ rfl (spec_unsubscribe5_body pw q h) henc hrl hm
  | unsuback5 q =>
    obtain ⟨_, henc, _, hrl⟩ := Codes5.roundtrip unsubackRc5Ok 0xb0 pw q hpw h
    exact spec_of_parts pw _ _ q.remLen (q.body pw) _ rfl (spec_codes5_body unsubackRc5Ok pw q h) henc hrl hm
  | pingreq5 q =>
    obtain ⟨_, henc, _, hrl⟩ := Empty.roundtrip 0xc0 q h
    exact spec_of_parts pw _ _ q.remLen ([]) _ rfl rfl henc hrl hm
  | pingresp5 q =>
    obtain ⟨_, henc, _, hrl⟩ := Empty.roundtrip 0xd0 q h
    exact spec_of_parts pw _ _ q.remLen ([]) _ rfl rfl henc hrl hm
  | disconnect5 q =>
    obtain ⟨_, henc, _, hrl⟩ := Disconnect5.roundtrip q h
    exact spec_of_parts pw _ _ q.remLen (q.body) _ rfl (by
      have hb : allOk (q.baseChecks disconnectRcOk) = true := by
        have := h; unfold Packet.checks Disconnect5.checks at this; rw [allOk_append] at this; exact this.1
      exact spec_rcprops5_body disconnectRcOk pw q hb) henc hrl hm
  | auth5 q =>
    obtain ⟨_, henc, _, hrl⟩ := Auth5.roundtrip q h
    exact spec_of_parts pw _ _ q.remLen (q.body) _ rfl (by
      have hb : allOk (q.baseChecks authRcOk) = true := by
        have := h; unfold Packet.checks Auth5.checks at this; rw [allOk_append] at this; exact this.1
      exact spec_rcprops5_body authRcOk pw q hb) henc hrl hm

end MqttVerif.Codec
