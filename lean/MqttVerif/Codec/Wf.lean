import MqttVerif.Codec.Packet
/-!
# L1 Codec — well-formedness: what `build()` establishes for a packet

`checks` lists, per kind, the named structural rules the builders enforce (packet id ≠ 0,
QoS ≤ 2, permitted properties, non-empty entry lists, …) together with the consistency of
the cached lengths.  `wf` (all checks pass) is the hypothesis of the C02 round-trip theorems
and the `buildable` monitor of C04: an *accepted* packet that fails a check could not have
come out of a builder.

That the builders do establish `wf` is no longer only observed on the runs: `Codec/Build.lean`
models `build()` of all 29 kinds (compared with the real builders on every `B` line), and
`Props/C02Build.lean` proves `build_ok_wf : a.build pw = .ok p → p.wf pw` (under `Args.typed`,
`Args.fits32`) and `build_fields`.
-/
namespace MqttVerif.Codec

def strOk (s : List Nat) : Bool := s.length ≤ 65535 && utf8Ok s
def binOk (b : List Nat) : Bool := b.length ≤ 65535
def bytesOk (b : List Nat) : Bool := b.all (· < 256)

/-- a property a constructor `X::new` can produce (shape matches id, value in range and valid) -/
def Property.ok : Property → Bool
  | .u8 id v => propShape id == some .u8 && validU8 id v
  | .u16 id v => propShape id == some .u16 && v < 65536 && validU16 id v
  | .u32 id v => propShape id == some .u32 && v < 4294967296 && validU32 id v
  | .vbi id v => propShape id == some .vbi && v ≤ vbiMax && validVbi id v
  | .str id s => propShape id == some .str && strOk s
  | .bin id b => propShape id == some .bin && binOk b && bytesOk b
  | .pair id k v => propShape id == some .pair && strOk k && strOk v

def propsOk (ps : Props) : Bool := ps.all Property.ok

def idOk (pw id : Nat) : Bool := id != 0 && (if pw = 2 then id < 65536 else id < 4294967296)

def noWildcard (t : List Nat) : Bool := !(t.contains 35 || t.contains 43)

def allOk (cs : List (String × Bool)) : Bool := cs.all (·.2)
def firstFailing (cs : List (String × Bool)) : Option String := (cs.find? (fun c => !c.2)).map (·.1)

/-- rules on the CONNECT flags byte a builder cannot violate -/
def connectFlagChecks (flags : Nat) (willTopic willPayload userName password : List Nat) : List (String × Bool) :=
  [("flags_byte", flags < 256),
   ("reserved_flag_zero", flags % 2 == 0),
   ("will_qos_le_2", flags / 8 % 4 ≤ 2),
   ("will_qos_retain_need_will", willFlag flags || (flags / 8 % 4 == 0 && flags / 32 % 2 == 0)),
   ("password_needs_user_name", !passwordFlag flags || userNameFlag flags),
   ("absent_fields_default",
      (willFlag flags || (willTopic.isEmpty && willPayload.isEmpty)) &&
      (userNameFlag flags || userName.isEmpty) && (passwordFlag flags || password.isEmpty))]

def Connect3.remaining (p : Connect3) : Nat :=
  10 + strSize p.clientId + (if willFlag p.flags then strSize p.willTopic + strSize p.willPayload else 0)
    + (if userNameFlag p.flags then strSize p.userName else 0)
    + (if passwordFlag p.flags then strSize p.password else 0)

def Connect3.checks (p : Connect3) : List (String × Bool) :=
  connectFlagChecks p.flags p.willTopic p.willPayload p.userName p.password ++
  [("keep_alive_u16", decide (p.keepAlive < 65536)),
   ("strings", strOk p.clientId && strOk p.willTopic && binOk p.willPayload && bytesOk p.willPayload
                && strOk p.userName && binOk p.password && bytesOk p.password),
   ("remlen", p.remLen == p.remaining && p.remLen ≤ vbiMax)]

def Connack3.checks (p : Connack3) : List (String × Bool) :=
  [("flags_le_1", p.flags ≤ 1), ("return_code", p.rc ≤ 5), ("remlen", p.remLen == 2)]

def Publish3.remaining (pw : Nat) (p : Publish3) : Nat :=
  strSize p.topic + (if p.pid.isSome then pw else 0) + p.payload.length

def publishHeadChecks (pw fh : Nat) (topic : List Nat) (pid : Option Nat) (aliasOk : Bool) : List (String × Bool) :=
  [("fixed_header", fh / 16 == 3 && fh < 64),
   ("qos_le_2", fh / 2 % 4 ≤ 2),
   ("topic_nonempty", !topic.isEmpty || aliasOk),
   ("topic_no_wildcard", noWildcard topic),
   ("topic_string", strOk topic),
   ("pid_iff_qos", (fh / 2 % 4 == 0) == pid.isNone),
   ("pid_nonzero", match pid with | some id => idOk pw id | none => true)]

def Publish3.checks (pw : Nat) (p : Publish3) : List (String × Bool) :=
  publishHeadChecks pw p.fh p.topic p.pid false ++
  [("remlen", p.remLen == p.remaining pw && p.remLen ≤ vbiMax)]

def Ack3.checks (k : AckKind) (pw : Nat) (p : Ack3) : List (String × Bool) :=
  [("pid_nonzero", idOk pw p.pid),
   ("reason_code", match p.rc with | some rc => k.rcOk rc | none => true),
   ("remlen", p.remLen == pw + (if p.rc.isSome then 1 else 0))]

def entryOk (e : SubEntry) : Bool := strOk e.topic && subOptsOk e.opts && e.opts < 256

def Subscribe3.checks (pw : Nat) (p : Subscribe3) : List (String × Bool) :=
  [("pid_nonzero", idOk pw p.pid),
   ("entries_nonempty", !p.entries.isEmpty),
   ("entries", p.entries.all entryOk),
   ("remlen", p.remLen == pw + entriesSize p.entries && p.remLen ≤ vbiMax)]

def Suback3.checks (pw : Nat) (p : Suback3) : List (String × Bool) :=
  [("pid_nonzero", idOk pw p.pid),
   ("codes_nonempty", !p.codes.isEmpty),
   ("codes", codesOk subackRc3Ok p.codes),
   ("remlen", p.remLen == pw + p.codes.length && p.remLen ≤ vbiMax)]

def Unsubscribe3.checks (pw : Nat) (p : Unsubscribe3) : List (String × Bool) :=
  [("pid_nonzero", idOk pw p.pid),
   ("topics_nonempty", !p.topics.isEmpty),
   ("topics", p.topics.all strOk),
   ("remlen", p.remLen == pw + topicsSize p.topics && p.remLen ≤ vbiMax)]

def Unsuback3.checks (pw : Nat) (p : Unsuback3) : List (String × Bool) :=
  [("pid_nonzero", idOk pw p.pid), ("remlen", p.remLen == pw)]

def Empty.checks (p : Empty) : List (String × Bool) := [("remlen", p.remLen == 0)]

/-! v5.0 -/

def propsChecks (allowed uniq : List Nat) (propLen : Nat) (ps : Props) : List (String × Bool) :=
  [("props_values", propsOk ps),
   ("props_allowed", propsAllowed allowed uniq ps),
   ("property_length", propLen == ps.size && propLen ≤ vbiMax)]

def Connect5.remaining (p : Connect5) : Nat :=
  10 + vbiSize p.propLen + p.props.size + strSize p.clientId
    + (if willFlag p.flags then vbiSize p.willPropLen + p.willProps.size + strSize p.willTopic + strSize p.willPayload else 0)
    + (if userNameFlag p.flags then strSize p.userName else 0)
    + (if passwordFlag p.flags then strSize p.password else 0)

def Connect5.checks (p : Connect5) : List (String × Bool) :=
  connectFlagChecks p.flags p.willTopic p.willPayload p.userName p.password ++
  [("keep_alive_u16", decide (p.keepAlive < 65536)),
   ("strings", strOk p.clientId && strOk p.willTopic && binOk p.willPayload && bytesOk p.willPayload
                && strOk p.userName && binOk p.password && bytesOk p.password)] ++
  propsChecks connectAllowed connectUniq p.propLen p.props ++
  [("will_props_values", propsOk p.willProps),
   ("will_props_allowed", propsAllowed willAllowed willUniq p.willProps),
   ("will_property_length", p.willPropLen == p.willProps.size && p.willPropLen ≤ vbiMax),
   ("will_props_need_will", willFlag p.flags || p.willProps.isEmpty),
   ("remlen", p.remLen == p.remaining && p.remLen ≤ vbiMax)]

def Connack5.checks (p : Connack5) : List (String × Bool) :=
  [("flags_le_1", decide (p.flags ≤ 1)), ("reason_code", connectRcOk p.rc)] ++
  propsChecks connackAllowed connackUniq p.propLen p.props ++
  [("remlen", p.remLen == 2 + vbiSize p.propLen + p.props.size && p.remLen ≤ vbiMax)]

def Publish5.remaining (pw : Nat) (p : Publish5) : Nat :=
  strSize p.topic + (if p.pid.isSome then pw else 0) + vbiSize p.propLen + p.props.size + p.payload.length

def Publish5.checks (pw : Nat) (p : Publish5) : List (String × Bool) :=
  publishHeadChecks pw p.fh p.topic p.pid (countId 35 p.props > 0) ++
  propsChecks publishAllowed publishUniq p.propLen p.props ++
  [("remlen", p.remLen == p.remaining pw && p.remLen ≤ vbiMax)]

def optPropsChecks (allowed uniq : List Nat) (propLen : Nat) : Option Props → List (String × Bool)
  | some ps => propsChecks allowed uniq propLen ps
  | none => []

def Ack5.checks (k : AckKind) (pw : Nat) (p : Ack5) : List (String × Bool) :=
  [("pid_nonzero", idOk pw p.pid),
   ("reason_code", match p.rc with | some rc => k.rcOk rc | none => true),
   ("props_need_reason_code", p.rc.isSome || p.props.isNone),
   ("property_length_absent", p.props.isSome || p.propLen == 0)] ++
  optPropsChecks ackAllowed ackUniq p.propLen p.props ++
  [("remlen", p.remLen == pw + rcPropsRemaining p.rc p.props p.propLen && p.remLen ≤ vbiMax)]

def Subscribe5.checks (pw : Nat) (p : Subscribe5) : List (String × Bool) :=
  [("pid_nonzero", idOk pw p.pid),
   ("entries_nonempty", !p.entries.isEmpty),
   ("entries", p.entries.all entryOk),
   ("share_names", p.entries.all (fun e => shareNameOk e.topic))] ++
  propsChecks subscribeAllowed subscribeUniq p.propLen p.props ++
  [("remlen", p.remLen == pw + vbiSize p.propLen + p.props.size + entriesSize p.entries && p.remLen ≤ vbiMax)]

def Codes5.checks (rcOk : Nat → Bool) (pw : Nat) (p : Codes5) : List (String × Bool) :=
  [("pid_nonzero", idOk pw p.pid),
   ("codes_nonempty", !p.codes.isEmpty),
   ("codes", codesOk rcOk p.codes)] ++
  propsChecks ackAllowed ackUniq p.propLen p.props ++
  [("remlen", p.remLen == pw + vbiSize p.propLen + p.props.size + p.codes.length && p.remLen ≤ vbiMax)]

def Unsubscribe5.checks (pw : Nat) (p : Unsubscribe5) : List (String × Bool) :=
  [("pid_nonzero", idOk pw p.pid),
   ("topics_nonempty", !p.topics.isEmpty),
   ("topics", p.topics.all strOk),
   ("share_names", p.topics.all shareNameOk)] ++
  propsChecks unsubscribeAllowed unsubscribeUniq p.propLen p.props ++
  [("remlen", p.remLen == pw + vbiSize p.propLen + p.props.size + topicsSize p.topics && p.remLen ≤ vbiMax)]

def RcProps5.baseChecks (rcOk : Nat → Bool) (p : RcProps5) : List (String × Bool) :=
  [("reason_code", match p.rc with | some rc => rcOk rc | none => true),
   ("props_need_reason_code", p.rc.isSome || p.props.isNone),
   ("property_length_iff_props", p.propLen.isSome == p.props.isSome),
   ("props_values", match p.props with | some ps => propsOk ps | none => true),
   ("property_length", match p.props with | some ps => p.propLen == some ps.size && ps.size ≤ vbiMax | none => true),
   ("remlen", p.remLen == rcPropsRemaining p.rc p.props (p.propLen.getD 0) && p.remLen ≤ vbiMax)]

def Disconnect5.checks (p : RcProps5) : List (String × Bool) :=
  p.baseChecks disconnectRcOk ++
  [("props_allowed", match p.props with | some ps => propsAllowed disconnectAllowed disconnectUniq ps | none => true)]

def Auth5.checks (p : RcProps5) : List (String × Bool) :=
  p.baseChecks authRcOk ++ [("auth_rules", (validateAuth p.rc p.props).isNone)]

def Packet.checks (pw : Nat) : Packet → List (String × Bool)
  | .connect3 p => p.checks | .connack3 p => p.checks | .publish3 p => p.checks pw
  | .puback3 p => p.checks .puback pw | .pubrec3 p => p.checks .pubrec pw
  | .pubrel3 p => p.checks .pubrel pw | .pubcomp3 p => p.checks .pubcomp pw
  | .subscribe3 p => p.checks pw | .suback3 p => p.checks pw
  | .unsubscribe3 p => p.checks pw | .unsuback3 p => p.checks pw
  | .pingreq3 p | .pingresp3 p | .disconnect3 p => p.checks
  | .connect5 p => p.checks | .connack5 p => p.checks | .publish5 p => p.checks pw
  | .puback5 p => p.checks .puback pw | .pubrec5 p => p.checks .pubrec pw
  | .pubrel5 p => p.checks .pubrel pw | .pubcomp5 p => p.checks .pubcomp pw
  | .subscribe5 p => p.checks pw | .suback5 p => p.checks subackRc5Ok pw
  | .unsubscribe5 p => p.checks pw | .unsuback5 p => p.checks unsubackRc5Ok pw
  | .pingreq5 p | .pingresp5 p => p.checks
  | .disconnect5 p => Disconnect5.checks p | .auth5 p => Auth5.checks p

/-- the packet could have come out of its builder -/
def Packet.wf (pw : Nat) (p : Packet) : Bool := allOk (p.checks pw)

end MqttVerif.Codec
