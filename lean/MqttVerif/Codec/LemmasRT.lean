import MqttVerif.Codec.Lemmas
/-!
# L1 Codec — round-trip lemmas for the combinators (C02)

`decode (encode x ++ rest) = ok x |encode x|` for the variable-byte integer (all values
≤ 268 435 455), length-prefixed strings / binaries, sub entries, every property shape, and
property lists of any length (induction).
-/
namespace MqttVerif.Codec

@[simp] theorem bind_ok {α β : Type} (a : α) (c : Nat) (f : α → Nat → PRes β) : (PRes.ok a c).bind f = f a c := rfl
@[simp] theorem mapErr_ok {α : Type} (a : α) (c : Nat) (e : Err) : (PRes.ok a c).mapErr e = .ok a c := rfl

/-! ### index / slice sites on concrete shapes -/

theorem idx_cons_zero {α : Type} (site : String) (b : Nat) (l : List Nat) (k : Nat → PRes α) :
    idx site (b :: l) 0 k = k b := rfl

theorem idx_cons_succ {α : Type} (site : String) (b : Nat) (l : List Nat) (i : Nat) (k : Nat → PRes α) :
    idx site (b :: l) (i + 1) k = idx site l i k := by
  simp [idx]

theorem sliceFrom_zero {α : Type} (site : String) (l : List Nat) (k : List Nat → PRes α) :
    sliceFrom site l 0 k = k l := by
  simp [sliceFrom]

theorem sliceFrom_append {α : Type} (site : String) (l₁ l₂ : List Nat) (a : Nat) (k : List Nat → PRes α)
    (h : a = l₁.length) : sliceFrom site (l₁ ++ l₂) a k = k l₂ := by
  subst h
  simp [sliceFrom]

theorem slice_append {α : Type} (site : String) (l₁ l₂ l₃ : List Nat) (a b : Nat) (k : List Nat → PRes α)
    (ha : a = l₁.length) (hb : b = l₁.length + l₂.length) :
    slice site (l₁ ++ (l₂ ++ l₃)) a b k = k l₂ := by
  subst ha hb
  unfold slice
  rw [if_pos (by simp)]
  simp

theorem slice_zero_append {α : Type} (site : String) (l₂ l₃ : List Nat) (b : Nat) (k : List Nat → PRes α)
    (hb : b = l₂.length) : slice site (l₂ ++ l₃) 0 b k = k l₂ := by
  have := slice_append site [] l₂ l₃ 0 b k rfl (by simp [hb])
  simpa using this

/-! ### big-endian integers, packet ids -/

theorem encU16_length (v : Nat) : (encU16 v).length = 2 := rfl
theorem encU32_length (v : Nat) : (encU32 v).length = 4 := rfl

theorem encId_length (pw v : Nat) (hpw : pw = 2 ∨ pw = 4) : (encId pw v).length = pw := by
  unfold encId
  rcases hpw with h | h <;> subst h <;> simp [encU16, encU32]

theorem beNat_encId (pw v : Nat) (hpw : pw = 2 ∨ pw = 4) (hv : if pw = 2 then v < 65536 else v < 4294967296) :
    beNat (encId pw v) = v := by
  unfold encId
  rcases hpw with h | h <;> subst h
  · simp only [if_true] at hv ⊢
    simp only [encU16, beNat, List.foldl_cons, List.foldl_nil]
    omega
  · simp only [show ¬ (4 = 2) by decide, if_false] at hv ⊢
    simp only [encU32, beNat, List.foldl_cons, List.foldl_nil]
    omega

theorem allZero_encId (pw v : Nat) (hpw : pw = 2 ∨ pw = 4) (hv : v ≠ 0)
    (hr : if pw = 2 then v < 65536 else v < 4294967296) : allZero (encId pw v) = false := by
  unfold encId allZero
  rcases hpw with h | h <;> subst h
  · simp only [if_true] at hr ⊢
    simp only [encU16, List.all_cons, List.all_nil, Bool.and_true]
    have : ¬ (v / 256 = 0 ∧ v % 256 = 0) := by omega
    simp only [Bool.and_eq_false_iff, beq_eq_false_iff_ne, ne_eq]
    omega
  · simp only [show ¬ (4 = 2) by decide, if_false] at hr ⊢
    simp only [encU32, List.all_cons, List.all_nil, Bool.and_true]
    simp only [Bool.and_eq_false_iff, beq_eq_false_iff_ne, ne_eq]
    omega

/-! ### VariableByteInteger -/

theorem vbiEnc_length (v : Nat) (hv : v ≤ vbiMax) : (vbiEnc v).length = vbiSize v := by
  unfold vbiMax at hv
  unfold vbiEnc vbiSize
  simp only [vbiEncAux]
  repeat' split
  all_goals first | rfl | omega

/-- `decode_stream (from_u32 v ++ rest) = Ok(v, size v)` for every `v ≤ 268435455` -/
theorem vbiDec_enc (v : Nat) (rest : List Nat) (hv : v ≤ vbiMax) :
    vbiDec (vbiEnc v ++ rest) = .ok v (vbiSize v) := by
  unfold vbiMax at hv
  unfold vbiDec vbiEnc vbiSize
  simp only [vbiEncAux]
  by_cases h1 : v < 128
  · have e : v / 128 = 0 := by omega
    simp only [e, Nat.lt_irrefl, if_false, gt_iff_lt, List.cons_append, List.nil_append, vbiDecAux, vbiMax, h1, if_true]
    have : v % 128 = v := by omega
    rw [if_neg (by omega), if_pos (by omega)]
    rw [if_pos (by have hx : ∀ x, x = v → vbiSize x = 0 + 1 := (fun x e => by subst e; unfold vbiSize; rw [if_pos h1]); exact hx _ (by omega))]
    congr 1 <;> omega
  · by_cases h2 : v < 16384
    · have e1 : v / 128 > 0 := by omega
      have e2 : v / 128 / 128 = 0 := by omega
      simp only [e1, e2, Nat.lt_irrefl, if_true, if_false, gt_iff_lt, List.cons_append, List.nil_append, vbiDecAux, vbiMax,
        h1, h2]
      rw [if_neg (by omega), if_neg (by omega), if_neg (by omega), if_pos (by omega)]
      rw [if_pos (by have hx : ∀ x, x = v → vbiSize x = 0 + 1 + 1 := (fun x e => by subst e; unfold vbiSize; rw [if_neg h1, if_pos h2]); exact hx _ (by omega))]
      congr 1 <;> omega
    · by_cases h3 : v < 2097152
      · have e1 : v / 128 > 0 := by omega
        have e2 : v / 128 / 128 > 0 := by omega
        have e3 : v / 128 / 128 / 128 = 0 := by omega
        simp only [e1, e2, e3, Nat.lt_irrefl, if_true, if_false, gt_iff_lt, List.cons_append, List.nil_append, vbiDecAux,
          vbiMax, h1, h2, h3]
        rw [if_neg (by omega), if_neg (by omega), if_neg (by omega), if_neg (by omega), if_neg (by omega),
          if_pos (by omega)]
        rw [if_pos (by have hx : ∀ x, x = v → vbiSize x = 0 + 1 + 1 + 1 := (fun x e => by subst e; unfold vbiSize; rw [if_neg h1, if_neg h2, if_pos h3]); exact hx _ (by omega))]
        congr 1 <;> omega
      · have e1 : v / 128 > 0 := by omega
        have e2 : v / 128 / 128 > 0 := by omega
        have e3 : v / 128 / 128 / 128 > 0 := by omega
        have e4 : v / 128 / 128 / 128 / 128 = 0 := by omega
        simp only [e1, e2, e3, e4, Nat.lt_irrefl, if_true, if_false, gt_iff_lt, List.cons_append, List.nil_append,
          vbiDecAux, vbiMax, h1, h2, h3]
        rw [if_neg (by omega), if_neg (by omega), if_neg (by omega), if_neg (by omega), if_neg (by omega),
          if_neg (by omega), if_neg (by omega), if_pos (by omega)]
        rw [if_pos (by have hx : ∀ x, x = v → vbiSize x = 0 + 1 + 1 + 1 + 1 := (fun x e => by subst e; unfold vbiSize; rw [if_neg h1, if_neg h2, if_neg h3]); exact hx _ (by omega))]
        congr 1 <;> omega

/-! ### MqttString / MqttBinary / SubEntry -/

theorem encStr_length (s : List Nat) : (encStr s).length = strSize s := by
  simp [encStr, strSize]; omega

theorem decBin_enc (b rest : List Nat) (hl : b.length ≤ 65535) :
    decBin (encStr b ++ rest) = .ok b (strSize b) := by
  unfold decBin encStr strSize
  simp only [List.cons_append, List.length_cons, List.length_append]
  rw [if_neg (by omega), idx_cons_zero, idx_cons_succ, idx_cons_zero]
  have hn : b.length / 256 * 256 + b.length % 256 = b.length := by omega
  simp only [hn]
  rw [if_neg (by omega)]
  have := slice_append "MqttBinary::decode:data[2..2+len]" [b.length / 256, b.length % 256] b rest 2 (2 + b.length)
    (fun s => PRes.ok s (2 + b.length)) rfl (by simp)
  simpa using this

theorem decStr_enc (s rest : List Nat) (hl : s.length ≤ 65535) (hu : utf8Ok s = true) :
    decStr (encStr s ++ rest) = .ok s (strSize s) := by
  unfold decStr encStr strSize
  simp only [List.cons_append, List.length_cons, List.length_append]
  rw [if_neg (by omega), idx_cons_zero, idx_cons_succ, idx_cons_zero]
  have hn : s.length / 256 * 256 + s.length % 256 = s.length := by omega
  simp only [hn]
  rw [if_neg (by omega)]
  have := slice_append "MqttString::decode:data[2..2+len]" [s.length / 256, s.length % 256] s rest 2 (2 + s.length)
    (fun s' => if utf8Ok s' = true then PRes.ok s' (2 + s.length) else PRes.err Err.MalformedPacket) rfl (by simp)
  exact this.trans (if_pos hu)

theorem strOk_iff (s : List Nat) : strOk s = true ↔ s.length ≤ 65535 ∧ utf8Ok s = true := by
  simp [strOk]

theorem SubEntry.encode_length (e : SubEntry) : e.encode.length = e.size := by
  simp [SubEntry.encode, SubEntry.size, encStr_length]

theorem SubEntry.parse_enc (e : SubEntry) (rest : List Nat) (h : entryOk e = true) :
    SubEntry.parse (e.encode ++ rest) = .ok e e.size := by
  simp only [entryOk, Bool.and_eq_true, strOk_iff, decide_eq_true_eq] at h
  obtain ⟨⟨⟨hl, hu⟩, ho⟩, _⟩ := h
  have hd : e.encode ++ rest = encStr e.topic ++ ([e.opts] ++ rest) := by simp [SubEntry.encode]
  rw [hd]
  unfold SubEntry.parse SubEntry.size
  rw [sliceFrom_zero]
  rw [decStr_enc _ _ hl hu, bind_ok]
  simp only
  rw [if_neg (by simp [strSize, encStr]; omega)]
  have hi : idx "SubEntry::parse:data[cursor]" (encStr e.topic ++ ([e.opts] ++ rest)) (strSize e.topic)
      (fun o => if subOptsOk o = true then PRes.ok ({ topic := e.topic, opts := o } : SubEntry) (strSize e.topic + 1)
                else PRes.err Err.MalformedPacket)
      = (if subOptsOk e.opts = true then PRes.ok ({ topic := e.topic, opts := e.opts } : SubEntry) (strSize e.topic + 1)
         else PRes.err Err.MalformedPacket) := by
    unfold idx
    have : (encStr e.topic ++ ([e.opts] ++ rest))[strSize e.topic]? = some e.opts := by
      rw [List.getElem?_append_right (by simp [encStr_length])]
      simp [encStr_length]
    rw [this]
  rw [hi, if_pos ho]

/-! ### properties -/

theorem parseU8_enc (id v : Nat) (rest : List Nat) (hv : validU8 id v = true) :
    parseU8 id (v :: rest) = .ok (.u8 id v) 1 := by
  unfold parseU8
  rw [if_neg (by simp), idx_cons_zero, if_pos hv]

theorem parseU16_enc (id v : Nat) (rest : List Nat) (hr : v < 65536) (hv : validU16 id v = true) :
    parseU16 id (encU16 v ++ rest) = .ok (.u16 id v) 2 := by
  unfold parseU16 encU16
  simp only [List.cons_append, List.nil_append, List.length_cons]
  rw [if_neg (by omega), idx_cons_zero, idx_cons_succ, idx_cons_zero]
  have : v / 256 * 256 + v % 256 = v := by omega
  simp only [this]
  rw [if_pos hv]

theorem parseU32_enc (id v : Nat) (rest : List Nat) (hr : v < 4294967296) (hv : validU32 id v = true) :
    parseU32 id (encU32 v ++ rest) = .ok (.u32 id v) 4 := by
  unfold parseU32 encU32
  simp only [List.cons_append, List.nil_append, List.length_cons]
  rw [if_neg (by omega), idx_cons_zero, idx_cons_succ, idx_cons_zero, idx_cons_succ, idx_cons_succ, idx_cons_zero,
    idx_cons_succ, idx_cons_succ, idx_cons_succ, idx_cons_zero]
  have : ((v / 16777216 * 256 + v / 65536 % 256) * 256 + v / 256 % 256) * 256 + v % 256 = v := by omega
  simp only [this]
  rw [if_pos hv]

theorem parseVbi_enc (id v : Nat) (rest : List Nat) (hr : v ≤ vbiMax) (hv : validVbi id v = true) :
    parseVbi id (vbiEnc v ++ rest) = .ok (.vbi id v) (vbiSize v) := by
  unfold parseVbi
  rw [vbiDec_enc v rest hr]
  simp only
  rw [if_pos hv]

theorem parsePStr_enc (id : Nat) (s rest : List Nat) (h : strOk s = true) :
    parsePStr id (encStr s ++ rest) = .ok (.str id s) (strSize s) := by
  obtain ⟨hl, hu⟩ := (strOk_iff s).1 h
  unfold parsePStr
  rw [decStr_enc s rest hl hu, bind_ok]

theorem parsePBin_enc (id : Nat) (b rest : List Nat) (h : b.length ≤ 65535) :
    parsePBin id (encStr b ++ rest) = .ok (.bin id b) (strSize b) := by
  unfold parsePBin
  rw [decBin_enc b rest h, bind_ok]

theorem parsePair_enc (id : Nat) (k v rest : List Nat) (hk : strOk k = true) (hv : strOk v = true) :
    parsePair id (encStr k ++ encStr v ++ rest) = .ok (.pair id k v) (strSize k + strSize v) := by
  obtain ⟨hkl, hku⟩ := (strOk_iff k).1 hk
  obtain ⟨hvl, hvu⟩ := (strOk_iff v).1 hv
  unfold parsePair
  rw [List.append_assoc, decStr_enc k _ hkl hku, bind_ok, sliceFrom_append _ _ _ _ _ (encStr_length k).symm,
    decStr_enc v rest hvl hvu, bind_ok]

theorem Property.parse_cons (id : Nat) (tail : List Nat) :
    Property.parse (id :: tail) =
      match propShape id with
      | none => .err .MalformedPacket
      | some sh =>
        (match sh with
          | .u8 => parseU8 id tail
          | .u16 => parseU16 id tail
          | .u32 => parseU32 id tail
          | .vbi => parseVbi id tail
          | .str => parsePStr id tail
          | .bin => parsePBin id tail
          | .pair => parsePair id tail).bind fun p l => .ok p (l + 1) := by
  unfold Property.parse
  rw [if_neg (by simp), idx_cons_zero]
  cases propShape id with
  | none => rfl
  | some sh =>
    simp only
    exact sliceFrom_append _ [id] tail 1 _ rfl

theorem Property.encode_length (p : Property) (h : p.ok = true) : p.encode.length = p.size := by
  cases p with
  | u8 id v => rfl
  | u16 id v => rfl
  | u32 id v => rfl
  | vbi id v =>
    simp only [Property.ok, Bool.and_eq_true, decide_eq_true_eq] at h
    simp [Property.encode, Property.size, vbiEnc_length v h.1.2]; omega
  | str id s => simp [Property.encode, Property.size, encStr_length]; omega
  | bin id b => simp [Property.encode, Property.size, encStr_length]; omega
  | pair id k v => simp [Property.encode, Property.size, encStr_length]; omega

/-- `Property::parse` inverts `to_continuous_buffer` for every property a constructor can produce -/
theorem Property.parse_enc (p : Property) (rest : List Nat) (h : p.ok = true) :
    Property.parse (p.encode ++ rest) = .ok p p.size := by
  cases p with
  | u8 id v =>
    simp only [Property.ok, Bool.and_eq_true, beq_iff_eq] at h
    simp only [Property.encode, List.cons_append, List.nil_append, Property.parse_cons, h.1,
      parseU8_enc id v rest h.2, bind_ok, Property.size]
  | u16 id v =>
    simp only [Property.ok, Bool.and_eq_true, beq_iff_eq, decide_eq_true_eq] at h
    simp only [Property.encode, List.cons_append, Property.parse_cons, h.1.1,
      parseU16_enc id v rest h.1.2 h.2, bind_ok, Property.size]
  | u32 id v =>
    simp only [Property.ok, Bool.and_eq_true, beq_iff_eq, decide_eq_true_eq] at h
    simp only [Property.encode, List.cons_append, Property.parse_cons, h.1.1,
      parseU32_enc id v rest h.1.2 h.2, bind_ok, Property.size]
  | vbi id v =>
    simp only [Property.ok, Bool.and_eq_true, beq_iff_eq, decide_eq_true_eq] at h
    simp only [Property.encode, List.cons_append, Property.parse_cons, h.1.1,
      parseVbi_enc id v rest h.1.2 h.2, bind_ok, Property.size]
    congr 1; omega
  | str id s =>
    simp only [Property.ok, Bool.and_eq_true, beq_iff_eq] at h
    simp only [Property.encode, List.cons_append, Property.parse_cons, h.1,
      parsePStr_enc id s rest h.2, bind_ok, Property.size]
    congr 1; omega
  | bin id b =>
    simp only [Property.ok, Bool.and_eq_true, beq_iff_eq, binOk, decide_eq_true_eq] at h
    simp only [Property.encode, List.cons_append, Property.parse_cons, h.1.1,
      parsePBin_enc id b rest h.1.2, bind_ok, Property.size]
    congr 1; omega
  | pair id k v =>
    simp only [Property.ok, Bool.and_eq_true, beq_iff_eq] at h
    simp only [Property.encode, List.cons_append, Property.parse_cons, h.1.1,
      parsePair_enc id k v rest h.1.2 h.2, bind_ok, Property.size]
    congr 1; omega

/-! ### property lists -/

theorem Props.encode_cons (p : Property) (ps : Props) : Props.encode (p :: ps) = p.encode ++ Props.encode ps := by
  simp [Props.encode]

theorem Props.encode_length (ps : Props) (h : propsOk ps = true) : (Props.encode ps).length = ps.size := by
  induction ps with
  | nil => rfl
  | cons p ps ih =>
    simp only [propsOk, List.all_cons, Bool.and_eq_true] at h
    rw [Props.encode_cons, List.length_append, Props.size_cons, Property.encode_length p h.1]
    have := ih (by simpa [propsOk] using h.2)
    omega

theorem Property.size_pos (p : Property) : 1 ≤ p.size := by
  cases p <;> simp [Property.size] <;> omega

/-- the `while cursor < props_end` loop inverts the concatenated encodings (any length, by
    induction); the fuel never runs out -/
theorem propsLoop_enc (ps : Props) (fuel : Nat) (h : propsOk ps = true) (hf : ps.size ≤ fuel) :
    propsLoop fuel (Props.encode ps) = .ok ps ps.size := by
  induction ps generalizing fuel with
  | nil => cases fuel <;> simp [propsLoop, Props.encode, Props.size]
  | cons p ps ih =>
    simp only [propsOk, List.all_cons, Bool.and_eq_true] at h
    have hps : propsOk ps = true := by simpa [propsOk] using h.2
    have hpos := Property.size_pos p
    rw [Props.size_cons] at hf ⊢
    cases fuel with
    | zero => omega
    | succ fuel =>
      unfold propsLoop
      have hne : (Props.encode (p :: ps)).isEmpty = false := by
        have := Property.encode_length p h.1
        rw [Props.encode_cons]
        cases hpe : p.encode with
        | nil => rw [hpe] at this; simp at this; omega
        | cons a l => simp
      rw [hne]
      simp only [Bool.false_eq_true, if_false]
      have hp := Property.parse_enc p (Props.encode ps) h.1
      rw [Props.encode_cons, hp, bind_ok]
      have hd : List.drop p.size (p.encode ++ Props.encode ps) = Props.encode ps := by
        rw [← Property.encode_length p h.1]; simp
      rw [hd, ih fuel hps (by omega), bind_ok]

/-- `Properties::parse` inverts `property_length ++ properties` -/
theorem Props.parse_enc (ps : Props) (rest : List Nat) (h : propsOk ps = true) (hs : ps.size ≤ vbiMax) :
    Props.parse (vbiEnc ps.size ++ Props.encode ps ++ rest) = .ok ps (vbiSize ps.size + ps.size) := by
  unfold Props.parse
  have hne : (vbiEnc ps.size ++ Props.encode ps ++ rest).isEmpty = false := by
    have hlen := vbiEnc_length ps.size hs
    have hpos := vbiSize_pos ps.size
    cases hv : vbiEnc ps.size with
    | nil => rw [hv] at hlen; simp at hlen; omega
    | cons a l => simp
  rw [hne]
  simp only [Bool.false_eq_true, if_false]
  rw [List.append_assoc, vbiDec_enc _ _ hs]
  simp only
  by_cases h0 : ps.size = 0
  · rw [if_pos h0]
    have : ps = [] := by
      cases ps with
      | nil => rfl
      | cons p ps => rw [Props.size_cons] at h0; have := Property.size_pos p; omega
    subst this
    simp [Props.size]
  · rw [if_neg h0]
    have hel := Props.encode_length ps h
    have hvl := vbiEnc_length ps.size hs
    rw [if_neg (by simp [hel, hvl])]
    rw [slice_append _ _ _ _ _ _ _ hvl.symm (by rw [hvl, hel])]
    rw [hel, propsLoop_enc ps ps.size h (Nat.le_refl _), bind_ok]

/-! ### entry / topic lists -/

theorem entriesEncode_cons (e : SubEntry) (es : List SubEntry) :
    entriesEncode (e :: es) = e.encode ++ entriesEncode es := by simp [entriesEncode]
theorem topicsEncode_cons (t : List Nat) (ts : List (List Nat)) :
    topicsEncode (t :: ts) = encStr t ++ topicsEncode ts := by simp [topicsEncode]

theorem entriesEncode_length (es : List SubEntry) : (entriesEncode es).length = entriesSize es := by
  induction es with
  | nil => rfl
  | cons e es ih => rw [entriesEncode_cons, entriesSize_cons, List.length_append, SubEntry.encode_length, ih]

theorem topicsEncode_length (ts : List (List Nat)) : (topicsEncode ts).length = topicsSize ts := by
  induction ts with
  | nil => rfl
  | cons t ts ih => rw [topicsEncode_cons, topicsSize_cons, List.length_append, encStr_length, ih]

theorem entriesLoop_enc (es : List SubEntry) (fuel : Nat) (h : es.all entryOk = true) (hf : entriesSize es ≤ fuel) :
    entriesLoop fuel (entriesEncode es) = .ok es (entriesSize es) := by
  induction es generalizing fuel with
  | nil => cases fuel <;> simp [entriesLoop, entriesEncode, entriesSize]
  | cons e es ih =>
    simp only [List.all_cons, Bool.and_eq_true] at h
    rw [entriesSize_cons] at hf ⊢
    have hpos : 3 ≤ e.size := by unfold SubEntry.size strSize; omega
    cases fuel with
    | zero => omega
    | succ fuel =>
      unfold entriesLoop
      have hne : (entriesEncode (e :: es)).isEmpty = false := by
        rw [entriesEncode_cons]; simp [SubEntry.encode, encStr]
      rw [hne]
      simp only [Bool.false_eq_true, if_false]
      rw [entriesEncode_cons, SubEntry.parse_enc e _ h.1, bind_ok]
      have hd : List.drop e.size (e.encode ++ entriesEncode es) = entriesEncode es := by
        rw [← SubEntry.encode_length e]; simp
      rw [hd, ih fuel h.2 (by omega), bind_ok]

theorem topicsLoop_enc (ts : List (List Nat)) (fuel : Nat) (h : ts.all strOk = true) (hf : topicsSize ts ≤ fuel) :
    topicsLoop fuel (topicsEncode ts) = .ok ts (topicsSize ts) := by
  induction ts generalizing fuel with
  | nil => cases fuel <;> simp [topicsLoop, topicsEncode, topicsSize]
  | cons t ts ih =>
    simp only [List.all_cons, Bool.and_eq_true] at h
    obtain ⟨hl, hu⟩ := (strOk_iff t).1 h.1
    rw [topicsSize_cons] at hf ⊢
    have hpos : 2 ≤ strSize t := by simp [strSize]
    cases fuel with
    | zero => omega
    | succ fuel =>
      unfold topicsLoop
      have hne : (topicsEncode (t :: ts)).isEmpty = false := by
        rw [topicsEncode_cons]; simp [encStr]
      rw [hne]
      simp only [Bool.false_eq_true, if_false]
      rw [topicsEncode_cons, decStr_enc t _ hl hu, bind_ok]
      have hd : List.drop (strSize t) (encStr t ++ topicsEncode ts) = topicsEncode ts := by
        rw [← encStr_length t]; simp
      rw [hd, ih fuel h.2 (by omega), bind_ok]

end MqttVerif.Codec
