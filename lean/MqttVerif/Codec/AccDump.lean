import MqttVerif.Codec.Abs
/-!
# accessor dump of the MODEL's packet (C03, "…whose accessors return the same values")

The harness prints, for every packet the real parser accepts, the value of every public accessor
(`acc=<dump>`, format in `harness/src/codec.rs`).  `accDump` produces the same token from the
packet the model parser made of the same bytes — through `Packet.abs`, i.e. from the *abstract*
field values of `Spec/WireSpec.lean` (`APkt`), the ones `C03_parse_spec_encoding` /
`C03_encode_eq_spec` speak about: the specification's encoding of `abs p` is the byte string,
and parsing it gives back a packet with the same `abs`.  So a difference between the two dumps
is a field the implementation's accessor reads differently from the specification.

Only new functions; imported by the trace driver only (no theorem depends on this file).

    <dump>  ::= <key>:<value>{,<key>:<value>} | -
    numbers decimal, flags 0/1, absent optional `-`,
    <bytes> ::= `_` (empty) | hex (≤ 64 bytes) | L<len>#<FNV-1a 32, 8 hex digits>
    <props> ::= [<id>:<number | bytes | bytes/bytes>{;…}]
-/
namespace MqttVerif.Codec
open MqttVerif.Spec.Wire (APkt AProp PVal AWill CPType)

namespace Acc

def hexDigit (n : Nat) : Char :=
  if n < 10 then Char.ofNat (n + '0'.toNat) else Char.ofNat (n - 10 + 'a'.toNat)

def hexOf (bs : List Nat) : String :=
  String.ofList (bs.foldr (fun b acc => hexDigit (b / 16 % 16) :: hexDigit (b % 16) :: acc) [])

/-- FNV-1a, 32 bit -/
def fnv1a32 (bs : List Nat) : Nat :=
  (bs.foldl (fun (h : UInt32) b => (h ^^^ UInt32.ofNat b) * 16777619) 2166136261).toNat

/-- 8 hex digits -/
def hex8 (n : Nat) : String :=
  hexOf [n / 16777216 % 256, n / 65536 % 256, n / 256 % 256, n % 256]

/-- a byte-string value -/
def bytes (bs : List Nat) : String :=
  if bs.isEmpty then "_"
  else if bs.length ≤ 64 then hexOf bs
  else s!"L{bs.length}#{hex8 (fnv1a32 bs)}"

def flag (b : Bool) : String := if b then "1" else "0"

def opt {α : Type} (f : α → String) : Option α → String
  | some a => f a
  | none => "-"

def list (xs : List String) : String := "[" ++ ";".intercalate xs ++ "]"

def prop (p : AProp) : String :=
  toString p.id ++ ":" ++
    match p.val with
    | .num n => toString n
    | .bytes b => bytes b
    | .pair k v => bytes k ++ "/" ++ bytes v

def props (ps : List AProp) : String := list (ps.map prop)

/-- the `props` key exists in v5.0 dumps only -/
def propsField (v5 : Bool) (ps : Option (List AProp)) : List (String × String) :=
  if v5 then [("props", opt props ps)] else []

def nums (xs : List Nat) : String := list (xs.map toString)

/-- key / value pairs in the order of the harness' dump -/
def fields (v5 : Bool) : APkt → List (String × String)
  | .connect level cs ka ps cid will user pass =>
    [("pn", bytes [77, 81, 84, 84]), ("pv", toString level), ("cs", flag cs)]
      ++ (if v5 then [] else [("cst", flag cs)])
      ++ [("wf", flag will.isSome),
          ("wq", toString ((will.map (·.qos)).getD 0)),
          ("wr", flag ((will.map (·.retain)).getD false)),
          ("uf", flag user.isSome), ("pf", flag pass.isSome), ("ka", toString ka)]
      ++ propsField v5 ps
      ++ [("cid", bytes cid)]
      ++ (if v5 then [("wprops", props ((will.bind (·.props)).getD []))] else [])
      ++ [("wt", opt bytes (will.map (·.topic))), ("wp", opt bytes (will.map (·.payload))),
          ("user", opt bytes user), ("pass", opt bytes pass)]
  | .connack sp code ps => [("sp", flag sp), ("rc", toString code)] ++ propsField v5 ps
  | .publish dup qos retain topic pid ps payload =>
    [("dup", flag dup), ("qos", toString qos), ("ret", flag retain), ("topic", bytes topic),
     ("pid", opt toString pid)] ++ propsField v5 ps ++ [("payload", bytes payload)]
  | .ack _ pid code ps => [("pid", toString pid), ("rc", opt toString code)] ++ propsField v5 ps
  | .subscribe pid ps filters =>
    [("pid", toString pid)] ++ propsField v5 ps
      ++ [("entries", list (filters.map fun f => bytes f.1 ++ "/" ++ toString f.2))]
  | .suback pid ps codes => [("pid", toString pid)] ++ propsField v5 ps ++ [("codes", nums codes)]
  | .unsubscribe pid ps filters =>
    [("pid", toString pid)] ++ propsField v5 ps ++ [("topics", list (filters.map bytes))]
  | .unsuback pid ps codes =>
    [("pid", toString pid)] ++ (if v5 then propsField v5 ps ++ [("codes", nums codes)] else [])
  | .pingreq => [] | .pingresp => []
  | .disconnect code ps => if v5 then [("rc", opt toString code), ("props", opt props ps)] else []
  | .auth code ps => [("rc", opt toString code), ("props", opt props ps)]

def render (fs : List (String × String)) : String :=
  if fs.isEmpty then "-" else ",".intercalate (fs.map fun kv => kv.1 ++ ":" ++ kv.2)

/-- split a dump token back into key / value pairs (values never contain `,`; keys never `:`) -/
def unrender (s : String) : List (String × String) :=
  if s = "-" then [] else
  (s.splitOn ",").map fun kv =>
    match kv.splitOn ":" with
    | k :: rest => (k, ":".intercalate rest)
    | [] => (kv, "")

/-- first key on which two dumps differ: `(key, model value, implementation value)` -/
def firstDiff : List (String × String) → List (String × String) → Option (String × String × String)
  | [], [] => none
  | (k, v) :: _, [] => some (k, v, "<missing>")
  | [], (k, v) :: _ => some (k, "<missing>", v)
  | (k, v) :: ms, (k', v') :: is =>
    if k ≠ k' then some (k, v, s!"<key {k'}>")
    else if v ≠ v' then some (k, v, v')
    else firstDiff ms is

end Acc

/-- the field values of the model's packet as key / value pairs (via `Packet.abs`) -/
def accFields (_pw : Nat) (p : Packet) : List (String × String) :=
  Acc.fields (p.version == 5) (Packet.abs p)

/-- the accessor dump of the model's packet: exactly the token the harness prints after `acc=`
    (the packet-id width does not enter: ids are printed as numbers) -/
def accDump (pw : Nat) (p : Packet) : String := Acc.render (accFields pw p)

end MqttVerif.Codec
