import MqttVerif.Codec.Packet
import MqttVerif.Conn.Types
/-!
# L1 ↔ L2: the interface view of a codec packet

`view pw p : Conn.Pkt` computes, from the L1 packet, exactly the fields the harness prints from
the REAL packet's accessors (`descr` in `harness/src/conn.rs`): kind, version, `size()`, packet
id, QoS / DUP / RETAIN, topic bytes, Topic Alias, reason / return code byte, keep alive, clean
start, session present, the five connection-relevant properties (17, 19, 33, 34, 39) in packet
order, the byte length of the other PUBLISH properties, payload length, and an FNV-1a-32
fingerprint of the payload and the non-alias properties.  `topic_name_extracted` is `false`
for every parsed packet.  The connection driver checks `view (parse frame)` against the
harness's descriptor for every received frame and every sent packet, which makes the L2
model's parse oracle a checked function of L1.
-/
namespace MqttVerif.Codec
open MqttVerif.Conn (Pkt Kind)

/-- FNV-1a, 32 bit: `h ^= b; h = h.wrapping_mul(16777619)` -/
def fnvStep (h b : Nat) : Nat := ((h ^^^ b) * 16777619) % 4294967296
def fnv (h : Nat) (bs : List Nat) : Nat := bs.foldl fnvStep h
def fnvInit : Nat := 2166136261

/-- `conn_props`: Session Expiry Interval, Server Keep Alive, Receive Maximum, Topic Alias
    Maximum, Maximum Packet Size — `(id, value)` in packet order -/
def connProp? : Property → Option (Nat × Nat)
  | .u32 id v => if id = 17 ∨ id = 39 then some (id, v) else none
  | .u16 id v => if id = 19 ∨ id = 33 ∨ id = 34 then some (id, v) else none
  | _ => none

def connProps (ps : Props) : List (Nat × Nat) := ps.filterMap connProp?

def isAlias : Property → Bool
  | .u16 35 _ => true
  | _ => false

/-- the Topic Alias property (the last one, as the accessor loop leaves it) -/
def aliasOf (ps : Props) : Option Nat :=
  ps.foldl (fun acc p => match p with | .u16 35 v => some v | _ => acc) none

def otherProps (ps : Props) : Props := ps.filter (fun p => !isAlias p)

/-- MqttError discriminant (`as u16`) -/
def Err.code : Err → Nat
  | .MalformedPacket => 0x81 | .ProtocolError => 0x82 | .UnsupportedProtocolVersion => 0x84
  | .ClientIdentifierNotValid => 0x85 | .BadUserNameOrPassword => 0x86 | .TopicNameInvalid => 0x90
  | .InsufficientBytes => 0x187 | .ValueOutOfRange => 0x18C

def cleanFlag (flags : Nat) : Bool := flags / 2 % 2 == 1

def viewPublish (ver : Nat) (size fh : Nat) (topic : List Nat) (pid : Option Nat) (props : Props) (payload : List Nat) : Pkt :=
  { ver := ver, kind := .publish, size := size, pid := pid, qos := fh / 2 % 4, dup := fh / 8 % 2 == 1,
    retain := fh % 2 == 1, topic := topic, alias := aliasOf props, otherLen := Props.size (otherProps props),
    payloadLen := payload.length,
    tag := (otherProps props).foldl (fun h p => fnv h p.encode) (fnv fnvInit payload) }

def view (p : Packet) : Pkt :=
  match p with
  | .connect3 q => { ver := 4, kind := .connect, size := q.size, keepAlive := q.keepAlive, clean := cleanFlag q.flags }
  | .connect5 q => { ver := 5, kind := .connect, size := q.size, keepAlive := q.keepAlive, clean := cleanFlag q.flags,
                     props := connProps q.props }
  | .connack3 q => { ver := 4, kind := .connack, size := q.size, sp := q.flags % 2 == 1, rc := some q.rc }
  | .connack5 q => { ver := 5, kind := .connack, size := q.size, sp := q.flags % 2 == 1, rc := some q.rc,
                     props := connProps q.props }
  | .publish3 q => viewPublish 4 q.size q.fh q.topic q.pid [] q.payload
  | .publish5 q => viewPublish 5 q.size q.fh q.topic q.pid q.props q.payload
  | .puback3 q => { ver := 4, kind := .puback, size := q.size, pid := some q.pid, rc := q.rc }
  | .pubrec3 q => { ver := 4, kind := .pubrec, size := q.size, pid := some q.pid, rc := q.rc }
  | .pubrel3 q => { ver := 4, kind := .pubrel, size := q.size, pid := some q.pid, rc := q.rc }
  | .pubcomp3 q => { ver := 4, kind := .pubcomp, size := q.size, pid := some q.pid, rc := q.rc }
  | .puback5 q => { ver := 5, kind := .puback, size := q.size, pid := some q.pid, rc := q.rc }
  | .pubrec5 q => { ver := 5, kind := .pubrec, size := q.size, pid := some q.pid, rc := q.rc }
  | .pubrel5 q => { ver := 5, kind := .pubrel, size := q.size, pid := some q.pid, rc := q.rc }
  | .pubcomp5 q => { ver := 5, kind := .pubcomp, size := q.size, pid := some q.pid, rc := q.rc }
  | .subscribe3 q => { ver := 4, kind := .subscribe, size := q.size, pid := some q.pid }
  | .subscribe5 q => { ver := 5, kind := .subscribe, size := q.size, pid := some q.pid }
  | .suback3 q => { ver := 4, kind := .suback, size := q.size, pid := some q.pid }
  | .suback5 q => { ver := 5, kind := .suback, size := q.size, pid := some q.pid }
  | .unsubscribe3 q => { ver := 4, kind := .unsubscribe, size := q.size, pid := some q.pid }
  | .unsubscribe5 q => { ver := 5, kind := .unsubscribe, size := q.size, pid := some q.pid }
  | .unsuback3 q => { ver := 4, kind := .unsuback, size := q.size, pid := some q.pid }
  | .unsuback5 q => { ver := 5, kind := .unsuback, size := q.size, pid := some q.pid }
  | .pingreq3 q => { ver := 4, kind := .pingreq, size := q.size }
  | .pingreq5 q => { ver := 5, kind := .pingreq, size := q.size }
  | .pingresp3 q => { ver := 4, kind := .pingresp, size := q.size }
  | .pingresp5 q => { ver := 5, kind := .pingresp, size := q.size }
  | .disconnect3 q => { ver := 4, kind := .disconnect, size := q.size }
  | .disconnect5 q => { ver := 5, kind := .disconnect, size := q.size, rc := q.rc }
  | .auth5 q => { ver := 5, kind := .auth, size := q.size, rc := q.rc }

/-- what the connection layer's frame oracle answers for `(version, fh, body)`:
    the view of the parsed packet, or the MqttError discriminant (`MalformedPacket` when there
    is no parser for the type) -/
def parseView (version pw fh : Nat) (body : List Nat) : Except Nat Pkt :=
  match Packet.parse version pw fh body with
  | some (.ok p _) => .ok (view p)
  | some (.err e) => .error e.code
  | some (.panic _) => .error 0
  | none => .error 0x81

end MqttVerif.Codec
